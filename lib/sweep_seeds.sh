#!/bin/bash
# sweep_seeds.sh [VERIF_SEED] — regression over every seeded change: apply it to /repo, run the checks its
# meta.json names as catching it (for harmless-* all 19 checks, which must stay silent), undo it.
# Prints one line per (seed, check):  <seed> <check> expected=<caught|silent> got=<caught|silent> OK|REGRESSION
cd /verif || exit 2
[ -n "$1" ] && export VERIF_SEED=$1
for d in seeded/*/; do
  s=$(basename $d)
  [ -f $d/meta.json ] || continue
  if [[ $s == harmless-* ]]; then
    ids=$(seq -f "C%02g" 1 19); expect=silent
  else
    ids=$(python3 -c "import json,sys; m=json.load(open('$d/meta.json')); print(' '.join(r['check'] for r in m['results'] if r['caught']))"); expect=caught
  fi
  out=$(lib/seedtest.sh /verif/$d/patch.diff $ids 2>&1 | grep -E "^C[0-9]+ rc=")
  while read -r line; do
    id=${line%% *}; rc=$(echo "$line" | sed 's/.*rc=\([0-9]*\).*/\1/')
    if [ "$rc" = "1" ]; then got=caught; elif [ "$rc" = "0" ]; then got=silent; else got="rc$rc"; fi
    if [ "$got" = "$expect" ]; then v=OK; else v=REGRESSION; fi
    echo "$s $id expected=$expect got=$got $v"
  done <<< "$out"
done
