#!/usr/bin/env python3
"""Prints the markdown table of seeded changes (seeded/*/meta.json) for DESIGN.md section 11."""
import json, glob, os
rows = []
for d in sorted(glob.glob(os.path.join(os.path.dirname(os.path.dirname(os.path.abspath(__file__))), "seeded", "*"))):
    mp = os.path.join(d, "meta.json")
    if not os.path.exists(mp):
        continue
    m = json.load(open(mp))
    if not isinstance(m.get("results"), list):
        continue  # the harmless rewrites: described in the text of DESIGN.md, not in this table
    res = "; ".join("%s %s%s" % (r["check"], "caught" if r["caught"] else "not caught (property unaffected or out of scope of that check)",
                                 (" [" + r["clause"] + "]") if r.get("clause") else "") for r in m["results"])
    note = ""
    if m.get("first_run") == "NOT CAUGHT":
        res = res.replace("not caught (property unaffected or out of scope of that check)", "NOT CAUGHT")
        note = " -- " + m["strengthening"]
    elif m.get("first_run"):
        note = " FIRST RUN MISSED -> " + m["strengthening"]
    need = m["needs_to_manifest"].replace("|", "/").replace("\n", " ")
    rows.append("| %s | %s | %s%s |" % (m["seed"], need[:260], res, note))
print("| seed | needs, in order to manifest | checks run against it |")
print("|---|---|---|")
print("\n".join(rows))
