#!/bin/bash
# verify_seed.sh <ID> — confirm a seeded change in its scratch worktree /tmp/mut_<ID>:
#  with the change: baseline suite (54) and feature suite (63) pass, demo fails; without: demo passes.
id=$1; wt=${2:-/tmp/mut_$id}
cd $wt || exit 2
export CARGO_NET_OFFLINE=true
[ -f patch.diff ] || { echo "no patch.diff"; exit 2; }
git checkout -q -- src; git apply patch.diff || { echo "patch does not apply"; exit 2; }
mkdir -p /tmp/demo_aside; mv tests/demo_$id.rs /tmp/demo_aside/ 2>/dev/null
b=$(timeout 1500 cargo test --workspace --no-fail-fast --offline 2>&1 | grep -E "^test result" | head -1)
f=$(timeout 1500 cargo test --offline --features fibex,statistics,stream 2>&1 | grep -E "^test result" | head -1)
mv /tmp/demo_aside/demo_$id.rs tests/
d1=$(timeout 1500 cargo test --offline --features fibex,statistics,stream --test demo_$id 2>&1 | grep -E "^test result" | head -1)
git checkout -q -- src
d0=$(timeout 1500 cargo test --offline --features fibex,statistics,stream --test demo_$id 2>&1 | grep -E "^test result" | head -1)
git apply patch.diff
echo "$id | baseline+change: $b | features+change: $f | demo+change: $d1 | demo original: $d0"
