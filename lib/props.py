"""Per-property configuration of ./check (what is generated, what counts as non-trivial, what is trusted)."""

TRUSTED_BASE_COMMON = [
    "Coq 8.16.1 kernel (coqc, full .vo builds; vm_compute used, native_compute not); coqchk re-check in the thorough tier",
    "no axioms: every property theorem is 'Closed under the global context' (Print Assumptions audited on every run)",
    "hand-written Gallina model of dlt-core (coq/Model/*.v) — tied to /repo by the differential correspondence run of this check, on the inputs listed in this file only",
    "Coq extraction to OCaml with ExtrOcamlBasic only (no Extract Constant/Inductive of our own), ocamlopt 4.13.1, ocaml/driver.ml (line I/O); cross-checked per run by vm_compute inside Coq on a sample of the same cases",
    "Rust harness (generators, wire printers, oracles), rustc/cargo as installed, harness built with debug-assertions and overflow-checks",
]

PROPS = {
    "C17": {
        "rule": "boundary values of both constructors (0, unit-1, unit, unit+1, 4294..4296, (2^32-1)*unit+unit-1, first value past the guard, powers of two) plus seeded random u64 in four strata (full range, inside the guard, small, seconds*unit+sub).",
        "assumptions": ["u64 arithmetic modelled as N with explicit `as u32` wrap and checked u32 multiplication"],
    },
}
