"""Per-property configuration of ./check (what is generated, what counts as non-trivial, what is trusted)."""

TRUSTED_BASE_COMMON = [
    "Coq 8.16.1 kernel (coqc, full .vo builds; vm_compute used, native_compute not); coqchk re-check in the thorough tier",
    "no axioms: every property theorem is 'Closed under the global context' (Print Assumptions audited on every run)",
    "hand-written Gallina model of dlt-core (coq/Model/*.v) — tied to /repo by the differential correspondence run of this check, on the inputs listed in this file only",
    "Coq extraction to OCaml with ExtrOcamlBasic only (no Extract Constant/Inductive of our own), ocamlopt 4.13.1, ocaml/driver.ml (line I/O); cross-checked per run by vm_compute inside Coq on a sample of the same cases",
    "Rust harness (generators, wire printers, oracles), rustc/cargo as installed; built twice: with debug-assertions and overflow-checks (the results compared with the model) and as a release build without them (its results must equal the checked build's wherever that did not panic); a third build with the crate's debug and serialization features (results must be equal); every case additionally re-run on a fresh thread (results must agree); a Trace-level warm-up call per process; the harness's logger re-enters the crate",
    "the source dictionary (harness/src/dict.rs) reads the literals of $DLTV_REPO_SRC with a small hand-written scanner; it only steers which inputs are generated",
]

PROPS = {
    "C17": {
        "rule": "boundary values of both constructors (0, unit-1, unit, unit+1, 4294..4296, (2^32-1)*unit+unit-1, first value past the guard, powers of two) plus seeded random u64 in four strata (full range, inside the guard, small, seconds*unit+sub). Plus every input whose quotient by 1000 / 10^6 / 10^9 sits on a power of two (and its neighbours), and multiples of 2^32 with the second they fall into.",
        "assumptions": ["u64 arithmetic modelled as N with explicit `as u32` wrap and checked u32 multiplication"],
    },
    "C01": {
        "rule": "op 20: seeded well-formed messages (every payload kind incl. network trace, both byte orders, all optional header fields, 0-255 arguments of every kind/width/VARI/TRAI/coding, multi-byte UTF-8, float specials, boundary totals 65534/65535) x suffixes (empty, 1 byte, pattern, another message, 0xff run, random).",
    },
    "C02": {
        "spec_ops": ["60", "61"],
        "rule": "op 61: well-formed messages of every payload kind, both byte orders, all optional header fields -> Message::as_bytes against Spec.Layout.spec_encode; op 60: dlt_message's verdict (message + consumed length / incomplete / reject) against Spec.Layout.spec_decode on canonical bytes with suffixes, every or one truncation of them (some in the wrong storage mode), dialect encodings (unused type-info bits, bool with any TYLE, NUL-padded / invalid-UTF-8 ids, interior NULs, size-0 strings, reserved SCOD, unknown MSTP/MTIN), malformed / mutated / length-corrupted / random inputs, junk and partial markers in front of storage headers, junk followed by every cut of small messages, and - small scope, exhaustively - EVERY byte string up to length 5 (quick) / 7 (thorough) over the alphabet {00,01,04,08,0e,20,21,41}. On the model side these two ops run the EXTRACTED REFERENCE CODEC, not the nom-style model: a disagreement is a violation of the property itself.",
        "assumptions": ["Spec/Layout.v is the independent description of the AUTOSAR DLT layout (own bit-field code via testbit/div/mod, total non-streaming readers, cut-then-decode); it is proved equal to the model of the crate for all inputs (c02_encode, c02_decode) and run against the crate here"],
    },
    "C03": {
        "rule": "op 21 (parse + use of the result), ops 10/11/12/3 on hostile inputs: mutated/truncated/length-corrupted/NOAR-corrupted well-formed messages, hand-made dialect and malformed encodings, random bytes, junk prefixes, inputs > 64 KiB with a 0xffff-sized string/raw argument; storage mode both ways; a third with a filter. Plus op 13 (construct_arguments): exact payloads, every truncation, trailing bytes, field sizes 255..65535. All under a trace-level null logger.",
    },
    "C04": {
        "rule": "ops 8/10/25 on hostile and dialect inputs concentrated on messages whose argument encoding is shorter/longer than the declared payload, NOAR too small/large, trailing garbage; half of them with a filter.",
    },
    "C05": {
        "rule": "op 23: every cut position 0..len-1 of seeded well-formed messages (all payload kinds, both storage modes), a third with a filter; the skipper on every cut of storage-header messages. Plus op 31: messages whose length field is 65519, 65520, 65521, 65534, 65535, 32768, 256 at ~24 selected cut positions each (around the storage/standard/extended header ends, middle, last bytes, random).",
    },
    "C06": {
        "extra_property_files": ["C06b"],
        "rule": "op 12 on pattern-dense strings over {D,L,T,01,00}; op 24 junk ++ message ++ rest with junk tails that are partial patterns/near misses; op 29 streams of 1-5 messages separated by junk. Plus pattern-free junk of 65547, 65548, 65551, 65552, 70000, 131072, 140001 bytes with near misses at its end (ops 12 and 24).",
    },
    "C07": {
        "extra_property_files": ["C07b"],
        "rule": "op 43: streams longer than the 10 MiB BufReader (160+ maximum-length records, a first record sweeping their alignment against the refill mark; model side through big_spec_run, theorem c07b_big_stream2); op 40: streams of 0-5 well-formed messages (all payload kinds, both storage modes), intact or truncated (anywhere / at header, length-field and body boundaries), with hostile length fields (0..3, larger than what is left, off by a little), byte flips, random and tiny streams, hostile slice-parser inputs; x read() schedules (whole reads, one byte at a time, random short reads with Interrupted, stops exactly on header/length/body boundaries, runs of 0-3 interruptions before every delivery, a single interruption at every position; thorough: every 2-way partition of short streams) x reader construction (::new with the crate's default capacities, with_capacity 65551 / 70000); a quarter with a filter. The implementation's source implements std::io::Read from (stream, schedule).",
        "assumptions": ["std::io::BufReader / Read::read_exact modelled from the standard-library source (bufreader.rs, io/mod.rs default_read_exact); what std and the OS really do is exercised by this run, not proved",
                        "DltMessageReader::with_capacity with buffer_capacity < message_max_len trips the crate's own debug_assert and is outside the claim"],
    },
    "C08": {
        "extra_property_files": ["C08b"],
        "rule": "op 43 (async): the same long streams as C07; op 41: the same streams as C07 x poll schedules (Pending runs of length 0-3 before every Ready, Ready(k) fragments of every size incl. 1 byte) through futures::executor::block_on and an AsyncRead that wakes itself before returning Pending; the oracle compares with the blocking reader of the implementation on the same bytes (messages equal, terminal outcome of the same class).",
        "assumptions": ["futures-util 0.3 BufReader::poll_read / ReadExact modelled from source; wakers, executors and cancellation are not in the model",
                        "Interrupted is not retried by futures' read_exact; the property does not quantify over it for the async reader and neither does the theorem"],
    },
    "C09": {
        "extra_property_files": ["C09b"],
        "rule": "op 26: well-formed messages (a third forced to log messages incl. invalid levels) x filter configurations (each criterion absent/present, sets containing/not containing the message's ids, duplicated ids, counts around the set sizes, all level numbers); op 27 both conversions incl. all 256 level numbers. ids include trim-/case-sensitive ones (trailing/leading blank, tab, NBSP, NEL, case twins) and the filter sets contain near misses (trimmed, padded, case-changed) of the message's ids; op 30: hand-built processed configurations whose minimum level is any level incl. Invalid(_).",
    },
    "C11": {
        "extra_property_files": ["C11b"],
        "rule": "ops 50/51: abstract FIBEX models over the full S_*/A_* vocabulary (0-4 frames, PDUs, signals, codings; sequence numbers incl. 0, 2^32, 2^64-1 and ties; duplicated frame/PDU/signal/coding ids; unknown signal references; dangling PDU references; optional application/context ids) laid out in a permuted element order over 1-3 files, rendered to XML either exactly in the canonical event shape of Spec/FibexSpec.v (style 0) or as a tool-written document (declaration, root, group wrappers, indentation, an ECU block with its own MANUFACTURER-EXTENSION; style 1); the real gather_fibex_data / extract_metadata run on the files, the model on the quick-xml event dump of the same files; lookups with and without extended-header ids.",
        "assumptions": ["quick-xml 0.29 is the tokenizer and is not modelled: the model starts at the event list the same quick-xml yields for the same text (re-derived and compared on every case)",
                        "for style-0 files the model checks that the event list IS Spec.files_of(layout) (the hypothesis shape of c11_load); style-1 documents are outside the canonical shape and are covered by the correspondence and the oracle only",
                        "HashMap iteration order abstracted (maps compared sorted by key)"],
    },
    "C12": {
        "rule": "op 50: empty path list, missing file, empty file; every truncation offset of small generated documents (both styles); the crate's sample tests/dlt-messages.xml cut at a stratified set of offsets; generated multi-file document sets with one file mutated (truncation, line deletion, attribute deletion, byte corruption with markup characters / NUL / 0xff, chunk duplication and deletion) or missing. Each load runs in its own thread with a 4 s limit; outcome in {model, refused, panic, timeout} compared with the model's {Loaded, Refused, LoadPanic, OutOfFuel} on the dumped events.",
        "assumptions": ["'promptly' is wall-clock: the theorem gives a fuel bound linear in the number of XML events; the run checks a 4 s limit per load",
                        "termination and panic-freedom inside quick-xml for corrupted bytes are exercised, not proved; file-system faults beyond 'missing' and 'empty' are not modelled"],
    },
    "C18": {
        "rule": "op 42: fixed-point kinds (signed/unsigned x 32/64) x every value variant (all integer widths incl. boundary values, 2^53+1, 2^53+3, u64::MAX, i64::MIN; U128, floats, bool) x 24 special quantizations (0, -0, +-1, 0.5, 0.1, 0.01, 1.5, least subnormal, largest subnormal, least normal, f32 max/min, +-inf, quiet/signalling NaN, 2^24, 2^64, 2^-32, ...) and random f32 bit patterns x offsets (0, +-1, +-200, i32/i64 min/max, +-2^53, +-2^62, random); one case in four is not applicable (no fixed-point data, another kind, non-integer value, any well-formed argument).",
        "assumptions": ["IEEE-754 binary64 multiplication and Rust's int->f64 / f32->f64 / f64->u64 casts are modelled with the standard library's SpecFloat (SFmul 53 1024, binary_normalize); the model is thereby checked against rustc's arithmetic on every case"],
    },
    "C13": {
        "extra_property_files": ["C13b"],
        "rule": "op 13: type lists of 255, 256, 257, 4096 (u8/bool) and 32767, 32768, 65535, 65536, 65537 (thorough: 70000) bool signals with exact and one-byte-short payloads; op 13: lists of 0-5 signal types x exact payloads, every truncation (a quarter of the cases) or one random truncation, trailing bytes, strings with invalid UTF-8 / NUL, both byte orders; a tenth include fixed-point signal types. One case in 97 uses field sizes 255, 256, 32767, 32768, 32769, 40000, 65535.",
    },
    "C15": {
        "rule": "op 14: well-formed arguments of every kind (some with blobs up to 65000 bytes) x byte order; op 15: configurations of every payload kind, with and without extended header, optional add_storage_header. One argument in six is OUTSIDE the well-formed domain (value of another kind, name/unit presence against the variable-info flag, another kind) to drive Argument::valid and the writer's fallback arms.",
    },
    "C16": {
        "rule": "op 28: dialect (unused type-info bits, bool with any TYLE, NUL-padded/invalid-UTF-8 ids, interior NULs, size-0 strings, reserved SCOD, unknown MSTP/MTIN) and mutated inputs; the chain parse -> serialise -> parse -> serialise is compared token for token.",
    },
    "C19": {
        "extra_property_files": ["C19b"],
        "rule": "op 3: all strings of length <= 3 (quick) / <= 4 (thorough) over the 25-byte boundary alphabet x sizes 0..6, random strings up to 70000 bytes x sizes incl. 0 and 65535; op 8 on messages whose ids are arbitrary bytes. Parsed messages are additionally checked by the id oracle (ECU / application / context / storage ids = the field rule on their 4 bytes).",
    },
    "C14": {
        "special": "ti_sweep",
        "exhaustive_thorough": True,
        "rule": "op 7 on all 256 MSIN bytes; op 8 on complete messages for all 256 HTYP bytes (two variants each); op 4 on boundary and seeded type-info words; plus the ti-sweep: the model's table of the 2^18 low words (reduction proved as c14_ti_low) against TypeInfo::try_from/as_bytes on 2^18 x 64 high-bit patterns (quick) or all 2^32 words (thorough), with the independent oracle evaluated on every word. In the sweep a word counts as non-trivial when the model accepts it.",
    },
    "C10": {
        "extra_property_files": ["C10b"],
        "rule": "op 32: streams of 0-5 parts of 0-4 well-formed messages each (ids from a small vocabulary so they repeat, incl. the literal NONE and the empty id; half log messages incl. invalid levels; with/without extended header and ECU id; both storage modes), scanned by collect_statistics through the real reader with a recording collector; the parts merged left-to-right, right-to-left, balanced and right-nested. Plus op 33: collect_statistics with a full recording collector over arbitrary byte streams (well-formed, truncated, hostile length fields, flipped bytes, random, wrong storage mode) under read schedules incl. Interrupted.",
        "assumptions": ["usize counters modelled as unbounded N", "FxHashMap iteration order abstracted (results compared sorted by id)"],
    },
}
