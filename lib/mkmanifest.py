#!/usr/bin/env python3
"""Regenerates MANIFEST.json from the table below (run from /verif)."""
import json, os
ROOT = os.path.dirname(os.path.dirname(os.path.abspath(__file__)))
ALL = ["C%02d" % i for i in range(1, 20)]

COMMON_NOTE = ("Trusted: Coq 8.16.1 kernel (vm_compute used, no native_compute); no axioms — every pinned theorem is "
               "'Closed under the global context' and this is re-audited on every run; the hand-written Gallina model, "
               "tied to /repo only by the differential run on the inputs of this check; extraction (ExtrOcamlBasic) + OCaml "
               "driver + Rust harness. ")

CLAIMS = {
 "C04": dict(
   text="c04_message (every Ok result of dlt_message leaves exactly the input behind skip + storage header + declared LEN, LEN >= 4, never Invalid, FilteredOut carries LEN - headers), c04_consume, c04_filter_independent and c04_parse_all_terminates (repeated parsing never runs out of fuel = length+1) proved for all byte strings, filters and storage modes over the model of parse.rs; tied to /repo by ops 8/10/25 on hostile and dialect inputs with the consumed length compared and checked by an oracle against the length field.",
   note="Model covers parse.rs dlt_message/dlt_message_intern/dlt_payload/validated_payload_length/dlt_consume_msg/forward_to_next_storage_header and the nom 7.1.3 streaming combinators they use. memmem::Finder::find is modelled as first-occurrence search.",
   technique="Coq proof (case analysis over the parser model, consumption lemmas per combinator, induction on fuel) + correspondence check"),
 "C17": dict(
   text="c17_ms / c17_us proved for every N input under the stated guard (whole seconds fit 32 bits), over a model that carries the `as u32` truncations and the checked u32 multiplication literally; tied to /repo by running both constructors and the extracted model on the same boundary and random inputs.",
   note="Model covers dlt.rs:191-204.",
   technique="Coq proof (lia over div/mod) + model/implementation correspondence check"),
 "C14": dict(
   text="c14_htyp/c14_msin decide all 256 header-type and message-info bytes by kernel-evaluated sweeps; c14_type_info holds for EVERY type-info word (no bound): a bit-level lemma (c14_ti_low) reduces decoding to the low 18 bits and a kernel-evaluated sweep over the 2^18 low words establishes refusal <=> not a supported kind/width, decode(encode t) = t, and that re-encoding changes unused bits only. The correspondence for TypeInfo::try_from/as_bytes is exhaustive in the thorough tier (all 2^32 words against the model's 2^18-entry table) and 2^18 x 64 high-bit patterns in quick.",
   note="The proved reduction c14_ti_low is what justifies comparing the implementation on w with the table at w mod 2^18. HTYP is observed through dlt_message on complete messages.",
   technique="Coq proof: finite sweeps by vm_compute lifted with forallb_forall + bit-level reduction lemma; exhaustive differential sweep"),
 "C19": dict(
   text="c19_enough / c19_short / c19_consumes / c19_no_panic proved for all sizes and all byte strings over the model of dlt_zero_terminated_string (nom take_while_m_n + take); c19_utf8 proves the salvage returns the longest well-formed prefix against an independent inductive definition of UTF-8 (Unicode table 3-7).",
   note="Model covers parse.rs:323-343 and nom 7.1.3 take_while_m_n/take (streaming). core::str::from_utf8 is modelled by Utf8.valid_up_to and checked against the real one exhaustively over a boundary alphabet.",
   technique="Coq proof by induction over byte lists + exhaustive/random correspondence check"),
 "C10": dict(
   text="c10_tally (collector = independent tally by counting, keys unique), c10_total, c10_merge, associativity/commutativity/neutral element up to lookup-equivalence, c10_perm and c10_split_any (any split, any order, any grouping) proved for all streams of statistics; tied to /repo by scanning generated streams through the real reader and collector, merging the parts in four shapes.",
   note="The visit sequence (each message once, decoded headers) is compared and checked by the oracle on every generated stream; the theorem-level statement about the scan loop lives with the reader model (C07). usize counters are unbounded N; FxHashMap order is abstracted by the equivalence.",
   technique="Coq proof (induction over operation lists, association-list algebra) + correspondence check"),
}

def main():
    checks = []
    for pid in ALL:
        if pid not in CLAIMS:
            continue
        c = CLAIMS[pid]
        checks.append({
            "property_id": pid,
            "quick_cmd": "./check %s --tier quick" % pid,
            "thorough_cmd": "./check %s --tier thorough" % pid,
            "evidence_file": "evidence/%s.json" % pid,
            "replay_cmd_template": "./check %s --replay {path}" % pid,
            "engine": "coq-model",
            "level_claimed": {"category": "proof", "text": c["text"], "design_ref": "DESIGN.md section 6/%s" % pid},
            "level_note": COMMON_NOTE + c["note"],
            "technique": c["technique"],
        })
    m = {
        "version": 1,
        "setup_cmd": "./check --setup",
        "hooks": {"guard": "--cfg dlt_core_verif",
                  "enable": "no instrumentation is needed: every observed function is public with the fibex, statistics and stream features; the guard name is reserved and unused",
                  "baseline_off_cmd": "cd /repo && cargo test --workspace --no-fail-fast --offline",
                  "source_commits": [], "add_only": True},
        "engines": [
            {"name": "coq-model", "path": "coq/", "serves_properties": sorted(CLAIMS),
             "kind_free_text": "Coq 8.16.1 development: executable Gallina model of dlt-core (Model/), independent specs (Spec/), proofs (Proofs/), pinned property theorems (Properties/)"},
            {"name": "correspondence", "path": "check", "serves_properties": sorted(CLAIMS),
             "kind_free_text": "differential run of the extracted model (OCaml) and the implementation (Rust harness with a path dependency on /repo) on the same seeded cases, plus direct oracles that search for a failing input; ./check <ID>"}],
        "checks": checks,
        "notes": "See DESIGN.md. One entry point: ./check <ID> [--tier quick|thorough] [--seed N] [--replay file]. KNOWN_FINDINGS.txt lists repaired defects (fixed:) and recorded findings (known:).",
        "not_applicable": [{"property_id": p, "reason": "machinery for this property is still under construction in this session; not claimed yet"} for p in ALL if p not in CLAIMS],
    }
    json.dump(m, open(os.path.join(ROOT, "MANIFEST.json"), "w"), indent=1)

if __name__ == "__main__":
    main()
