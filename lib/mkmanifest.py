#!/usr/bin/env python3
"""Regenerates MANIFEST.json from the table below (run from /verif)."""
import json, os
ROOT = os.path.dirname(os.path.dirname(os.path.abspath(__file__)))
ALL = ["C%02d" % i for i in range(1, 20)]

COMMON_NOTE = ("Trusted: Coq 8.16.1 kernel (vm_compute used, no native_compute); no axioms — every pinned theorem is "
               "'Closed under the global context' and this is re-audited on every run; the hand-written Gallina model, "
               "tied to /repo only by the differential run on the inputs of this check; extraction (ExtrOcamlBasic) + OCaml "
               "driver + Rust harness. ")

CLAIMS = {
 "C01": dict(
   text="c01_roundtrip: for EVERY message satisfying the boolean well-formedness predicate that spells out the property's quantifier (Spec/WellFormed.v) and EVERY trailing byte string, dlt_message (message_bytes m ++ rest) = POk (Item m) rest - the universally quantified `rest` is both 'remainder is exactly what followed' and 'nothing behind the message influences the result'; c01_roundtrip_filter (any filter: FilteredOut payload_length or the same Item), c01_no_overflow (no debug-build overflow of the writer), c01_argument (each argument kind round-trips and is prefix-stable). Ten kernel-evaluated example messages (every payload kind x byte order) satisfy the hypothesis. Tied to /repo by op 20: as_bytes + suffix + parse on generated well-formed messages, full output compared.",
   note="Model covers dlt.rs (all as_bytes) and parse.rs (dlt_message and everything below it) with the nom 7.1.3 streaming combinators. The generator's messages are re-checked against the model's wf_message and the count of accepted ones is compared (impl-side and model-side predicates must agree).",
   technique="Coq proof (prefix-stable parser combinators closed under sequencing; field lemma library; 608-case type-info sweep) + correspondence check"),
 "C02": dict(
   text="c02_encode: message_bytes m = spec_encode m for every well-formed m; c02_decode: for EVERY byte string and storage mode the parser model's verdict (message + consumed length / incomplete / reject) equals spec_decode, the verdict of an independently written, total, cut-then-decode reference codec of the AUTOSAR layout (Spec/Layout.v: own bit-field code via testbit/div/mod, no nom, no streaming; dialect rules documented rule by rule); c02_type_info and c02_argument are the per-level agreements. Proved at full strength (no partial fallback). Tied to /repo twice: ops 60/61 run the EXTRACTED REFERENCE CODEC against the real dlt_message / as_bytes (a disagreement is reported as a violation of the property with the input as replay), and the model itself is compared with /repo by the other properties' ops.",
   note="The reference codec is trusted as the external description of the format; it was written from the property text and the AUTOSAR field layout, and its order-of-checks rules for short inputs (incomplete vs reject) were derived by case analysis and are proved, not assumed.",
   technique="Coq proof (refinement of a streaming parser model to a cut-then-decode spec; 2^18 type-info sweep; 256-value HTYP/MSIN sweeps) + differential run of the extracted spec against the implementation"),
 "C05": dict(
   text="c05_message: for every well-formed message, every filter and every k below the length, dlt_message on the first k bytes is PIncomplete n with hint_ok n (missing) (None, or 1 <= n <= bytes missing); c05_consume likewise for dlt_consume_msg on every non-empty proper prefix of storage-header messages; c05_consume_empty; c05_message_prefix; c05_storage_short. Tied to /repo by op 23: every cut position of generated messages, class and hint compared and checked by the oracle.",
   note="Uses the same prefix-stability library as C01 (each header parser returns Incomplete with a safe hint on every proper prefix of its own bytes); behind the headers the verdict comes from validated_payload_length whose hint is the exact shortfall.",
   technique="Coq proof (prefix-stability closed under sequencing) + exhaustive-cut correspondence check"),
 "C06": dict(
   text="c06_search / c06_search_complete / c06_search_some_iff / c06_search_none_iff: forward_to_next_storage_header returns exactly the offset of the FIRST occurrence of DLT\\x01 with the input from there on, and None iff the pattern does not occur; c06_junk: pattern-free junk in front of a storage-header message (>= 16 bytes) does not change the result of dlt_message, for every filter (the pattern is unbordered, so no occurrence straddles the boundary); c06_stream / c06_stream_messages: junk0 ++ m1 ++ junk1 ++ ... is recovered completely and in order by repeated parsing; c06_trailing_junk. Tied to /repo by ops 12/24/29 on pattern-dense strings and junk-separated streams. C06b composes these with the round trip: c06b_junk_message (junk ++ serialised well-formed message parses to that message and the same remainder), c06b_stream_recovered and c06b_stream_filtered (a stream of well-formed messages with pattern-free junk between them is recovered completely and in order, with or without a filter).",
   note="memchr::memmem::Finder::find is modelled as naive first-occurrence search; the SIMD implementation is exercised by the correspondence (partial patterns at the junk tail, near misses).",
   technique="Coq proof (first-occurrence search, unbordered-pattern lemma, induction over the stream) + correspondence check"),
 "C09": dict(
   text="c09_filter: whenever the unfiltered parse returns Item m with remainder rest, the parse with process_filter cfg returns FilteredOut (payload length) rest if spec_dropped cfg m and Item m rest otherwise, where spec_dropped is written from the property sentence (Spec/FilterSpec.v: valid level less severe than a valid minimum, ids not in the raw lists, ECU id present and not allowed; without extended header: counts above the number of DISTINCT ids); c09_filter_only_drops, c09_filter_processed, c09_stream (message for message over repeated parsing), c09_levels (minimum outside 1..6 = no level filtering), c09_conversions (both conversions: membership and distinct count preserved by dedup), c09_invalid_minimum (hand-built Invalid minimum). Composes with c01_roundtrip_filter for serialised messages. Tied to /repo by ops 26/27. C09b: c09b_filter_message states the property directly for every well-formed message and trailing bytes (composition with c01_roundtrip).",
   note="Finding recorded in Properties/C09.v: a dropped message's payload is skipped unparsed, so 'filtered = unfiltered' holds where the unfiltered parse succeeds - exactly the property's wording ('message for message').",
   technique="Coq proof (refinement of filtered_out to an independent drop rule) + correspondence check with an independent Rust oracle"),
 "C11": dict(
   text="c11_load / c11_load_elements: for every abstract FIBEX model and every layout (any permutation of the top-level elements, any split over files) the loader model applied to the canonical XML event rendering returns exactly denote(layout) - PDUs/signals ordered stably by sequence number, signal types from the S_* names or signal -> coding -> base type, unknown signal refs skipped, first definition of a duplicated frame/PDU id wins, last of a signal/coding id; c11_order_irrelevant / c11_denote_order (with unique ids every layout gives the same model), c11_missing_pdu / c11_denote_none (dangling PDU ref <=> no model), c11_lookup / c11_lookup_sound / c11_lookup_key_injective (extract_metadata), c11_sort_stable / c11_sort_unique, c11_decimal_roundtrip. Tied to /repo by ops 50/51: generated models rendered to XML, loaded by the real gather_fibex_data / extract_metadata, compared with the model run on the quick-xml event dump of the same files, with Coq's denote, and with an independent Rust denote.",
   note="PARTIAL as named in DESIGN section 6/C11: (i) quick-xml (the tokenizer) is not modelled - the model starts at the event list the same quick-xml yields for the same text, re-derived on every case; (ii) that the canonical rendering's events are what quick-xml produces for the harness's XML is checked on every style-0 case (model-side equality with Spec.files_of), not proved; (iii) tool-style documents (wrappers, white space, ECU blocks) are outside the canonical shape of c11_load and are covered by the correspondence and oracle only.",
   technique="Coq proof (loader state machine over XML events refines a declarative meaning; permutation/sorting lemmas) + correspondence check through the real XML tokenizer"),
 "C12": dict(
   text="c12_terminates: for EVERY list of files and every event list, the loader model with fuel 2 + number of events never runs out of fuel (each loop iteration consumes an event or ends) - so loading ends with a model or a refusal; c12_no_panic: no panic branch (attribute-key index/slice arithmetic is explicit in the model) is ever taken; c12_refuted_pinned records that the pre-repair read_pdu/read_frame loops diverge on [Start PDU]. Tied to /repo by op 50 on truncations at every offset, deletions, corruptions, missing and empty files, each load in its own thread with a 4 s limit.",
   note="PARTIAL as named in DESIGN section 6/C12: 'promptly' is wall-clock (theorem: linear fuel bound; run: 4 s limit); termination and panic-freedom inside quick-xml for corrupted bytes are exercised, not proved; file-system faults beyond missing/empty are not modelled.",
   technique="Coq proof (fuel bound by a consumed-events measure; explicit panic branches unreachable) + robustness correspondence run under a time limit"),
 "C13": dict(
   text="c13_refines: construct_arguments = spec_construct (an independent fold taking the next field per type with firstn/skipn and get_uint/get_sint) for all byte orders, type lists and payloads; c13_characterised (success <=> the payload starts with the packed encoding of the arguments, one per type, plain); c13_shape, c13_trailing, c13_consumed, c13_short (every shorter prefix is refused), c13_utf8, c13_fixed_point_refused (fixed-point signal types always yield Err - dead code in the crate, stated outright), c13_no_panic (a second transcription with every slice range / index / usize addition checked never panics), c13_offsets. Tied to /repo by op 13.",
   note="Model covers parse.rs construct_arguments. 8-bit integers are read big-endian regardless of the byte order in model and code; the spec uses the stated order and the proof shows they agree.",
   technique="Coq proof (refinement to an independent decoder; checked re-transcription for panic freedom) + correspondence check"),
 "C15": dict(
   text="c15_arg_len (Argument::len = serialised length for every well-formed argument and both byte orders), c15_new (for every configuration in wf_config - proved to be EXACTLY the configurations from which Message::new builds a well-formed message, c15_config_exact - the payload length field equals the serialised payload, byte_len equals the serialisation without storage header, verbose flag and NOAR are what the payload kind requires, and the message is well-formed), c15_new_roundtrip (it parses back to itself, by C01), c15_storage / c15_storage_wf / c15_storage_roundtrip (add_storage_header prepends exactly 16 bytes with the given time and the header ECU id or 'ECU'), c15_valid / c15_wf_valid. Tied to /repo by ops 14/15.",
   note="add_storage_header(None) reads the system clock and is not modelled. The excluded configurations (verbose/control/network-trace payload without extended-header config, payload kind contradicting the message type, > 255 arguments, total > 65535) are each shown necessary by a kernel-evaluated example.",
   technique="Coq proof (length calculus over the writer; composition with the C01 round trip) + correspondence check"),
 "C16": dict(
   text="c16_parsed_wf: EVERY message returned by dlt_message (any bytes, filter, storage mode) whose re-serialisation has the length its header declares satisfies the well-formedness predicate of C01 (ids/names/strings clean, values match type info, enum codes canonical - by 256-value sweeps -, NOAR/verbose consistent; for network trace the length hypothesis is what excludes dropped non-raw arguments); c16_stable: hence it parses back to the identical message with nothing left over; c16_bytes_stable: and re-serialises to the same bytes. An example shows the length hypothesis cannot be dropped. Tied to /repo by op 28: parse -> serialise -> parse -> serialise on dialect, mutated and malformed inputs, token for token.",
   note="Composition of c16_parsed_wf with c01_roundtrip; floats are bit patterns throughout.",
   technique="Coq proof (parser-output invariant + round trip) + correspondence check"),
 "C18": dict(
   text="c18_no_panic (to_real_value never panics), c18_none / c18_some / c18_applicable (Some exactly for fixed-point kind + fixed-point data + an 8..64-bit integer value), c18_value (whenever the double-precision product, truncated toward zero - the UNSATURATED truncation t - is non-negative and 0 <= t + offset < 2^63, the result is exactly t + offset), c18_formula (unconditional closed form), c18_cast / c18_trunc / c18_int_exact / c18_f32_exact (meaning of the float terms), c18_pinned_refuted / c18_pinned_panic_neg (the pre-repair checked addition panicked exactly when offset < 0 and the intended result is >= 0). Floats via the standard library's SpecFloat (pure Gallina, no primitive floats, no axioms). Tied to /repo by op 42 on every kind x value variant x special and random quantizations x offsets; the float model is thereby checked against rustc's arithmetic.",
   note="c18_value needs offset >= -2^63, which every i32/i64 offset satisfies (c18_offset_range). Correct rounding of SFmul/binary_normalize on inexact products is the standard library's specification, not re-proved; it is compared with the hardware on every case.",
   technique="Coq proof over SpecFloat (integer part by lia; float terms as uninterpreted-but-computable SpecFloat expressions) + correspondence check against hardware IEEE-754"),
 "C03": dict(
   text="c03_parsers_total (dlt_message with any filter and storage mode, dlt_consume_msg, skip_storage_header and dlt_zero_terminated_string never take a panic branch of the model, in which every checked subtraction and slice range of parse.rs is explicit), c03_results_usable (every returned message re-serialises without any of the `len as u16 + 1` / u16 header-sum overflows and each argument passes Argument::valid), c03_result_bounds (payload <= 65531, every name/unit/string/raw/slice <= 65515 bytes - the bound that makes the overflow sites unreachable, shown tight by an example), c03_parsed_arg_bounds and c03_construct_arguments_usable proved for ALL byte strings; tied to /repo by running the slice entry points under catch_unwind in a build with overflow checks on hostile inputs (mutated, truncated, length-corrupted, > 64 KiB) and using every returned message (as_bytes, byte_len, len, valid).",
   note="forward_to_next_storage_header and construct_arguments return Option in the model: their slice bounds are guarded by explicit length checks that are part of the modelled text. Allocation failure and the trace!/dbg_parsed sites (only evaluated with a trace-level logger) are not modelled. Observation recorded in Properties/C03.v: the public construct_arguments called directly with > 64 KiB of data can return a 65535-byte string whose as_bytes overflows; unreachable from parsed messages.",
   technique="Coq proof (no-panic by case analysis over the parser model; length bounds by consumption lemmas) + correspondence check under catch_unwind with overflow checks"),
 "C07": dict(
   text="c07_fragmentation / c07_fragmentation_cap: for EVERY schedule of read() results (fragment sizes and Interrupted placements), every byte stream, filter, storage mode and BufReader capacity, the model of DltMessageReader + std BufReader + read_exact delivers exactly spec_run = cut the stream at the declared lengths and parse each piece, and the loop ends within len+1 calls; c07_truncation (pieces completely inside a truncation point are delivered, then at most errors), c07_no_panic (incl. declared lengths below 4), c07_scratch_fits, c07_cuts_layout, c07_run_by_cuts; c07_pinned_refuted records the panic of the pre-repair code. Tied to /repo by driving the real DltMessageReader with a std::io::Read that follows the same (stream, schedule).",
   note="PARTIAL in the sense of DESIGN section 9: the theorem is about a model of std::io::BufReader / Read::read_exact written from the standard-library source; what std and the OS do is exercised by the correspondence run, not proved. with_capacity(buffer_capacity < message_max_len) trips the crate's own debug_assert and is outside the claim.",
   technique="Coq proof (refinement of a buffered-reader state machine to a cut-the-stream spec, induction over schedule and stream) + correspondence check with scheduled byte sources"),
 "C08": dict(
   text="c08_schedule: for every poll schedule (Pending runs, Ready(k) fragments), stream, filter and storage mode the model of DltStreamReader + futures BufReader + ReadExact delivers exactly what the blocking reader model delivers (= spec_run), and ends; c08_no_panic; c08_pinned_refuted. Tied to /repo by driving the real DltStreamReader under futures::executor::block_on with an AsyncRead following the same schedule, compared with the model and (oracle) with the real blocking reader.",
   note="PARTIAL as named in DESIGN section 9: wakers, executors, cancellation and real async sources are not in the model; panic-freedom inside futures-util is trusted. Interrupted is not quantified for the async reader.",
   technique="Coq proof (async reader model refines the same spec as the blocking one, for all poll schedules) + correspondence check under block_on"),
 "C04": dict(
   text="c04_message (every Ok result of dlt_message leaves exactly the input behind skip + storage header + declared LEN, LEN >= 4, never Invalid, FilteredOut carries LEN - headers), c04_consume, c04_filter_independent and c04_parse_all_terminates (repeated parsing never runs out of fuel = length+1) proved for all byte strings, filters and storage modes over the model of parse.rs; tied to /repo by ops 8/10/25 on hostile and dialect inputs with the consumed length compared and checked by an oracle against the length field.",
   note="Model covers parse.rs dlt_message/dlt_message_intern/dlt_payload/validated_payload_length/dlt_consume_msg/forward_to_next_storage_header and the nom 7.1.3 streaming combinators they use. memmem::Finder::find is modelled as first-occurrence search.",
   technique="Coq proof (case analysis over the parser model, consumption lemmas per combinator, induction on fuel) + correspondence check"),
 "C17": dict(
   text="c17_ms / c17_us proved for every N input under the stated guard (whole seconds fit 32 bits), over a model that carries the `as u32` truncations and the checked u32 multiplication literally; tied to /repo by running both constructors and the extracted model on the same boundary and random inputs.",
   note="Model covers dlt.rs:191-204.",
   technique="Coq proof (lia over div/mod) + model/implementation correspondence check"),
 "C14": dict(
   text="c14_htyp/c14_msin decide all 256 header-type and message-info bytes by kernel-evaluated sweeps; c14_type_info holds for EVERY type-info word (no bound): a bit-level lemma (c14_ti_low) reduces decoding to the low 18 bits and a kernel-evaluated sweep over the 2^18 low words establishes refusal <=> not a supported kind/width, decode(encode t) = t, and that re-encoding changes unused bits only. The correspondence for TypeInfo::try_from/as_bytes is exhaustive in the thorough tier (all 2^32 words against the model's 2^18-entry table) and 2^18 x 64 high-bit patterns in quick.",
   note="The proved reduction c14_ti_low is what justifies comparing the implementation on w with the table at w mod 2^18. HTYP is observed through dlt_message on complete messages.",
   technique="Coq proof: finite sweeps by vm_compute lifted with forallb_forall + bit-level reduction lemma; exhaustive differential sweep"),
 "C19": dict(
   text="c19_enough / c19_short / c19_consumes / c19_no_panic proved for all sizes and all byte strings over the model of dlt_zero_terminated_string (nom take_while_m_n + take); c19_utf8 proves the salvage returns the longest well-formed prefix against an independent inductive definition of UTF-8 (Unicode table 3-7). C19b states the last sentence of the property: c19b_ecu / c19b_ext / c19b_storage / c19b_message - the ECU, application, context and storage-header ids of every message dlt_message returns are zstring 4 of the 4 bytes at their place in the input (c19b_field_value: the longest valid-UTF-8 prefix of the bytes before the first NUL); the harness oracle ids_obey_field_rule checks the same on the implementation.",
   note="Model covers parse.rs:323-343 and nom 7.1.3 take_while_m_n/take (streaming). core::str::from_utf8 is modelled by Utf8.valid_up_to and checked against the real one exhaustively over a boundary alphabet.",
   technique="Coq proof by induction over byte lists + exhaustive/random correspondence check"),
 "C10": dict(
   text="c10_tally (collector = independent tally by counting, keys unique), c10_total, c10_merge, associativity/commutativity/neutral element up to lookup-equivalence, c10_perm and c10_split_any (any split, any order, any grouping) proved for all streams of statistics; tied to /repo by scanning generated streams through the real reader and collector, merging the parts in four shapes. C10b adds the scan loop itself: a model of collect_statistics over the blocking-reader model (Model/Scan.v) with c10b_visits / c10b_visits_cap (for EVERY schedule of read() results and capacity, scanning the concatenation of well-formed messages visits each message exactly once, in order, with its decoded storage/standard/extended headers, payload, level and verbosity), c10b_collect / c10b_collect_tally (the standard collector fed by the scan = the independent tally), c10b_scan_spec (for every byte stream the scan equals cutting at the declared lengths, independent of the schedule), c10b_end (it ends with Ok or an error, never a panic); op 33 runs the scan model against the real collect_statistics on arbitrary streams incl. error paths.",
   note="The visit sequence (each message once, decoded headers) is compared and checked by the oracle on every generated stream; the theorem-level statement about the scan loop lives with the reader model (C07). usize counters are unbounded N; FxHashMap order is abstracted by the equivalence.",
   technique="Coq proof (induction over operation lists, association-list algebra) + correspondence check"),
}

def main():
    checks = []
    for pid in ALL:
        if pid not in CLAIMS:
            continue
        c = CLAIMS[pid]
        checks.append({
            "property_id": pid,
            "quick_cmd": "./check %s --tier quick" % pid,
            "thorough_cmd": "./check %s --tier thorough" % pid,
            "evidence_file": "evidence/%s.json" % pid,
            "replay_cmd_template": "./check %s --replay {path}" % pid,
            "engine": "coq-model",
            "level_claimed": {"category": "proof", "text": c["text"], "design_ref": "DESIGN.md section 6/%s" % pid},
            "level_note": COMMON_NOTE + c["note"],
            "technique": c["technique"],
        })
    m = {
        "version": 1,
        "setup_cmd": "./check --setup",
        "hooks": {"guard": "--cfg dlt_core_verif",
                  "enable": "no instrumentation is needed: every observed function is public with the fibex, statistics and stream features; the guard name is reserved and unused",
                  "baseline_off_cmd": "cd /repo && cargo test --workspace --no-fail-fast --offline",
                  "source_commits": [], "add_only": True},
        "engines": [
            {"name": "coq-model", "path": "coq/", "serves_properties": sorted(CLAIMS),
             "kind_free_text": "Coq 8.16.1 development: executable Gallina model of dlt-core (Model/), independent specs (Spec/), proofs (Proofs/), pinned property theorems (Properties/)"},
            {"name": "correspondence", "path": "check", "serves_properties": sorted(CLAIMS),
             "kind_free_text": "differential run of the extracted model (OCaml) and the implementation (Rust harness with a path dependency on /repo) on the same seeded cases, plus direct oracles that search for a failing input; ./check <ID>"}],
        "checks": checks,
        "notes": "See DESIGN.md. One entry point: ./check <ID> [--tier quick|thorough] [--seed N] [--replay file]. KNOWN_FINDINGS.txt lists repaired defects (fixed:) and recorded findings (known:).",
        "not_applicable": [{"property_id": p, "reason": "not claimed yet"} for p in ALL if p not in CLAIMS],
    }
    json.dump(m, open(os.path.join(ROOT, "MANIFEST.json"), "w"), indent=1)

if __name__ == "__main__":
    main()
