#!/usr/bin/env python3
"""Regenerates MANIFEST.json from the table below (run from /verif)."""
import json, os
ROOT = os.path.dirname(os.path.dirname(os.path.abspath(__file__)))
ALL = ["C%02d" % i for i in range(1, 20)]

COMMON_NOTE = ("Trusted: Coq 8.16.1 kernel (vm_compute used, no native_compute); no axioms — every pinned theorem is "
               "'Closed under the global context' and this is re-audited on every run; the hand-written Gallina model, "
               "tied to /repo only by the differential run on the inputs of this check; extraction (ExtrOcamlBasic) + OCaml "
               "driver + Rust harness. ")

CLAIMS = {
 "C03": dict(
   text="c03_parsers_total (dlt_message with any filter and storage mode, dlt_consume_msg, skip_storage_header and dlt_zero_terminated_string never take a panic branch of the model, in which every checked subtraction and slice range of parse.rs is explicit), c03_results_usable (every returned message re-serialises without any of the `len as u16 + 1` / u16 header-sum overflows and each argument passes Argument::valid), c03_result_bounds (payload <= 65531, every name/unit/string/raw/slice <= 65515 bytes - the bound that makes the overflow sites unreachable, shown tight by an example), c03_parsed_arg_bounds and c03_construct_arguments_usable proved for ALL byte strings; tied to /repo by running the slice entry points under catch_unwind in a build with overflow checks on hostile inputs (mutated, truncated, length-corrupted, > 64 KiB) and using every returned message (as_bytes, byte_len, len, valid).",
   note="forward_to_next_storage_header and construct_arguments return Option in the model: their slice bounds are guarded by explicit length checks that are part of the modelled text. Allocation failure and the trace!/dbg_parsed sites (only evaluated with a trace-level logger) are not modelled. Observation recorded in Properties/C03.v: the public construct_arguments called directly with > 64 KiB of data can return a 65535-byte string whose as_bytes overflows; unreachable from parsed messages.",
   technique="Coq proof (no-panic by case analysis over the parser model; length bounds by consumption lemmas) + correspondence check under catch_unwind with overflow checks"),
 "C07": dict(
   text="c07_fragmentation / c07_fragmentation_cap: for EVERY schedule of read() results (fragment sizes and Interrupted placements), every byte stream, filter, storage mode and BufReader capacity, the model of DltMessageReader + std BufReader + read_exact delivers exactly spec_run = cut the stream at the declared lengths and parse each piece, and the loop ends within len+1 calls; c07_truncation (pieces completely inside a truncation point are delivered, then at most errors), c07_no_panic (incl. declared lengths below 4), c07_scratch_fits, c07_cuts_layout, c07_run_by_cuts; c07_pinned_refuted records the panic of the pre-repair code. Tied to /repo by driving the real DltMessageReader with a std::io::Read that follows the same (stream, schedule).",
   note="PARTIAL in the sense of DESIGN section 9: the theorem is about a model of std::io::BufReader / Read::read_exact written from the standard-library source; what std and the OS do is exercised by the correspondence run, not proved. with_capacity(buffer_capacity < message_max_len) trips the crate's own debug_assert and is outside the claim.",
   technique="Coq proof (refinement of a buffered-reader state machine to a cut-the-stream spec, induction over schedule and stream) + correspondence check with scheduled byte sources"),
 "C08": dict(
   text="c08_schedule: for every poll schedule (Pending runs, Ready(k) fragments), stream, filter and storage mode the model of DltStreamReader + futures BufReader + ReadExact delivers exactly what the blocking reader model delivers (= spec_run), and ends; c08_no_panic; c08_pinned_refuted. Tied to /repo by driving the real DltStreamReader under futures::executor::block_on with an AsyncRead following the same schedule, compared with the model and (oracle) with the real blocking reader.",
   note="PARTIAL as named in DESIGN section 9: wakers, executors, cancellation and real async sources are not in the model; panic-freedom inside futures-util is trusted. Interrupted is not quantified for the async reader.",
   technique="Coq proof (async reader model refines the same spec as the blocking one, for all poll schedules) + correspondence check under block_on"),
 "C04": dict(
   text="c04_message (every Ok result of dlt_message leaves exactly the input behind skip + storage header + declared LEN, LEN >= 4, never Invalid, FilteredOut carries LEN - headers), c04_consume, c04_filter_independent and c04_parse_all_terminates (repeated parsing never runs out of fuel = length+1) proved for all byte strings, filters and storage modes over the model of parse.rs; tied to /repo by ops 8/10/25 on hostile and dialect inputs with the consumed length compared and checked by an oracle against the length field.",
   note="Model covers parse.rs dlt_message/dlt_message_intern/dlt_payload/validated_payload_length/dlt_consume_msg/forward_to_next_storage_header and the nom 7.1.3 streaming combinators they use. memmem::Finder::find is modelled as first-occurrence search.",
   technique="Coq proof (case analysis over the parser model, consumption lemmas per combinator, induction on fuel) + correspondence check"),
 "C17": dict(
   text="c17_ms / c17_us proved for every N input under the stated guard (whole seconds fit 32 bits), over a model that carries the `as u32` truncations and the checked u32 multiplication literally; tied to /repo by running both constructors and the extracted model on the same boundary and random inputs.",
   note="Model covers dlt.rs:191-204.",
   technique="Coq proof (lia over div/mod) + model/implementation correspondence check"),
 "C14": dict(
   text="c14_htyp/c14_msin decide all 256 header-type and message-info bytes by kernel-evaluated sweeps; c14_type_info holds for EVERY type-info word (no bound): a bit-level lemma (c14_ti_low) reduces decoding to the low 18 bits and a kernel-evaluated sweep over the 2^18 low words establishes refusal <=> not a supported kind/width, decode(encode t) = t, and that re-encoding changes unused bits only. The correspondence for TypeInfo::try_from/as_bytes is exhaustive in the thorough tier (all 2^32 words against the model's 2^18-entry table) and 2^18 x 64 high-bit patterns in quick.",
   note="The proved reduction c14_ti_low is what justifies comparing the implementation on w with the table at w mod 2^18. HTYP is observed through dlt_message on complete messages.",
   technique="Coq proof: finite sweeps by vm_compute lifted with forallb_forall + bit-level reduction lemma; exhaustive differential sweep"),
 "C19": dict(
   text="c19_enough / c19_short / c19_consumes / c19_no_panic proved for all sizes and all byte strings over the model of dlt_zero_terminated_string (nom take_while_m_n + take); c19_utf8 proves the salvage returns the longest well-formed prefix against an independent inductive definition of UTF-8 (Unicode table 3-7).",
   note="Model covers parse.rs:323-343 and nom 7.1.3 take_while_m_n/take (streaming). core::str::from_utf8 is modelled by Utf8.valid_up_to and checked against the real one exhaustively over a boundary alphabet.",
   technique="Coq proof by induction over byte lists + exhaustive/random correspondence check"),
 "C10": dict(
   text="c10_tally (collector = independent tally by counting, keys unique), c10_total, c10_merge, associativity/commutativity/neutral element up to lookup-equivalence, c10_perm and c10_split_any (any split, any order, any grouping) proved for all streams of statistics; tied to /repo by scanning generated streams through the real reader and collector, merging the parts in four shapes.",
   note="The visit sequence (each message once, decoded headers) is compared and checked by the oracle on every generated stream; the theorem-level statement about the scan loop lives with the reader model (C07). usize counters are unbounded N; FxHashMap order is abstracted by the equivalence.",
   technique="Coq proof (induction over operation lists, association-list algebra) + correspondence check"),
}

def main():
    checks = []
    for pid in ALL:
        if pid not in CLAIMS:
            continue
        c = CLAIMS[pid]
        checks.append({
            "property_id": pid,
            "quick_cmd": "./check %s --tier quick" % pid,
            "thorough_cmd": "./check %s --tier thorough" % pid,
            "evidence_file": "evidence/%s.json" % pid,
            "replay_cmd_template": "./check %s --replay {path}" % pid,
            "engine": "coq-model",
            "level_claimed": {"category": "proof", "text": c["text"], "design_ref": "DESIGN.md section 6/%s" % pid},
            "level_note": COMMON_NOTE + c["note"],
            "technique": c["technique"],
        })
    m = {
        "version": 1,
        "setup_cmd": "./check --setup",
        "hooks": {"guard": "--cfg dlt_core_verif",
                  "enable": "no instrumentation is needed: every observed function is public with the fibex, statistics and stream features; the guard name is reserved and unused",
                  "baseline_off_cmd": "cd /repo && cargo test --workspace --no-fail-fast --offline",
                  "source_commits": [], "add_only": True},
        "engines": [
            {"name": "coq-model", "path": "coq/", "serves_properties": sorted(CLAIMS),
             "kind_free_text": "Coq 8.16.1 development: executable Gallina model of dlt-core (Model/), independent specs (Spec/), proofs (Proofs/), pinned property theorems (Properties/)"},
            {"name": "correspondence", "path": "check", "serves_properties": sorted(CLAIMS),
             "kind_free_text": "differential run of the extracted model (OCaml) and the implementation (Rust harness with a path dependency on /repo) on the same seeded cases, plus direct oracles that search for a failing input; ./check <ID>"}],
        "checks": checks,
        "notes": "See DESIGN.md. One entry point: ./check <ID> [--tier quick|thorough] [--seed N] [--replay file]. KNOWN_FINDINGS.txt lists repaired defects (fixed:) and recorded findings (known:).",
        "not_applicable": [{"property_id": p, "reason": "machinery for this property is still under construction in this session; not claimed yet"} for p in ALL if p not in CLAIMS],
    }
    json.dump(m, open(os.path.join(ROOT, "MANIFEST.json"), "w"), indent=1)

if __name__ == "__main__":
    main()
