#!/bin/bash
# seedtest.sh <patch.diff> <ID> [more IDs...] — apply a seeded change to /repo, run the named checks, undo it.
# Prints one line per check:  <ID> rc=<rc> <VIOLATION line or summary>
patch=$1; shift
cd /repo || exit 2
if ! git diff --quiet; then echo "/repo has uncommitted changes"; exit 2; fi
git apply "$patch" || { echo "patch does not apply"; exit 2; }
trap 'git -C /repo checkout -- . ; ' EXIT
cd /verif
for id in "$@"; do
  out=$(timeout 3000 ./check $id --tier quick 2>&1); rc=$?
  v=$(echo "$out" | grep -m1 VIOLATION)
  echo "$id rc=$rc ${v:-$(echo "$out" | tail -1)}"
  if [ -n "$v" ]; then
    f=$(echo "$v" | sed 's/.*replay=\([^ ]*\).*/\1/')
    python3 - "$f" <<'PY'
import json,sys
d=json.load(open(sys.argv[1]))
print("    kind=%s clause=%s detail=%s" % (d.get('kind'), d.get('clause'), str(d.get('detail', d.get('correspondence','')))[:300]))
print("    case=%s" % str(d.get('case',''))[:200])
PY
  fi
done
