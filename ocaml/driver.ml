(* driver.ml — I/O only: read one case per line, call the extracted [Model.run_case],
   print one result line.  Line format:  <op-decimal> tok tok ...
   tok ::= n<hex> (N) | z<hex> | z-<hex> (Z) | x<hexbytes> (byte string, may be empty) *)
open Model

let byte_table : byte array = Array.of_list all_bytes

let rec pos_of_bits (acc : positive) (bits : bool list) : positive =
  match bits with
  | [] -> acc
  | b :: r -> pos_of_bits (if b then XI acc else XO acc) r

let hexval c =
  match c with
  | '0' .. '9' -> Char.code c - 48
  | 'a' .. 'f' -> Char.code c - 87
  | 'A' .. 'F' -> Char.code c - 55
  | _ -> failwith "bad hex digit"

(* hex string -> N *)
let n_of_hex (s : Stdlib.String.t) : n =
  let bits = ref [] in
  Stdlib.String.iter (fun c ->
      let v = hexval c in
      bits := (v land 1 <> 0) :: (v land 2 <> 0) :: (v land 4 <> 0) :: (v land 8 <> 0) :: !bits) s;
  (* !bits is LSB first; reverse to MSB first and strip leading zeros *)
  let msb = List.rev !bits in
  let rec strip l = match l with false :: r -> strip r | _ -> l in
  match strip msb with
  | [] -> N0
  | _ :: r -> Npos (pos_of_bits XH r)

let rec bits_of_pos (p : positive) (acc : bool list) : bool list =
  (* returns MSB-first list *)
  match p with
  | XH -> true :: acc
  | XO q -> bits_of_pos q (false :: acc)
  | XI q -> bits_of_pos q (true :: acc)

let hex_of_pos (p : positive) : Stdlib.String.t =
  let msb = bits_of_pos p [] in
  let l = List.length msb in
  let pad = (4 - (l mod 4)) mod 4 in
  let rec mk n acc = if n = 0 then acc else mk (n - 1) (false :: acc) in
  let bits = mk pad msb in
  let buf = Buffer.create 16 in
  let rec go l =
    match l with
    | a :: b :: c :: d :: r ->
      let v = (if a then 8 else 0) + (if b then 4 else 0) + (if c then 2 else 0) + (if d then 1 else 0) in
      Buffer.add_char buf "0123456789abcdef".[v];
      go r
    | [] -> ()
    | _ -> failwith "bits"
  in
  go bits;
  Buffer.contents buf

let hex_of_n (x : n) : Stdlib.String.t = match x with N0 -> "0" | Npos p -> hex_of_pos p

let int_of_n (x : n) : int =
  match x with
  | N0 -> 0
  | Npos p ->
    let rec go p = match p with XH -> 1 | XO q -> 2 * go q | XI q -> 2 * go q + 1 in
    go p

let bytes_of_hex (s : Stdlib.String.t) : byte list =
  let n = Stdlib.String.length s / 2 in
  let rec go i acc =
    if i < 0 then acc
    else go (i - 1) (byte_table.(hexval s.[2 * i] * 16 + hexval s.[2 * i + 1]) :: acc)
  in
  go (n - 1) []

let hex_of_bytes (bs : byte list) : Stdlib.String.t =
  let buf = Buffer.create 64 in
  List.iter (fun b -> Buffer.add_string buf (Printf.sprintf "%02x" (int_of_n (b2n b)))) bs;
  Buffer.contents buf

let tok_of_string (s : Stdlib.String.t) : wtok =
  let body = Stdlib.String.sub s 1 (String.length s - 1) in
  match s.[0] with
  | 'n' -> WN (n_of_hex body)
  | 'z' ->
    if Stdlib.String.length body > 0 && body.[0] = '-' then
      (match n_of_hex (String.sub body 1 (String.length body - 1)) with
       | N0 -> WZ Z0
       | Npos p -> WZ (Zneg p))
    else (match n_of_hex body with N0 -> WZ Z0 | Npos p -> WZ (Zpos p))
  | 'x' -> WB (bytes_of_hex body)
  | _ -> failwith ("bad token " ^ s)

let string_of_tok (t : wtok) : Stdlib.String.t =
  match t with
  | WN x -> "n" ^ hex_of_n x
  | WZ Z0 -> "z0"
  | WZ (Zpos p) -> "z" ^ hex_of_pos p
  | WZ (Zneg p) -> "z-" ^ hex_of_pos p
  | WB bs -> "x" ^ hex_of_bytes bs

let () =
  let ic = if Array.length Sys.argv > 1 then open_in Sys.argv.(1) else stdin in
  let out = Buffer.create 65536 in
  (try
     while true do
       let line = input_line ic in
       if Stdlib.String.length line > 0 && line.[0] <> '#' then begin
         match Stdlib.String.split_on_char ' ' line |> List.filter (fun s -> s <> "") with
         | [] -> ()
         | op :: toks ->
           let res =
             try
               let r = run_case (n_of_hex (Printf.sprintf "%x" (int_of_string op))) (List.map tok_of_string toks) in
               Stdlib.String.concat " " (List.map string_of_tok r)
             with Stack_overflow -> "STACK_OVERFLOW"
           in
           Buffer.add_string out res;
           Buffer.add_char out '\n';
           if Buffer.length out > 60000 then begin
             print_string (Buffer.contents out);
             Buffer.clear out
           end
       end
     done
   with End_of_file -> ());
  print_string (Buffer.contents out)
