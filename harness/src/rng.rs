//! One PRNG state (xorshift64*); every random choice of a run derives from it.
pub struct Rng(pub u64);
impl Rng {
    pub fn new(seed: u64) -> Self {
        let mut r = Rng(seed ^ 0x9E37_79B9_7F4A_7C15);
        if r.0 == 0 {
            r.0 = 0x1234_5678_9ABC_DEF1;
        }
        for _ in 0..4 {
            r.next();
        }
        r
    }
    pub fn next(&mut self) -> u64 {
        let mut x = self.0;
        x ^= x >> 12;
        x ^= x << 25;
        x ^= x >> 27;
        self.0 = x;
        x.wrapping_mul(0x2545_F491_4F6C_DD1D)
    }
    pub fn below(&mut self, n: u64) -> u64 {
        if n == 0 {
            0
        } else {
            self.next() % n
        }
    }
    pub fn range(&mut self, lo: u64, hi: u64) -> u64 {
        lo + self.below(hi - lo + 1)
    }
    pub fn bool(&mut self) -> bool {
        self.next() & 1 == 1
    }
    pub fn chance(&mut self, num: u64, den: u64) -> bool {
        self.below(den) < num
    }
    pub fn pick<'a, T>(&mut self, v: &'a [T]) -> &'a T {
        &v[self.below(v.len() as u64) as usize]
    }
    pub fn bytes(&mut self, n: usize) -> Vec<u8> {
        (0..n).map(|_| self.next() as u8).collect()
    }
    pub fn u128(&mut self) -> u128 {
        ((self.next() as u128) << 64) | self.next() as u128
    }
    pub fn fork(&mut self) -> Rng {
        Rng::new(self.next())
    }
}
