//! Generator of well-formed Message values (the domain of C01/C05/C06/C09/C10/C15) and of
//! hostile byte strings derived from them.  Lengths are computed by an independent
//! description of the wire format (spec_arg_len), never by the crate.
use crate::rng::Rng;
use dlt_core::dlt::*;

pub const ALL_TL: [TypeLength; 5] = [
    TypeLength::BitLength8,
    TypeLength::BitLength16,
    TypeLength::BitLength32,
    TypeLength::BitLength64,
    TypeLength::BitLength128,
];
pub const ALL_FW: [FloatWidth; 2] = [FloatWidth::Width32, FloatWidth::Width64];

pub fn gen_text(rng: &mut Rng, max: usize) -> String {
    // no NUL, valid UTF-8: empty / ASCII / multi-byte mixes
    let pieces = [
        "a", "Z", " ", "~", "\u{7f}", "\u{1}", "é", "ß", "€", "\u{800}", "\u{ffff}", "𝄞", "\u{10ffff}", "0", "_",
        // characters that text-handling code likes to treat specially: BOM / zero-width no-break space, the
        // replacement character, line and paragraph separators, NEL, NBSP, a combining mark, CR/LF/TAB
        "\u{feff}", "\u{fffd}", "\u{2028}", "\u{85}", "\u{a0}", "\u{301}", "\r", "\n", "\t",
    ];
    let n = match rng.below(8) {
        0 => 0,
        1 => 1,
        2..=5 => rng.below(12) as usize,
        _ => rng.below(max as u64 + 1) as usize,
    };
    let mut s = String::new();
    while s.len() < n {
        let p = if rng.chance(3, 4) {
            let c = (0x20 + rng.below(0x5f)) as u8 as char;
            c.to_string()
        } else {
            rng.pick(&pieces).to_string()
        };
        if s.len() + p.len() > n.max(max.min(n + 3)) {
            break;
        }
        s.push_str(&p);
    }
    if max >= 8 && rng.chance(1, 12) {
        // a special character exactly at the start or at the end of the text
        let sp = *rng.pick(&["\u{feff}", "\u{fffd}", "\u{a0}", " ", "\t", "\u{85}", "\u{2028}"]);
        if rng.bool() {
            s.insert_str(0, sp);
        } else {
            s.push_str(sp);
        }
    }
    s
}

pub fn gen_id(rng: &mut Rng) -> String {
    let fixed = [
        "", "A", "AB", "ABC", "ECU1", "APP", "CON", "é", "éé", "€1", "𝄞", "T\u{7f}", "DLT\u{1}", "ab c",
        // trim-/case-/padding-sensitive ids: trailing and leading blanks, tab, NBSP, NEL, lower/upper twins
        "AP  ", "CT\t", "E1 ", " X", "A\u{a0}", "B\u{85}", "app", "App", "AP", "CT", "E1", "A\n", "\r",
    ];
    if rng.chance(1, 30) {
        // a literal of the source under test that fits an id field
        let d = crate::dict::dict();
        let mut cands: Vec<String> = d.strings.iter().filter(|x| x.len() <= 4 && !x.contains('\0')).cloned().collect();
        for r in &d.raw {
            if let Ok(t) = std::str::from_utf8(r) {
                if t.len() <= 4 && !t.contains('\0') {
                    cands.push(t.to_string());
                }
            }
        }
        if !cands.is_empty() {
            return rng.pick(&cands).clone();
        }
    }
    if rng.chance(1, 2) {
        rng.pick(&fixed).to_string()
    } else {
        let n = rng.below(5) as usize;
        (0..n).map(|_| (0x21 + rng.below(0x5e)) as u8 as char).collect()
    }
}

pub fn gen_u(rng: &mut Rng, bits: u32) -> u128 {
    let max: u128 = if bits == 128 { u128::MAX } else { (1u128 << bits) - 1 };
    if bits == 32 && rng.chance(1, 30) {
        // the four bytes of a binary literal of the source under test, in either byte order
        let d = crate::dict::dict();
        let c: Vec<&Vec<u8>> = d.raw.iter().filter(|r| r.len() >= 4).collect();
        if !c.is_empty() {
            let r = *rng.pick(&c);
            let a = [r[0], r[1], r[2], r[3]];
            return if rng.bool() { u32::from_le_bytes(a) } else { u32::from_be_bytes(a) } as u128;
        }
    }
    match rng.below(6) {
        0 => 0,
        1 => 1,
        2 => max,
        3 => max / 2 + 1,
        4 => max / 2,
        _ => rng.u128() & max,
    }
}
pub fn gen_i(rng: &mut Rng, bits: u32) -> i128 {
    let u = gen_u(rng, bits);
    if bits == 128 {
        u as i128
    } else {
        // sign-extend
        let sh = 128 - bits;
        ((u << sh) as i128) >> sh
    }
}
pub fn gen_f32_bits(rng: &mut Rng) -> u32 {
    let specials = [
        0u32, 0x8000_0000, 1, 0x007f_ffff, 0x0080_0000, 0x7f7f_ffff, 0x7f80_0000, 0xff80_0000, 0x7fc0_0000, 0x7fa0_0000,
        0xffc0_0001, 0x7f80_0001, 0x3f80_0000, 0xbf80_0000, 0x3dcc_cccd, 0x3c23_d70a, 0x3fc0_0000,
    ];
    if rng.chance(1, 2) {
        *rng.pick(&specials)
    } else {
        rng.next() as u32
    }
}
pub fn gen_f64_bits(rng: &mut Rng) -> u64 {
    let specials = [
        0u64, 0x8000_0000_0000_0000, 1, 0x000f_ffff_ffff_ffff, 0x0010_0000_0000_0000, 0x7fef_ffff_ffff_ffff,
        0x7ff0_0000_0000_0000, 0xfff0_0000_0000_0000, 0x7ff8_0000_0000_0000, 0x7ff4_0000_0000_0000, 0xfff8_0000_0000_0001,
        0x7ff0_0000_0000_0001, 0x3ff0_0000_0000_0000,
    ];
    if rng.chance(1, 2) {
        *rng.pick(&specials)
    } else {
        rng.next()
    }
}

pub fn gen_coding(rng: &mut Rng) -> StringCoding {
    match rng.below(4) {
        0 => StringCoding::ASCII,
        1 => StringCoding::UTF8,
        _ => StringCoding::Reserved(rng.range(2, 7) as u8),
    }
}

pub fn gen_kind(rng: &mut Rng) -> TypeInfoKind {
    match rng.below(8) {
        0 => TypeInfoKind::Bool,
        1 => TypeInfoKind::Signed(*rng.pick(&ALL_TL)),
        2 => TypeInfoKind::SignedFixedPoint(*rng.pick(&ALL_FW)),
        3 => TypeInfoKind::Unsigned(*rng.pick(&ALL_TL)),
        4 => TypeInfoKind::UnsignedFixedPoint(*rng.pick(&ALL_FW)),
        5 => TypeInfoKind::Float(*rng.pick(&ALL_FW)),
        6 => TypeInfoKind::StringType,
        _ => TypeInfoKind::Raw,
    }
}

pub fn tl_bits(l: TypeLength) -> u32 {
    l as u32
}

pub fn uvalue(rng: &mut Rng, l: TypeLength) -> Value {
    let v = gen_u(rng, tl_bits(l));
    match l {
        TypeLength::BitLength8 => Value::U8(v as u8),
        TypeLength::BitLength16 => Value::U16(v as u16),
        TypeLength::BitLength32 => Value::U32(v as u32),
        TypeLength::BitLength64 => Value::U64(v as u64),
        TypeLength::BitLength128 => Value::U128(v),
    }
}
pub fn ivalue(rng: &mut Rng, l: TypeLength) -> Value {
    let v = gen_i(rng, tl_bits(l));
    match l {
        TypeLength::BitLength8 => Value::I8(v as i8),
        TypeLength::BitLength16 => Value::I16(v as i16),
        TypeLength::BitLength32 => Value::I32(v as i32),
        TypeLength::BitLength64 => Value::I64(v as i64),
        TypeLength::BitLength128 => Value::I128(v),
    }
}
pub fn fw_tl(w: FloatWidth) -> TypeLength {
    match w {
        FloatWidth::Width32 => TypeLength::BitLength32,
        FloatWidth::Width64 => TypeLength::BitLength64,
    }
}
pub fn gen_fp(rng: &mut Rng, w: FloatWidth) -> FixedPoint {
    FixedPoint {
        quantization: f32::from_bits(gen_f32_bits(rng)),
        offset: match w {
            FloatWidth::Width32 => FixedPointValue::I32(gen_i(rng, 32) as i32),
            FloatWidth::Width64 => FixedPointValue::I64(gen_i(rng, 64) as i64),
        },
    }
}

/// a well-formed argument of the given kind; `max_blob` bounds string/raw/name sizes
pub fn gen_arg_of(rng: &mut Rng, kind: TypeInfoKind, max_blob: usize) -> Argument {
    let vari = rng.chance(1, 3);
    let type_info = TypeInfo {
        kind: kind.clone(),
        coding: gen_coding(rng),
        has_variable_info: vari,
        has_trace_info: rng.chance(1, 5),
    };
    let name = if vari { Some(gen_text(rng, max_blob.min(40))) } else { None };
    let unit = if vari { Some(gen_text(rng, max_blob.min(12))) } else { None };
    let (value, fixed_point, unit) = match kind {
        TypeInfoKind::Bool => (Value::Bool(*rng.pick(&[0u8, 1, 1, 2, 0xff, 0x80])), None, None),
        TypeInfoKind::Signed(l) => (ivalue(rng, l), None, unit),
        TypeInfoKind::Unsigned(l) => (uvalue(rng, l), None, unit),
        TypeInfoKind::SignedFixedPoint(w) => (ivalue(rng, fw_tl(w)), Some(gen_fp(rng, w)), unit),
        TypeInfoKind::UnsignedFixedPoint(w) => (uvalue(rng, fw_tl(w)), Some(gen_fp(rng, w)), unit),
        TypeInfoKind::Float(FloatWidth::Width32) => (Value::F32(f32::from_bits(gen_f32_bits(rng))), None, unit),
        TypeInfoKind::Float(FloatWidth::Width64) => (Value::F64(f64::from_bits(gen_f64_bits(rng))), None, unit),
        TypeInfoKind::StringType => (Value::StringVal(gen_text(rng, max_blob)), None, None),
        TypeInfoKind::Raw => {
            let n = match rng.below(4) {
                0 => 0,
                1 => rng.below(8),
                _ => rng.below(max_blob as u64 + 1),
            } as usize;
            (Value::Raw(rng.bytes(n)), None, None)
        }
    };
    Argument {
        type_info,
        name,
        unit,
        fixed_point,
        value,
    }
}

pub fn gen_arg(rng: &mut Rng, max_blob: usize) -> Argument {
    let k = gen_kind(rng);
    gen_arg_of(rng, k, max_blob)
}

/// independent description of the encoded size of an argument (AUTOSAR layout)
pub fn spec_arg_len(a: &Argument) -> usize {
    let vari = a.type_info.has_variable_info;
    let nm = |o: &Option<String>| o.as_ref().map(|s| s.len()).unwrap_or(0);
    let mut n = 4;
    match a.type_info.kind {
        TypeInfoKind::Bool => {
            if vari {
                n += 2 + nm(&a.name) + 1;
            }
            n += 1;
        }
        TypeInfoKind::StringType => {
            n += 2;
            if vari {
                n += 2 + nm(&a.name) + 1;
            }
            if let Value::StringVal(s) = &a.value {
                n += s.len() + 1;
            }
        }
        TypeInfoKind::Raw => {
            n += 2;
            if vari {
                n += 2 + nm(&a.name) + 1;
            }
            if let Value::Raw(b) = &a.value {
                n += b.len();
            }
        }
        TypeInfoKind::Signed(l) | TypeInfoKind::Unsigned(l) => {
            if vari {
                n += 4 + nm(&a.name) + 1 + nm(&a.unit) + 1;
            }
            n += l as usize / 8;
        }
        TypeInfoKind::SignedFixedPoint(w) | TypeInfoKind::UnsignedFixedPoint(w) => {
            if vari {
                n += 4 + nm(&a.name) + 1 + nm(&a.unit) + 1;
            }
            n += 4 + w as usize / 8 + w as usize / 8;
        }
        TypeInfoKind::Float(w) => {
            if vari {
                n += 4 + nm(&a.name) + 1 + nm(&a.unit) + 1;
            }
            n += w as usize / 8;
        }
    }
    n
}

pub fn spec_payload_len(p: &PayloadContent) -> usize {
    match p {
        PayloadContent::Verbose(args) => args.iter().map(spec_arg_len).sum(),
        PayloadContent::NonVerbose(_, b) => 4 + b.len(),
        PayloadContent::ControlMsg(_, b) => 1 + b.len(),
        PayloadContent::NetworkTrace(s) => s.iter().map(|x| 6 + x.len()).sum(),
    }
}

pub fn gen_log_level(rng: &mut Rng) -> LogLevel {
    match rng.below(8) {
        0 => LogLevel::Fatal,
        1 => LogLevel::Error,
        2 => LogLevel::Warn,
        3 => LogLevel::Info,
        4 => LogLevel::Debug,
        5 => LogLevel::Verbose,
        _ => LogLevel::Invalid(*rng.pick(&[0u8, 7, 8, 9, 10, 11, 12, 13, 14, 15])),
    }
}
pub fn gen_control_type(rng: &mut Rng) -> ControlType {
    match rng.below(3) {
        0 => ControlType::Request,
        1 => ControlType::Response,
        _ => ControlType::Unknown(*rng.pick(&[0u8, 3, 4, 5, 7, 8, 15])),
    }
}
/// message type with canonical codes; `class`: 0 log, 1 app trace, 2 network trace, 3 control, 4 unknown
pub fn gen_mtype_of(rng: &mut Rng, class: u64) -> MessageType {
    match class {
        0 => MessageType::Log(gen_log_level(rng)),
        1 => MessageType::ApplicationTrace(match rng.below(6) {
            0 => ApplicationTraceType::Variable,
            1 => ApplicationTraceType::FunctionIn,
            2 => ApplicationTraceType::FunctionOut,
            3 => ApplicationTraceType::State,
            4 => ApplicationTraceType::Vfb,
            _ => ApplicationTraceType::Invalid(*rng.pick(&[0u8, 6, 7, 9, 15])),
        }),
        2 => MessageType::NetworkTrace(match rng.below(8) {
            0 => NetworkTraceType::Ipc,
            1 => NetworkTraceType::Can,
            2 => NetworkTraceType::Flexray,
            3 => NetworkTraceType::Most,
            4 => NetworkTraceType::Ethernet,
            5 => NetworkTraceType::Someip,
            6 => NetworkTraceType::Invalid,
            _ => NetworkTraceType::UserDefined(rng.range(7, 15) as u8),
        }),
        3 => MessageType::Control(gen_control_type(rng)),
        _ => MessageType::Unknown((rng.range(4, 7) as u8, rng.below(16) as u8)),
    }
}

#[derive(Clone, Copy, PartialEq, Debug)]
pub enum PKind {
    Verbose,
    NonVerbose,
    Control,
    NetworkTrace,
}

pub struct MsgOpts {
    pub storage: Option<bool>,
    pub kind: Option<PKind>,
    pub max_args: usize,
    pub max_blob: usize,
    /// make the overall length hit exactly this value if possible (boundary totals)
    pub target_total: Option<usize>,
    /// allow a message built around a source literal (these are often 20 KB long)
    pub dict: bool,
}
impl Default for MsgOpts {
    fn default() -> Self {
        MsgOpts {
            storage: None,
            kind: None,
            max_args: 6,
            max_blob: 40,
            target_total: None,
            dict: true,
        }
    }
}

pub fn gen_control_payload_id(rng: &mut Rng) -> ControlType {
    // the service-id byte of a control payload: from_value canonical form
    match rng.below(4) {
        0 => ControlType::Request,
        1 => ControlType::Response,
        _ => {
            let mut v = rng.next() as u8;
            if v == 1 || v == 2 {
                v = 0x11;
            }
            ControlType::Unknown(v)
        }
    }
}

/// a well-formed message (see coq/Spec/WellFormed.v for the same predicate on the model side)
pub fn gen_message(rng: &mut Rng, o: &MsgOpts) -> Message {
    // one message in 24 is built around a literal of the source under test (see dict.rs)
    if o.dict && o.target_total.is_none() && rng.chance(1, 24) {
        if let Some(m) = dict_message(rng, o, None) {
            return m;
        }
    }
    let kind = o.kind.unwrap_or_else(|| match rng.below(8) {
        0..=3 => PKind::Verbose,
        4 => PKind::NonVerbose,
        5 => PKind::Control,
        6 => PKind::NetworkTrace,
        _ => PKind::NonVerbose,
    });
    let endianness = if rng.bool() { Endianness::Big } else { Endianness::Little };
    let ecu_id = if rng.bool() { Some(gen_id(rng)) } else { None };
    let session_id = if rng.bool() { Some(gen_u(rng, 32) as u32) } else { None };
    let timestamp = if rng.bool() { Some(gen_u(rng, 32) as u32) } else { None };
    let has_ext = match kind {
        PKind::NonVerbose => rng.bool(),
        _ => true,
    };
    let hdr_len = 4 + ecu_id.is_some() as usize * 4 + session_id.is_some() as usize * 4 + timestamp.is_some() as usize * 4
        + has_ext as usize * 10;
    let budget = 65535 - hdr_len;
    let want_payload = o.target_total.map(|t| t.saturating_sub(hdr_len).min(budget));
    let mut payload = match kind {
        PKind::Verbose => {
            let n = match rng.below(10) {
                0 => 0,
                1 => 1,
                _ => rng.below(o.max_args as u64 + 1) as usize,
            };
            PayloadContent::Verbose((0..n).map(|_| gen_arg(rng, o.max_blob)).collect())
        }
        PKind::NonVerbose => {
            let n = if rng.chance(1, 4) { 0 } else { rng.below(o.max_blob as u64 + 1) as usize };
            PayloadContent::NonVerbose(gen_u(rng, 32) as u32, rng.bytes(n))
        }
        PKind::Control => {
            let n = if rng.chance(1, 4) { 0 } else { rng.below(o.max_blob as u64 + 1) as usize };
            PayloadContent::ControlMsg(gen_control_payload_id(rng), rng.bytes(n))
        }
        PKind::NetworkTrace => {
            let n = rng.below(o.max_args as u64 + 1) as usize;
            PayloadContent::NetworkTrace(
                (0..n)
                    .map(|_| {
                        let k = if rng.chance(1, 4) { 0 } else { rng.below(o.max_blob as u64 + 1) as usize };
                        rng.bytes(k)
                    })
                    .collect(),
            )
        }
    };
    // boundary totals: pad with a final blob so that the payload has exactly the wanted size
    if let Some(want) = want_payload {
        let cur = spec_payload_len(&payload);
        if want >= cur {
            let mut extra = want - cur;
            match &mut payload {
                PayloadContent::Verbose(args) => {
                    while extra >= 6 && args.len() < 255 {
                        let k = (extra - 6).min(65535);
                        args.push(Argument {
                            type_info: TypeInfo {
                                kind: TypeInfoKind::Raw,
                                coding: StringCoding::ASCII,
                                has_variable_info: false,
                                has_trace_info: false,
                            },
                            name: None,
                            unit: None,
                            fixed_point: None,
                            value: Value::Raw(rng.bytes(k)),
                        });
                        extra -= 6 + k;
                    }
                }
                PayloadContent::NonVerbose(_, b) | PayloadContent::ControlMsg(_, b) => {
                    let add = rng.bytes(extra);
                    b.extend_from_slice(&add);
                }
                PayloadContent::NetworkTrace(s) => {
                    while extra >= 6 && s.len() < 255 {
                        let k = (extra - 6).min(65535);
                        s.push(rng.bytes(k));
                        extra -= 6 + k;
                    }
                }
            }
        }
    }
    // trim to the 16-bit length field and to 255 arguments
    loop {
        let too_long = spec_payload_len(&payload) > budget;
        match &mut payload {
            PayloadContent::Verbose(args) => {
                if too_long || args.len() > 255 {
                    args.pop();
                    continue;
                }
            }
            PayloadContent::NetworkTrace(s) => {
                if too_long || s.len() > 255 {
                    s.pop();
                    continue;
                }
            }
            PayloadContent::NonVerbose(_, b) | PayloadContent::ControlMsg(_, b) => {
                if too_long {
                    b.truncate(budget - 4);
                    continue;
                }
            }
        }
        break;
    }
    let payload_length = spec_payload_len(&payload) as u16;
    let extended_header = if has_ext {
        let (verbose, argument_count, message_type) = match &payload {
            PayloadContent::Verbose(args) => {
                let c = *rng.pick(&[0u64, 0, 0, 1, 3, 4]);
                (true, args.len() as u8, gen_mtype_of(rng, c))
            }
            PayloadContent::NetworkTrace(s) => (true, s.len() as u8, gen_mtype_of(rng, 2)),
            PayloadContent::ControlMsg(..) => (false, rng.next() as u8, gen_mtype_of(rng, 3)),
            PayloadContent::NonVerbose(..) => {
                let c = *rng.pick(&[0u64, 0, 1, 2, 4]);
                (false, rng.next() as u8, gen_mtype_of(rng, c))
            }
        };
        Some(ExtendedHeader {
            verbose,
            argument_count,
            message_type,
            application_id: gen_id(rng),
            context_id: gen_id(rng),
        })
    } else {
        None
    };
    let with_storage = o.storage.unwrap_or_else(|| rng.bool());
    let storage_header = if with_storage {
        Some(StorageHeader {
            timestamp: DltTimeStamp {
                seconds: gen_u(rng, 32) as u32,
                microseconds: gen_u(rng, 32) as u32,
            },
            ecu_id: gen_id(rng),
        })
    } else {
        None
    };
    let mut m = Message {
        storage_header,
        header: StandardHeader {
            version: rng.below(8) as u8,
            endianness,
            has_extended_header: has_ext,
            message_counter: rng.next() as u8,
            ecu_id,
            session_id,
            timestamp,
            payload_length,
        },
        extended_header,
        payload,
    };
    relate_fields(rng, &mut m);
    m
}

/// Relations between fields that independent choices (almost) never produce: a 32-bit header field holding the very
/// bytes of an id of the same message, the same id in several places, a storage header that is all zero.
pub fn relate_fields(rng: &mut Rng, m: &mut Message) {
    if !rng.chance(1, 12) {
        return;
    }
    let as_u32 = |id: &str| -> Option<u32> {
        let b = id.as_bytes();
        if b.len() == 4 { Some(u32::from_be_bytes([b[0], b[1], b[2], b[3]])) } else { None }
    };
    match rng.below(6) {
        0 | 1 => {
            // session id / timestamp = the bytes of the storage (or extended-header) id; no ECU id in the header
            let src = match (&m.storage_header, &m.extended_header) {
                (Some(sh), _) if sh.ecu_id.len() == 4 => Some(sh.ecu_id.clone()),
                (Some(_), _) => {
                    if let Some(sh) = &mut m.storage_header {
                        sh.ecu_id = "ECU1".into();
                    }
                    Some("ECU1".to_string())
                }
                (None, Some(x)) if x.application_id.len() == 4 => Some(x.application_id.clone()),
                _ => None,
            };
            if let Some(v) = src.as_deref().and_then(as_u32) {
                // (never makes the message longer: the total may sit at the 16-bit limit)
                let had_ecu = m.header.ecu_id.take().is_some();
                if m.header.session_id.is_some() {
                    m.header.session_id = Some(v);
                } else if m.header.timestamp.is_some() {
                    m.header.timestamp = Some(v);
                } else if had_ecu {
                    m.header.session_id = Some(v);
                }
            }
        }
        2 => {
            // one id everywhere
            let id = m.storage_header.as_ref().map(|s| s.ecu_id.clone()).unwrap_or_else(|| "SAME".into());
            if m.header.ecu_id.is_some() {
                m.header.ecu_id = Some(id.clone());
            }
            if let Some(x) = &mut m.extended_header {
                x.application_id = id.clone();
                x.context_id = id;
            }
        }
        3 | 4 => {
            // a blank storage header (a pre-allocated or zero-filled record)
            if let Some(sh) = &mut m.storage_header {
                sh.timestamp = DltTimeStamp { seconds: 0, microseconds: 0 };
                sh.ecu_id = String::new();
            }
        }
        _ => {
            // all-ones neighbours
            if m.header.session_id.is_some() {
                m.header.session_id = Some(u32::MAX);
            }
            if m.header.timestamp.is_some() {
                m.header.timestamp = Some(u32::MAX);
            }
            m.header.message_counter = 0xff;
        }
    }
}

/// A well-formed non-verbose message whose first four serialised bytes (header type, counter, length) are the
/// first bytes of a literal of the source under test; `which` selects the literal (None = random).
pub fn dict_message(rng: &mut Rng, o: &MsgOpts, which: Option<usize>) -> Option<Message> {
    let d = crate::dict::dict();
    if d.bytes.is_empty() {
        return None;
    }
    if !matches!(o.kind, None | Some(PKind::NonVerbose)) {
        return None;
    }
    let e = match which {
        Some(k) => &d.bytes[k % d.bytes.len()],
        None if !d.raw.is_empty() && rng.bool() => &d.raw[rng.below(d.raw.len() as u64) as usize],
        None => &d.bytes[rng.below(d.bytes.len() as u64) as usize],
    };
    let mut h = [0u8; 4];
    for k in 0..4 {
        h[k] = if k < e.len() { e[k] } else { rng.next() as u8 };
    }
    if e.len() < 3 {
        h[2] = 0;
    }
    let htyp = h[0];
    let has_ext = htyp & 1 != 0;
    let endianness = if htyp & 2 != 0 { Endianness::Big } else { Endianness::Little };
    let ecu_id = if htyp & 4 != 0 { Some(gen_id(rng)) } else { None };
    let session_id = if htyp & 8 != 0 { Some(gen_u(rng, 32) as u32) } else { None };
    let timestamp = if htyp & 0x10 != 0 { Some(gen_u(rng, 32) as u32) } else { None };
    let hdr_len = 4 + ecu_id.is_some() as usize * 4 + session_id.is_some() as usize * 4 + timestamp.is_some() as usize * 4
        + has_ext as usize * 10;
    let len = ((h[2] as usize) << 8) | h[3] as usize;
    if len < hdr_len + 4 {
        return None;
    }
    let n = len - hdr_len - 4;
    let body = if rng.bool() { vec![rng.next() as u8; n] } else { rng.bytes(n) };
    let payload = PayloadContent::NonVerbose(gen_u(rng, 32) as u32, body);
    let extended_header = if has_ext {
        let c = *rng.pick(&[0u64, 0, 1, 2, 4]);
        Some(ExtendedHeader {
            verbose: false,
            argument_count: rng.next() as u8,
            message_type: gen_mtype_of(rng, c),
            application_id: gen_id(rng),
            context_id: gen_id(rng),
        })
    } else {
        None
    };
    let with_storage = o.storage.unwrap_or_else(|| rng.bool());
    let storage_header = if with_storage {
        Some(StorageHeader {
            timestamp: DltTimeStamp { seconds: gen_u(rng, 32) as u32, microseconds: gen_u(rng, 32) as u32 },
            ecu_id: gen_id(rng),
        })
    } else {
        None
    };
    Some(Message {
        storage_header,
        header: StandardHeader {
            version: htyp >> 5,
            endianness,
            has_extended_header: has_ext,
            message_counter: h[1],
            ecu_id,
            session_id,
            timestamp,
            payload_length: (len - hdr_len) as u16,
        },
        extended_header,
        payload,
    })
}

/// every literal of the dictionary once (deterministic part of the generators)
pub fn dict_messages(rng: &mut Rng, o: &MsgOpts) -> Vec<Message> {
    let n = crate::dict::dict().bytes.len();
    (0..n).filter_map(|k| dict_message(rng, o, Some(k))).collect()
}

pub fn gen_suffix(rng: &mut Rng) -> Vec<u8> {
    match rng.below(8) {
        0 | 1 => vec![],
        2 => rng.bytes(1),
        3 => vec![0x44, 0x4c, 0x54, 0x01][..1 + rng.below(4) as usize].to_vec(), // the pattern or a proper prefix of it
        4 => {
            let m = gen_message(rng, &MsgOpts::default());
            m.as_bytes()
        }
        5 => vec![0xff; rng.below(40) as usize],
        _ => {
            let n = rng.below(64) as usize;
            rng.bytes(n)
        }
    }
}

/// hostile variants of a well-formed encoding
pub fn mutate(rng: &mut Rng, bs: &[u8]) -> Vec<u8> {
    let mut v = bs.to_vec();
    if v.is_empty() {
        return rng.bytes(8);
    }
    let n = 1 + rng.below(3);
    for _ in 0..n {
        if v.is_empty() {
            break;
        }
        let i = rng.below(v.len() as u64) as usize;
        match rng.below(9) {
            0 => v[i] ^= 1 << rng.below(8),
            1 => v[i] = rng.next() as u8,
            2 => {
                v.remove(i);
            }
            3 => v.insert(i, rng.next() as u8),
            4 => v.truncate(i),
            5 => {
                // corrupt a 16-bit quantity
                if i + 1 < v.len() {
                    let x = *rng.pick(&[0u16, 1, 2, 3, 4, 0xffff, 0xfffe, 0x8000, 0x00ff, 0xff00]);
                    v[i] = (x >> 8) as u8;
                    v[i + 1] = x as u8;
                }
            }
            6 => {
                let k = rng.below(6) as usize;
                let extra = rng.bytes(k);
                v.extend_from_slice(&extra);
            }
            7 => v[i] = 0,
            _ => v[i] = *rng.pick(&[0x00u8, 0x01, 0x7f, 0x80, 0xc0, 0xe0, 0xf0, 0xff, 0x44]),
        }
    }
    v
}

// ------------------------------------------------------------------ well-formedness (mirror of coq/Spec/WellFormed.v)
pub fn wf_id(s: &str) -> bool {
    s.len() <= 4 && !s.as_bytes().contains(&0)
}
pub fn wf_text(s: &str) -> bool {
    s.len() <= 65534 && !s.as_bytes().contains(&0)
}
pub fn wf_mtype(t: &MessageType) -> bool {
    match t {
        MessageType::Log(LogLevel::Invalid(v)) => *v < 16 && (*v == 0 || *v >= 7),
        MessageType::ApplicationTrace(ApplicationTraceType::Invalid(n)) => *n < 16 && (*n == 0 || *n >= 6),
        MessageType::NetworkTrace(NetworkTraceType::UserDefined(n)) => *n >= 7 && *n < 16,
        MessageType::Control(ControlType::Unknown(n)) => *n < 16 && (*n == 0 || *n >= 3),
        MessageType::Unknown((a, b)) => *a >= 4 && *a < 8 && *b < 16,
        _ => true,
    }
}
pub fn wf_arg(a: &Argument) -> bool {
    let t = &a.type_info;
    let vari = t.has_variable_info;
    let name_only = a.name.is_some() == vari && a.unit.is_none() && a.name.as_ref().map(|s| wf_text(s)).unwrap_or(true);
    let name_unit = a.name.is_some() == vari
        && a.unit.is_some() == vari
        && a.name.as_ref().map(|s| wf_text(s)).unwrap_or(true)
        && a.unit.as_ref().map(|s| wf_text(s)).unwrap_or(true);
    let coding_ok = match t.coding {
        StringCoding::Reserved(v) => (2..=7).contains(&v),
        _ => true,
    };
    let fp_ok = |w: FloatWidth| match (&a.fixed_point, w) {
        (Some(FixedPoint { offset: FixedPointValue::I32(_), .. }), FloatWidth::Width32) => true,
        (Some(FixedPoint { offset: FixedPointValue::I64(_), .. }), FloatWidth::Width64) => true,
        _ => false,
    };
    let sval = |l: TypeLength| {
        matches!(
            (l, &a.value),
            (TypeLength::BitLength8, Value::I8(_))
                | (TypeLength::BitLength16, Value::I16(_))
                | (TypeLength::BitLength32, Value::I32(_))
                | (TypeLength::BitLength64, Value::I64(_))
                | (TypeLength::BitLength128, Value::I128(_))
        )
    };
    let uval = |l: TypeLength| {
        matches!(
            (l, &a.value),
            (TypeLength::BitLength8, Value::U8(_))
                | (TypeLength::BitLength16, Value::U16(_))
                | (TypeLength::BitLength32, Value::U32(_))
                | (TypeLength::BitLength64, Value::U64(_))
                | (TypeLength::BitLength128, Value::U128(_))
        )
    };
    coding_ok
        && match t.kind {
            TypeInfoKind::Bool => name_only && a.fixed_point.is_none() && matches!(a.value, Value::Bool(_)),
            TypeInfoKind::Signed(l) => name_unit && a.fixed_point.is_none() && sval(l),
            TypeInfoKind::Unsigned(l) => name_unit && a.fixed_point.is_none() && uval(l),
            TypeInfoKind::SignedFixedPoint(w) => name_unit && fp_ok(w) && sval(fw_tl(w)),
            TypeInfoKind::UnsignedFixedPoint(w) => name_unit && fp_ok(w) && uval(fw_tl(w)),
            TypeInfoKind::Float(FloatWidth::Width32) => name_unit && a.fixed_point.is_none() && matches!(a.value, Value::F32(_)),
            TypeInfoKind::Float(FloatWidth::Width64) => name_unit && a.fixed_point.is_none() && matches!(a.value, Value::F64(_)),
            TypeInfoKind::StringType => {
                name_only && a.fixed_point.is_none() && matches!(&a.value, Value::StringVal(s) if wf_text(s))
            }
            TypeInfoKind::Raw => name_only && a.fixed_point.is_none() && matches!(&a.value, Value::Raw(b) if b.len() <= 65535),
        }
}
pub fn wf_message(m: &Message) -> bool {
    let h = &m.header;
    let storage_ok = m.storage_header.as_ref().map(|s| wf_id(&s.ecu_id)).unwrap_or(true);
    let std_ok = h.version < 8 && h.ecu_id.as_ref().map(|s| wf_id(s)).unwrap_or(true);
    let ueh_ok = h.has_extended_header == m.extended_header.is_some();
    let ext_ok = m
        .extended_header
        .as_ref()
        .map(|x| wf_mtype(&x.message_type) && wf_id(&x.application_id) && wf_id(&x.context_id))
        .unwrap_or(true);
    let is_nw = |x: &ExtendedHeader| matches!(x.message_type, MessageType::NetworkTrace(_));
    let is_ctrl = |x: &ExtendedHeader| matches!(x.message_type, MessageType::Control(_));
    let kind_ok = match (&m.payload, &m.extended_header) {
        (PayloadContent::Verbose(args), Some(x)) => {
            x.verbose && x.argument_count as usize == args.len() && args.len() <= 255 && !is_nw(x) && args.iter().all(wf_arg)
        }
        (PayloadContent::NetworkTrace(sl), Some(x)) => {
            x.verbose && x.argument_count as usize == sl.len() && sl.len() <= 255 && is_nw(x) && sl.iter().all(|s| s.len() <= 65535)
        }
        (PayloadContent::ControlMsg(ct, _), Some(x)) => {
            !x.verbose && is_ctrl(x) && !matches!(ct, ControlType::Unknown(1) | ControlType::Unknown(2))
        }
        (PayloadContent::NonVerbose(..), Some(x)) => !x.verbose && !is_ctrl(x),
        (PayloadContent::NonVerbose(..), None) => true,
        (_, None) => false,
    };
    let hdr_len = 4 + h.ecu_id.is_some() as usize * 4 + h.session_id.is_some() as usize * 4 + h.timestamp.is_some() as usize * 4
        + h.has_extended_header as usize * 10;
    let plen = spec_payload_len(&m.payload);
    let len_ok = h.payload_length as usize == plen && hdr_len + plen <= 65535;
    storage_ok && std_ok && ueh_ok && ext_ok && kind_ok && len_ok
}
