//! Compound operations (round trips, prefixes, junk, filters, stability).
use crate::ops::*;
use crate::oracles::*;
use crate::wire::*;
use dlt_core::dlt::*;
use dlt_core::filtering::{DltFilterConfig, ProcessedDltFilterConfig};
use dlt_core::parse::*;
use std::panic::{catch_unwind, AssertUnwindSafe};

fn guarded<T>(f: impl FnOnce() -> T) -> Option<T> {
    catch_unwind(AssertUnwindSafe(f)).ok()
}

pub fn msg_toks(m: &Message) -> Vec<Tok> {
    let mut w = W::new();
    w.msg(m);
    w.0
}

type PResult = Option<Result<(usize, ParsedMessage), DltParseError>>;

pub fn parse_owned(bs: &[u8], f: Option<&ProcessedDltFilterConfig>, sh: bool) -> PResult {
    guarded(|| dlt_message(bs, f, sh).map(|(rest, pm)| (rest.len(), pm)))
}

pub fn w_presult(w: &mut W, r: &PResult) {
    match r {
        None => w.n(4),
        Some(Ok((rest_len, pm))) => {
            w.n(0);
            w_parsed(w, pm);
            w.n(*rest_len as u128);
        }
        Some(Err(e)) => w_parse_err(w, e),
    }
}

fn op_rt(toks: &[Tok], prop: &str) -> Outcome {
    let mut r = R::new(toks);
    let m = r.msg();
    let suffix = r.b();
    let mut w = W::new();
    let mut oracle = vec![];
    let wf = crate::genmsg::wf_message(&m);
    w.bool(wf);
    let prop = if wf { prop } else { "" };
    match guarded(|| m.as_bytes()) {
        None => {
            w.n(1);
            if prop == "C01" {
                oracle.push(("no_panic".into(), "as_bytes panicked on a well-formed message".into()));
            }
        }
        Some(bytes) => {
            w.n(0);
            w.b(&bytes);
            let mut buf = bytes.clone();
            buf.extend_from_slice(&suffix);
            let res = parse_owned(&buf, None, m.storage_header.is_some());
            w_presult(&mut w, &res);
            if prop == "C01" {
                match &res {
                    Some(Ok((rest_len, ParsedMessage::Item(m2)))) => {
                        if msg_toks(m2) != msg_toks(&m) {
                            oracle.push(("roundtrip_equal".into(), format!("parsed message differs: {}", diff_msgs(&m, m2))));
                        }
                        if *rest_len != suffix.len() {
                            oracle.push(("remainder_exact".into(), format!("rest has {} bytes, {} followed the message", rest_len, suffix.len())));
                        }
                    }
                    other => oracle.push(("roundtrip_equal".into(), format!("no message: {}", short_res(other)))),
                }
            }
        }
    }
    Outcome { result: w.0, oracle }
}

pub fn short_res(r: &PResult) -> String {
    match r {
        None => "panic".into(),
        Some(Ok((rl, ParsedMessage::Item(_)))) => format!("Item, rest {}", rl),
        Some(Ok((rl, ParsedMessage::FilteredOut(n)))) => format!("FilteredOut({}), rest {}", n, rl),
        Some(Ok((rl, ParsedMessage::Invalid))) => format!("Invalid, rest {}", rl),
        Some(Err(e)) => format!("{:?}", e),
    }
}

pub fn diff_msgs(a: &Message, b: &Message) -> String {
    if msg_toks(&Message { payload: PayloadContent::Verbose(vec![]), ..a.clone() })
        != msg_toks(&Message { payload: PayloadContent::Verbose(vec![]), ..b.clone() })
    {
        return format!("headers {:?}/{:?}/{:?} vs {:?}/{:?}/{:?}", a.storage_header, a.header, a.extended_header, b.storage_header, b.header, b.extended_header);
    }
    let s = format!("payload {:?} vs {:?}", a.payload, b.payload);
    s.chars().take(400).collect()
}

fn op_parse_use(toks: &[Tok], prop: &str) -> Outcome {
    let mut r = R::new(toks);
    let sh = r.bool();
    let f = r.opt_filter();
    let bs = r.b();
    let pf: Option<ProcessedDltFilterConfig> = f.as_ref().map(|c| c.into());
    let mut w = W::new();
    let mut oracle = vec![];
    let res = parse_owned(&bs, pf.as_ref(), sh);
    match &res {
        None => {
            w.n(9);
            oracle.push(("no_panic".into(), "dlt_message panicked".into()));
        }
        Some(Ok((_, ParsedMessage::Item(m)))) => {
            w.n(0);
            let ser = guarded(|| (m.as_bytes().len(), m.byte_len())).is_some();
            let mut args_ok = true;
            let mut all_valid = true;
            if let PayloadContent::Verbose(args) = &m.payload {
                for a in args {
                    let l = guarded(|| a.len());
                    let b1 = guarded(|| arg_as_bytes(Endianness::Big, a).len());
                    let b2 = guarded(|| arg_as_bytes(Endianness::Little, a).len());
                    let v = guarded(|| a.valid());
                    if l.is_none() || b1.is_none() || b2.is_none() || v.is_none() {
                        args_ok = false;
                    }
                    if v != Some(true) {
                        all_valid = false;
                    }
                }
            }
            w.n(!(ser && args_ok) as u128);
            w.n(all_valid as u128);
            if !ser {
                oracle.push(("result_serialisable".into(), "Message::as_bytes/byte_len panicked on a parser result".into()));
            }
            if !args_ok {
                oracle.push(("result_serialisable".into(), "Argument::len/as_bytes/valid panicked on a parser result".into()));
            }
            if !all_valid {
                oracle.push(("result_args_valid".into(), "an argument of a parser result fails Argument::valid".into()));
            }
        }
        Some(Ok((_, ParsedMessage::FilteredOut(_)))) => w.n(1),
        Some(Ok((_, ParsedMessage::Invalid))) => w.n(2),
        Some(Err(DltParseError::IncompleteParse { .. })) => w.n(3),
        Some(Err(DltParseError::ParsingHickup(_))) => w.n(4),
        Some(Err(DltParseError::Unrecoverable(_))) => w.n(5),
    }
    if prop != "C03" {
        oracle.clear();
    }
    Outcome { result: w.0, oracle }
}

fn prefix_code(r: &PResult) -> u128 {
    match r {
        None => 16777219,
        Some(Ok(_)) => 16777216,
        Some(Err(DltParseError::IncompleteParse { needed: None })) => 0,
        Some(Err(DltParseError::IncompleteParse { needed: Some(n) })) => n.get() as u128,
        Some(Err(DltParseError::ParsingHickup(_))) => 16777217,
        Some(Err(DltParseError::Unrecoverable(_))) => 16777218,
    }
}

fn op_prefix(toks: &[Tok], prop: &str) -> Outcome {
    let mut r = R::new(toks);
    let m = r.msg();
    let f = r.opt_filter();
    prefix_run(m, f, None, prop)
}

/// 31 PREFIX_AT: the same at selected cut positions (boundary-size messages, where every cut is unaffordable)
fn op_prefix_at(toks: &[Tok], prop: &str) -> Outcome {
    let mut r = R::new(toks);
    let m = r.msg();
    let f = r.opt_filter();
    let n = r.n();
    let cuts: Vec<usize> = (0..n).map(|_| r.n() as usize).collect();
    prefix_run(m, f, Some(cuts), prop)
}

fn prefix_run(m: Message, f: Option<dlt_core::filtering::DltFilterConfig>, cuts: Option<Vec<usize>>, prop: &str) -> Outcome {
    let pf: Option<ProcessedDltFilterConfig> = f.as_ref().map(|c| c.into());
    let mut w = W::new();
    let wf = crate::genmsg::wf_message(&m);
    let prop = if wf { prop } else { "" };
    let mut oracle = vec![];
    w.bool(wf);
    match guarded(|| m.as_bytes()) {
        None => w.n(1),
        Some(bytes) => {
            w.n(0);
            w.n(bytes.len() as u128);
            let sh = m.storage_header.is_some();
            let cut_list: Vec<usize> = match &cuts {
                None => (0..bytes.len()).collect(),
                Some(c) => c.iter().cloned().filter(|k| *k < bytes.len()).collect(),
            };
            for &k in &cut_list {
                let res = parse_owned(&bytes[..k], pf.as_ref(), sh);
                let code = prefix_code(&res);
                w.n(code);
                if prop == "C05" {
                    let missing = (bytes.len() - k) as u128;
                    if code >= 16777216 {
                        oracle.push(("prefix_incomplete".into(), format!("cut at {} of {}: {}", k, bytes.len(), short_res(&res))));
                    } else if code != 0 && code > missing {
                        oracle.push(("hint_le_missing".into(), format!("cut at {} of {}: needed {} > missing {}", k, bytes.len(), code, missing)));
                    }
                }
            }
            if sh {
                for &k in &cut_list {
                    let res = guarded(|| dlt_consume_msg(&bytes[..k]).map(|(rest, c)| (rest.len(), c)));
                    let code = match &res {
                        None => 16777219,
                        Some(Ok((_, None))) => 16777220,
                        Some(Ok((_, Some(_)))) => 16777216,
                        Some(Err(DltParseError::IncompleteParse { needed: None })) => 0,
                        Some(Err(DltParseError::IncompleteParse { needed: Some(n) })) => n.get() as u128,
                        Some(Err(DltParseError::ParsingHickup(_))) => 16777217,
                        Some(Err(DltParseError::Unrecoverable(_))) => 16777218,
                    };
                    w.n(code);
                    if prop == "C05" {
                        let missing = (bytes.len() - k) as u128;
                        if k == 0 {
                            if code != 16777220 {
                                oracle.push(("skipper_empty_is_none".into(), format!("empty input: code {}", code)));
                            }
                        } else if code >= 16777216 {
                            oracle.push(("skipper_prefix_incomplete".into(), format!("cut at {} of {}: {:?}", k, bytes.len(), res)));
                        } else if code != 0 && code > missing {
                            oracle.push(("skipper_hint_le_missing".into(), format!("cut at {} of {}: needed {} > missing {}", k, bytes.len(), code, missing)));
                        }
                    }
                }
            }
        }
    }
    oracle.truncate(3);
    Outcome { result: w.0, oracle }
}

fn op_junk(toks: &[Tok], prop: &str) -> Outcome {
    let mut r = R::new(toks);
    let junk = r.b();
    let m = r.msg();
    let rest = r.b();
    let f = r.opt_filter();
    let pf: Option<ProcessedDltFilterConfig> = f.as_ref().map(|c| c.into());
    let mut w = W::new();
    let wf = crate::genmsg::wf_message(&m);
    let prop = if wf { prop } else { "" };
    let mut oracle = vec![];
    w.bool(wf);
    match guarded(|| m.as_bytes()) {
        None => w.n(1),
        Some(bytes) => {
            w.n(0);
            let mut with_junk = junk.clone();
            with_junk.extend_from_slice(&bytes);
            with_junk.extend_from_slice(&rest);
            let mut plain = bytes.clone();
            plain.extend_from_slice(&rest);
            let a = parse_owned(&with_junk, pf.as_ref(), true);
            let b = parse_owned(&plain, pf.as_ref(), true);
            w_presult(&mut w, &a);
            w_presult(&mut w, &b);
            if prop == "C06" {
                let mut wa = W::new();
                w_presult(&mut wa, &a);
                let mut wb = W::new();
                w_presult(&mut wb, &b);
                if wa.0 != wb.0 {
                    oracle.push(("junk_skipped".into(), format!("with junk: {}; without: {}", short_res(&a), short_res(&b))));
                }
                if f.is_none() {
                    match &b {
                        Some(Ok((rl, ParsedMessage::Item(m2)))) if msg_toks(m2) == msg_toks(&m) && *rl == rest.len() => {}
                        other => oracle.push(("message_recovered".into(), format!("plain parse: {}", short_res(other)))),
                    }
                }
            }
        }
    }
    Outcome { result: w.0, oracle }
}

fn op_parse_all(toks: &[Tok], prop: &str) -> Outcome {
    let mut r = R::new(toks);
    let sh = r.bool();
    let f = r.opt_filter();
    let bs = r.b();
    let pf: Option<ProcessedDltFilterConfig> = f.as_ref().map(|c| c.into());
    let mut w = W::new();
    let mut oracle = vec![];
    let res = guarded(|| {
        let mut out = vec![];
        let mut input: &[u8] = &bs;
        let mut stuck = false;
        loop {
            match dlt_message(input, pf.as_ref(), sh) {
                Ok((rest, pm)) => {
                    if rest.len() >= input.len() {
                        stuck = true;
                        out.push(pm);
                        break;
                    }
                    out.push(pm);
                    input = rest;
                }
                Err(_) => break,
            }
        }
        (out, input.len(), stuck)
    });
    match &res {
        None => w.n(4),
        Some((l, rest_len, stuck)) => {
            w.n(l.len() as u128);
            for pm in l {
                w_parsed(&mut w, pm);
            }
            w.n(*rest_len as u128);
            if *stuck && (prop == "C04" || prop == "C06") {
                oracle.push(("progress".into(), "a successful parse did not consume anything".into()));
            }
        }
    }
    // C06 stream oracle: the expected messages travel in the case as a comment-free second field? no —
    // the generator for C06 uses op 29 below, which carries the expected messages.
    Outcome { result: w.0, oracle }
}

/// 29 STREAMJ: junk0, (msg, junk)*, parse all with storage headers; expected = the messages
fn op_streamj(toks: &[Tok], prop: &str) -> Outcome {
    let mut r = R::new(toks);
    let j0 = r.b();
    let n = r.n();
    let mut buf = j0.clone();
    let mut msgs = vec![];
    let mut w = W::new();
    let mut oracle = vec![];
    for _ in 0..n {
        let m = r.msg();
        let j = r.b();
        match guarded(|| m.as_bytes()) {
            Some(b) => buf.extend_from_slice(&b),
            None => {
                w.n(1);
                return Outcome { result: w.0, oracle };
            }
        }
        buf.extend_from_slice(&j);
        msgs.push(m);
    }
    w.n(0);
    let res = guarded(|| {
        let mut out = vec![];
        let mut input: &[u8] = &buf;
        loop {
            match dlt_message(input, None, true) {
                Ok((rest, pm)) => {
                    out.push(pm);
                    if rest.len() >= input.len() {
                        break;
                    }
                    input = rest;
                }
                Err(_) => break,
            }
        }
        (out, input.len())
    });
    match &res {
        None => w.n(4),
        Some((l, rest_len)) => {
            w.n(l.len() as u128);
            for pm in l {
                w_parsed(&mut w, pm);
            }
            w.n(*rest_len as u128);
            if prop == "C06" {
                let got: Vec<Vec<Tok>> = l
                    .iter()
                    .filter_map(|pm| match pm {
                        ParsedMessage::Item(m) => Some(msg_toks(m)),
                        _ => None,
                    })
                    .collect();
                let want: Vec<Vec<Tok>> = msgs.iter().map(msg_toks).collect();
                if got != want || got.len() != l.len() {
                    oracle.push(("stream_recovered".into(), format!("recovered {} of {} messages in order", got.len(), want.len())));
                }
            }
        }
    }
    Outcome { result: w.0, oracle }
}

fn op_filt(toks: &[Tok], prop: &str) -> Outcome {
    let mut r = R::new(toks);
    let m = r.msg();
    let f = r.filter();
    let suffix = r.b();
    let mut w = W::new();
    let wf = crate::genmsg::wf_message(&m);
    let prop = if wf { prop } else { "" };
    let mut oracle = vec![];
    w.bool(wf);
    match guarded(|| m.as_bytes()) {
        None => w.n(1),
        Some(bytes) => {
            w.n(0);
            let mut buf = bytes.clone();
            buf.extend_from_slice(&suffix);
            let pf: ProcessedDltFilterConfig = (&f).into();
            let sh = m.storage_header.is_some();
            let res = parse_owned(&buf, Some(&pf), sh);
            w_presult(&mut w, &res);
            if prop == "C09" {
                filter_oracle(&m, &f, &buf, suffix.len(), sh, &res, &mut oracle);
            }
        }
    }
    Outcome { result: w.0, oracle }
}

/// 30 FILT_HAND: like 26, but the processed configuration's minimum level is set by hand (this is the only
/// way to an `Invalid` minimum; the conversions never produce one)
fn op_filt_hand(toks: &[Tok], prop: &str) -> Outcome {
    let mut r = R::new(toks);
    let m = r.msg();
    let f = r.filter();
    let forced = if r.n() == 0 { None } else { Some(r.log_level()) };
    let suffix = r.b();
    let mut w = W::new();
    let wf = crate::genmsg::wf_message(&m);
    let mut oracle = vec![];
    w.bool(wf);
    match guarded(|| m.as_bytes()) {
        None => w.n(1),
        Some(bytes) => {
            w.n(0);
            let mut buf = bytes.clone();
            buf.extend_from_slice(&suffix);
            let mut pf: ProcessedDltFilterConfig = (&f).into();
            pf.min_log_level = forced;
            let sh = m.storage_header.is_some();
            let res = parse_owned(&buf, Some(&pf), sh);
            w_presult(&mut w, &res);
            // the level table of the property for hand-built configurations, when no other criterion is configured
            if prop == "C09" && wf && f.app_ids.is_none() && f.context_ids.is_none() && f.ecu_ids.is_none() {
                let num = |l: &LogLevel| match l {
                    LogLevel::Fatal => Some(1u8),
                    LogLevel::Error => Some(2),
                    LogLevel::Warn => Some(3),
                    LogLevel::Info => Some(4),
                    LogLevel::Debug => Some(5),
                    LogLevel::Verbose => Some(6),
                    LogLevel::Invalid(_) => None,
                };
                let want_drop = match (m.extended_header.as_ref().map(|x| &x.message_type), &forced) {
                    (Some(MessageType::Log(n)), Some(min)) => match (num(n), num(min)) {
                        (Some(a), Some(b)) => b < a,
                        (Some(_), None) => true,
                        (None, Some(_)) => false,
                        (None, None) => match (n, min) {
                            (LogLevel::Invalid(a), LogLevel::Invalid(b)) => a < b,
                            _ => false,
                        },
                    },
                    _ => false,
                };
                let dropped = matches!(&res, Some(Ok((_, ParsedMessage::FilteredOut(_)))));
                let kept = matches!(&res, Some(Ok((_, ParsedMessage::Item(_)))));
                if (want_drop && !dropped) || (!want_drop && !kept) {
                    oracle.push(("hand_built_level_table".into(), format!("minimum {:?}: expected {}", forced, if want_drop { "dropped" } else { "kept" })));
                }
            }
        }
    }
    Outcome { result: w.0, oracle }
}

fn op_filtercfg(toks: &[Tok], prop: &str) -> Outcome {
    let mut r = R::new(toks);
    let f = r.filter();
    let mut w = W::new();
    let mut oracle = vec![];
    let a: ProcessedDltFilterConfig = (&f).into();
    let b: ProcessedDltFilterConfig = f.clone().into();
    let canon = |p: &ProcessedDltFilterConfig, w: &mut W| {
        match &p.min_log_level {
            Some(l) => {
                w.n(1);
                w.log_level(l)
            }
            None => w.n(0),
        }
        for s in [&p.app_ids, &p.ecu_ids, &p.context_ids] {
            match s {
                Some(set) => {
                    let mut v: Vec<&String> = set.iter().collect();
                    v.sort();
                    w.n(1);
                    w.n(v.len() as u128);
                    for x in v {
                        w.b(x.as_bytes())
                    }
                }
                None => w.n(0),
            }
        }
        w.z(p.app_id_count as i128);
        w.z(p.context_id_count as i128);
    };
    canon(&a, &mut w);
    let mut wb = W::new();
    canon(&b, &mut wb);
    if prop == "C09" {
        if w.0 != wb.0 {
            oracle.push(("conversions_agree".into(), "From<&DltFilterConfig> and From<DltFilterConfig> differ".into()));
        }
        // the processed sets are the configured id lists as sets (nothing dropped, trimmed, truncated or added), the
        // counts are copied
        for (what, list, set) in [("app", &f.app_ids, &a.app_ids), ("ecu", &f.ecu_ids, &a.ecu_ids), ("context", &f.context_ids, &a.context_ids)] {
            let want: Option<std::collections::BTreeSet<&String>> = list.as_ref().map(|l| l.iter().collect());
            let got: Option<std::collections::BTreeSet<&String>> = set.as_ref().map(|s| s.iter().collect());
            if want != got {
                oracle.push(("sets_are_the_configured_ids".into(), format!("{} ids {:?} became {:?}", what, list, got)));
            }
        }
        if a.app_id_count != f.app_id_count || a.context_id_count != f.context_id_count {
            oracle.push(("counts_copied".into(), "app_id_count / context_id_count changed by the conversion".into()));
        }
        if let Some(l) = f.min_log_level {
            if !(1..=6).contains(&l) && a.min_log_level.is_some() {
                oracle.push(("level_outside_1_6_is_none".into(), format!("min_log_level {} became {:?}", l, a.min_log_level)));
            }
        }
    }
    Outcome { result: w.0, oracle }
}

fn op_stable(toks: &[Tok], prop: &str) -> Outcome {
    let mut r = R::new(toks);
    let sh = r.bool();
    let bs = r.b();
    let mut w = W::new();
    let mut oracle = vec![];
    let res = parse_owned(&bs, None, sh);
    match &res {
        Some(Ok((_, ParsedMessage::Item(m)))) => {
            w.n(1);
            match guarded(|| (m.as_bytes(), m.byte_len())) {
                None => {
                    w.n(1);
                    if prop == "C16" {
                        oracle.push(("reserialisable".into(), "as_bytes panicked on a parser result".into()));
                    }
                }
                Some((bs2, bl)) => {
                    w.n(0);
                    w.msg(m);
                    w.b(&bs2);
                    let declared = if sh { 16 } else { 0 } + bl as usize;
                    w.n(declared as u128);
                    if bs2.len() == declared {
                        let res2 = parse_owned(&bs2, None, sh);
                        match &res2 {
                            Some(Ok((rl2, ParsedMessage::Item(m2)))) => {
                                w.n(0);
                                w.msg(m2);
                                w.n(*rl2 as u128);
                                let bs3 = guarded(|| m2.as_bytes());
                                match &bs3 {
                                    Some(b3) => {
                                        w.n(0);
                                        w.b(b3)
                                    }
                                    None => w.n(1),
                                }
                                if prop == "C16" {
                                    if msg_toks(m2) != msg_toks(m) {
                                        oracle.push(("reparse_identical".into(), diff_msgs(m, m2)));
                                    }
                                    if *rl2 != 0 {
                                        oracle.push(("nothing_left_over".into(), format!("{} bytes left", rl2)));
                                    }
                                    if bs3.as_ref() != Some(&bs2) {
                                        oracle.push(("bytes_stable".into(), "third serialisation differs".into()));
                                    }
                                }
                            }
                            other => {
                                w_presult(&mut w, other);
                                if prop == "C16" {
                                    oracle.push(("reparse_identical".into(), format!("re-serialisation does not parse to a message: {}", short_res(other))));
                                }
                            }
                        }
                    } else {
                        w.n(7);
                    }
                }
            }
        }
        _ => w.n(0),
    }
    Outcome { result: w.0, oracle }
}

pub fn run_case2(prop: &str, op: u32, toks: &[Tok]) -> Outcome {
    match op {
        20 => op_rt(toks, prop),
        21 => op_parse_use(toks, prop),
        23 => op_prefix(toks, prop),
        31 => op_prefix_at(toks, prop),
        24 => op_junk(toks, prop),
        25 => op_parse_all(toks, prop),
        26 => op_filt(toks, prop),
        30 => op_filt_hand(toks, prop),
        27 => op_filtercfg(toks, prop),
        28 => op_stable(toks, prop),
        39 => {
            // INPLACE: the inputs are copied, one after the other, into the SAME buffer and parsed there
            let mut r = R::new(toks);
            let sh = r.bool();
            let n = r.n() as usize;
            let items: Vec<(usize, Vec<u8>)> = (0..n).map(|_| (r.n() as usize, r.b())).collect();
            let cap = items.iter().map(|x| x.1.len()).max().unwrap_or(0) + 1;
            let mut buf: Vec<u8> = Vec::with_capacity(cap);
            let mut w = W::new();
            let mut oracle = vec![];
            for (k, (missing, it)) in items.iter().enumerate() {
                buf.clear();
                buf.extend_from_slice(it);
                let res = parse_owned(&buf[..], None, sh);
                if *missing > 0 && (prop == "C05" || prop == "C04") {
                    // the generator knows this input to be a proper prefix, `missing - 1` bytes short
                    match &res {
                        Some(Err(DltParseError::IncompleteParse { needed })) => {
                            if let Some(nd) = needed {
                                if nd.get() > *missing - 1 {
                                    oracle.push(("hint_le_missing".into(), format!("input {} of the sequence: needed {} > missing {}", k, nd, *missing - 1)));
                                }
                            }
                        }
                        _ => oracle.push(("prefix_incomplete".into(), format!("input {} of the sequence is a proper prefix of a message but the answer is not incomplete", k))),
                    }
                }
                w_presult(&mut w, &res);
            }
            Outcome { result: w.0, oracle }
        }
        38 => {
            // NEW_THEN_STABLE: build a message from the configuration, drop it unwritten, then op 28 on the bytes
            let mut r = R::new(toks);
            let c = r.cfg();
            let sh = r.opt_sh();
            let built = guarded(|| Message::new(c, sh));
            drop(built);
            op_stable(&toks[r.i..], prop)
        }
        29 => op_streamj(toks, prop),
        _ => crate::ops3::run_case3(prop, op, toks),
    }
}

#[allow(dead_code)]
fn _unused(_: DltFilterConfig) {}
