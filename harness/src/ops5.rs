//! Fixed-point conversion (C18) and FIBEX (C11, C12).
use crate::ops::Outcome;
use crate::wire::*;

pub fn run_case5(_prop: &str, op: u32, _toks: &[Tok]) -> Outcome {
    panic!("unknown op {}", op)
}
