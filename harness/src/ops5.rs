//! Fixed-point conversion (C18) and FIBEX (C11, C12).
use crate::genfibex::*;
use crate::ops::Outcome;
use crate::wire::*;
use dlt_core::dlt::*;
use dlt_core::fibex::{extract_metadata, gather_fibex_data, FibexConfig, FibexMetadata, FrameMetadata, PduMetadata};
use std::collections::BTreeMap;
use std::panic::{catch_unwind, AssertUnwindSafe};
use std::sync::atomic::{AtomicUsize, Ordering};

fn guarded<T>(f: impl FnOnce() -> T) -> Option<T> {
    catch_unwind(AssertUnwindSafe(f)).ok()
}

// =============================================================================== C18
fn value_as_int(v: &Value) -> Option<i128> {
    Some(match v {
        Value::U8(x) => *x as i128,
        Value::U16(x) => *x as i128,
        Value::U32(x) => *x as i128,
        Value::U64(x) => *x as i128,
        Value::I8(x) => *x as i128,
        Value::I16(x) => *x as i128,
        Value::I32(x) => *x as i128,
        Value::I64(x) => *x as i128,
        _ => return None,
    })
}

/// 42 REAL
fn op_real(toks: &[Tok], prop: &str) -> Outcome {
    let mut r = R::new(toks);
    let a = r.arg();
    let res = guarded(|| a.to_real_value());
    let mut w = W::new();
    match &res {
        None => w.n(1),
        Some(None) => {
            w.n(0);
            w.n(0)
        }
        Some(Some(v)) => {
            w.n(0);
            w.n(1);
            w.n(*v as u128)
        }
    }
    let mut oracle = vec![];
    if prop == "C18" {
        let fixed_kind = matches!(a.type_info.kind, TypeInfoKind::SignedFixedPoint(_) | TypeInfoKind::UnsignedFixedPoint(_));
        let int = value_as_int(&a.value);
        let applicable = fixed_kind && a.fixed_point.is_some() && int.is_some();
        match &res {
            None => oracle.push(("no_panic".into(), "to_real_value panicked".into())),
            Some(got) => {
                if !applicable && got.is_some() {
                    oracle.push(("none_unless_fixed_point".into(), format!("{:?} for an argument that is not fixed point with data and an integer value", got)));
                }
            }
        }
        if applicable {
            let fp = a.fixed_point.as_ref().unwrap();
            let off: i128 = match fp.offset {
                FixedPointValue::I32(v) => v as i128,
                FixedPointValue::I64(v) => v as i128,
            };
            // physical value times quantization in double precision, truncated toward zero
            let v = int.unwrap();
            let vf = if v >= 0 { v as u64 as f64 } else { v as i64 as f64 };
            let p = vf * (fp.quantization as f64);
            // "truncated toward zero is non-negative": every product above -1 truncates to 0 or more
            if p.is_finite() && p > -1.0 && p < 3.0e19 {
                let t = if p < 0.0 { 0 } else { p.trunc() as u128 as i128 };
                let sum = t + off;
                if sum >= 0 && sum < (1i128 << 63) {
                    if res != Some(Some(sum as u64)) {
                        oracle.push(("value_is_q_times_v_plus_offset".into(), format!("expected {} (t = {}, offset = {}), got {:?}", sum, t, off, res)));
                    }
                }
            }
        }
    }
    Outcome { result: w.0, oracle }
}

// =============================================================================== FIBEX
type Frames = BTreeMap<Vec<u8>, Vec<Tok>>;
type Keyed = BTreeMap<(Vec<u8>, Vec<u8>, Vec<u8>), Vec<Tok>>;

fn w_opt_s(w: &mut W, o: &Option<String>) {
    match o {
        Some(s) => {
            w.n(1);
            w.b(s.as_bytes())
        }
        None => w.n(0),
    }
}
fn w_pdu(w: &mut W, p: &PduMetadata) {
    w_opt_s(w, &p.description);
    w.n(p.signal_types.len() as u128);
    for t in &p.signal_types {
        w.ti(t);
    }
}
fn frame_toks(f: &FrameMetadata) -> Vec<Tok> {
    let mut w = W::new();
    w.b(f.short_name.as_bytes());
    w_opt_s(&mut w, &f.application_id);
    w_opt_s(&mut w, &f.context_id);
    w_opt_s(&mut w, &f.message_type);
    w_opt_s(&mut w, &f.message_info);
    w.n(f.pdus.len() as u128);
    for p in &f.pdus {
        w_pdu(&mut w, p);
    }
    w.0
}
fn maps_of(m: &FibexMetadata) -> (Frames, Keyed) {
    let mut a = Frames::new();
    for (k, f) in &m.frame_map {
        a.insert(k.as_bytes().to_vec(), frame_toks(f));
    }
    let mut b = Keyed::new();
    for (k, f) in &m.frame_map_with_key {
        b.insert((k.context_id.as_bytes().to_vec(), k.app_id.as_bytes().to_vec(), k.frame_id.as_bytes().to_vec()), frame_toks(f));
    }
    (a, b)
}
fn w_maps(w: &mut W, m: &(Frames, Keyed)) {
    w.n(m.0.len() as u128);
    for (k, f) in &m.0 {
        w.b(k);
        w.0.extend(f.iter().cloned());
    }
    w.n(m.1.len() as u128);
    for ((c, a, i), f) in &m.1 {
        w.b(c);
        w.b(a);
        w.b(i);
        w.0.extend(f.iter().cloned());
    }
}

// ---- the independent meaning of a layout, written from the property sentence ----
fn plain(kind: TypeInfoKind, coding: StringCoding) -> TypeInfo {
    TypeInfo { kind, coding, has_variable_info: false, has_trace_info: false }
}
fn standard_signal(name: &str) -> Option<Option<TypeInfo>> {
    use TypeInfoKind::*;
    use TypeLength::*;
    let a = StringCoding::ASCII;
    Some(Some(match name {
        "S_BOOL" => plain(Bool, a),
        "S_SINT8" => plain(Signed(BitLength8), a),
        "S_UINT8" => plain(Unsigned(BitLength8), a),
        "S_SINT16" => plain(Signed(BitLength16), a),
        "S_UINT16" => plain(Unsigned(BitLength16), a),
        "S_SINT32" => plain(Signed(BitLength32), a),
        "S_UINT32" => plain(Unsigned(BitLength32), a),
        "S_SINT64" => plain(Signed(BitLength64), a),
        "S_UINT64" => plain(Unsigned(BitLength64), a),
        "S_FLOA16" => return Some(None),
        "S_FLOA32" => plain(Float(FloatWidth::Width32), a),
        "S_FLOA64" => plain(Float(FloatWidth::Width64), a),
        "S_STRG_ASCII" => plain(StringType, a),
        "S_STRG_UTF8" => plain(StringType, StringCoding::UTF8),
        "S_RAWD" | "S_RAW" => plain(Raw, a),
        _ => return None,
    }))
}
fn base_type(name: &str) -> Option<TypeInfo> {
    use TypeInfoKind::*;
    use TypeLength::*;
    let a = StringCoding::ASCII;
    Some(match name {
        "A_UINT8" => plain(Unsigned(BitLength8), a),
        "A_INT8" | "A_SINT8" => plain(Signed(BitLength8), a),
        "A_UINT16" => plain(Unsigned(BitLength16), a),
        "A_INT16" | "A_SINT16" => plain(Signed(BitLength16), a),
        "A_UINT32" => plain(Unsigned(BitLength32), a),
        "A_INT32" | "A_SINT32" => plain(Signed(BitLength32), a),
        "A_UINT64" => plain(Unsigned(BitLength64), a),
        "A_INT64" | "A_SINT64" => plain(Signed(BitLength64), a),
        "A_FLOAT32" => plain(Float(FloatWidth::Width32), a),
        "A_FLOAT64" => plain(Float(FloatWidth::Width64), a),
        "A_ASCIISTRING" => plain(StringType, a),
        "A_UNICODE2STRING" => plain(StringType, StringCoding::UTF8),
        _ => return None,
    })
}

/// None = loading must fail (a frame references a PDU nobody defines)
fn denote(layout: &Layout) -> Option<(Frames, Keyed)> {
    let els: Vec<&Element> = layout.iter().flatten().collect();
    // signals / codings: the last definition of an id counts
    let mut signals: BTreeMap<&str, &str> = BTreeMap::new();
    let mut codings: BTreeMap<&str, &str> = BTreeMap::new();
    for e in &els {
        match e {
            Element::Signal(i, c) => {
                signals.insert(i, c);
            }
            Element::Coding(i, b) => {
                codings.insert(i, b);
            }
            _ => {}
        }
    }
    let signal_type = |r: &str| -> Option<TypeInfo> {
        match standard_signal(r) {
            Some(t) => t,
            None => signals.get(r).and_then(|c| codings.get(c)).and_then(|b| base_type(b)),
        }
    };
    // PDUs: the first definition of an id wins
    let mut pdus: BTreeMap<&str, Vec<Tok>> = BTreeMap::new();
    for e in &els {
        if let Element::Pdu(p) = e {
            if pdus.contains_key(p.id.as_str()) {
                continue;
            }
            let mut inst = p.signals.clone();
            inst.sort_by_key(|x| x.0); // stable
            let tys: Vec<TypeInfo> = inst.iter().filter_map(|(_, r)| signal_type(r)).collect();
            let mut w = W::new();
            w_opt_s(&mut w, &p.desc);
            w.n(tys.len() as u128);
            for t in &tys {
                w.ti(t);
            }
            pdus.insert(&p.id, w.0);
        }
    }
    let mut frames = Frames::new();
    let mut keyed = Keyed::new();
    for e in &els {
        if let Element::Frame(f) = e {
            let mut inst = f.pdus.clone();
            inst.sort_by_key(|x| x.0);
            let mut w = W::new();
            w.b(f.short_name.as_bytes());
            w_opt_s(&mut w, &f.app);
            w_opt_s(&mut w, &f.ctx);
            w_opt_s(&mut w, &f.mtype);
            w_opt_s(&mut w, &f.minfo);
            w.n(inst.len() as u128);
            for (_, r) in &inst {
                match pdus.get(r.as_str()) {
                    Some(t) => w.0.extend(t.iter().cloned()),
                    None => return None,
                }
            }
            if let (Some(c), Some(a)) = (&f.ctx, &f.app) {
                keyed.entry((c.as_bytes().to_vec(), a.as_bytes().to_vec(), f.id.as_bytes().to_vec())).or_insert_with(|| w.0.clone());
            }
            frames.entry(f.id.as_bytes().to_vec()).or_insert(w.0);
        }
    }
    Some((frames, keyed))
}

/// is the layout inside the domain where the canonical rendering says what it means
/// (Spec/FibexSpec.v element_ok: element texts non-empty, numbers fit usize)
fn layout_ok(layout: &Layout) -> bool {
    let ne = |s: &String| !s.is_empty();
    let one = |o: &Option<String>| o.as_ref().map(|s| !s.is_empty()).unwrap_or(true);
    layout.iter().flatten().all(|e| match e {
        Element::Pdu(p) => ne(&p.short_name) && one(&p.desc),
        Element::Frame(f) => ne(&f.short_name) && one(&f.app) && one(&f.ctx) && one(&f.mtype) && one(&f.minfo),
        _ => true,
    })
}

enum Loaded {
    Model(FibexMetadata),
    Refused,
    Panicked,
    TimedOut,
}
static TIMEOUTS: AtomicUsize = AtomicUsize::new(0);
static COUNTER: AtomicUsize = AtomicUsize::new(0);

fn work_dir() -> std::path::PathBuf {
    let base = std::env::var("DLTV_WORK").unwrap_or_else(|_| "/verif/build/work/fibex".to_string());
    let d = std::path::PathBuf::from(base).join(format!("p{}", std::process::id()));
    let _ = std::fs::create_dir_all(&d);
    d
}

fn load_files(files: &[Option<Vec<u8>>]) -> Loaded {
    if TIMEOUTS.load(Ordering::SeqCst) >= 6 {
        return Loaded::TimedOut; // enough spinning threads already: do not start more
    }
    let dir = work_dir();
    let k = COUNTER.fetch_add(1, Ordering::SeqCst);
    let mut paths = vec![];
    for (i, f) in files.iter().enumerate() {
        // names whose lexicographic order is the REVERSE of the configured order (the order of the path list is
        // what decides which duplicate definition wins)
        let p = dir.join(format!("c{}_{}{}.xml", k, (b'z' - (i % 26) as u8) as char, i));
        match f {
            Some(b) => {
                std::fs::write(&p, b).expect("write fibex file");
            }
            None => {
                let _ = std::fs::remove_file(&p);
            }
        }
        paths.push(p);
    }
    let cfg_paths: Vec<String> = paths.iter().map(|p| p.to_string_lossy().to_string()).collect();
    let (tx, rx) = std::sync::mpsc::channel();
    let handle = std::thread::Builder::new()
        .stack_size(16 << 20)
        .spawn(move || {
            let r = catch_unwind(AssertUnwindSafe(|| gather_fibex_data(FibexConfig { fibex_file_paths: cfg_paths })));
            let _ = tx.send(r);
        })
        .expect("spawn");
    let res = match rx.recv_timeout(std::time::Duration::from_secs(4)) {
        Ok(Ok(Some(m))) => Loaded::Model(m),
        Ok(Ok(None)) => Loaded::Refused,
        Ok(Err(_)) => Loaded::Panicked,
        Err(_) => {
            TIMEOUTS.fetch_add(1, Ordering::SeqCst);
            Loaded::TimedOut
        }
    };
    if !matches!(res, Loaded::TimedOut) {
        let _ = handle.join();
        for p in &paths {
            let _ = std::fs::remove_file(p);
        }
    }
    res
}

struct FibexCase {
    files: Vec<Option<Vec<u8>>>,
    events_current: bool,
    layout: Option<Layout>,
}
/// the recorded event list of one file, token for token (FibexWire.r_xevent layout)
fn take_events(r: &mut R) -> Vec<Tok> {
    let start = r.i;
    let n = r.n();
    for _ in 0..n {
        match r.n() {
            1 | 2 => {
                r.b();
                let na = r.n();
                for _ in 0..na {
                    if r.n() == 1 {
                        r.b();
                        if r.n() == 1 {
                            r.b();
                        }
                    }
                }
            }
            3 => {
                r.b();
            }
            4 => {
                if r.n() == 1 {
                    r.b();
                }
            }
            _ => {}
        }
    }
    r.t[start..r.i].to_vec()
}
fn read_fibex_case(r: &mut R) -> FibexCase {
    let n = r.n();
    let mut files = vec![];
    let mut events_current = true;
    for _ in 0..n {
        if r.n() == 0 {
            files.push(None);
            continue;
        }
        let xml = r.b();
        // the events recorded in the case must be what quick-xml yields for this text NOW
        let mut w = W::new();
        dump_events(&xml, &mut w);
        let recorded = take_events(r);
        if recorded != w.0 {
            events_current = false;
        }
        files.push(Some(xml));
    }
    let _style = r.n();
    let layout = if r.n() == 0 {
        None
    } else {
        let nf = r.n();
        Some(
            (0..nf)
                .map(|_| {
                    let ne = r.n();
                    (0..ne).map(|_| r_element(r)).collect()
                })
                .collect(),
        )
    };
    FibexCase { files, events_current, layout }
}

fn w_loaded(w: &mut W, l: &Loaded) {
    match l {
        Loaded::Refused => w.n(0),
        Loaded::Model(m) => {
            w.n(1);
            w_maps(w, &maps_of(m));
        }
        Loaded::Panicked => w.n(2),
        Loaded::TimedOut => w.n(3),
    }
}

fn robustness_oracle(prop: &str, l: &Loaded, oracle: &mut Vec<(String, String)>) {
    if prop == "C12" || prop == "C11" {
        match l {
            Loaded::Panicked => oracle.push(("no_panic".into(), "gather_fibex_data panicked".into())),
            Loaded::TimedOut => oracle.push(("terminates".into(), "gather_fibex_data did not return within 4 s".into())),
            _ => {}
        }
    }
}

/// 50 LOAD
fn op_fibex(toks: &[Tok], prop: &str) -> Outcome {
    let mut r = R::new(toks);
    let c = read_fibex_case(&mut r);
    let mut oracle = vec![];
    let mut w = W::new();
    if !c.events_current {
        oracle.push(("events_current".into(), "the XML events recorded in the case are not what quick-xml yields for the text".into()));
    }
    let l = load_files(&c.files);
    w_loaded(&mut w, &l);
    robustness_oracle(prop, &l, &mut oracle);
    match &c.layout {
        None => w.n(0),
        Some(layout) => {
            w.n(1);
            w.n(1); // canonical rendering flag: decided on the model side
            let want = denote(layout);
            match &want {
                None => w.n(0),
                Some(m) => {
                    w.n(1);
                    w_maps(&mut w, m);
                }
            }
            if prop == "C11" && layout_ok(layout) {
                let got = match &l {
                    Loaded::Model(m) => Some(Some(maps_of(m))),
                    Loaded::Refused => Some(None),
                    _ => None,
                };
                if let Some(got) = got {
                    if got != want {
                        let what = match (&got, &want) {
                            (None, Some(_)) => "loading failed but the documents define a model".to_string(),
                            (Some(_), None) => "a model was returned although a frame references an undefined PDU".to_string(),
                            _ => "the returned model differs from the model written in the files".to_string(),
                        };
                        oracle.push(("model_is_what_the_files_say".into(), what));
                    }
                }
            }
        }
    }
    Outcome { result: w.0, oracle }
}

/// 51 LOOKUP
fn op_fibex_lookup(toks: &[Tok], prop: &str) -> Outcome {
    let mut r = R::new(toks);
    let c = read_fibex_case(&mut r);
    let id = r.n() as u32;
    let eh = if r.n() == 0 { None } else { Some((r.s(), r.s())) }; // (context, app)
    let mut oracle = vec![];
    let mut w = W::new();
    if !c.events_current {
        oracle.push(("events_current".into(), "the XML events recorded in the case are not what quick-xml yields for the text".into()));
    }
    let l = load_files(&c.files);
    robustness_oracle(prop, &l, &mut oracle);
    match &l {
        Loaded::Model(m) => {
            w.n(1);
            let x = eh.as_ref().map(|(c, a)| ExtendedHeader {
                verbose: false,
                argument_count: 0,
                message_type: MessageType::Log(LogLevel::Info),
                application_id: a.clone(),
                context_id: c.clone(),
            });
            let got = guarded(|| extract_metadata(m, id, x.as_ref()).map(frame_toks));
            match &got {
                None => w.n(9),
                Some(None) => w.n(0),
                Some(Some(f)) => {
                    w.n(1);
                    w.0.extend(f.iter().cloned());
                }
            }
            if prop == "C11" {
                if let (Some(layout), Some(got)) = (&c.layout, &got) {
                    if layout_ok(layout) {
                        if let Some((frames, keyed)) = denote(layout) {
                            let key = format!("ID_{}", id).into_bytes();
                            let want = match &eh {
                                Some((c, a)) => keyed.get(&(c.as_bytes().to_vec(), a.as_bytes().to_vec(), key)).cloned(),
                                None => frames.get(&key).cloned(),
                            };
                            if *got != want {
                                oracle.push(("lookup_returns_that_frame".into(), format!("extract_metadata(id {}, ext {:?}) is not the frame stored under these ids", id, eh)));
                            }
                        }
                    }
                }
            }
        }
        Loaded::Refused => w.n(0),
        Loaded::Panicked => w.n(2),
        Loaded::TimedOut => w.n(3),
    }
    Outcome { result: w.0, oracle }
}

// =============================================================================== C02
/// 60 SPECDEC: the implementation's verdict in the vocabulary of Spec/Layout.v
fn op_specdec(toks: &[Tok], _prop: &str) -> Outcome {
    use dlt_core::parse::{dlt_message, DltParseError, ParsedMessage};
    let mut r = R::new(toks);
    let sh = r.bool();
    let bs = r.b();
    let mut w = W::new();
    match guarded(|| dlt_message(&bs, None, sh).map(|(rest, pm)| (rest.len(), pm))) {
        None => w.n(9),
        Some(Ok((rest, ParsedMessage::Item(m)))) => {
            w.n(0);
            w.msg(&m);
            w.n((bs.len() - rest) as u128);
        }
        Some(Ok(_)) => w.n(2),
        Some(Err(DltParseError::IncompleteParse { .. })) => w.n(1),
        Some(Err(_)) => w.n(2),
    }
    Outcome { result: w.0, oracle: vec![] }
}

/// 61 SPECENC: the implementation's bytes for a message
fn op_specenc(toks: &[Tok], _prop: &str) -> Outcome {
    let mut r = R::new(toks);
    let m = r.msg();
    let mut w = W::new();
    w.bool(crate::genmsg::wf_message(&m));
    match guarded(|| m.as_bytes()) {
        None => w.n(1),
        Some(b) => {
            w.n(0);
            w.b(&b);
        }
    }
    Outcome { result: w.0, oracle: vec![] }
}

/// 34 BIGREST: a serialised message followed by n zero bytes, n up to beyond 2^32 (the buffer is allocated
/// zero-filled and never touched behind the message, so this is cheap); the result must be the message and exactly
/// n remaining bytes — "nothing that follows the message in the buffer influences the result"
fn op_bigrest(toks: &[Tok], prop: &str) -> Outcome {
    use dlt_core::parse::{dlt_message, ParsedMessage};
    let mut r = R::new(toks);
    let m = r.msg();
    let n = r.n() as usize;
    let mut w = W::new();
    let mut oracle = vec![];
    let wf = crate::genmsg::wf_message(&m);
    w.bool(wf);
    if !wf {
        return Outcome { result: w.0, oracle };
    }
    match guarded(|| m.as_bytes()) {
        None => w.n(1),
        Some(bytes) => {
            w.n(0);
            let sh = m.storage_header.is_some();
            let mut buf = vec![0u8; bytes.len() + n];
            buf[..bytes.len()].copy_from_slice(&bytes);
            let res = guarded(|| dlt_message(&buf, None, sh).map(|(rest, pm)| (rest.len(), pm)));
            match &res {
                None => w.n(4),
                Some(Ok((rest, pm))) => {
                    w.n(0);
                    crate::ops::w_parsed(&mut w, pm);
                    w.n(*rest as u128);
                }
                Some(Err(e)) => crate::ops::w_parse_err(&mut w, e),
            }
            if wf && (prop == "C01" || prop == "C04") {
                let ok = matches!(&res, Some(Ok((rest, ParsedMessage::Item(_)))) if *rest == n);
                if !ok {
                    oracle.push(("trailing_bytes_do_not_matter".into(), format!("{} zero bytes behind the message: {}", n, match &res { Some(Ok((r, _))) => format!("Ok, rest {}", r), Some(Err(e)) => format!("{:?}", e), None => "panic".into() })));
                }
            }
        }
    }
    Outcome { result: w.0, oracle }
}

/// 35 BIGJUNK: n filler bytes (one repeated value: pattern-free), then a storage-header message, then a suffix; the
/// search must report n and parsing must give what parsing the message alone gives (n up to beyond 10 MiB / 2^32 with
/// filler 0, whose buffer is allocated zero-filled)
fn op_bigjunk(toks: &[Tok], prop: &str) -> Outcome {
    use dlt_core::parse::{dlt_message, forward_to_next_storage_header, ParsedMessage};
    let mut r = R::new(toks);
    let n = r.n() as usize;
    let fill = r.n() as u8;
    let m = r.msg();
    let suffix = r.b();
    let mut w = W::new();
    let mut oracle = vec![];
    let wf = crate::genmsg::wf_message(&m) && m.storage_header.is_some();
    w.bool(wf);
    if !wf {
        return Outcome { result: w.0, oracle };
    }
    match guarded(|| m.as_bytes()) {
        None => w.n(1),
        Some(bytes) => {
            w.n(0);
            let mut buf = vec![0u8; n + bytes.len() + suffix.len()];
            if fill != 0 {
                for b in &mut buf[..n] {
                    *b = fill;
                }
            }
            buf[n..n + bytes.len()].copy_from_slice(&bytes);
            buf[n + bytes.len()..].copy_from_slice(&suffix);
            let fw = guarded(|| forward_to_next_storage_header(&buf).map(|(k, rest)| (k, rest.len())));
            match &fw {
                Some(Some((k, rl))) => {
                    w.n(1);
                    w.n(*k as u128);
                    w.n(*rl as u128);
                }
                Some(None) => w.n(0),
                None => w.n(4),
            }
            let res = guarded(|| dlt_message(&buf, None, true).map(|(rest, pm)| (rest.len(), pm)));
            match &res {
                None => w.n(4),
                Some(Ok((rest, pm))) => {
                    w.n(0);
                    crate::ops::w_parsed(&mut w, pm);
                    w.n(*rest as u128);
                }
                Some(Err(e)) => crate::ops::w_parse_err(&mut w, e),
            }
            if prop == "C06" || prop == "C02" {
                if fw != Some(Some((n as u64, bytes.len() + suffix.len()))) {
                    oracle.push(("first_occurrence".into(), format!("{} pattern-free bytes in front: search reports {:?}", n, fw)));
                }
                let ok = matches!(&res, Some(Ok((rest, ParsedMessage::Item(_)))) if *rest == suffix.len());
                if !ok {
                    oracle.push(("junk_skipped".into(), format!("{} junk bytes in front of a message: {}", n, match &res { Some(Ok((r, _))) => format!("Ok, rest {}", r), Some(Err(e)) => format!("{:?}", e), None => "panic".into() })));
                }
            }
        }
    }
    Outcome { result: w.0, oracle }
}

/// 36 JUNKCUT: pattern-free junk, then the first k bytes of a storage-header message: incomplete, with a safe hint
/// (C05 through C06: junk in front does not change the verdict)
fn op_junkcut(toks: &[Tok], prop: &str) -> Outcome {
    use dlt_core::parse::{dlt_message, DltParseError};
    let mut r = R::new(toks);
    let junk = r.b();
    let m = r.msg();
    let k = r.n() as usize;
    let mut w = W::new();
    let mut oracle = vec![];
    let wf = crate::genmsg::wf_message(&m) && m.storage_header.is_some();
    w.bool(wf);
    if !wf {
        return Outcome { result: w.0, oracle };
    }
    match guarded(|| m.as_bytes()) {
        None => w.n(1),
        Some(bytes) => {
            w.n(0);
            let k = k.min(bytes.len().saturating_sub(1));
            let mut buf = junk.clone();
            buf.extend_from_slice(&bytes[..k]);
            let res = guarded(|| dlt_message(&buf, None, true).map(|(rest, pm)| (rest.len(), pm)));
            match &res {
                None => w.n(4),
                Some(Ok((rest, pm))) => {
                    w.n(0);
                    crate::ops::w_parsed(&mut w, pm);
                    w.n(*rest as u128);
                }
                Some(Err(e)) => crate::ops::w_parse_err(&mut w, e),
            }
            if matches!(prop, "C05" | "C06" | "C19" | "C02") {
                let missing = bytes.len() - k;
                match &res {
                    Some(Err(DltParseError::IncompleteParse { needed })) => {
                        if let Some(nn) = needed {
                            // with fewer than 16 bytes in all the parser cannot know where the header starts: hint-free
                            if nn.get() > missing && buf.len() >= 16 {
                                oracle.push(("hint_le_missing".into(), format!("junk {} + cut {} of {}: needed {} > missing {}", junk.len(), k, bytes.len(), nn, missing)));
                            }
                        }
                    }
                    other => oracle.push(("prefix_incomplete".into(), format!("junk {} + cut {} of {}: {}", junk.len(), k, bytes.len(), match other { Some(Ok(_)) => "Ok".to_string(), Some(Err(e)) => format!("{:?}", e), None => "panic".into() }))),
                }
            }
        }
    }
    Outcome { result: w.0, oracle }
}

pub fn run_case5(prop: &str, op: u32, toks: &[Tok]) -> Outcome {
    match op {
        35 => op_bigjunk(toks, prop),
        36 => op_junkcut(toks, prop),
        34 => op_bigrest(toks, prop),
        60 => op_specdec(toks, prop),
        61 => op_specenc(toks, prop),
        42 => op_real(toks, prop),
        50 => op_fibex(toks, prop),
        51 => op_fibex_lookup(toks, prop),
        _ => panic!("unknown op {}", op),
    }
}
