//! FIBEX: abstract models, rendering to XML, the quick-xml event dump, mutations (C11, C12).
use crate::gen::Cases;
use crate::rng::Rng;
use crate::wire::*;
use quick_xml::events::Event;
use quick_xml::Reader;

#[derive(Clone, Debug)]
pub struct APdu {
    pub id: String,
    pub short_name: String,
    pub desc: Option<String>,
    pub byte_length: u64,
    pub signals: Vec<(u64, String)>,
}
#[derive(Clone, Debug)]
pub struct AFrame {
    pub id: String,
    pub short_name: String,
    pub byte_length: u64,
    pub app: Option<String>,
    pub ctx: Option<String>,
    pub mtype: Option<String>,
    pub minfo: Option<String>,
    pub pdus: Vec<(u64, String)>,
}
#[derive(Clone, Debug)]
pub enum Element {
    Pdu(APdu),
    Frame(AFrame),
    Signal(String, String),
    Coding(String, String),
}
pub type Layout = Vec<Vec<Element>>;

// ---------------------------------------------------------------- tokens
pub fn w_element(w: &mut W, e: &Element) {
    let opt = |w: &mut W, o: &Option<String>| match o {
        Some(s) => {
            w.n(1);
            w.b(s.as_bytes())
        }
        None => w.n(0),
    };
    let inst = |w: &mut W, l: &[(u64, String)]| {
        w.n(l.len() as u128);
        for (s, r) in l {
            w.n(*s as u128);
            w.b(r.as_bytes());
        }
    };
    match e {
        Element::Pdu(p) => {
            w.n(0);
            w.b(p.id.as_bytes());
            w.b(p.short_name.as_bytes());
            opt(w, &p.desc);
            w.n(p.byte_length as u128);
            inst(w, &p.signals);
        }
        Element::Frame(f) => {
            w.n(1);
            w.b(f.id.as_bytes());
            w.b(f.short_name.as_bytes());
            w.n(f.byte_length as u128);
            opt(w, &f.app);
            opt(w, &f.ctx);
            opt(w, &f.mtype);
            opt(w, &f.minfo);
            inst(w, &f.pdus);
        }
        Element::Signal(i, c) => {
            w.n(2);
            w.b(i.as_bytes());
            w.b(c.as_bytes());
        }
        Element::Coding(i, b) => {
            w.n(3);
            w.b(i.as_bytes());
            w.b(b.as_bytes());
        }
    }
}
pub fn r_element(r: &mut R) -> Element {
    fn opt(r: &mut R) -> Option<String> {
        if r.n() == 0 {
            None
        } else {
            Some(r.s())
        }
    }
    fn inst(r: &mut R) -> Vec<(u64, String)> {
        let n = r.n();
        (0..n).map(|_| (r.n() as u64, r.s())).collect()
    }
    match r.n() {
        0 => Element::Pdu(APdu { id: r.s(), short_name: r.s(), desc: opt(r), byte_length: r.n() as u64, signals: inst(r) }),
        1 => Element::Frame(AFrame {
            id: r.s(),
            short_name: r.s(),
            byte_length: r.n() as u64,
            app: opt(r),
            ctx: opt(r),
            mtype: opt(r),
            minfo: opt(r),
            pdus: inst(r),
        }),
        2 => Element::Signal(r.s(), r.s()),
        _ => Element::Coding(r.s(), r.s()),
    }
}

// ---------------------------------------------------------------- rendering
pub fn escape(s: &str) -> String {
    s.replace('&', "&amp;").replace('<', "&lt;").replace('>', "&gt;").replace('"', "&quot;")
}

struct X {
    out: String,
    pretty: bool,
    depth: usize,
    /// 0: only the attribute itself; otherwise other attributes stand next to it whose names contain its name
    decoy: u8,
}
impl X {
    /// ` NAME="value"`, possibly with neighbours that a sloppy name comparison would take for it
    fn at(&self, name: &str, val: &str) -> String {
        let v = escape(val);
        match self.decoy {
            1 => format!(" O{}=\"decoy\" {}=\"{}\"", name, name, v),
            2 => format!(" {}=\"{}\" {}X=\"decoy\"", name, v, name),
            3 => format!(" x{}=\"decoy\" ho:{}=\"{}\"", name, name, v),
            4 => format!(" {}-{}=\"decoy\" MY{}=\"decoy2\" {}=\"{}\"", name, name, name, name, v),
            5 => {
                // the value spelled with a character reference (its last character) and, if there is one, '&amp;'
                let mut cs: Vec<char> = val.chars().collect();
                let last = cs.pop();
                let head: String = cs.into_iter().collect();
                match last {
                    Some(c) => format!(" {}=\"{}&#{};\"", name, escape(&head), c as u32),
                    None => format!(" {}=\"\"", name),
                }
            }
            _ => format!(" {}=\"{}\"", name, v),
        }
    }
    fn nl(&mut self) {
        if self.pretty {
            self.out.push('\n');
            for _ in 0..self.depth {
                self.out.push_str("    ");
            }
        }
    }
    fn open(&mut self, tag: &str, attrs: &str) {
        self.nl();
        self.out.push_str(&format!("<{}{}>", tag, attrs));
        self.depth += 1;
    }
    fn close(&mut self, tag: &str) {
        self.depth -= 1;
        self.nl();
        self.out.push_str(&format!("</{}>", tag));
    }
    fn text_el(&mut self, tag: &str, t: &str) {
        self.nl();
        self.out.push_str(&format!("<{}>{}</{}>", tag, escape(t), tag));
    }
    fn empty(&mut self, tag: &str, attrs: &str) {
        self.nl();
        self.out.push_str(&format!("<{}{}/>", tag, attrs));
    }
}

fn render_element(x: &mut X, e: &Element, rich: bool) {
    match e {
        Element::Pdu(p) => {
            x.open("fx:PDU", &x.at("ID", &p.id));
            x.text_el("ho:SHORT-NAME", &p.short_name);
            if let Some(d) = &p.desc {
                x.text_el("ho:DESC", d);
            }
            x.text_el("fx:BYTE-LENGTH", &p.byte_length.to_string());
            x.text_el("fx:PDU-TYPE", "OTHER");
            x.open("fx:SIGNAL-INSTANCES", "");
            for (seq, r) in &p.signals {
                x.open("fx:SIGNAL-INSTANCE", " ID=\"I\"");
                x.text_el("fx:SEQUENCE-NUMBER", &seq.to_string());
                x.empty("fx:SIGNAL-REF", &x.at("ID-REF", r));
                x.close("fx:SIGNAL-INSTANCE");
            }
            x.close("fx:SIGNAL-INSTANCES");
            x.close("fx:PDU");
        }
        Element::Frame(f) => {
            x.open("fx:FRAME", &x.at("ID", &f.id));
            x.text_el("ho:SHORT-NAME", &f.short_name);
            if rich && f.byte_length % 2 == 1 {
                // frames often carry a description of their own; the loader reads it and must not let it leak
                x.text_el("ho:DESC", "frame description");
            }
            x.text_el("fx:BYTE-LENGTH", &f.byte_length.to_string());
            x.text_el("fx:FRAME-TYPE", "OTHER");
            x.open("fx:PDU-INSTANCES", "");
            for (seq, r) in &f.pdus {
                x.open("fx:PDU-INSTANCE", " ID=\"I\"");
                x.empty("fx:PDU-REF", &x.at("ID-REF", r));
                x.text_el("fx:SEQUENCE-NUMBER", &seq.to_string());
                x.close("fx:PDU-INSTANCE");
            }
            x.close("fx:PDU-INSTANCES");
            x.open("fx:MANUFACTURER-EXTENSION", "");
            if let Some(t) = &f.mtype {
                x.text_el("MESSAGE_TYPE", t);
            }
            if let Some(t) = &f.minfo {
                x.text_el("MESSAGE_INFO", t);
            }
            if let Some(t) = &f.app {
                x.text_el("APPLICATION_ID", t);
            }
            if let Some(t) = &f.ctx {
                x.text_el("CONTEXT_ID", t);
            }
            x.close("fx:MANUFACTURER-EXTENSION");
            x.close("fx:FRAME");
        }
        Element::Signal(id, c) => {
            x.open("fx:SIGNAL", &x.at("ID", id));
            if rich {
                x.text_el("ho:SHORT-NAME", id);
            }
            x.empty("fx:CODING-REF", &x.at("ID-REF", c));
            x.close("fx:SIGNAL");
        }
        Element::Coding(id, b) => {
            x.open("fx:CODING", &x.at("ID", id));
            if rich && b.len() % 2 == 0 {
                // the empty-element form of CODED-TYPE
                x.text_el("ho:SHORT-NAME", id);
                x.empty("ho:CODED-TYPE", &format!(" ho:BASE-DATA-TYPE=\"{}\" CATEGORY=\"STANDARD-LENGTH-TYPE\"", escape(b)));
            } else if rich {
                x.text_el("ho:SHORT-NAME", id);
                x.open(
                    "ho:CODED-TYPE",
                    &format!(" ho:BASE-DATA-TYPE=\"{}\" CATEGORY=\"STANDARD-LENGTH-TYPE\" ENCODING=\"UNSIGNED\"", escape(b)),
                );
                x.text_el("ho:BIT-LENGTH", "8");
                x.close("ho:CODED-TYPE");
            } else {
                x.open("ho:CODED-TYPE", &format!(" ho:BASE-DATA-TYPE=\"{}\"", escape(b)));
                x.close("ho:CODED-TYPE");
            }
            x.close("fx:CODING");
        }
    }
}

/// style 0: exactly the canonical event shape of Spec/FibexSpec.v (no wrapper, no white space);
/// style 1: a document as tools write it (declaration, root, group wrappers, indentation, an ECU block)
pub fn render_file(els: &[Element], style: u8, ecu_block: bool) -> Vec<u8> {
    let mut x = X { out: String::new(), pretty: style >= 1, depth: 0, decoy: style.saturating_sub(1) };
    let style = style.min(1);
    if style == 1 {
        x.out.push_str("<?xml version=\"1.0\" encoding=\"UTF-8\"?>");
        x.open("fx:FIBEX", " xmlns:ho=\"http://www.asam.net/xml\" xmlns:fx=\"http://www.asam.net/xml/fbx\"");
        x.open("fx:PROJECT", " ID=\"Project\"");
        x.text_el("ho:SHORT-NAME", "ProjectName");
        if ecu_block {
            x.text_el("ho:DESC", "project description");
        }
        x.close("fx:PROJECT");
        x.open("fx:ELEMENTS", "");
        if ecu_block {
            x.open("fx:ECUS", "");
            x.open("fx:ECU", " ID=\"ECU1\"");
            x.text_el("ho:SHORT-NAME", "ECU1");
            x.open("fx:MANUFACTURER-EXTENSION", "");
            x.text_el("SW_VERSION", "unknown");
            x.open("APPLICATIONS", "");
            x.open("APPLICATION", "");
            x.text_el("APPLICATION_ID", "DR");
            x.text_el("APPLICATION_DESCRIPTION", "XYZ");
            x.open("CONTEXTS", "");
            x.open("CONTEXT", "");
            x.text_el("CONTEXT_ID", "TIME");
            x.text_el("CONTEXT_DESCRIPTION", "Description");
            x.close("CONTEXT");
            x.close("CONTEXTS");
            x.close("APPLICATION");
            x.close("APPLICATIONS");
            x.close("fx:MANUFACTURER-EXTENSION");
            x.close("fx:ECU");
            x.close("fx:ECUS");
            x.out.push_str("\n<!-- generated -->");
        }
    }
    for e in els {
        let wrap = if style == 1 {
            Some(match e {
                Element::Pdu(_) => "fx:PDUS",
                Element::Frame(_) => "fx:FRAMES",
                Element::Signal(..) => "fx:SIGNALS",
                Element::Coding(..) => "fx:CODINGS",
            })
        } else {
            None
        };
        if let Some(t) = wrap {
            x.open(t, "");
        }
        render_element(&mut x, e, style == 1);
        if let Some(t) = wrap {
            x.close(t);
        }
    }
    if style == 1 {
        x.close("fx:ELEMENTS");
        x.close("fx:FIBEX");
        x.out.push('\n');
    }
    x.out.into_bytes()
}

// ---------------------------------------------------------------- what quick-xml hands to the crate
/// The events `XmlReader::read_event_into` yields for this text with the crate's (default) reader
/// configuration, encoded as FibexWire.r_xevent expects them.
pub fn dump_events(xml: &[u8], w: &mut W) {
    let mut reader = Reader::from_reader(xml);
    let mut buf = Vec::new();
    let mut evs: Vec<W> = vec![];
    let limit = xml.len() + 16;
    let attrs = |w: &mut W, e: &quick_xml::events::BytesStart| {
        let l: Vec<_> = e.attributes().collect();
        w.n(l.len() as u128);
        for a in l {
            match a {
                Err(_) => w.n(0),
                Ok(a) => {
                    w.n(1);
                    w.b(a.key.as_ref());
                    match a.unescape_value() {
                        Ok(v) => {
                            w.n(1);
                            w.b(v.as_bytes())
                        }
                        Err(_) => w.n(0),
                    }
                }
            }
        }
    };
    loop {
        if evs.len() > limit {
            break;
        }
        let mut w1 = W::new();
        match reader.read_event_into(&mut buf) {
            Err(_) => w1.n(6),
            Ok(Event::Eof) => break,
            Ok(Event::Start(ref e)) => {
                w1.n(1);
                w1.b(e.local_name().as_ref());
                attrs(&mut w1, e);
            }
            Ok(Event::Empty(ref e)) => {
                w1.n(2);
                w1.b(e.local_name().as_ref());
                attrs(&mut w1, e);
            }
            Ok(Event::End(ref e)) => {
                w1.n(3);
                w1.b(e.local_name().as_ref());
            }
            Ok(Event::Text(ref e)) => {
                w1.n(4);
                match e.unescape() {
                    Ok(t) => {
                        w1.n(1);
                        w1.b(t.as_bytes())
                    }
                    Err(_) => w1.n(0),
                }
            }
            Ok(_) => w1.n(5),
        }
        evs.push(w1);
        buf.clear();
    }
    w.n(evs.len() as u128);
    for e in evs {
        w.0.extend(e.0);
    }
}

// ---------------------------------------------------------------- generators
const STD_SIGNALS: [&str; 16] = [
    "S_BOOL", "S_SINT8", "S_UINT8", "S_SINT16", "S_UINT16", "S_SINT32", "S_UINT32", "S_SINT64", "S_UINT64", "S_FLOA16", "S_FLOA32",
    "S_FLOA64", "S_STRG_ASCII", "S_STRG_UTF8", "S_RAWD", "S_RAW",
];
const BASE_TYPES: [&str; 18] = [
    "A_UINT8", "A_INT8", "A_SINT8", "A_UINT16", "A_INT16", "A_SINT16", "A_UINT32", "A_INT32", "A_SINT32", "A_UINT64", "A_INT64",
    "A_SINT64", "A_FLOAT32", "A_FLOAT64", "A_ASCIISTRING", "A_UNICODE2STRING", "A_BYTEFIELD", "OTHER",
];

fn gen_name(rng: &mut Rng) -> String {
    let v = ["N", "Name", "a b", "x&y", "<t>", "é", "€uro", "𝄞", "q\"q", "ID_7", "  pad  ", "1"];
    rng.pick(&v).to_string()
}
fn gen_opt_name(rng: &mut Rng) -> Option<String> {
    if rng.chance(1, 3) {
        None
    } else {
        Some(gen_name(rng))
    }
}
fn gen_seq(rng: &mut Rng) -> u64 {
    match rng.below(8) {
        0 => 0,
        1 => u64::MAX,
        2 => 1 << 32,
        _ => rng.below(6),
    }
}

pub struct GenOpts {
    pub dup_ids: bool,
    pub dangling: bool,
}

/// an abstract model over the full S_*/A_* vocabulary, laid out over 1-3 files in a permuted order
pub fn gen_layout(rng: &mut Rng, o: &GenOpts) -> Layout {
    let ncod = rng.below(4) as usize;
    let nsig = rng.below(4) as usize;
    let npdu = rng.range(0, 4) as usize;
    let nframe = rng.range(0, 4) as usize;
    let mut els = vec![];
    let mut coding_ids = vec![];
    for i in 0..ncod {
        let id = if o.dup_ids && rng.chance(1, 3) && i > 0 { "C0".to_string() } else { format!("C{}", i) };
        coding_ids.push(id.clone());
        els.push(Element::Coding(id, rng.pick(&BASE_TYPES).to_string()));
    }
    let mut signal_ids = vec![];
    // a ring of signals, each naming the next one where its coding should be
    let ring = o.dangling && nsig >= 2 && rng.chance(1, 3);
    for i in 0..nsig {
        let id = if o.dup_ids && rng.chance(1, 3) && i > 0 { "SIG0".to_string() } else { format!("SIG{}", i) };
        signal_ids.push(id.clone());
        // (with dangling references: also references that name an element of the wrong kind -- another signal,
        // itself, a later signal (chains and cycles), a PDU -- which resolve to nothing)
        let cref = if ring {
            format!("SIG{}", (i + 1) % nsig)
        } else if o.dangling && rng.chance(1, 4) {
            match rng.below(4) {
                0 => id.clone(),
                1 | 2 => format!("SIG{}", rng.below(nsig as u64)),
                _ => "P0".to_string(),
            }
        } else if !coding_ids.is_empty() && rng.chance(5, 6) {
            rng.pick(&coding_ids).clone()
        } else {
            "C_none".to_string()
        };
        els.push(Element::Signal(id, cref));
    }
    let mut pdu_ids = vec![];
    for i in 0..npdu {
        let id = if o.dup_ids && rng.chance(1, 3) && i > 0 { "P0".to_string() } else { format!("P{}", i) };
        pdu_ids.push(id.clone());
        let ns = rng.below(5) as usize;
        let signals = (0..ns)
            .map(|_| {
                let r = match rng.below(6) {
                    0 if !signal_ids.is_empty() => rng.pick(&signal_ids).clone(),
                    4 | 5 if ring => rng.pick(&signal_ids).clone(),
                    1 => "S_UNKNOWN".to_string(),
                    2 if o.dangling && !coding_ids.is_empty() => rng.pick(&coding_ids).clone(),
                    3 if o.dangling => "P0".to_string(),
                    _ => rng.pick(&STD_SIGNALS).to_string(),
                };
                (gen_seq(rng), r)
            })
            .collect();
        els.push(Element::Pdu(APdu {
            id,
            short_name: gen_name(rng),
            desc: gen_opt_name(rng),
            byte_length: *rng.pick(&[0u64, 1, 4, 255, u64::MAX]),
            signals,
        }));
    }
    for i in 0..nframe {
        let num = rng.below(6);
        let id = if o.dup_ids && rng.chance(1, 3) && i > 0 { "ID_0".to_string() } else { format!("ID_{}", num + 10 * i as u64) };
        let np = rng.below(4) as usize;
        let pdus = (0..np)
            .map(|_| {
                let r = if o.dangling && rng.chance(1, 4) || pdu_ids.is_empty() {
                    rng.pick(&["P_missing", "ID_0", "SIG0", "C0"]).to_string()
                } else {
                    rng.pick(&pdu_ids).clone()
                };
                (gen_seq(rng), r)
            })
            .collect();
        let both = rng.chance(2, 3);
        els.push(Element::Frame(AFrame {
            id,
            short_name: gen_name(rng),
            byte_length: rng.below(9),
            app: if both { Some(rng.pick(&["APP", "A", "é", "MOTé", "AB€XYZ", "LONGAPPID", "AP  "]).to_string()) } else { gen_opt_name(rng) },
            ctx: if both { Some(rng.pick(&["CTX", "C", "ABCü", "CT\t", "𝄞𝄞"]).to_string()) } else { None },
            mtype: gen_opt_name(rng),
            minfo: gen_opt_name(rng),
            pdus,
        }));
    }
    // permute, then distribute over files
    for i in (1..els.len()).rev() {
        let j = rng.below(i as u64 + 1) as usize;
        els.swap(i, j);
    }
    let nfiles = rng.range(1, 3) as usize;
    let mut layout: Layout = (0..nfiles).map(|_| vec![]).collect();
    for e in els {
        let k = rng.below(nfiles as u64) as usize;
        layout[k].push(e);
    }
    layout
}

/// one FIBEX case line: files (text + events), style, optional layout
pub fn w_fibex_case(w: &mut W, files: &[Option<Vec<u8>>], style: u8, layout: Option<&Layout>) {
    w.n(files.len() as u128);
    for f in files {
        match f {
            None => w.n(0),
            Some(xml) => {
                w.n(1);
                w.b(xml);
                dump_events(xml, w);
            }
        }
    }
    w.n(style as u128);
    match layout {
        None => w.n(0),
        Some(l) => {
            w.n(1);
            w.n(l.len() as u128);
            for f in l {
                w.n(f.len() as u128);
                for e in f {
                    w_element(w, e);
                }
            }
        }
    }
}

pub fn gen_c11(rng: &mut Rng, thorough: bool, out: &mut Cases) {
    let n = if thorough { 30_000 } else { 2_500 };
    for i in 0..n {
        let o = GenOpts { dup_ids: i % 5 == 3, dangling: i % 7 == 5 };
        let layout = gen_layout(rng, &o);
        let style = if i % 3 == 0 { 0 } else { 1 + (i % 6) as u8 };
        let ecu = rng.chance(1, 3);
        let files: Vec<Option<Vec<u8>>> = layout.iter().map(|els| Some(render_file(els, style, ecu))).collect();
        let mut w = W::new();
        w_fibex_case(&mut w, &files, style, Some(&layout));
        if i % 4 == 1 {
            // lookup: message id, with / without extended-header ids
            w.n(rng.below(60) as u128);
            if rng.bool() {
                w.n(1);
                w.b(rng.pick(&["CTX", "C", "X"]).as_bytes());
                w.b(rng.pick(&["APP", "A", "é", "X"]).as_bytes());
            } else {
                w.n(0);
            }
            out.push(51, w);
        } else {
            out.push(50, w);
        }
    }
    // the same documents with elements spelled the other ways XML allows (no abstract expectation: model vs loader)
    for i in 0..n / 3 {
        let o = GenOpts { dup_ids: false, dangling: i % 7 == 5 };
        let layout = gen_layout(rng, &o);
        let style = if i % 4 == 0 { 0 } else { 1 + (i % 6) as u8 };
        let files: Vec<Option<Vec<u8>>> = layout.iter().map(|els| Some(respell_elements(rng, &render_file(els, style, i % 3 == 0)))).collect();
        let mut w = W::new();
        w_fibex_case(&mut w, &files, style, None);
        out.push(50, w);
    }
}

/// The other spellings XML allows for the same element: `<t>text</t>` written as the empty-element tag `<t/>`
/// (text dropped), `<t/>` written as `<t></t>`, and an empty `<t></t>`.  What the loader makes of each is
/// whatever the code says; the model follows the event list, so only model and implementation are compared.
pub fn respell_elements(rng: &mut Rng, doc: &[u8]) -> Vec<u8> {
    let s = String::from_utf8_lossy(doc).to_string();
    let mut out = String::with_capacity(s.len());
    let mut i = 0;
    let b = s.as_bytes();
    while i < b.len() {
        if b[i] == b'<' && i + 1 < b.len() && b[i + 1] != b'/' && b[i + 1] != b'?' && b[i + 1] != b'!' {
            if let Some(gt) = s[i..].find('>') {
                let tag_all = &s[i + 1..i + gt];
                let selfclosed = tag_all.ends_with('/');
                let name = tag_all.trim_end_matches('/').split_whitespace().next().unwrap_or("").to_string();
                if selfclosed {
                    if rng.chance(1, 4) {
                        out.push_str(&format!("<{}></{}>", tag_all.trim_end_matches('/').trim_end(), name));
                        i += gt + 1;
                        continue;
                    }
                } else {
                    let close = format!("</{}>", name);
                    let body_start = i + gt + 1;
                    if let Some(c) = s[body_start..].find('<') {
                        if s[body_start + c..].starts_with(&close) {
                            // a leaf element with text
                            match rng.below(8) {
                                0 => {
                                    out.push_str(&format!("<{}/>", tag_all));
                                    i = body_start + c + close.len();
                                    continue;
                                }
                                1 => {
                                    out.push_str(&format!("<{}>{}", tag_all, close));
                                    i = body_start + c + close.len();
                                    continue;
                                }
                                2 => {
                                    out.push_str(&format!("<{}><![CDATA[{}]]>{}", tag_all, &s[body_start..body_start + c], close));
                                    i = body_start + c + close.len();
                                    continue;
                                }
                                _ => {}
                            }
                        }
                    }
                }
            }
        }
        let ch = s[i..].chars().next().unwrap();
        out.push(ch);
        i += ch.len_utf8();
    }
    out.into_bytes()
}

/// every leaf text `>text</` becomes `><![CDATA[text]]></`
pub fn cdata_text(doc: &[u8]) -> Vec<u8> {
    let s = String::from_utf8_lossy(doc).to_string();
    let mut out = String::new();
    let mut rest = &s[..];
    while let Some(gt) = rest.find('>') {
        out.push_str(&rest[..gt + 1]);
        rest = &rest[gt + 1..];
        if let Some(lt) = rest.find('<') {
            let text = &rest[..lt];
            if !text.trim().is_empty() && rest[lt..].starts_with("</") && !text.contains("]]>") {
                out.push_str("<![CDATA[");
                out.push_str(text);
                out.push_str("]]>");
                rest = &rest[lt..];
            }
        }
    }
    out.push_str(rest);
    out.into_bytes()
}

fn mutate_doc(rng: &mut Rng, doc: &[u8]) -> Vec<u8> {
    let d = mutate_doc_inner(rng, doc);
    // line ends as other platforms write them (anything that counts lines or columns in bytes)
    let d = match rng.below(8) {
        0 => String::from_utf8_lossy(&d).replace('\n', "\r\n").into_bytes(),
        1 => String::from_utf8_lossy(&d).replace('\n', "\r").into_bytes(),
        2 | 3 => {
            // CRLF (or LF) with a comment line of multi-byte text behind every line: whatever position an error
            // message is computed for, multi-byte characters are all around it
            let nl = if rng.bool() { "\r\n" } else { "\n" };
            let fill = *rng.pick(&["é", "€", "𝄞", "aé"]);
            let t = String::from_utf8_lossy(&d).to_string();
            let mut o = String::new();
            for (k, line) in t.split('\n').enumerate() {
                o.push_str(line);
                o.push_str(nl);
                if k > 0 && line.ends_with('>') {
                    o.push_str(&format!("<!--{}-->{}", fill.repeat(12 + k % 7), nl));
                }
            }
            o.into_bytes()
        }
        _ => d,
    };
    if rng.chance(1, 3) {
        // a UTF-8 byte-order mark: the tokenizer strips it, offsets reported for error messages shift
        let mut v = vec![0xef, 0xbb, 0xbf];
        v.extend_from_slice(&d);
        v
    } else {
        d
    }
}

fn mutate_doc_inner(rng: &mut Rng, doc: &[u8]) -> Vec<u8> {
    let mut d = doc.to_vec();
    match rng.below(11) {
        9 | 10 => {
            // an element nested inside an element of the same kind, the outer one's required children restated behind
            // the inner close tag (balanced and well-formed XML, an unusual shape for the event loop)
            let s = String::from_utf8_lossy(doc).to_string();
            let (open, close, tail) = if rng.bool() {
                ("<fx:PDU ", "</fx:PDU>", "<fx:BYTE-LENGTH>1</fx:BYTE-LENGTH>")
            } else {
                ("<fx:FRAME ", "</fx:FRAME>", "<ho:SHORT-NAME>outer</ho:SHORT-NAME><fx:BYTE-LENGTH>1</fx:BYTE-LENGTH>")
            };
            if let Some(a) = s.find(open) {
                if let Some(b) = s[a..].find(close) {
                    let whole = &s[a..a + b + close.len()];
                    // insert a copy of the whole element right behind the outer element's start tag
                    if let Some(gt) = whole.find('>') {
                        let nested = format!("{}{}{}{}", &whole[..gt + 1], whole, tail, &whole[gt + 1..]);
                        d = [s[..a].as_bytes(), nested.as_bytes(), s[a + b + close.len()..].as_bytes()].concat();
                    }
                }
            }
        }
        6 | 7 => {
            // a number that is not one: multi-byte text where BYTE-LENGTH / SEQUENCE-NUMBER want digits (refusal with a
            // position in the error message)
            let s = String::from_utf8_lossy(doc).to_string();
            let tag = *rng.pick(&["BYTE-LENGTH>", "SEQUENCE-NUMBER>"]);
            let hits: Vec<usize> = s.match_indices(tag).map(|(i, _)| i + tag.len()).filter(|i| s[*i..].starts_with(|c: char| c.is_ascii_digit())).collect();
            if !hits.is_empty() {
                let at = *rng.pick(&hits);
                let end = at + s[at..].find('<').unwrap_or(0);
                let junk: String = if rng.chance(1, 2) {
                    rng.pick(&["éé", "1€x", "é", "𝄞1", "12é", "€", "-1", "1e3", " 7", "ü€ü"]).to_string()
                } else {
                    // long ones with a multi-byte character at every possible byte offset (anything that cuts or
                    // pads the text for a message)
                    let k = rng.below(140) as usize;
                    format!("{}{}{}", "1".repeat(k), rng.pick(&["é", "€", "𝄞"]), "9".repeat(rng.below(70) as usize))
                };
                d = [s[..at].as_bytes(), junk.as_bytes(), s[end..].as_bytes()].concat();
            }
        }
        8 => {
            // drop the ID of an element that also carries a multi-byte attribute (missing-attribute refusal)
            let s = String::from_utf8_lossy(doc).to_string();
            let hits: Vec<usize> = s.match_indices(" ID=\"").map(|(i, _)| i).collect();
            if !hits.is_empty() {
                let at = *rng.pick(&hits);
                if let Some(q) = s[at + 5..].find('"') {
                    let end = at + 5 + q + 1;
                    let name = *rng.pick(&[" NAME=\"é\"", " NAME=\"x€é\"", " N=\"𝄞\"", ""]);
                    d = [s[..at].as_bytes(), name.as_bytes(), s[end..].as_bytes()].concat();
                }
            }
        }
        0 => {
            let k = rng.below(d.len() as u64 + 1) as usize;
            d.truncate(k);
        }
        1 => {
            // delete one line (an element or a closing tag)
            let lines: Vec<&[u8]> = doc.split(|b| *b == b'\n').collect();
            let k = rng.below(lines.len() as u64) as usize;
            d = lines.iter().enumerate().filter(|(i, _)| *i != k).map(|(_, l)| l.to_vec()).collect::<Vec<_>>().join(&b'\n');
        }
        2 => {
            // delete an attribute:  NAME="..."
            let s = String::from_utf8_lossy(doc).to_string();
            let hits: Vec<usize> = s.match_indices("ID").map(|(i, _)| i).collect();
            if !hits.is_empty() {
                let at = *rng.pick(&hits);
                if let Some(q1) = s[at..].find('"') {
                    if let Some(q2) = s[at + q1 + 1..].find('"') {
                        let end = at + q1 + 1 + q2 + 1;
                        d = [s[..at].as_bytes(), s[end..].as_bytes()].concat();
                    }
                }
            }
        }
        3 => {
            for _ in 0..rng.range(1, 3) {
                if !d.is_empty() {
                    let k = rng.below(d.len() as u64) as usize;
                    d[k] = *rng.pick(&[b'<', b'>', b'&', b'"', b'/', 0u8, 0xff, b' ', b'=']);
                }
            }
        }
        4 => {
            // duplicate a chunk
            if d.len() > 4 {
                let a = rng.below(d.len() as u64 - 2) as usize;
                let b = a + rng.below((d.len() - a) as u64) as usize;
                let chunk = d[a..b].to_vec();
                let at = rng.below(d.len() as u64) as usize;
                d.splice(at..at, chunk);
            }
        }
        _ => {
            // delete a chunk
            if d.len() > 4 {
                let a = rng.below(d.len() as u64 - 2) as usize;
                let b = a + rng.below(((d.len() - a) as u64).min(40)) as usize;
                d.drain(a..b);
            }
        }
    }
    d
}

pub fn gen_c12(rng: &mut Rng, thorough: bool, out: &mut Cases) {
    // empty path list, missing file, empty file
    let mut w = W::new();
    w_fibex_case(&mut w, &[], 1, None);
    out.push(50, w);
    let mut w = W::new();
    w_fibex_case(&mut w, &[None], 1, None);
    out.push(50, w);
    let mut w = W::new();
    w_fibex_case(&mut w, &[Some(vec![])], 1, None);
    out.push(50, w);
    // every truncation offset of small documents (every third one with its text wrapped in CDATA sections)
    let ndocs = if thorough { 12 } else { 3 };
    for i in 0..ndocs {
        let o = GenOpts { dup_ids: false, dangling: false };
        let mut layout = gen_layout(rng, &o);
        while layout.iter().map(|f| f.len()).sum::<usize>() < 3 {
            layout = gen_layout(rng, &o);
        }
        let els: Vec<Element> = layout.into_iter().flatten().collect();
        let doc = render_file(&els, if i % 2 == 0 { 1 } else { 0 }, false);
        let doc = if i % 3 == 2 { cdata_text(&doc) } else { doc };
        for k in 0..doc.len() {
            let mut w = W::new();
            w_fibex_case(&mut w, &[Some(doc[..k].to_vec())], 1, None);
            out.push(50, w);
        }
    }
    // the crate's own sample document, cut at a stratified set of offsets
    if let Ok(sample) = std::fs::read("/repo/tests/dlt-messages.xml") {
        let step = if thorough { 7 } else { 97 };
        let mut k = 0;
        while k < sample.len() {
            let mut w = W::new();
            w_fibex_case(&mut w, &[Some(sample[..k].to_vec())], 1, None);
            out.push(50, w);
            k += step;
        }
    }
    let n = if thorough { 20_000 } else { 1_500 };
    for i in 0..n {
        let o = GenOpts { dup_ids: i % 5 == 3, dangling: i % 3 != 1 };
        let layout = gen_layout(rng, &o);
        let style = if i % 4 == 0 { 0 } else { 1 + (i % 6) as u8 };
        let mut files: Vec<Option<Vec<u8>>> = layout.iter().map(|els| Some(render_file(els, style, rng.chance(1, 3)))).collect();
        let k = rng.below(files.len() as u64) as usize;
        if i % 3 == 0 {
            // left intact: odd but loadable documents (references into nowhere, to the wrong kind, in circles)
            if i % 2 == 0 {
                if let Some(d) = files[k].clone() {
                    files[k] = Some(respell_elements(rng, &d));
                }
            }
        } else if rng.chance(1, 12) {
            files[k] = None;
        } else if let Some(d) = files[k].clone() {
            files[k] = Some(mutate_doc(rng, &d));
        }
        let mut w = W::new();
        w_fibex_case(&mut w, &files, 1, None);
        out.push(50, w);
    }
}
