//! Readers (C07 blocking, C08 async): the byte source follows a schedule taken from the case.
use crate::ops::{w_parse_err, w_parsed, Outcome};
use crate::wire::*;
use dlt_core::dlt::*;
use dlt_core::filtering::{DltFilterConfig, ProcessedDltFilterConfig};
use dlt_core::parse::{dlt_message, DltParseError, ParsedMessage};
use dlt_core::read::DltMessageReader;
use dlt_core::stream::DltStreamReader;
use std::collections::VecDeque;
use std::panic::{catch_unwind, AssertUnwindSafe};
use std::pin::Pin;
use std::task::{Context, Poll};

const MESSAGE_MAX_LEN: usize = 16 + 65535;

/// What the caller of read_message observes, one per call (model: Reader.outcome)
#[derive(Clone, Debug, PartialEq)]
pub enum Obs {
    Msg(Vec<Tok>), // w_parsed tokens
    Err(Vec<Tok>), // w_parse_err tokens
    Panic,
}
impl Obs {
    fn kind(&self) -> u8 {
        match self {
            Obs::Msg(_) => 0,
            Obs::Err(t) => match t.first() {
                Some(Tok::N(1)) => 1,
                Some(Tok::N(2)) => 2,
                _ => 3,
            },
            Obs::Panic => 4,
        }
    }
}

fn obs_of(r: Result<Option<ParsedMessage>, DltParseError>) -> Option<Obs> {
    match r {
        Ok(None) => None,
        Ok(Some(pm)) => {
            let mut w = W::new();
            w_parsed(&mut w, &pm);
            Some(Obs::Msg(w.0))
        }
        Err(e) => {
            let mut w = W::new();
            w_parse_err(&mut w, &e);
            Some(Obs::Err(w.0))
        }
    }
}

fn w_obs_list(w: &mut W, l: &[Obs], finished: bool) {
    w.n(l.len() as u128);
    for o in l {
        match o {
            Obs::Msg(t) => {
                w.n(0);
                w.0.extend(t.iter().cloned());
            }
            Obs::Err(t) => {
                w.n(1);
                w.0.extend(t.iter().cloned());
            }
            Obs::Panic => w.n(9),
        }
    }
    w.bool(finished);
}

/// std::io::Read over (stream, schedule): entry 0 = Interrupted, k > 0 = at most k bytes,
/// exhausted schedule = as much as fits.  Ok(0) only at the true end.
pub struct SchedSource {
    pub data: Vec<u8>,
    pub pos: usize,
    pub sched: VecDeque<u64>,
}
impl SchedSource {
    fn grant(&mut self, buf_len: usize) -> Option<usize> {
        let remaining = self.data.len() - self.pos;
        match self.sched.pop_front() {
            Some(0) => None,
            Some(k) => Some((k.min(usize::MAX as u64) as usize).min(buf_len).min(remaining)),
            None => Some(buf_len.min(remaining)),
        }
    }
}
impl std::io::Read for SchedSource {
    fn read(&mut self, buf: &mut [u8]) -> std::io::Result<usize> {
        match self.grant(buf.len()) {
            None => Err(std::io::Error::new(std::io::ErrorKind::Interrupted, "scheduled interruption")),
            Some(n) => {
                buf[..n].copy_from_slice(&self.data[self.pos..self.pos + n]);
                self.pos += n;
                Ok(n)
            }
        }
    }
}
impl futures::io::AsyncRead for SchedSource {
    fn poll_read(mut self: Pin<&mut Self>, cx: &mut Context<'_>, buf: &mut [u8]) -> Poll<std::io::Result<usize>> {
        match self.grant(buf.len()) {
            None => {
                cx.waker().wake_by_ref();
                Poll::Pending
            }
            Some(n) => {
                let pos = self.pos;
                buf[..n].copy_from_slice(&self.data[pos..pos + n]);
                self.pos += n;
                Poll::Ready(Ok(n))
            }
        }
    }
}

/// 0 = the default constructor (`::new`, the crate's own capacity constants); otherwise with_capacity
fn cap_of(c: u128) -> usize {
    if c == 0 {
        0
    } else {
        (c as usize).max(MESSAGE_MAX_LEN)
    }
}

pub fn run_blocking(sh: bool, f: &Option<DltFilterConfig>, cap: usize, sched: &[u64], data: &[u8]) -> (Vec<Obs>, bool) {
    run_blocking_mml(sh, f, cap, 0, sched, data)
}

pub fn run_blocking_mml(sh: bool, f: &Option<DltFilterConfig>, cap: usize, mml: usize, sched: &[u64], data: &[u8]) -> (Vec<Obs>, bool) {
    let pf: Option<ProcessedDltFilterConfig> = f.as_ref().map(|c| c.into());
    let src = SchedSource { data: data.to_vec(), pos: 0, sched: sched.iter().cloned().collect() };
    let mut out = vec![];
    let limit = data.len() + 1;
    let mut reader = match catch_unwind(AssertUnwindSafe(|| {
        if mml != 0 {
            DltMessageReader::with_capacity(cap.max(mml), mml, src, sh)
        } else if cap == 0 {
            DltMessageReader::new(src, sh)
        } else {
            DltMessageReader::with_capacity(cap, MESSAGE_MAX_LEN, src, sh)
        }
    })) {
        Ok(r) => r,
        Err(_) => return (vec![Obs::Panic], true),
    };
    for _ in 0..limit {
        match catch_unwind(AssertUnwindSafe(|| dlt_core::read::read_message(&mut reader, pf.as_ref()))) {
            Err(_) => {
                out.push(Obs::Panic);
                return (out, true);
            }
            Ok(r) => match obs_of(r) {
                None => return (out, true),
                Some(o) => out.push(o),
            },
        }
    }
    (out, false)
}

pub fn run_async(sh: bool, f: &Option<DltFilterConfig>, cap: usize, mml: usize, sched: &[u64], data: &[u8]) -> (Vec<Obs>, bool) {
    let pf: Option<ProcessedDltFilterConfig> = f.as_ref().map(|c| c.into());
    let src = SchedSource { data: data.to_vec(), pos: 0, sched: sched.iter().cloned().collect() };
    let mut out = vec![];
    let limit = data.len() + 1;
    let mut reader = match catch_unwind(AssertUnwindSafe(|| {
        if mml != 0 {
            DltStreamReader::with_capacity(cap.max(mml), mml, src, sh)
        } else if cap == 0 {
            DltStreamReader::new(src, sh)
        } else {
            DltStreamReader::with_capacity(cap, MESSAGE_MAX_LEN, src, sh)
        }
    })) {
        Ok(r) => r,
        Err(_) => return (vec![Obs::Panic], true),
    };
    for _ in 0..limit {
        match catch_unwind(AssertUnwindSafe(|| futures::executor::block_on(dlt_core::stream::read_message(&mut reader, pf.as_ref())))) {
            Err(_) => {
                out.push(Obs::Panic);
                return (out, true);
            }
            Ok(r) => match obs_of(r) {
                None => return (out, true),
                Some(o) => out.push(o),
            },
        }
    }
    (out, false)
}

/// "cut the byte stream at the declared message lengths and parse each piece", written from the
/// property text on the implementation's own slice parser
fn slicing(sh: bool, f: &Option<DltFilterConfig>, data: &[u8]) -> Vec<Obs> {
    let pf: Option<ProcessedDltFilterConfig> = f.as_ref().map(|c| c.into());
    let storage = if sh { 16 } else { 0 };
    let hdr = storage + 4;
    let mut out = vec![];
    let mut s = data;
    loop {
        if s.len() < hdr {
            return out; // end of stream
        }
        let l = ((s[storage + 2] as usize) << 8) | s[storage + 3] as usize;
        if l < 4 {
            // a length smaller than its own header: an error, reading goes on behind the header bytes
            let mut w = W::new();
            w.n(2);
            out.push(Obs::Err(w.0));
            s = &s[hdr..];
            continue;
        }
        if s.len() < storage + l {
            let mut w = W::new();
            w.n(3);
            out.push(Obs::Err(w.0));
            return out; // truncated tail: an error, never a message
        }
        let piece = &s[..storage + l];
        match catch_unwind(AssertUnwindSafe(|| dlt_message(piece, pf.as_ref(), sh).map(|x| x.1))) {
            Err(_) => {
                out.push(Obs::Panic);
                return out;
            }
            Ok(Ok(pm)) => {
                let mut w = W::new();
                w_parsed(&mut w, &pm);
                out.push(Obs::Msg(w.0));
            }
            Ok(Err(e)) => {
                let mut w = W::new();
                w_parse_err(&mut w, &e);
                out.push(Obs::Err(w.0));
            }
        }
        s = &s[storage + l..];
    }
}

fn read_case(toks: &[Tok]) -> (bool, Option<DltFilterConfig>, usize, usize, Vec<u64>, Vec<u8>) {
    let mut r = R::new(toks);
    let sh = r.bool();
    let f = r.opt_filter();
    let cap = cap_of(r.n());
    let mml = r.n() as usize; // 0 = the default 16 + 65535
    let n = r.n();
    let sched: Vec<u64> = (0..n).map(|_| r.n() as u64).collect();
    let data = r.b();
    (sh, f, cap, mml, sched, data)
}

fn describe(l: &[Obs]) -> String {
    l.iter().map(|o| o.kind().to_string()).collect::<Vec<_>>().join("")
}

/// 40 READ
fn op_read(toks: &[Tok], prop: &str) -> Outcome {
    let (sh, f, cap, mml, sched, data) = read_case(toks);
    let (obs, fin) = run_blocking_mml(sh, &f, cap, mml, &sched, &data);
    let mut w = W::new();
    w_obs_list(&mut w, &obs, fin);
    let mut oracle = vec![];
    if prop == "C07" {
        if obs.contains(&Obs::Panic) {
            oracle.push(("no_panic".into(), format!("the reader panicked after {} outcomes", obs.len() - 1)));
        }
        if !fin {
            oracle.push(("terminates".into(), "read_message did not report end of stream within len+1 calls".into()));
        }
        let want = slicing(sh, &f, &data);
        if obs != want {
            oracle.push((
                "equals_slicing".into(),
                format!("reader outcomes {} differ from cutting at the declared lengths {} (0 msg,1 incomplete,2 hickup,3 unrecoverable,4 panic)", describe(&obs), describe(&want)),
            ));
        }
        // fragmentation independence on the implementation itself
        let (plain, _) = run_blocking_mml(sh, &f, cap, mml, &[], &data);
        if plain != obs {
            oracle.push(("fragmentation_independent".into(), format!("with this schedule {} but with whole reads {}", describe(&obs), describe(&plain))));
        }
    }
    Outcome { result: w.0, oracle }
}

/// 41 ASYNC
fn op_async(toks: &[Tok], prop: &str) -> Outcome {
    let (sh, f, cap, mml, sched, data) = read_case(toks);
    let (obs, fin) = run_async(sh, &f, cap, mml, &sched, &data);
    let mut w = W::new();
    w_obs_list(&mut w, &obs, fin);
    let mut oracle = vec![];
    if prop == "C08" {
        if obs.contains(&Obs::Panic) {
            oracle.push(("no_panic".into(), format!("the async reader panicked after {} outcomes", obs.len() - 1)));
        }
        if !fin {
            oracle.push(("terminates".into(), "read_message did not report end of stream within len+1 calls".into()));
        }
        let (blocking, bfin) = run_blocking_mml(sh, &f, cap, mml, &[], &data);
        // same messages, then the same kind of terminal outcome (error class)
        let same = obs.len() == blocking.len()
            && bfin == fin
            && obs.iter().zip(blocking.iter()).all(|(a, b)| match (a, b) {
                (Obs::Msg(x), Obs::Msg(y)) => x == y,
                (a, b) => a.kind() == b.kind(),
            });
        if !same {
            oracle.push(("equals_blocking".into(), format!("async {} vs blocking {}", describe(&obs), describe(&blocking))));
        }
    }
    Outcome { result: w.0, oracle }
}

/// a source that produces first ++ rec * nrec ++ tail without holding it (streams of gigabytes)
pub struct GenSource {
    first: Vec<u8>,
    rec: Vec<u8>,
    nrec: u64,
    tail: Vec<u8>,
    pos: u64,
}
impl GenSource {
    fn total(&self) -> u64 {
        self.first.len() as u64 + self.nrec * self.rec.len() as u64 + self.tail.len() as u64
    }
    fn fill(&mut self, buf: &mut [u8]) -> usize {
        let mut done = 0;
        while done < buf.len() && self.pos < self.total() {
            let (src, off): (&[u8], usize) = if self.pos < self.first.len() as u64 {
                (&self.first, self.pos as usize)
            } else {
                let p = self.pos - self.first.len() as u64;
                let body = self.nrec * self.rec.len() as u64;
                if p < body {
                    (&self.rec, (p % self.rec.len() as u64) as usize)
                } else {
                    (&self.tail, (p - body) as usize)
                }
            };
            let k = (src.len() - off).min(buf.len() - done);
            buf[done..done + k].copy_from_slice(&src[off..off + k]);
            done += k;
            self.pos += k as u64;
        }
        done
    }
}
impl std::io::Read for GenSource {
    fn read(&mut self, buf: &mut [u8]) -> std::io::Result<usize> {
        Ok(self.fill(buf))
    }
}
impl futures::io::AsyncRead for GenSource {
    fn poll_read(mut self: Pin<&mut Self>, cx: &mut Context<'_>, buf: &mut [u8]) -> Poll<std::io::Result<usize>> {
        let _ = cx;
        let n = self.fill(buf);
        Poll::Ready(Ok(n))
    }
}

fn run_generated(is_async: bool, sh: bool, f: &Option<DltFilterConfig>, src: GenSource, limit: usize) -> (Vec<Obs>, bool) {
    let pf: Option<ProcessedDltFilterConfig> = f.as_ref().map(|c| c.into());
    let mut out = vec![];
    if is_async {
        let mut reader = DltStreamReader::new(src, sh);
        for _ in 0..limit {
            match catch_unwind(AssertUnwindSafe(|| futures::executor::block_on(dlt_core::stream::read_message(&mut reader, pf.as_ref())))) {
                Err(_) => {
                    out.push(Obs::Panic);
                    return (out, true);
                }
                Ok(r) => match obs_of(r) {
                    None => return (out, true),
                    Some(o) => out.push(o),
                },
            }
        }
    } else {
        let mut reader = DltMessageReader::new(src, sh);
        for _ in 0..limit {
            match catch_unwind(AssertUnwindSafe(|| dlt_core::read::read_message(&mut reader, pf.as_ref()))) {
                Err(_) => {
                    out.push(Obs::Panic);
                    return (out, true);
                }
                Ok(r) => match obs_of(r) {
                    None => return (out, true),
                    Some(o) => out.push(o),
                },
            }
        }
    }
    (out, false)
}

/// 43 READ_BIG: nrec records of declared length l (zero payload), then a tail: a stream longer than the BufReader
fn op_read_big(toks: &[Tok], prop: &str) -> Outcome {
    let mut r = R::new(toks);
    let is_async = r.bool();
    let sh = r.bool();
    let f = r.opt_filter();
    let cap = cap_of(r.n());
    let n = r.n();
    let sched: Vec<u64> = (0..n).map(|_| r.n() as u64).collect();
    let l1 = r.n() as usize;
    let nrec = r.n() as usize;
    let l = r.n() as usize;
    let tail = r.b();
    let storage = if sh { 16 } else { 0 };
    let record = |l: usize| -> Vec<u8> {
        let mut one = vec![0u8; storage + l];
        if sh {
            one[..4].copy_from_slice(b"DLT\x01");
        }
        one[storage] = 0x20;
        one[storage + 2] = (l >> 8) as u8;
        one[storage + 3] = l as u8;
        one
    };
    let one = record(l);
    if nrec as u64 * one.len() as u64 > (1 << 30) {
        // gigabytes: generated on the fly, default readers, whole reads; no slicing oracle (nothing to slice)
        let src = GenSource { first: if l1 != 0 { record(l1) } else { vec![] }, rec: one, nrec: nrec as u64, tail: tail.clone(), pos: 0 };
        let (obs, fin) = run_generated(is_async, sh, &f, src, nrec + 16);
        let mut w = W::new();
        w_obs_list(&mut w, &obs, fin);
        let mut oracle = vec![];
        if prop == "C07" || prop == "C08" {
            if obs.contains(&Obs::Panic) {
                oracle.push(("no_panic".into(), format!("the reader panicked after {} outcomes ({} bytes)", obs.len() - 1, (obs.len() - 1) as u64 * (storage + l) as u64)));
            }
            if !fin {
                oracle.push(("terminates".into(), "read_message did not report end of stream".into()));
            }
        }
        return Outcome { result: w.0, oracle };
    }
    let mut data = Vec::with_capacity(nrec * one.len() + tail.len() + storage + l1);
    if l1 != 0 {
        data.extend_from_slice(&record(l1));
    }
    for _ in 0..nrec {
        data.extend_from_slice(&one);
    }
    data.extend_from_slice(&tail);
    let (obs, fin) = if is_async { run_async(sh, &f, cap, 0, &sched, &data) } else { run_blocking_mml(sh, &f, cap, 0, &sched, &data) };
    let mut w = W::new();
    w_obs_list(&mut w, &obs, fin);
    let mut oracle = vec![];
    if prop == "C07" || prop == "C08" {
        if obs.contains(&Obs::Panic) {
            oracle.push(("no_panic".into(), format!("the reader panicked after {} outcomes", obs.len() - 1)));
        }
        let want = slicing(sh, &f, &data);
        if obs != want {
            oracle.push(("equals_slicing".into(), format!("reader outcomes {} differ from cutting at the declared lengths {}", &describe(&obs)[..describe(&obs).len().min(200)], &describe(&want)[..describe(&want).len().min(200)])));
        }
    }
    Outcome { result: w.0, oracle }
}

pub fn run_case4(prop: &str, op: u32, toks: &[Tok]) -> Outcome {
    match op {
        43 => op_read_big(toks, prop),
        40 => op_read(toks, prop),
        41 => op_async(toks, prop),
        _ => crate::ops5::run_case5(prop, op, toks),
    }
}

#[allow(dead_code)]
fn _unused(_: Message) {}
