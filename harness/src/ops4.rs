//! Readers, fixed-point conversion, FIBEX.
use crate::ops::Outcome;
use crate::wire::*;

pub fn run_case4(_prop: &str, op: u32, _toks: &[Tok]) -> Outcome {
    panic!("unknown op {}", op)
}
