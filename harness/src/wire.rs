//! Exchange format with the Coq model (coq/Model/Wire.v): flat token lists.
use dlt_core::dlt::*;
use dlt_core::filtering::DltFilterConfig;

#[derive(Debug, Clone, PartialEq)]
pub enum Tok {
    N(u128),
    Z(i128),
    B(Vec<u8>),
}

pub fn hex(bs: &[u8]) -> String {
    let mut s = String::with_capacity(bs.len() * 2);
    for b in bs {
        s.push_str(&format!("{:02x}", b));
    }
    s
}
pub fn unhex(s: &str) -> Vec<u8> {
    let b = s.as_bytes();
    let mut v = Vec::with_capacity(b.len() / 2);
    let hv = |c: u8| -> u8 {
        match c {
            b'0'..=b'9' => c - b'0',
            b'a'..=b'f' => c - b'a' + 10,
            b'A'..=b'F' => c - b'A' + 10,
            _ => panic!("bad hex"),
        }
    };
    let mut i = 0;
    while i + 1 < b.len() {
        v.push(hv(b[i]) * 16 + hv(b[i + 1]));
        i += 2;
    }
    v
}

pub fn print_toks(ts: &[Tok]) -> String {
    let mut parts = Vec::with_capacity(ts.len());
    for t in ts {
        parts.push(match t {
            Tok::N(n) => format!("n{:x}", n),
            Tok::Z(z) => {
                if *z < 0 {
                    format!("z-{:x}", z.unsigned_abs())
                } else {
                    format!("z{:x}", z)
                }
            }
            Tok::B(b) => format!("x{}", hex(b)),
        });
    }
    parts.join(" ")
}

pub fn parse_toks(s: &str) -> Vec<Tok> {
    s.split_whitespace()
        .map(|t| {
            let (k, body) = t.split_at(1);
            match k {
                "n" => Tok::N(u128::from_str_radix(body, 16).expect("n")),
                "z" => {
                    if let Some(r) = body.strip_prefix('-') {
                        let m = u128::from_str_radix(r, 16).expect("z");
                        Tok::Z((m as i128).wrapping_neg())
                    } else {
                        Tok::Z(u128::from_str_radix(body, 16).expect("z") as i128)
                    }
                }
                "x" => Tok::B(unhex(body)),
                _ => panic!("bad token {}", t),
            }
        })
        .collect()
}

// ---------------------------------------------------------------- writers
pub struct W(pub Vec<Tok>);
impl W {
    pub fn new() -> Self {
        W(Vec::new())
    }
    pub fn n(&mut self, v: u128) {
        self.0.push(Tok::N(v));
    }
    pub fn z(&mut self, v: i128) {
        self.0.push(Tok::Z(v));
    }
    pub fn b(&mut self, v: &[u8]) {
        self.0.push(Tok::B(v.to_vec()));
    }
    pub fn bool(&mut self, v: bool) {
        self.n(v as u128);
    }
    pub fn opt_str(&mut self, v: &Option<String>) {
        match v {
            Some(s) => {
                self.n(1);
                self.b(s.as_bytes())
            }
            None => self.n(0),
        }
    }
    pub fn opt_u32(&mut self, v: &Option<u32>) {
        match v {
            Some(s) => {
                self.n(1);
                self.n(*s as u128)
            }
            None => self.n(0),
        }
    }
    pub fn endian(&mut self, e: Endianness) {
        self.n(match e {
            Endianness::Little => 0,
            Endianness::Big => 1,
        })
    }
    pub fn log_level(&mut self, l: &LogLevel) {
        match l {
            LogLevel::Fatal => self.n(1),
            LogLevel::Error => self.n(2),
            LogLevel::Warn => self.n(3),
            LogLevel::Info => self.n(4),
            LogLevel::Debug => self.n(5),
            LogLevel::Verbose => self.n(6),
            LogLevel::Invalid(v) => {
                self.n(7);
                self.n(*v as u128)
            }
        }
    }
    pub fn control(&mut self, c: &ControlType) {
        match c {
            ControlType::Request => self.n(1),
            ControlType::Response => self.n(2),
            ControlType::Unknown(v) => {
                self.n(3);
                self.n(*v as u128)
            }
        }
    }
    pub fn mtype(&mut self, t: &MessageType) {
        match t {
            MessageType::Log(l) => {
                self.n(0);
                self.log_level(l)
            }
            MessageType::ApplicationTrace(a) => {
                self.n(1);
                match a {
                    ApplicationTraceType::Variable => self.n(1),
                    ApplicationTraceType::FunctionIn => self.n(2),
                    ApplicationTraceType::FunctionOut => self.n(3),
                    ApplicationTraceType::State => self.n(4),
                    ApplicationTraceType::Vfb => self.n(5),
                    ApplicationTraceType::Invalid(v) => {
                        self.n(6);
                        self.n(*v as u128)
                    }
                }
            }
            MessageType::NetworkTrace(a) => {
                self.n(2);
                match a {
                    NetworkTraceType::Invalid => self.n(0),
                    NetworkTraceType::Ipc => self.n(1),
                    NetworkTraceType::Can => self.n(2),
                    NetworkTraceType::Flexray => self.n(3),
                    NetworkTraceType::Most => self.n(4),
                    NetworkTraceType::Ethernet => self.n(5),
                    NetworkTraceType::Someip => self.n(6),
                    NetworkTraceType::UserDefined(v) => {
                        self.n(7);
                        self.n(*v as u128)
                    }
                }
            }
            MessageType::Control(c) => {
                self.n(3);
                self.control(c)
            }
            MessageType::Unknown((a, b)) => {
                self.n(4);
                self.n(*a as u128);
                self.n(*b as u128)
            }
        }
    }
    pub fn ti(&mut self, t: &TypeInfo) {
        let tl = |l: TypeLength| l as u128;
        let fw = |l: FloatWidth| l as u128;
        match t.kind {
            TypeInfoKind::Bool => {
                self.n(0);
                self.n(0)
            }
            TypeInfoKind::Signed(l) => {
                self.n(1);
                self.n(tl(l))
            }
            TypeInfoKind::SignedFixedPoint(w) => {
                self.n(2);
                self.n(fw(w))
            }
            TypeInfoKind::Unsigned(l) => {
                self.n(3);
                self.n(tl(l))
            }
            TypeInfoKind::UnsignedFixedPoint(w) => {
                self.n(4);
                self.n(fw(w))
            }
            TypeInfoKind::Float(w) => {
                self.n(5);
                self.n(fw(w))
            }
            TypeInfoKind::StringType => {
                self.n(6);
                self.n(0)
            }
            TypeInfoKind::Raw => {
                self.n(7);
                self.n(0)
            }
        }
        match t.coding {
            StringCoding::ASCII => {
                self.n(0);
                self.n(0)
            }
            StringCoding::UTF8 => {
                self.n(1);
                self.n(0)
            }
            StringCoding::Reserved(v) => {
                self.n(2);
                self.n(v as u128)
            }
        }
        self.bool(t.has_variable_info);
        self.bool(t.has_trace_info);
    }
    pub fn value(&mut self, v: &Value) {
        match v {
            Value::Bool(x) => {
                self.n(0);
                self.n(*x as u128)
            }
            Value::U8(x) => {
                self.n(1);
                self.n(*x as u128)
            }
            Value::U16(x) => {
                self.n(2);
                self.n(*x as u128)
            }
            Value::U32(x) => {
                self.n(3);
                self.n(*x as u128)
            }
            Value::U64(x) => {
                self.n(4);
                self.n(*x as u128)
            }
            Value::U128(x) => {
                self.n(5);
                self.n(*x)
            }
            Value::I8(x) => {
                self.n(6);
                self.z(*x as i128)
            }
            Value::I16(x) => {
                self.n(7);
                self.z(*x as i128)
            }
            Value::I32(x) => {
                self.n(8);
                self.z(*x as i128)
            }
            Value::I64(x) => {
                self.n(9);
                self.z(*x as i128)
            }
            Value::I128(x) => {
                self.n(10);
                self.z(*x)
            }
            Value::F32(x) => {
                self.n(11);
                self.n(x.to_bits() as u128)
            }
            Value::F64(x) => {
                self.n(12);
                self.n(x.to_bits() as u128)
            }
            Value::StringVal(s) => {
                self.n(13);
                self.b(s.as_bytes())
            }
            Value::Raw(b) => {
                self.n(14);
                self.b(b)
            }
        }
    }
    pub fn arg(&mut self, a: &Argument) {
        self.ti(&a.type_info);
        self.opt_str(&a.name);
        self.opt_str(&a.unit);
        match &a.fixed_point {
            Some(fp) => {
                self.n(1);
                self.n(fp.quantization.to_bits() as u128);
                match fp.offset {
                    FixedPointValue::I32(v) => {
                        self.n(32);
                        self.z(v as i128)
                    }
                    FixedPointValue::I64(v) => {
                        self.n(64);
                        self.z(v as i128)
                    }
                }
            }
            None => self.n(0),
        }
        self.value(&a.value);
    }
    pub fn args(&mut self, args: &[Argument]) {
        self.n(args.len() as u128);
        for a in args {
            self.arg(a);
        }
    }
    pub fn payload(&mut self, p: &PayloadContent) {
        match p {
            PayloadContent::Verbose(args) => {
                self.n(0);
                self.args(args);
            }
            PayloadContent::NonVerbose(id, bs) => {
                self.n(1);
                self.n(*id as u128);
                self.b(bs)
            }
            PayloadContent::ControlMsg(c, bs) => {
                self.n(2);
                self.control(c);
                self.b(bs)
            }
            PayloadContent::NetworkTrace(sl) => {
                self.n(3);
                self.n(sl.len() as u128);
                for s in sl {
                    self.b(s)
                }
            }
        }
    }
    pub fn ts(&mut self, t: &DltTimeStamp) {
        self.n(t.seconds as u128);
        self.n(t.microseconds as u128);
    }
    pub fn sh(&mut self, s: &StorageHeader) {
        self.ts(&s.timestamp);
        self.b(s.ecu_id.as_bytes());
    }
    pub fn opt_sh(&mut self, s: &Option<StorageHeader>) {
        match s {
            Some(s) => {
                self.n(1);
                self.sh(s)
            }
            None => self.n(0),
        }
    }
    pub fn std(&mut self, h: &StandardHeader) {
        self.n(h.version as u128);
        self.endian(h.endianness);
        self.bool(h.has_extended_header);
        self.n(h.message_counter as u128);
        self.opt_str(&h.ecu_id);
        self.opt_u32(&h.session_id);
        self.opt_u32(&h.timestamp);
        self.n(h.payload_length as u128);
    }
    pub fn ext(&mut self, x: &ExtendedHeader) {
        self.bool(x.verbose);
        self.n(x.argument_count as u128);
        self.mtype(&x.message_type);
        self.b(x.application_id.as_bytes());
        self.b(x.context_id.as_bytes());
    }
    pub fn msg(&mut self, m: &Message) {
        self.opt_sh(&m.storage_header);
        self.std(&m.header);
        match &m.extended_header {
            Some(x) => {
                self.n(1);
                self.ext(x)
            }
            None => self.n(0),
        }
        self.payload(&m.payload);
    }
    pub fn cfg(&mut self, c: &MessageConfig) {
        self.n(c.version as u128);
        self.n(c.counter as u128);
        self.endian(c.endianness);
        self.opt_str(&c.ecu_id);
        self.opt_u32(&c.session_id);
        self.opt_u32(&c.timestamp);
        self.payload(&c.payload);
        match &c.extended_header_info {
            Some(x) => {
                self.n(1);
                self.mtype(&x.message_type);
                self.b(x.app_id.as_bytes());
                self.b(x.context_id.as_bytes());
            }
            None => self.n(0),
        }
    }
    pub fn opt_ids(&mut self, v: &Option<Vec<String>>) {
        match v {
            Some(l) => {
                self.n(1);
                self.n(l.len() as u128);
                for s in l {
                    self.b(s.as_bytes())
                }
            }
            None => self.n(0),
        }
    }
    pub fn filter(&mut self, f: &DltFilterConfig) {
        match f.min_log_level {
            Some(l) => {
                self.n(1);
                self.n(l as u128)
            }
            None => self.n(0),
        }
        self.opt_ids(&f.app_ids);
        self.opt_ids(&f.ecu_ids);
        self.opt_ids(&f.context_ids);
        self.z(f.app_id_count as i128);
        self.z(f.context_id_count as i128);
    }
    pub fn opt_filter(&mut self, f: &Option<DltFilterConfig>) {
        match f {
            Some(f) => {
                self.n(1);
                self.filter(f)
            }
            None => self.n(0),
        }
    }
}

// ---------------------------------------------------------------- readers
pub struct R<'a> {
    pub t: &'a [Tok],
    pub i: usize,
}
impl<'a> R<'a> {
    pub fn new(t: &'a [Tok]) -> Self {
        R { t, i: 0 }
    }
    pub fn done(&self) -> bool {
        self.i == self.t.len()
    }
    pub fn n(&mut self) -> u128 {
        let r = match &self.t[self.i] {
            Tok::N(n) => *n,
            x => panic!("expected N got {:?}", x),
        };
        self.i += 1;
        r
    }
    pub fn z(&mut self) -> i128 {
        let r = match &self.t[self.i] {
            Tok::Z(n) => *n,
            Tok::N(n) => *n as i128,
            x => panic!("expected Z got {:?}", x),
        };
        self.i += 1;
        r
    }
    pub fn b(&mut self) -> Vec<u8> {
        let r = match &self.t[self.i] {
            Tok::B(n) => n.clone(),
            x => panic!("expected B got {:?}", x),
        };
        self.i += 1;
        r
    }
    pub fn s(&mut self) -> String {
        String::from_utf8(self.b()).expect("wire string must be UTF-8")
    }
    pub fn bool(&mut self) -> bool {
        self.n() != 0
    }
    pub fn opt_str(&mut self) -> Option<String> {
        if self.n() == 0 {
            None
        } else {
            Some(self.s())
        }
    }
    pub fn opt_u32(&mut self) -> Option<u32> {
        if self.n() == 0 {
            None
        } else {
            Some(self.n() as u32)
        }
    }
    pub fn endian(&mut self) -> Endianness {
        if self.n() == 0 {
            Endianness::Little
        } else {
            Endianness::Big
        }
    }
    pub fn log_level(&mut self) -> LogLevel {
        match self.n() {
            1 => LogLevel::Fatal,
            2 => LogLevel::Error,
            3 => LogLevel::Warn,
            4 => LogLevel::Info,
            5 => LogLevel::Debug,
            6 => LogLevel::Verbose,
            _ => LogLevel::Invalid(self.n() as u8),
        }
    }
    pub fn control(&mut self) -> ControlType {
        match self.n() {
            1 => ControlType::Request,
            2 => ControlType::Response,
            _ => ControlType::Unknown(self.n() as u8),
        }
    }
    pub fn mtype(&mut self) -> MessageType {
        match self.n() {
            0 => MessageType::Log(self.log_level()),
            1 => MessageType::ApplicationTrace(match self.n() {
                1 => ApplicationTraceType::Variable,
                2 => ApplicationTraceType::FunctionIn,
                3 => ApplicationTraceType::FunctionOut,
                4 => ApplicationTraceType::State,
                5 => ApplicationTraceType::Vfb,
                _ => ApplicationTraceType::Invalid(self.n() as u8),
            }),
            2 => MessageType::NetworkTrace(match self.n() {
                0 => NetworkTraceType::Invalid,
                1 => NetworkTraceType::Ipc,
                2 => NetworkTraceType::Can,
                3 => NetworkTraceType::Flexray,
                4 => NetworkTraceType::Most,
                5 => NetworkTraceType::Ethernet,
                6 => NetworkTraceType::Someip,
                _ => NetworkTraceType::UserDefined(self.n() as u8),
            }),
            3 => MessageType::Control(self.control()),
            _ => {
                let a = self.n() as u8;
                let b = self.n() as u8;
                MessageType::Unknown((a, b))
            }
        }
    }
    fn tl(w: u128) -> TypeLength {
        match w {
            8 => TypeLength::BitLength8,
            16 => TypeLength::BitLength16,
            32 => TypeLength::BitLength32,
            64 => TypeLength::BitLength64,
            _ => TypeLength::BitLength128,
        }
    }
    fn fw(w: u128) -> FloatWidth {
        match w {
            32 => FloatWidth::Width32,
            _ => FloatWidth::Width64,
        }
    }
    pub fn ti(&mut self) -> TypeInfo {
        let k = self.n();
        let w = self.n();
        let kind = match k {
            0 => TypeInfoKind::Bool,
            1 => TypeInfoKind::Signed(Self::tl(w)),
            2 => TypeInfoKind::SignedFixedPoint(Self::fw(w)),
            3 => TypeInfoKind::Unsigned(Self::tl(w)),
            4 => TypeInfoKind::UnsignedFixedPoint(Self::fw(w)),
            5 => TypeInfoKind::Float(Self::fw(w)),
            6 => TypeInfoKind::StringType,
            _ => TypeInfoKind::Raw,
        };
        let c = self.n();
        let v = self.n();
        let coding = match c {
            0 => StringCoding::ASCII,
            1 => StringCoding::UTF8,
            _ => StringCoding::Reserved(v as u8),
        };
        let has_variable_info = self.bool();
        let has_trace_info = self.bool();
        TypeInfo {
            kind,
            coding,
            has_variable_info,
            has_trace_info,
        }
    }
    pub fn value(&mut self) -> Value {
        match self.n() {
            0 => Value::Bool(self.n() as u8),
            1 => Value::U8(self.n() as u8),
            2 => Value::U16(self.n() as u16),
            3 => Value::U32(self.n() as u32),
            4 => Value::U64(self.n() as u64),
            5 => Value::U128(self.n()),
            6 => Value::I8(self.z() as i8),
            7 => Value::I16(self.z() as i16),
            8 => Value::I32(self.z() as i32),
            9 => Value::I64(self.z() as i64),
            10 => Value::I128(self.z()),
            11 => Value::F32(f32::from_bits(self.n() as u32)),
            12 => Value::F64(f64::from_bits(self.n() as u64)),
            13 => Value::StringVal(self.s()),
            _ => Value::Raw(self.b()),
        }
    }
    pub fn arg(&mut self) -> Argument {
        let type_info = self.ti();
        let name = self.opt_str();
        let unit = self.opt_str();
        let fixed_point = if self.n() == 0 {
            None
        } else {
            let q = f32::from_bits(self.n() as u32);
            let w = self.n();
            let z = self.z();
            Some(FixedPoint {
                quantization: q,
                offset: if w == 32 {
                    FixedPointValue::I32(z as i32)
                } else {
                    FixedPointValue::I64(z as i64)
                },
            })
        };
        let value = self.value();
        Argument {
            type_info,
            name,
            unit,
            fixed_point,
            value,
        }
    }
    pub fn payload(&mut self) -> PayloadContent {
        match self.n() {
            0 => {
                let n = self.n();
                PayloadContent::Verbose((0..n).map(|_| self.arg()).collect())
            }
            1 => {
                let id = self.n() as u32;
                PayloadContent::NonVerbose(id, self.b())
            }
            2 => {
                let c = self.control();
                PayloadContent::ControlMsg(c, self.b())
            }
            _ => {
                let n = self.n();
                PayloadContent::NetworkTrace((0..n).map(|_| self.b()).collect())
            }
        }
    }
    pub fn ts(&mut self) -> DltTimeStamp {
        let seconds = self.n() as u32;
        let microseconds = self.n() as u32;
        DltTimeStamp {
            seconds,
            microseconds,
        }
    }
    pub fn sh(&mut self) -> StorageHeader {
        let timestamp = self.ts();
        StorageHeader {
            timestamp,
            ecu_id: self.s(),
        }
    }
    pub fn opt_sh(&mut self) -> Option<StorageHeader> {
        if self.n() == 0 {
            None
        } else {
            Some(self.sh())
        }
    }
    pub fn std(&mut self) -> StandardHeader {
        let version = self.n() as u8;
        let endianness = self.endian();
        let has_extended_header = self.bool();
        let message_counter = self.n() as u8;
        let ecu_id = self.opt_str();
        let session_id = self.opt_u32();
        let timestamp = self.opt_u32();
        let payload_length = self.n() as u16;
        StandardHeader {
            version,
            endianness,
            has_extended_header,
            message_counter,
            ecu_id,
            session_id,
            timestamp,
            payload_length,
        }
    }
    pub fn ext(&mut self) -> ExtendedHeader {
        let verbose = self.bool();
        let argument_count = self.n() as u8;
        let message_type = self.mtype();
        let application_id = self.s();
        let context_id = self.s();
        ExtendedHeader {
            verbose,
            argument_count,
            message_type,
            application_id,
            context_id,
        }
    }
    pub fn msg(&mut self) -> Message {
        let storage_header = self.opt_sh();
        let header = self.std();
        let extended_header = if self.n() == 0 { None } else { Some(self.ext()) };
        let payload = self.payload();
        Message {
            storage_header,
            header,
            extended_header,
            payload,
        }
    }
    pub fn cfg(&mut self) -> MessageConfig {
        let version = self.n() as u8;
        let counter = self.n() as u8;
        let endianness = self.endian();
        let ecu_id = self.opt_str();
        let session_id = self.opt_u32();
        let timestamp = self.opt_u32();
        let payload = self.payload();
        let extended_header_info = if self.n() == 0 {
            None
        } else {
            let message_type = self.mtype();
            let app_id = self.s();
            let context_id = self.s();
            Some(ExtendedHeaderConfig {
                message_type,
                app_id,
                context_id,
            })
        };
        MessageConfig {
            version,
            counter,
            endianness,
            ecu_id,
            session_id,
            timestamp,
            payload,
            extended_header_info,
        }
    }
    pub fn opt_ids(&mut self) -> Option<Vec<String>> {
        if self.n() == 0 {
            None
        } else {
            let n = self.n();
            Some((0..n).map(|_| self.s()).collect())
        }
    }
    pub fn filter(&mut self) -> DltFilterConfig {
        let min_log_level = if self.n() == 0 { None } else { Some(self.n() as u8) };
        let app_ids = self.opt_ids();
        let ecu_ids = self.opt_ids();
        let context_ids = self.opt_ids();
        let app_id_count = self.z() as i64;
        let context_id_count = self.z() as i64;
        DltFilterConfig {
            min_log_level,
            app_ids,
            ecu_ids,
            context_ids,
            app_id_count,
            context_id_count,
        }
    }
    pub fn opt_filter(&mut self) -> Option<DltFilterConfig> {
        if self.n() == 0 {
            None
        } else {
            Some(self.filter())
        }
    }
}
