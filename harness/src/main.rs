mod dict;
mod gen;
mod gen2;
mod genfibex;
mod genmsg;
mod ops3;
mod ops4;
mod ops5;
mod ops;
mod ops2;
mod oracles;
mod rng;
mod sweep;
mod wire;

use std::io::{BufRead, BufWriter, Write};

static PANICKED: std::sync::atomic::AtomicBool = std::sync::atomic::AtomicBool::new(false);

/// which cases are run a second time on a fresh thread: all but the ones that are expensive by construction
/// (readers allocate the crate's 10 MiB buffer: one case in four; FIBEX loads already run on threads of their
/// own; the gigabyte-sized junk/rest cases)
fn fresh_thread_rerun(op: u32, line: &str) -> bool {
    match op {
        50 | 51 | 34 | 35 | 43 | 44 => false,
        40 | 41 | 33 | 32 => line.len() % 4 == 0,
        _ => line.len() < 200_000,
    }
}

struct NullLogger;
impl log::Log for NullLogger {
    fn enabled(&self, _: &log::Metadata) -> bool {
        true
    }
    fn log(&self, record: &log::Record) {
        // format the message (this is what evaluates the arguments), then drop it
        let text = format!("{}", record.args());
        let _ = std::hint::black_box(text.len());
        // A DLT logger: every few records the text is itself packed into a DLT message and serialised, on the same
        // thread and in the middle of whatever the crate was doing (re-entrancy through the log facade).
        thread_local! { static IN_LOGGER: std::cell::Cell<bool> = std::cell::Cell::new(false); }
        if text.len() % 3 == 0 && !IN_LOGGER.with(|f| f.replace(true)) {
            use dlt_core::dlt::*;
            let _ = std::panic::catch_unwind(|| {
                let conf = MessageConfig {
                    version: 1,
                    counter: 0,
                    endianness: Endianness::Big,
                    ecu_id: Some("LOGR".into()),
                    session_id: None,
                    timestamp: None,
                    payload: PayloadContent::Verbose(vec![Argument {
                        type_info: TypeInfo { kind: TypeInfoKind::StringType, coding: StringCoding::UTF8, has_variable_info: false, has_trace_info: false },
                        name: None,
                        unit: None,
                        fixed_point: None,
                        value: Value::StringVal(text.chars().take(40).collect()),
                    }]),
                    extended_header_info: Some(ExtendedHeaderConfig { message_type: MessageType::Log(LogLevel::Debug), app_id: "LOG".into(), context_id: "GER".into() }),
                };
                let m = Message::new(conf, None);
                std::hint::black_box(m.as_bytes().len())
            });
            IN_LOGGER.with(|f| f.set(false));
        }
    }
    fn flush(&self) {}
}

fn level_for(line: &str) -> log::LevelFilter {
    let mut h: u64 = 0xcbf29ce484222325;
    for b in line.as_bytes().iter().take(4096) {
        h = (h ^ *b as u64).wrapping_mul(0x100000001b3);
    }
    match (h >> 17) % 6 {
        0 => log::LevelFilter::Off,
        1 => log::LevelFilter::Error,
        2 => log::LevelFilter::Warn,
        3 => log::LevelFilter::Info,
        4 => log::LevelFilter::Debug,
        _ => log::LevelFilter::Trace,
    }
}

fn usage() -> ! {
    eprintln!("usage: dltv gen <prop> <quick|thorough> <seed> <out.cases>\n       dltv run <prop> <in.cases> <out.impl>");
    std::process::exit(2)
}

fn main() {
    let args: Vec<String> = std::env::args().collect();
    if args.len() < 2 {
        usage();
    }
    match args[1].as_str() {
        "gen" => {
            if args.len() != 6 {
                usage();
            }
            let seed: u64 = args[4].parse().expect("seed");
            let cases = gen::generate(&args[2], seed, args[3] == "thorough");
            let mut f = BufWriter::new(std::fs::File::create(&args[5]).expect("create"));
            for l in &cases.lines {
                writeln!(f, "{}", l).unwrap();
            }
        }
        "run" => {
            if args.len() != 5 {
                usage();
            }
            // panics are outcomes here, not diagnostics; the hook only notes that one happened (any thread)
            std::panic::set_hook(Box::new(|_| PANICKED.store(true, std::sync::atomic::Ordering::SeqCst)));
            let prop = args[2].clone();
            // The crate's trace!/debug!/warn! sites evaluate their arguments only when the `log` crate's global level
            // admits them.  A null logger is installed and the level is chosen PER CASE from a hash of the case line
            // (so that a replay of the same case uses the same level): Off, Error, Warn, Info, Debug, Trace in turn.
            // No property may depend on it; the model does not.
            static NULL: NullLogger = NullLogger;
            let _ = log::set_logger(&NULL);
            let inp = std::io::BufReader::new(std::fs::File::open(&args[3]).expect("open"));
            let mut f = BufWriter::new(std::fs::File::create(&args[4]).expect("create"));
            let all: Vec<String> = inp.lines().map(|l| l.unwrap()).filter(|l| !l.is_empty() && !l.starts_with('#')).collect();
            // Warm-up: the first case is executed once under the Trace level before anything else and its result is
            // discarded - a process whose very first call into the crate happens with tracing on (anything the crate
            // decides once per process is decided there).
            if let Some(first) = all.first() {
                if let Some((op, rest)) = first.split_once(' ') {
                    if let Ok(op) = op.parse::<u32>() {
                        if !matches!(op, 34 | 35 | 43 | 44) {
                            log::set_max_level(log::LevelFilter::Trace);
                            let prop2 = prop.clone();
                            let rest2 = rest.to_string();
                            let _ = std::panic::catch_unwind(move || {
                                let toks = wire::parse_toks(&rest2);
                                ops::run_case(&prop2, op, &toks)
                            });
                        }
                    }
                }
            }
            for line in all {
                let (op, rest) = match line.split_once(' ') {
                    Some((a, b)) => (a, b),
                    None => (line.as_str(), ""),
                };
                let op: u32 = op.parse().expect("op");
                log::set_max_level(level_for(&line));
                PANICKED.store(false, std::sync::atomic::Ordering::SeqCst);
                let mut out = match std::panic::catch_unwind(|| {
                    let toks = wire::parse_toks(rest);
                    ops::run_case(&prop, op, &toks)
                }) {
                    Ok(o) => o,
                    Err(_) => ops::Outcome { result: vec![wire::Tok::N(0xbad)], oracle: vec![] },
                };
                // The same case once more on a FRESH thread: every operation is a function of its input, so what
                // earlier cases left behind on this thread (thread-locals, memo tables) must not show.  The main-thread
                // result above is what is compared with the model; a differing fresh-thread result is reported.
                if fresh_thread_rerun(op, &line) {
                    let prop2 = prop.clone();
                    let rest2 = rest.to_string();
                    let h = std::thread::Builder::new().stack_size(256 << 20).spawn(move || {
                        std::panic::catch_unwind(|| {
                            let toks = wire::parse_toks(&rest2);
                            ops::run_case(&prop2, op, &toks).result
                        })
                        .unwrap_or_else(|_| vec![wire::Tok::N(0xbad)])
                    });
                    if let Ok(h) = h {
                        if let Ok(r2) = h.join() {
                            if r2 != out.result {
                                let mut t = wire::print_toks(&r2);
                                t.truncate(300);
                                out.oracle.push(("history_independent".into(), format!("on a fresh thread the same call gives {}", t)));
                            }
                        }
                    }
                }
                let panicked = PANICKED.load(std::sync::atomic::Ordering::SeqCst);
                let oracle = if out.oracle.is_empty() {
                    "-".to_string()
                } else {
                    out.oracle
                        .iter()
                        .map(|(c, d)| format!("{}:{}", c, d.replace('\t', " ").replace('\n', " ")))
                        .collect::<Vec<_>>()
                        .join(" ;; ")
                };
                writeln!(f, "{}\t{}\t{}", wire::print_toks(&out.result), oracle, if panicked { "P" } else { "-" }).unwrap();
            }
        }
        "dict" => {
            println!("{}", dict::describe());
        }
        "ti-sweep" => {
            if args.len() != 6 {
                usage();
            }
            sweep::run(&args[2], args[3] == "thorough", args[4].parse().expect("seed"), &args[5]);
        }
        _ => usage(),
    }
}
