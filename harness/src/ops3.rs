//! Further operations (fixed-point conversion, readers, statistics, FIBEX).
use crate::ops::Outcome;
use crate::wire::*;

pub fn run_case3(_prop: &str, op: u32, _toks: &[Tok]) -> Outcome {
    panic!("unknown op {}", op)
}
