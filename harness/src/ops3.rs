//! Further operations (statistics, fixed-point conversion, readers, FIBEX).
use crate::ops::Outcome;
use crate::wire::*;
use dlt_core::dlt::*;
use dlt_core::parse::DltParseError;
use dlt_core::read::DltMessageReader;
use dlt_core::statistics::common::{LevelDistribution, StatisticInfo, StatisticInfoCollector};
use dlt_core::statistics::{collect_statistics, Statistic, StatisticCollector};
use std::collections::BTreeMap;
use std::panic::{catch_unwind, AssertUnwindSafe};

fn guarded<T>(f: impl FnOnce() -> T) -> Option<T> {
    catch_unwind(AssertUnwindSafe(f)).ok()
}

#[derive(Clone, Debug, PartialEq)]
struct Visit {
    level: Option<LogLevel>,
    ecu: Option<String>,
    ext: Option<(String, String)>,
    verbose: bool,
}

#[derive(Default)]
struct Recording {
    visits: Vec<Visit>,
    inner: StatisticInfoCollector,
}
impl StatisticCollector for Recording {
    fn collect_statistic(&mut self, s: Statistic) -> Result<(), DltParseError> {
        self.visits.push(Visit {
            level: s.log_level,
            ecu: s.standard_header.ecu_id.clone(),
            ext: s.extended_header.as_ref().map(|x| (x.application_id.clone(), x.context_id.clone())),
            verbose: s.is_verbose,
        });
        self.inner.collect_statistic(s)
    }
}

fn w_visit(w: &mut W, v: &Visit) {
    match &v.level {
        Some(l) => {
            w.n(1);
            w.log_level(l)
        }
        None => w.n(0),
    }
    w.opt_str(&v.ecu);
    match &v.ext {
        Some((a, c)) => {
            w.n(1);
            w.b(a.as_bytes());
            w.b(c.as_bytes())
        }
        None => w.n(0),
    }
    w.bool(v.verbose);
}

fn ld_vec(d: &LevelDistribution) -> [usize; 8] {
    [d.non_log, d.log_fatal, d.log_error, d.log_warning, d.log_info, d.log_debug, d.log_verbose, d.log_invalid]
}

fn w_idmap(w: &mut W, m: &[(String, LevelDistribution)]) {
    let mut v: Vec<&(String, LevelDistribution)> = m.iter().collect();
    v.sort_by(|a, b| a.0.as_bytes().cmp(b.0.as_bytes()));
    w.n(v.len() as u128);
    for (k, d) in v {
        w.b(k.as_bytes());
        for x in ld_vec(d) {
            w.n(x as u128);
        }
    }
}
fn w_si(w: &mut W, s: &StatisticInfo) {
    w_idmap(w, &s.app_ids);
    w_idmap(w, &s.context_ids);
    w_idmap(w, &s.ecu_ids);
    w.bool(s.contained_non_verbose);
}

fn scan(bytes: &[u8], sh: bool) -> Option<(Vec<Visit>, StatisticInfo, bool)> {
    guarded(|| {
        let mut reader = DltMessageReader::new(bytes, sh);
        let mut rec = Recording::default();
        let ok = collect_statistics(&mut reader, &mut rec).is_ok();
        (rec.visits, rec.inner.collect(), ok)
    })
}

fn merge_all(mode: u128, parts: Vec<StatisticInfo>) -> StatisticInfo {
    fn balanced(mut l: Vec<StatisticInfo>) -> StatisticInfo {
        if l.is_empty() {
            return StatisticInfo::new();
        }
        if l.len() == 1 {
            return l.pop().unwrap();
        }
        let k = l.len() / 2;
        let right = l.split_off(k);
        let mut a = balanced(l);
        a.merge(balanced(right));
        a
    }
    match mode {
        0 => {
            let mut acc = StatisticInfo::new();
            for p in parts {
                acc.merge(p);
            }
            acc
        }
        1 => {
            let mut acc = StatisticInfo::new();
            for p in parts.into_iter().rev() {
                acc.merge(p);
            }
            acc
        }
        2 => balanced(parts),
        _ => {
            // fold_right merge new l  =  merge p1 (merge p2 (... (merge pn new)))
            let mut acc = StatisticInfo::new();
            for mut p in parts.into_iter().rev() {
                p.merge(acc);
                acc = p;
            }
            acc
        }
    }
}

type Tally = BTreeMap<Vec<u8>, [usize; 8]>;
fn bucket(m: &Message) -> usize {
    match m.extended_header.as_ref().map(|x| &x.message_type) {
        Some(MessageType::Log(l)) => match l {
            LogLevel::Fatal => 1,
            LogLevel::Error => 2,
            LogLevel::Warn => 3,
            LogLevel::Info => 4,
            LogLevel::Debug => 5,
            LogLevel::Verbose => 6,
            LogLevel::Invalid(_) => 7,
        },
        _ => 0,
    }
}
/// the independent tally of the property text
fn tally(msgs: &[Message]) -> (Tally, Tally, Tally, bool) {
    let (mut app, mut ctx, mut ecu) = (Tally::new(), Tally::new(), Tally::new());
    let mut non_verbose = false;
    for m in msgs {
        let b = bucket(m);
        let e = m.header.ecu_id.clone().unwrap_or_else(|| "NONE".to_string());
        ecu.entry(e.into_bytes()).or_insert([0; 8])[b] += 1;
        if let Some(x) = &m.extended_header {
            app.entry(x.application_id.clone().into_bytes()).or_insert([0; 8])[b] += 1;
            ctx.entry(x.context_id.clone().into_bytes()).or_insert([0; 8])[b] += 1;
        }
        let verbose = m.extended_header.as_ref().map(|x| x.verbose).unwrap_or(false);
        non_verbose |= !verbose;
    }
    (app, ctx, ecu, non_verbose)
}
fn as_tally(m: &[(String, LevelDistribution)]) -> Option<Tally> {
    let mut t = Tally::new();
    for (k, d) in m {
        if t.insert(k.as_bytes().to_vec(), ld_vec(d)).is_some() {
            return None; // duplicate id
        }
    }
    Some(t)
}

fn op_stats(toks: &[Tok], prop: &str) -> Outcome {
    let mut r = R::new(toks);
    let mode = r.n();
    let nparts = r.n();
    let mut parts: Vec<Vec<Message>> = vec![];
    for _ in 0..nparts {
        let n = r.n();
        parts.push((0..n).map(|_| r.msg()).collect());
    }
    let all: Vec<Message> = parts.iter().flatten().cloned().collect();
    let sh = all.first().map(|m| m.storage_header.is_some()).unwrap_or(false);
    let wf = all.iter().all(|m| crate::genmsg::wf_message(m) && m.storage_header.is_some() == sh);
    let prop = if wf { prop } else { "" };
    let mut w = W::new();
    let mut oracle = vec![];
    let ser = |ms: &[Message]| -> Option<Vec<u8>> {
        guarded(|| {
            let mut b = vec![];
            for m in ms {
                b.extend_from_slice(&m.as_bytes());
            }
            b
        })
    };
    let whole = ser(&all).and_then(|b| scan(&b, sh));
    match whole {
        None => w.n(0xdead),
        Some((visits, si, ok)) => {
            w.n(visits.len() as u128);
            for v in &visits {
                w_visit(&mut w, v);
            }
            w_si(&mut w, &si);
            let part_infos: Option<Vec<StatisticInfo>> = parts.iter().map(|p| ser(p).and_then(|b| scan(&b, sh)).map(|x| x.1)).collect();
            match part_infos.and_then(|pi| guarded(|| merge_all(mode, pi))) {
                None => w.n(0xdead),
                Some(merged) => {
                    w_si(&mut w, &merged);
                    if prop == "C10" {
                        // visits: each message exactly once, in order, with its decoded headers
                        let want: Vec<Visit> = all
                            .iter()
                            .map(|m| Visit {
                                level: match m.extended_header.as_ref().map(|x| &x.message_type) {
                                    Some(MessageType::Log(l)) => Some(*l),
                                    _ => None,
                                },
                                ecu: m.header.ecu_id.clone(),
                                ext: m.extended_header.as_ref().map(|x| (x.application_id.clone(), x.context_id.clone())),
                                verbose: m.extended_header.as_ref().map(|x| x.verbose).unwrap_or(false),
                            })
                            .collect();
                        if !ok {
                            oracle.push(("scan_completes".into(), "collect_statistics returned an error on a well-formed stream".into()));
                        }
                        let same_visits = visits.len() == want.len()
                            && visits.iter().zip(want.iter()).all(|(a, b)| {
                                let mut wa = W::new();
                                w_visit(&mut wa, a);
                                let mut wb = W::new();
                                w_visit(&mut wb, b);
                                wa.0 == wb.0
                            });
                        if !same_visits {
                            oracle.push(("visits_each_once".into(), format!("{} visits for {} messages, or headers differ", visits.len(), want.len())));
                        }
                        let (ta, tc, te, nv) = tally(&all);
                        let got = (as_tally(&si.app_ids), as_tally(&si.context_ids), as_tally(&si.ecu_ids));
                        if got != (Some(ta.clone()), Some(tc.clone()), Some(te.clone())) || si.contained_non_verbose != nv {
                            oracle.push(("equals_tally".into(), "collector result differs from the independent tally".into()));
                        }
                        let total: usize = si.ecu_ids.iter().map(|(_, d)| ld_vec(d).iter().sum::<usize>()).sum();
                        if total != all.len() {
                            oracle.push(("ecu_totals".into(), format!("ECU totals {} for {} messages", total, all.len())));
                        }
                        let gm = (as_tally(&merged.app_ids), as_tally(&merged.context_ids), as_tally(&merged.ecu_ids));
                        if gm != (Some(ta), Some(tc), Some(te)) || merged.contained_non_verbose != nv {
                            oracle.push(("merge_is_sum".into(), format!("merging the parts (mode {}) differs from the statistics of the whole", mode)));
                        }
                    }
                }
            }
        }
    }
    Outcome { result: w.0, oracle }
}

/// 33 SCAN: collect_statistics over an arbitrary byte stream and read schedule, every field of every Statistic
struct FullRecording {
    visits: Vec<Vec<Tok>>,
    inner: StatisticInfoCollector,
}
impl StatisticCollector for FullRecording {
    fn collect_statistic(&mut self, s: Statistic) -> Result<(), DltParseError> {
        let mut w = W::new();
        match &s.log_level {
            Some(l) => {
                w.n(1);
                w.log_level(l)
            }
            None => w.n(0),
        }
        w.opt_sh(&s.storage_header);
        w.std(&s.standard_header);
        match &s.extended_header {
            Some(x) => {
                w.n(1);
                w.ext(x)
            }
            None => w.n(0),
        }
        w.b(s.payload);
        w.bool(s.is_verbose);
        self.visits.push(w.0);
        self.inner.collect_statistic(s)
    }
}

fn op_scan(toks: &[Tok], prop: &str) -> Outcome {
    let mut r = R::new(toks);
    let sh = r.bool();
    let n = r.n();
    let sched: std::collections::VecDeque<u64> = (0..n).map(|_| r.n() as u64).collect();
    let data = r.b();
    let mut w = W::new();
    let mut oracle = vec![];
    let res = guarded(|| {
        let src = crate::ops4::SchedSource { data: data.clone(), pos: 0, sched };
        let mut reader = DltMessageReader::new(src, sh);
        let mut rec = FullRecording { visits: vec![], inner: StatisticInfoCollector::default() };
        let end = collect_statistics(&mut reader, &mut rec);
        (rec.visits, end.err(), rec.inner.collect())
    });
    match res {
        None => {
            w.n(0);
            w.n(9);
            if prop == "C10" {
                oracle.push(("no_panic".into(), "collect_statistics panicked".into()));
            }
        }
        Some((visits, err, si)) => {
            w.n(visits.len() as u128);
            for v in &visits {
                w.0.extend(v.iter().cloned());
            }
            match &err {
                None => w.n(0),
                Some(e) => {
                    w.n(1);
                    crate::ops::w_parse_err(&mut w, e);
                }
            }
            w_si(&mut w, &si);
        }
    }
    Outcome { result: w.0, oracle }
}

pub fn run_case3(prop: &str, op: u32, toks: &[Tok]) -> Outcome {
    match op {
        32 => op_stats(toks, prop),
        33 => op_scan(toks, prop),
        _ => crate::ops4::run_case4(prop, op, toks),
    }
}
