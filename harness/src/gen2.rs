//! Generators for the readers (C07, C08).
use crate::gen::{gen_filter, hostile_inputs, msg_opts_for, Cases};
use crate::genmsg::*;
use crate::rng::Rng;
use crate::wire::*;
use dlt_core::filtering::DltFilterConfig;

/// a byte stream: (storage mode, bytes, message boundaries)
fn gen_stream(rng: &mut Rng, i: usize) -> (bool, Vec<u8>, Vec<usize>) {
    let sh = rng.bool();
    let mut bytes = vec![];
    let mut bounds = vec![0usize];
    let nmsg = match rng.below(8) {
        0 => 0,
        1 => 1,
        _ => rng.range(1, 5),
    } as usize;
    for j in 0..nmsg {
        let mut o = msg_opts_for(rng, i + j);
        o.storage = Some(sh);
        o.dict = i % 4 == 0;
        if !rng.chance(1, 25) {
            o.target_total = None;
            o.max_blob = 40;
            o.max_args = 4;
        }
        let m = gen_message(rng, &o);
        if let Ok(b) = std::panic::catch_unwind(|| m.as_bytes()) {
            bytes.extend_from_slice(&b);
            bounds.push(bytes.len());
        }
    }
    (sh, bytes, bounds)
}

/// hostile variants of a stream: truncations, hostile length fields, mutations, random bytes
fn mutate_stream(rng: &mut Rng, sh: bool, bytes: &[u8], bounds: &[usize]) -> Vec<u8> {
    let storage = if sh { 16 } else { 0 };
    let mut b = bytes.to_vec();
    match rng.below(10) {
        0 | 1 | 2 => b, // intact
        3 => {
            // truncate anywhere
            let k = rng.below(b.len() as u64 + 1) as usize;
            b.truncate(k);
            b
        }
        4 => {
            // truncate right at / next to a boundary of header, length field or body
            if bounds.len() > 1 {
                let s = bounds[rng.below(bounds.len() as u64 - 1) as usize];
                let cut = s + *rng.pick(&[0usize, 1, storage, storage + 2, storage + 3, storage + 4, storage + 5]);
                b.truncate(cut.min(bytes.len()));
            }
            b
        }
        5 => {
            // declared length below the header size (0..3) in one message
            if bounds.len() > 1 {
                let s = bounds[rng.below(bounds.len() as u64 - 1) as usize];
                if s + storage + 4 <= b.len() {
                    b[s + storage + 2] = 0;
                    b[s + storage + 3] = rng.below(4) as u8;
                }
            }
            b
        }
        6 => {
            // declared length larger than what is left / off by a little
            if bounds.len() > 1 {
                let s = bounds[rng.below(bounds.len() as u64 - 1) as usize];
                if s + storage + 4 <= b.len() {
                    let l = ((b[s + storage + 2] as i64) << 8 | b[s + storage + 3] as i64) + *rng.pick(&[-5i64, -1, 1, 7, 300, 60000]);
                    let l = l.clamp(0, 65535) as u16;
                    b[s + storage + 2] = (l >> 8) as u8;
                    b[s + storage + 3] = l as u8;
                }
            }
            b
        }
        7 => {
            // flip a few bytes
            for _ in 0..rng.range(1, 4) {
                if !b.is_empty() {
                    let k = rng.below(b.len() as u64) as usize;
                    b[k] = rng.next() as u8;
                }
            }
            b
        }
        8 => {
            let n = rng.below(60) as usize;
            rng.bytes(n)
        }
        _ => {
            // short all-zero / tiny streams around the header size
            let n = rng.below(storage as u64 + 8) as usize;
            let mut v = vec![0u8; n];
            if rng.bool() && n > 0 {
                let k = rng.below(n as u64) as usize;
                v[k] = rng.below(6) as u8;
            }
            v
        }
    }
}

/// read()/poll schedules: 0 = Interrupted / Pending, k = at most k bytes
fn gen_schedule(rng: &mut Rng, len: usize, bounds: &[usize], storage: usize) -> Vec<u64> {
    let mut s = vec![];
    match rng.below(7) {
        0 => {} // whole reads
        1 => {
            // one byte at a time
            for _ in 0..len + 2 {
                s.push(1);
            }
        }
        2 => {
            // random short reads with interruptions
            let mut total = 0usize;
            while total < len + 4 && s.len() < 4 * len + 16 {
                if rng.chance(1, 4) {
                    s.push(0);
                } else {
                    let k = rng.range(1, 9);
                    s.push(k);
                    total += k as usize;
                }
            }
        }
        3 => {
            // stop exactly on header / length / body boundaries
            let mut pos = 0usize;
            for w in bounds.windows(2) {
                for cut in [w[0] + storage, w[0] + storage + 2, w[0] + storage + 4, w[1]] {
                    if cut > pos {
                        s.push((cut - pos) as u64);
                        pos = cut;
                        if rng.chance(1, 3) {
                            s.push(0);
                        }
                    }
                }
            }
        }
        4 => {
            // runs of 0..3 interruptions before every delivery
            let mut total = 0usize;
            while total < len + 4 && s.len() < 5 * len + 16 {
                for _ in 0..rng.below(4) {
                    s.push(0);
                }
                let k = *rng.pick(&[1u64, 2, 3, 4, 16, 20, 100, 70000]);
                s.push(k);
                total += k as usize;
            }
        }
        5 => {
            // a few large chunks
            for _ in 0..rng.range(1, 4) {
                s.push(rng.range(1, len as u64 + 2));
            }
        }
        _ => {
            // a single interruption at a random position of a 1-byte schedule
            let at = rng.below(len as u64 + 1) as usize;
            for i in 0..len + 1 {
                if i == at {
                    s.push(0);
                }
                s.push(1);
            }
        }
    }
    s
}

fn push_reader_case(out: &mut Cases, op: u32, sh: bool, f: &Option<DltFilterConfig>, cap: u128, sched: &[u64], bytes: &[u8]) {
    push_reader_case_mml(out, op, sh, f, cap, 0, sched, bytes)
}

fn push_reader_case_mml(out: &mut Cases, op: u32, sh: bool, f: &Option<DltFilterConfig>, cap: u128, mml: u128, sched: &[u64], bytes: &[u8]) {
    let mut w = W::new();
    w.bool(sh);
    w.opt_filter(f);
    w.n(cap);
    w.n(mml);
    w.n(sched.len() as u128);
    for k in sched {
        w.n(*k as u128);
    }
    w.b(bytes);
    out.push(op, w);
}

pub fn gen_readers(rng: &mut Rng, thorough: bool, op: u32, out: &mut Cases) {
    let n = if thorough { 60_000 } else { 4_000 };
    // the witness family of the length-below-header defect, every schedule shape
    for sh in [false, true] {
        let storage = if sh { 16 } else { 0 };
        for l in 0..4u8 {
            let mut b = vec![0u8; storage + 4];
            b[storage + 3] = l;
            for sched in [vec![], vec![1u64; 24], vec![0, 1, 0, 3, 0]] {
                push_reader_case(out, op, sh, &None, 0, &sched, &b);
                let mut b2 = b.clone();
                b2.extend_from_slice(&[0x20, 1, 0, 8, 1, 2, 3, 4]);
                push_reader_case(out, op, sh, &None, 0, &sched, &b2);
            }
        }
    }
    // declared lengths at the top of the 16-bit range, complete and one byte short, both storage modes,
    // default constructor and explicit capacities (the scratch buffer is exactly 16 + 65535 bytes)
    for sh in [false, true] {
        let storage = if sh { 16 } else { 0 };
        for l in [65535usize, 65534, 65520, 65519, 65536 - 17] {
            let mut b = vec![0u8; storage + l];
            if sh {
                b[..4].copy_from_slice(b"DLT\x01");
            }
            b[storage] = 0x20; // version 1, no optional fields, no extended header: non-verbose
            b[storage + 2] = (l >> 8) as u8;
            b[storage + 3] = l as u8;
            let mut tail = b.clone();
            tail.extend_from_slice(&b[..storage]);
            tail.extend_from_slice(&[0x20, 1, 0, 8, 1, 2, 3, 4]);
            for cap in [0u128, 65551, 70000] {
                push_reader_case(out, op, sh, &None, cap, &[], &tail);
                push_reader_case(out, op, sh, &None, cap, &[4096, 0, 70000], &b);
                push_reader_case(out, op, sh, &None, cap, &[], &b[..b.len() - 1]);
            }
        }
    }
    // streams longer than the default 10 MiB BufReader (op 43): 161-163 maximum-length records, so that records
    // start shortly before / at / behind every refill mark; everything is filtered out to keep the output small
    {
        let f = DltFilterConfig { min_log_level: None, app_ids: Some(vec![]), ecu_ids: None, context_ids: None, app_id_count: 1, context_id_count: 0 };
        // (with 16 + 65520 = 2^16 the 160th record starts exactly 2^16 bytes before the 10 MiB mark)
        // a first record of another length shifts where the long ones lie relative to the refill marks: the sweep puts
        // the start of a maximum-length record at every offset 65535..65551 (and around) before the 10 MiB mark
        let cap = 10usize * 1024 * 1024;
        let mut shapes: Vec<(bool, u128, u128, u128)> = vec![(true, 0, 65535, 162), (true, 0, 65520, 161), (false, 0, 65535, 163), (true, 0, 65534, 170)];
        if !thorough {
            shapes.truncate(2);
        }
        for sh in [true, false] {
            let storage = if sh { 16usize } else { 0 };
            let total = storage + 65535;
            let k = (cap - total) / total; // long records in front of the one that meets the mark
            for d in (65530usize..=65556).step_by(if thorough { 1 } else { 3 }) {
                // first record ends at cap - d - k * total
                let first_total = cap as i64 - d as i64 - (k * total) as i64;
                if first_total > (storage + 4) as i64 && first_total <= total as i64 {
                    shapes.push((sh, (first_total as usize - storage) as u128, 65535, k as u128 + 3));
                }
            }
        }
        // more than 2^32 bytes through ONE reader (65540 maximum-length records, generated on the fly)
        shapes.push((true, 0, 65535, 65540));
        if thorough {
            shapes.push((false, 0, 65535, 65545));
        }
        for (k, (sh, l1, l, nrec)) in shapes.iter().enumerate() {
            let mut w = W::new();
            w.bool(op == 41);
            w.bool(*sh);
            w.opt_filter(&Some(f.clone()));
            w.n(0);
            let sched: Vec<u64> = if k % 2 == 0 { vec![] } else { vec![1 << 20, 0, 3, 1 << 23] };
            w.n(sched.len() as u128);
            for x in &sched {
                w.n(*x as u128);
            }
            w.n(*l1);
            w.n(*nrec);
            w.n(*l);
            w.b(&[0x20, 1, 0, 8, 1, 2, 3, 4][..if k % 2 == 0 { 8 } else { 5 }]);
            out.push(43, w);
        }
    }
    // a maximum-length record that is NOT the first one, with a fragment of the source ending 1..17 bytes before its
    // end (and before its start): whatever is already buffered then is almost, but not quite, the whole record
    for sh in [true, false] {
        let storage = if sh { 16usize } else { 0 };
        let mut short = vec![0u8; storage];
        if sh {
            short[..4].copy_from_slice(b"DLT\x01");
        }
        short.extend_from_slice(&[0x20, 1, 0, 8, 1, 2, 3, 4]);
        for l in [65535usize, 65520, 65519] {
            let mut one = vec![0u8; storage + l];
            if sh {
                one[..4].copy_from_slice(b"DLT\x01");
            }
            one[storage] = 0x20;
            one[storage + 2] = (l >> 8) as u8;
            one[storage + 3] = l as u8;
            let mut b = short.clone();
            b.extend_from_slice(&one);
            let end_big = b.len();
            b.extend_from_slice(&short);
            for k in [1usize, 2, 8, 15, 16, 17] {
                push_reader_case(out, op, sh, &None, 0, &[(end_big - k) as u64], &b);
                push_reader_case(out, op, sh, &None, 0, &[(short.len() + 3) as u64, (end_big - k - short.len() - 3) as u64, 0, 5], &b);
                if k % 8 == 0 {
                    push_reader_case(out, op, sh, &None, 0, &[(short.len() + k) as u64, 65535, 1], &b);
                }
            }
        }
    }
    // a reader built with its own (small) maximum message length: messages up to exactly that length, both modes
    for sh in [false, true] {
        let storage = if sh { 16usize } else { 0 };
        for mml in [168usize, 64, 40] {
            for l in [mml - storage, mml - storage - 1, mml - storage - 15, mml - storage - 16, 8] {
                if l < 8 || l > 65535 {
                    continue;
                }
                let mut one = vec![0u8; storage + l];
                if sh {
                    one[..4].copy_from_slice(b"DLT\x01");
                }
                one[storage] = 0x20;
                one[storage + 2] = (l >> 8) as u8;
                one[storage + 3] = l as u8;
                let mut b = one.clone();
                b.extend_from_slice(&one);
                b.extend_from_slice(&one[..storage]);
                b.extend_from_slice(&[0x20, 1, 0, 8, 1, 2, 3, 4]);
                for sched in [vec![], vec![7u64; 80], vec![0, 3, 0, 1000]] {
                    push_reader_case_mml(out, op, sh, &None, 0, mml as u128, &sched, &b);
                }
            }
        }
    }
    // messages built around the literals of the source under test, alone and between ordinary messages
    for m in crate::gen::dict_msgs(rng, None) {
        let sh = m.storage_header.is_some();
        let b = match std::panic::catch_unwind(|| m.as_bytes()) {
            Ok(b) => b,
            Err(_) => continue,
        };
        let other = crate::genmsg::gen_message(rng, &crate::genmsg::MsgOpts { storage: Some(sh), max_blob: 10, ..crate::genmsg::MsgOpts::default() });
        let ob = std::panic::catch_unwind(|| other.as_bytes()).unwrap_or_default();
        let mut s3 = ob.clone();
        s3.extend_from_slice(&b);
        s3.extend_from_slice(&ob);
        for sched in [vec![], vec![0u64, 5, 0, 4096]] {
            push_reader_case(out, op, sh, &None, 0, &sched, &b);
            push_reader_case(out, op, sh, &None, 0, &sched, &s3);
        }
        push_reader_case(out, op, sh, &None, 0, &[], &s3[..s3.len() - 1]);
    }
    // record lengths next to the numeric constants of the source under test (buffer sizes, thresholds),
    // each as the first record of a fresh reader and after a short one
    for n0 in crate::dict::dict().numbers.iter().cloned() {
        for sh in [false, true] {
            let storage = if sh { 16usize } else { 0 };
            for delta in 0..20usize {
                let l = (n0 as usize + 2).saturating_sub(delta);
                if l < 8 || l > 65535 {
                    continue;
                }
                let mut one = vec![0u8; storage + l];
                if sh {
                    one[..4].copy_from_slice(b"DLT\x01");
                }
                one[storage] = 0x20;
                one[storage + 2] = (l >> 8) as u8;
                one[storage + 3] = l as u8;
                let mut short = one[..storage].to_vec();
                short.extend_from_slice(&[0x20, 1, 0, 8, 1, 2, 3, 4]);
                let mut b = one.clone();
                b.extend_from_slice(&short);
                push_reader_case(out, op, sh, &None, 0, &[], &b);
                if delta % 4 == 0 {
                    let mut b2 = short.clone();
                    b2.extend_from_slice(&one);
                    b2.extend_from_slice(&one);
                    push_reader_case(out, op, sh, &None, 0, &[3, 0, 100000], &b2);
                    push_reader_case(out, op, sh, &None, *rng.pick(&[65551u128, 70000]), &[], &b2[..b2.len() - 1]);
                }
            }
        }
    }
    // very long runs of interruptions (a retry loop must not give up)
    for (i, run) in [99usize, 100, 101, 150, 1000].iter().enumerate() {
        let (sh, bytes, _) = gen_stream(rng, i + 3);
        if bytes.is_empty() {
            continue;
        }
        for at in [0usize, 1, 5] {
            let mut sched: Vec<u64> = vec![1; at * 7];
            sched.extend(std::iter::repeat(0).take(*run));
            sched.push(9);
            sched.extend(std::iter::repeat(0).take(*run));
            push_reader_case(out, op, sh, &None, 0, &sched, &bytes);
        }
    }
    for i in 0..n {
        let (sh, bytes, bounds) = gen_stream(rng, i);
        let storage = if sh { 16 } else { 0 };
        let b = mutate_stream(rng, sh, &bytes, &bounds);
        let sched = gen_schedule(rng, b.len(), &bounds, storage);
        let f = if rng.chance(1, 4) { Some(gen_filter(rng, None)) } else { None };
        let cap = *rng.pick(&[0u128, 0, 65551, 70000]);
        push_reader_case(out, op, sh, &f, cap, &sched, &b);
    }
    // hostile slice-parser inputs as streams
    let mut hs = vec![];
    hostile_inputs(rng, n / 8, &mut hs);
    for (sh, b) in hs {
        if b.len() > 3000 {
            continue;
        }
        let sched = gen_schedule(rng, b.len(), &[0, b.len()], if sh { 16 } else { 0 });
        push_reader_case(out, op, sh, &None, 0, &sched, &b);
    }
    if thorough && op == 40 {
        // exhaustive placement of ONE interruption and all 2-way partitions for short streams
        for i in 0..40 {
            let (sh, bytes, _) = gen_stream(rng, i);
            if bytes.len() > 120 || bytes.is_empty() {
                continue;
            }
            for cut in 1..bytes.len() {
                push_reader_case(out, op, sh, &None, 0, &[cut as u64], &bytes);
                push_reader_case(out, op, sh, &None, 0, &[cut as u64, 0], &bytes);
            }
        }
    }
}

/// C18: every kind x every value variant x quantizations x offsets
pub fn gen_c18(rng: &mut Rng, thorough: bool, out: &mut Cases) {
    use dlt_core::dlt::*;
    let quants: [u32; 24] = [
        0, 0x8000_0000, 0x3f80_0000, 0xbf80_0000, 0x3f00_0000, 0x3dcc_cccd, 0x3c23_d70a, 0x3fc0_0000, 1, 0x007f_ffff, 0x0080_0000,
        0x7f7f_ffff, 0xff7f_ffff, 0x7f80_0000, 0xff80_0000, 0x7fc0_0000, 0xffc0_0001, 0x7f80_0001, 0x4b80_0000, 0x5f80_0000, 0x2f80_0000,
        0x4000_0000, 0x447a_0000, 0x3a83_126f,
    ];
    let offs32: [i32; 9] = [0, 1, -1, 200, -200, i32::MAX, i32::MIN, 1000, -1000];
    let offs64: [i64; 11] = [0, 1, -1, 200, -200, i64::MAX, i64::MIN, i32::MAX as i64 + 1, -(1 << 53), (1 << 62), -(1 << 62)];
    // the witness of the overflow defect first: value 1000, quantization 1.0, offset -200
    let mk = |kind: TypeInfoKind, value: Value, q: u32, offset: FixedPointValue| Argument {
        type_info: TypeInfo { kind, coding: StringCoding::ASCII, has_variable_info: false, has_trace_info: false },
        name: None,
        unit: None,
        fixed_point: Some(FixedPoint { quantization: f32::from_bits(q), offset }),
        value,
    };
    let mut push = |a: &Argument, out: &mut Cases| {
        let mut w = W::new();
        w.arg(a);
        out.push(42, w);
    };
    push(&mk(TypeInfoKind::UnsignedFixedPoint(FloatWidth::Width32), Value::U32(1000), 0x3f80_0000, FixedPointValue::I32(-200)), out);
    push(&mk(TypeInfoKind::SignedFixedPoint(FloatWidth::Width64), Value::I64(7785), 0x3c23_d70a, FixedPointValue::I64(-50)), out);
    // the cross product of the boundary values, quantizations and offsets (no combination left to chance)
    let specials: Vec<Value> = vec![
        Value::U64((1 << 53) + 1), Value::U64((1 << 53) + 3), Value::U64((1 << 53) - 1), Value::U64(u64::MAX), Value::U64(1 << 63),
        Value::I64(-(1 << 53) - 1), Value::I64((1 << 53) + 1), Value::I64(i64::MIN), Value::I64(i64::MAX),
        Value::U32(u32::MAX), Value::U32((1 << 24) + 1), Value::I32(i32::MIN), Value::I32(-(1 << 24) - 1), Value::U8(255), Value::I8(-128),
        Value::U16(0), Value::I16(-1),
    ];
    for v in &specials {
        for q in quants.iter() {
            for signed in [false, true] {
                for o in offs32.iter() {
                    let kind = if signed { TypeInfoKind::SignedFixedPoint(FloatWidth::Width32) } else { TypeInfoKind::UnsignedFixedPoint(FloatWidth::Width32) };
                    push(&mk(kind, v.clone(), *q, FixedPointValue::I32(*o)), out);
                }
                for o in offs64.iter() {
                    let kind = if signed { TypeInfoKind::SignedFixedPoint(FloatWidth::Width64) } else { TypeInfoKind::UnsignedFixedPoint(FloatWidth::Width64) };
                    push(&mk(kind, v.clone(), *q, FixedPointValue::I64(*o)), out);
                }
            }
        }
    }
    // products that land ON an integer or one / a few ulps next to it (where truncation, rounding and "close
    // enough" differ): pick a quantization, solve for the value, keep the pair when value * quantization (in f64, as
    // the crate computes it) is within 4 ulps of the target
    {
        let targets: [f64; 12] = [1.0, 2.0, 3.0, 7.0, 10.0, 100.0, 255.0, 65536.0, 16777216.0, 2147483648.0, 4294967296.0, 9007199254740992.0];
        let tries = if thorough { 400_000 } else { 60_000 };
        let mut kept = 0;
        for t in 0..tries {
            let e = 0x20 + rng.below(0x60) as u32; // exponent field: 2^-95 .. 2^0
            let q = f32::from_bits((e << 23) | (rng.next() as u32 & 0x007f_ffff) | if t % 8 == 0 { 0x8000_0000 } else { 0 });
            let target = targets[t % targets.len()];
            let ideal = target / (q as f64).abs();
            if !(ideal >= 1.0 && ideal < 1.8e19) {
                continue;
            }
            for v in [ideal.floor() as u64, ideal.ceil() as u64] {
                let p = (v as f64) * (q as f64).abs();
                let ulps = ((p.to_bits() as i64) - (target.to_bits() as i64)).abs();
                if ulps <= 4 && (ulps != 0 || t % 4 == 0) {
                    let neg = q < 0.0;
                    let value = if neg && v <= i64::MAX as u64 { Value::I64(-(v as i64)) } else if v <= u32::MAX as u64 && t % 2 == 0 { Value::U32(v as u32) } else { Value::U64(v) };
                    let w64 = t % 3 != 0;
                    let kind = match (t % 2 == 0, w64) {
                        (true, true) => TypeInfoKind::SignedFixedPoint(FloatWidth::Width64),
                        (false, true) => TypeInfoKind::UnsignedFixedPoint(FloatWidth::Width64),
                        (true, false) => TypeInfoKind::SignedFixedPoint(FloatWidth::Width32),
                        (false, false) => TypeInfoKind::UnsignedFixedPoint(FloatWidth::Width32),
                    };
                    let off = if w64 { FixedPointValue::I64(*rng.pick(&offs64)) } else { FixedPointValue::I32(*rng.pick(&offs32)) };
                    push(&mk(kind, value, q.to_bits(), off), out);
                    kept += 1;
                }
            }
            if kept > (if thorough { 40_000 } else { 6_000 }) {
                break;
            }
        }
    }
    let n = if thorough { 400_000 } else { 30_000 };
    for i in 0..n {
        let signed = rng.bool();
        let w = if rng.bool() { FloatWidth::Width32 } else { FloatWidth::Width64 };
        let kind = if signed { TypeInfoKind::SignedFixedPoint(w) } else { TypeInfoKind::UnsignedFixedPoint(w) };
        let value = match rng.below(12) {
            0 => Value::U8(gen_u(rng, 8) as u8),
            1 => Value::U16(gen_u(rng, 16) as u16),
            2 => Value::U32(gen_u(rng, 32) as u32),
            3 => Value::U64(gen_u(rng, 64) as u64),
            4 => Value::I8(gen_i(rng, 8) as i8),
            5 => Value::I16(gen_i(rng, 16) as i16),
            6 => Value::I32(gen_i(rng, 32) as i32),
            7 => Value::I64(gen_i(rng, 64) as i64),
            8 => Value::U32(rng.below(100_000) as u32),
            9 => Value::I64(rng.below(100_000) as i64 - 50_000),
            10 => rng.pick(&[Value::U64((1 << 53) + 1), Value::U64((1 << 53) + 3), Value::I64(-(1 << 53) - 1), Value::U64(u64::MAX), Value::I64(i64::MIN)]).clone(),
            _ => Value::U128(gen_u(rng, 128)),
        };
        let q = if rng.chance(3, 4) { *rng.pick(&quants) } else { gen_f32_bits(rng) };
        let offset = match w {
            FloatWidth::Width32 => FixedPointValue::I32(if rng.chance(2, 3) { *rng.pick(&offs32) } else { gen_i(rng, 32) as i32 }),
            FloatWidth::Width64 => FixedPointValue::I64(if rng.chance(2, 3) { *rng.pick(&offs64) } else { gen_i(rng, 64) as i64 }),
        };
        let mut a = mk(kind, value, q, offset);
        match i % 16 {
            0 => a.fixed_point = None,
            1 => a.type_info.kind = gen_kind(rng),
            2 => a.value = Value::F32(1.5),
            3 => a.value = Value::Bool(1),
            4 => {
                // any well-formed argument
                a = gen_arg(rng, 12);
            }
            _ => {}
        }
        push(&a, out);
    }
}

/// C10 op 33: streams as for the readers, scanned by collect_statistics
pub fn gen_scan(rng: &mut Rng, n: usize, out: &mut Cases) {
    for i in 0..n {
        let (sh, bytes, bounds) = gen_stream(rng, i);
        let storage = if sh { 16 } else { 0 };
        let b = if i % 3 == 0 { bytes.clone() } else { mutate_stream(rng, sh, &bytes, &bounds) };
        if b.len() > 4000 {
            continue;
        }
        let sched = gen_schedule(rng, b.len(), &bounds, storage);
        let mut w = W::new();
        w.bool(if i % 17 == 0 { !sh } else { sh });
        w.n(sched.len() as u128);
        for k in &sched {
            w.n(*k as u128);
        }
        w.b(&b);
        out.push(33, w);
    }
}
