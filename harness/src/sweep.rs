//! Exhaustive type-info sweep (C14): the model's table for the 2^18 low words (justified by the
//! proved c14_ti_low) is compared with TypeInfo::try_from / as_bytes on every word of the domain.
use crate::wire::*;
use byteorder::{BigEndian, LittleEndian};
use dlt_core::dlt::*;
use std::convert::TryFrom;
use std::sync::atomic::{AtomicU64, Ordering};
use std::sync::Mutex;

/// independent statement of "names one supported kind with a supported width"
pub fn names_supported(w: u32) -> bool {
    let tyle = w & 0xf;
    let fixp = w & (1 << 12) != 0;
    match (w >> 4) & 0x7f {
        0x01 | 0x20 | 0x40 => true,
        0x02 | 0x04 => {
            if fixp {
                (3..=4).contains(&tyle)
            } else {
                (1..=5).contains(&tyle)
            }
        }
        0x08 => (3..=4).contains(&tyle),
        _ => false,
    }
}
pub fn unused_mask(k: &TypeInfoKind) -> u32 {
    let always = 0xfffc_0000u32 | (1 << 14);
    match k {
        TypeInfoKind::Bool | TypeInfoKind::StringType | TypeInfoKind::Raw => always | (1 << 12) | 0xf,
        TypeInfoKind::Float(_) => always | (1 << 12),
        _ => always,
    }
}

pub fn ti_oracle(w: u32) -> Option<(&'static str, String)> {
    let r = std::panic::catch_unwind(|| TypeInfo::try_from(w).ok());
    let r = match r {
        Ok(r) => r,
        Err(_) => return Some(("no_panic", format!("TypeInfo::try_from({:#x}) panicked", w))),
    };
    match r {
        None => {
            if names_supported(w) {
                return Some(("accepted_iff_supported", format!("{:#x} names a supported kind/width but is refused", w)));
            }
        }
        Some(t) => {
            if !names_supported(w) {
                return Some(("accepted_iff_supported", format!("{:#x} accepted as {:?}", w, t)));
            }
            let le = t.as_bytes::<LittleEndian>();
            let be = t.as_bytes::<BigEndian>();
            if le.len() != 4 || be.len() != 4 || le.iter().rev().ne(be.iter()) {
                return Some(("byte_orders_reverse", format!("{:#x}: LE {:02x?} BE {:02x?}", w, le, be)));
            }
            let e = u32::from_le_bytes([le[0], le[1], le[2], le[3]]);
            match TypeInfo::try_from(e) {
                Ok(t2) if t2 == t => {}
                other => return Some(("reencode_decodes_same", format!("{:#x} -> {:?} -> {:#x} -> {:?}", w, t, e, other.ok()))),
            }
            if (e ^ w) & !unused_mask(&t.kind) != 0 {
                return Some(("differs_only_in_unused_bits", format!("{:#x} re-encodes to {:#x}", w, e)));
            }
        }
    }
    None
}

pub fn run(table_file: &str, thorough: bool, seed: u64, out_file: &str) {
    let text = std::fs::read_to_string(table_file).expect("table");
    let mut table: Vec<Option<(TypeInfo, u32)>> = Vec::with_capacity(1 << 18);
    let mut raw: Vec<String> = Vec::with_capacity(1 << 18);
    for line in text.lines() {
        let toks = parse_toks(line);
        let mut r = R::new(&toks);
        if r.n() == 0 {
            table.push(None);
        } else {
            let t = r.ti();
            let enc = r.n() as u32;
            table.push(Some((t, enc)));
        }
        raw.push(line.to_string());
    }
    assert_eq!(table.len(), 1 << 18, "table must have 2^18 lines");
    // high-bit patterns: thorough = all 2^14; quick = 0, all single high bits, all ones, random
    let highs: Vec<u32> = if thorough {
        (0..(1u32 << 14)).collect()
    } else {
        let mut v = vec![0u32, 0x3fff];
        for b in 0..14 {
            v.push(1 << b);
        }
        let mut rng = crate::rng::Rng::new(seed);
        while v.len() < 64 {
            v.push((rng.next() as u32) & 0x3fff);
        }
        v
    };
    std::panic::set_hook(Box::new(|_| {}));
    let evals = AtomicU64::new(0);
    let problems: Mutex<Vec<String>> = Mutex::new(vec![]);
    let nthreads = 16usize;
    let chunk = (highs.len() + nthreads - 1) / nthreads;
    std::thread::scope(|s| {
        for part in highs.chunks(chunk.max(1)) {
            let table = &table;
            let raw = &raw;
            let evals = &evals;
            let problems = &problems;
            s.spawn(move || {
                let mut local = 0u64;
                for &hi in part {
                    for lo in 0..(1u32 << 18) {
                        let w = (hi << 18) | lo;
                        local += 1;
                        let got = std::panic::catch_unwind(|| TypeInfo::try_from(w).ok());
                        let ok = match (&got, &table[lo as usize]) {
                            (Ok(None), None) => true,
                            (Ok(Some(t)), Some((mt, enc))) => {
                                t == mt && {
                                    let le = t.as_bytes::<LittleEndian>();
                                    let be = t.as_bytes::<BigEndian>();
                                    le == enc.to_le_bytes() && be == enc.to_be_bytes()
                                }
                            }
                            _ => false,
                        };
                        if !ok {
                            let mut p = problems.lock().unwrap();
                            if p.len() < 50 {
                                p.push(format!("D {:x} impl={:?} model={}", w, got.ok().flatten(), raw[lo as usize]));
                            }
                        }
                        if let Some((clause, detail)) = ti_oracle(w) {
                            let mut p = problems.lock().unwrap();
                            if p.len() < 50 {
                                p.push(format!("O {:x} {}:{}", w, clause, detail));
                            }
                        }
                    }
                }
                evals.fetch_add(local, Ordering::Relaxed);
            });
        }
    });
    let mut out = String::new();
    for p in problems.lock().unwrap().iter() {
        out.push_str(p);
        out.push('\n');
    }
    let accepted = table.iter().filter(|x| x.is_some()).count();
    out.push_str(&format!("N {} {} {}\n", evals.load(Ordering::Relaxed), highs.len(), accepted));
    std::fs::write(out_file, out).expect("write");
}
