//! A dictionary of the literals that occur in the source under test ($DLTV_REPO_SRC, default /repo/src),
//! read at generation time.  Code that treats particular byte patterns, strings or sizes specially has to
//! spell them somewhere; the generators build inputs around whatever is spelled there now (messages whose
//! first header bytes equal a byte literal, record lengths next to numeric constants, ids equal to short
//! string literals).  Nothing here decides anything: it only steers where model and implementation are compared.
use std::sync::OnceLock;

pub struct Dict {
    pub bytes: Vec<Vec<u8>>,   // byte-string literals, u8 array literals and short strings, 2..=16 bytes
    pub raw: Vec<Vec<u8>>,     // the byte-string and array literals that are not plain text
    pub strings: Vec<String>,  // string literals of 1..=8 bytes
    pub numbers: Vec<u64>,     // integer literals and products of two or three literals, 256..=70000
    pub big: Vec<u64>,         // the same, 70001..=2^30
}

static DICT: OnceLock<Dict> = OnceLock::new();

pub fn dict() -> &'static Dict {
    DICT.get_or_init(|| {
        let root = std::env::var("DLTV_REPO_SRC").unwrap_or_else(|_| "/repo/src".to_string());
        let mut files = vec![];
        collect(std::path::Path::new(&root), &mut files);
        files.sort();
        let mut d = Dict { bytes: vec![], raw: vec![], strings: vec![], numbers: vec![], big: vec![] };
        for f in files {
            let name = f.file_name().and_then(|s| s.to_str()).unwrap_or("");
            if name.contains("test") || name.contains("proptest") {
                continue;
            }
            if let Ok(txt) = std::fs::read_to_string(&f) {
                let txt = match txt.find("#[cfg(test)]\nmod ") {
                    Some(i) => &txt[..i],
                    None => &txt[..],
                };
                scan(txt, &mut d);
            }
        }
        d.bytes.sort();
        d.bytes.dedup();
        d.raw.retain(|v| v.iter().any(|c| *c < 0x20 || *c >= 0x7f));
        d.raw.sort();
        d.raw.dedup();
        d.raw.truncate(400);
        d.strings.sort();
        d.strings.dedup();
        d.numbers.sort();
        d.numbers.dedup();
        d.big.sort();
        d.big.dedup();
        d.big.truncate(40);
        d.bytes.truncate(400);
        d.strings.truncate(400);
        d.numbers.truncate(400);
        d
    })
}

fn collect(p: &std::path::Path, out: &mut Vec<std::path::PathBuf>) {
    if let Ok(rd) = std::fs::read_dir(p) {
        for e in rd.flatten() {
            let q = e.path();
            if q.is_dir() {
                collect(&q, out);
            } else if q.extension().and_then(|s| s.to_str()) == Some("rs") {
                out.push(q);
            }
        }
    }
}

fn strip_comments(txt: &str) -> String {
    // line comments only (doc comments carry examples that are not code); string contents are kept
    let mut out = String::with_capacity(txt.len());
    for line in txt.lines() {
        let t = line.trim_start();
        if t.starts_with("//") {
            out.push('\n');
            continue;
        }
        out.push_str(line);
        out.push('\n');
    }
    out
}

fn unescape(s: &[u8]) -> Option<Vec<u8>> {
    let mut v = vec![];
    let mut i = 0;
    while i < s.len() {
        if s[i] == b'\\' {
            i += 1;
            match s.get(i)? {
                b'n' => v.push(b'\n'),
                b'r' => v.push(b'\r'),
                b't' => v.push(b'\t'),
                b'0' => v.push(0),
                b'\\' => v.push(b'\\'),
                b'"' => v.push(b'"'),
                b'\'' => v.push(b'\''),
                b'x' => {
                    let h = std::str::from_utf8(s.get(i + 1..i + 3)?).ok()?;
                    v.push(u8::from_str_radix(h, 16).ok()?);
                    i += 2;
                }
                _ => return None,
            }
            i += 1;
        } else {
            v.push(s[i]);
            i += 1;
        }
    }
    Some(v)
}

fn parse_int(tok: &str) -> Option<u64> {
    let t: String = tok.chars().filter(|c| *c != '_').collect();
    let t = t.trim();
    for suf in ["usize", "u128", "u64", "u32", "u16", "u8", "isize", "i128", "i64", "i32", "i16", "i8"] {
        if let Some(x) = t.strip_suffix(suf) {
            return parse_int(x);
        }
    }
    if let Some(h) = t.strip_prefix("0x").or_else(|| t.strip_prefix("0X")) {
        return u64::from_str_radix(h, 16).ok();
    }
    if let Some(b) = t.strip_prefix("0b") {
        return u64::from_str_radix(b, 2).ok();
    }
    if !t.is_empty() && t.bytes().all(|c| c.is_ascii_digit()) {
        return t.parse().ok();
    }
    None
}

fn scan(txt: &str, d: &mut Dict) {
    let txt = strip_comments(txt);
    let b = txt.as_bytes();
    let mut i = 0;
    while i < b.len() {
        // string and byte-string literals
        if b[i] == b'"' {
            let is_bytes = i > 0 && b[i - 1] == b'b';
            let mut j = i + 1;
            while j < b.len() && b[j] != b'"' {
                if b[j] == b'\\' {
                    j += 1;
                }
                j += 1;
            }
            if j < b.len() {
                if let Some(v) = unescape(&b[i + 1..j]) {
                    if is_bytes && (2..=16).contains(&v.len()) {
                        d.bytes.push(v.clone());
                        d.raw.push(v.clone());
                    }
                    if (1..=8).contains(&v.len()) {
                        if let Ok(s) = String::from_utf8(v.clone()) {
                            if !s.contains('{') && !s.contains('\n') {
                                d.strings.push(s);
                                if v.len() >= 2 {
                                    d.bytes.push(v);
                                }
                            }
                        }
                    }
                }
            }
            i = j + 1;
            continue;
        }
        // char literal (skip so that '"' does not open a string)
        if b[i] == b'\'' && i + 2 < b.len() {
            if b[i + 1] == b'\\' {
                if let Some(k) = b[i + 2..].iter().position(|c| *c == b'\'') {
                    if k <= 8 {
                        i += k + 3;
                        continue;
                    }
                }
            } else if b[i + 2] == b'\'' {
                i += 3;
                continue;
            }
        }
        // array literal of small integers
        if b[i] == b'[' {
            if let Some(k) = b[i + 1..].iter().position(|c| *c == b']' || *c == b'[' || *c == b';') {
                if b[i + 1 + k] == b']' {
                    let inner = &txt[i + 1..i + 1 + k];
                    let parts: Vec<&str> = inner.split(',').map(|s| s.trim()).filter(|s| !s.is_empty()).collect();
                    let vals: Vec<Option<u64>> = parts.iter().map(|p| parse_int(p)).collect();
                    if (2..=16).contains(&vals.len()) && vals.iter().all(|v| matches!(v, Some(x) if *x <= 255)) {
                        let v: Vec<u8> = vals.iter().map(|v| v.unwrap() as u8).collect();
                        d.bytes.push(v.clone());
                        d.raw.push(v);
                    }
                }
            }
        }
        i += 1;
    }
    // integer literals and products "a * b"
    let toks: Vec<&str> = txt
        .split(|c: char| !(c.is_ascii_alphanumeric() || c == '_' || c == '*'))
        .filter(|s| !s.is_empty())
        .collect();
    let mut nums: Vec<Option<u64>> = toks.iter().map(|t| if t.as_bytes()[0].is_ascii_digit() { parse_int(t) } else { None }).collect();
    nums.push(None);
    nums.push(None);
    nums.push(None);
    nums.push(None);
    let mut put = |d: &mut Dict, v: u64| {
        if (256..=70000).contains(&v) {
            d.numbers.push(v);
        } else if v > 70000 && v <= (1 << 30) {
            d.big.push(v);
        }
    };
    for k in 0..toks.len() {
        if let Some(a) = nums[k] {
            put(d, a);
            if toks.get(k + 1) == Some(&"*") {
                if let Some(c) = nums[k + 2] {
                    let p = a.saturating_mul(c);
                    put(d, p);
                    if toks.get(k + 3) == Some(&"*") {
                        if let Some(e) = nums[k + 4] {
                            put(d, p.saturating_mul(e));
                        }
                    }
                }
            }
        }
    }
}

pub fn describe() -> String {
    let d = dict();
    format!(
        "raw={:?} bytes={:?} strings={:?} numbers={:?} big={:?}",
        d.raw.iter().map(|b| b.iter().map(|x| format!("{:02x}", x)).collect::<String>()).collect::<Vec<_>>(),
        d.bytes.iter().map(|b| b.iter().map(|x| format!("{:02x}", x)).collect::<String>()).collect::<Vec<_>>(),
        d.strings,
        d.numbers,
        d.big
    )
}
