//! Direct oracles: the property itself evaluated on the implementation's outputs.
use crate::wire::*;
use dlt_core::dlt::*;
use dlt_core::filtering::DltFilterConfig;
use dlt_core::parse::*;

pub type Fails = Vec<(String, String)>;

pub fn parse_oracle(_prop: &str, _sh: bool, _f: &Option<DltFilterConfig>, _bs: &[u8], _o: &mut Fails) {}
pub fn consume_oracle(_prop: &str, _bs: &[u8], _o: &mut Fails) {}
pub fn construct_oracle(_e: Endianness, _tys: &[TypeInfo], _data: &[u8], _r: &Result<Vec<Argument>, DltParseError>, _o: &mut Fails) {}
pub fn new_oracle(_c: &MessageConfig, _sh: &Option<StorageHeader>, _ts: &Option<DltTimeStamp>, _res: &Option<Message>, _o: &mut Fails) {}
#[allow(dead_code)]
fn _unused(_: &[Tok]) {}
