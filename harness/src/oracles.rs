//! Direct oracles: the property itself evaluated on the implementation's outputs, written
//! from the property text (not from the crate's code).  They are the search for a failing
//! input; the theorems are what establishes the property.
use crate::ops2::{msg_toks, parse_owned, short_res};
use crate::wire::*;
use dlt_core::dlt::*;
use dlt_core::filtering::{DltFilterConfig, ProcessedDltFilterConfig};
use dlt_core::parse::*;
use std::panic::{catch_unwind, AssertUnwindSafe};

pub type Fails = Vec<(String, String)>;

pub fn find_pattern(bs: &[u8]) -> Option<usize> {
    (0..bs.len().saturating_sub(3)).find(|&i| bs[i..i + 4] == [0x44, 0x4c, 0x54, 0x01])
}

/// where the message starts and ends according to its own length field
/// returns (skip, hdr, L, all_headers_len) if the length field is present
pub fn located(sh: bool, bs: &[u8]) -> Option<(usize, usize, usize, usize)> {
    let (skip, hdr) = if sh { (find_pattern(bs)?, 16) } else { (0, 0) };
    let o = skip + hdr;
    if bs.len() < o + 4 {
        return None;
    }
    let htyp = bs[o];
    let l = ((bs[o + 2] as usize) << 8) | bs[o + 3] as usize;
    let mut hl = 4;
    for bit in [2u8, 3, 4] {
        if htyp & (1 << bit) != 0 {
            hl += 4;
        }
    }
    if htyp & 1 != 0 {
        hl += 10;
    }
    Some((skip, hdr, l, hl))
}

/// C04 on dlt_message
pub fn parse_oracle(prop: &str, sh: bool, f: &Option<DltFilterConfig>, bs: &[u8], o: &mut Fails) {
    if prop == "C14" && !sh && !bs.is_empty() {
        // the header-type byte observed through dlt_message: fields as the bit layout prescribes
        if let Some(Ok((_, ParsedMessage::Item(m)))) = parse_owned(bs, None, false) {
            let b = bs[0];
            let h = &m.header;
            let ok = h.version == b >> 5
                && (h.endianness == Endianness::Big) == (b & 2 != 0)
                && h.has_extended_header == (b & 1 != 0)
                && h.ecu_id.is_some() == (b & 4 != 0)
                && h.session_id.is_some() == (b & 8 != 0)
                && h.timestamp.is_some() == (b & 16 != 0);
            if !ok {
                o.push(("htyp_layout".into(), format!("HTYP {:#x} decoded as {:?}", b, h)));
            }
            if h.header_type_byte() != b {
                o.push(("htyp_roundtrip".into(), format!("HTYP {:#x} re-encodes to {:#x}", b, h.header_type_byte())));
            }
        } else {
            o.push(("htyp_layout".into(), format!("HTYP {:#x}: generated message did not parse", bs[0])));
        }
        return;
    }
    if prop != "C04" {
        return;
    }
    let pf: Option<ProcessedDltFilterConfig> = f.as_ref().map(|c| c.into());
    let res = catch_unwind(AssertUnwindSafe(|| {
        dlt_message(bs, pf.as_ref(), sh).map(|(rest, pm)| (rest.len(), rest.as_ptr() as usize, pm))
    }));
    let base = bs.as_ptr() as usize;
    if let Ok(Ok((rest_len, rest_ptr, pm))) = &res {
        let consumed = bs.len() - rest_len;
        if *rest_len > 0 && *rest_ptr != base + consumed {
            o.push(("rest_is_suffix".into(), "rest is not the tail of the input".into()));
        }
        if consumed == 0 {
            o.push(("strict_progress".into(), "Ok with nothing consumed".into()));
        }
        match located(sh, bs) {
            Some((skip, hdr, l, hl)) => {
                if consumed != skip + hdr + l {
                    o.push((
                        "consumes_declared".into(),
                        format!("consumed {} but message ends at {} (skip {} + storage {} + LEN {})", consumed, skip + hdr + l, skip, hdr, l),
                    ));
                }
                if let ParsedMessage::FilteredOut(n) = pm {
                    if l < hl || *n != l - hl {
                        o.push(("filtered_payload_len".into(), format!("FilteredOut({}) but LEN {} - headers {}", n, l, hl)));
                    }
                }
                if let ParsedMessage::Invalid = pm {
                    o.push(("never_invalid".into(), "ParsedMessage::Invalid returned".into()));
                }
            }
            None => o.push(("consumes_declared".into(), "Ok although the length field is not in the buffer".into())),
        }
        // the presence of a filter never changes where the next message is looked for
        if pf.is_some() {
            if let Some(Ok((rl2, _))) = parse_owned(bs, None, sh) {
                if rl2 != *rest_len {
                    o.push(("filter_independent_rest".into(), format!("rest {} with filter, {} without", rest_len, rl2)));
                }
            }
        }
    }
}

/// C04 on dlt_consume_msg
pub fn consume_oracle(prop: &str, bs: &[u8], o: &mut Fails) {
    if prop != "C04" {
        return;
    }
    let res = catch_unwind(AssertUnwindSafe(|| dlt_consume_msg(bs).map(|(rest, c)| (rest.len(), rest.as_ptr() as usize, c))));
    if let Ok(Ok((rest_len, rest_ptr, Some(c)))) = res {
        let consumed = bs.len() - rest_len;
        if rest_len > 0 && rest_ptr != bs.as_ptr() as usize + consumed {
            o.push(("rest_is_suffix".into(), "rest is not the tail of the input".into()));
        }
        if bs.len() >= 20 {
            let l = ((bs[18] as usize) << 8) | bs[19] as usize;
            if c as usize != 16 + l || consumed != 16 + l {
                o.push(("skipper_consumes_declared".into(), format!("reported {} consumed {} but 16 + LEN = {}", c, consumed, 16 + l)));
            }
        } else {
            o.push(("skipper_consumes_declared".into(), "skipped a message without a length field".into()));
        }
        if consumed == 0 {
            o.push(("strict_progress".into(), "skipper consumed nothing".into()));
        }
    }
}

// ------------------------------------------------------------------ C13
fn rd_uint(e: Endianness, b: &[u8]) -> u128 {
    let mut v: u128 = 0;
    match e {
        Endianness::Big => {
            for x in b {
                v = (v << 8) | *x as u128;
            }
        }
        Endianness::Little => {
            for x in b.iter().rev() {
                v = (v << 8) | *x as u128;
            }
        }
    }
    v
}
fn sext(v: u128, bytes: usize) -> i128 {
    if bytes == 16 {
        v as i128
    } else {
        let sh = 128 - 8 * bytes as u32;
        ((v << sh) as i128) >> sh
    }
}

/// independent packed-field decoder for the supported (non fixed-point) signal types
pub fn spec_construct(e: Endianness, tys: &[TypeInfo], data: &[u8]) -> Option<Result<Vec<Value>, ()>> {
    let mut off = 0usize;
    let mut out = vec![];
    for t in tys {
        let take = |off: &mut usize, n: usize| -> Option<&[u8]> {
            if data.len() < *off + n {
                None
            } else {
                let s = &data[*off..*off + n];
                *off += n;
                Some(s)
            }
        };
        let v = match t.kind {
            TypeInfoKind::Bool => match take(&mut off, 1) {
                Some(b) => Value::Bool(b[0]),
                None => return Some(Err(())),
            },
            TypeInfoKind::Signed(l) => {
                let n = l as usize / 8;
                match take(&mut off, n) {
                    Some(b) => {
                        let v = sext(rd_uint(e, b), n);
                        match l {
                            TypeLength::BitLength8 => Value::I8(v as i8),
                            TypeLength::BitLength16 => Value::I16(v as i16),
                            TypeLength::BitLength32 => Value::I32(v as i32),
                            TypeLength::BitLength64 => Value::I64(v as i64),
                            TypeLength::BitLength128 => Value::I128(v),
                        }
                    }
                    None => return Some(Err(())),
                }
            }
            TypeInfoKind::Unsigned(l) => {
                let n = l as usize / 8;
                match take(&mut off, n) {
                    Some(b) => {
                        let v = rd_uint(e, b);
                        match l {
                            TypeLength::BitLength8 => Value::U8(v as u8),
                            TypeLength::BitLength16 => Value::U16(v as u16),
                            TypeLength::BitLength32 => Value::U32(v as u32),
                            TypeLength::BitLength64 => Value::U64(v as u64),
                            TypeLength::BitLength128 => Value::U128(v),
                        }
                    }
                    None => return Some(Err(())),
                }
            }
            TypeInfoKind::Float(w) => {
                let n = w as usize / 8;
                match take(&mut off, n) {
                    Some(b) => match w {
                        FloatWidth::Width32 => Value::F32(f32::from_bits(rd_uint(e, b) as u32)),
                        FloatWidth::Width64 => Value::F64(f64::from_bits(rd_uint(e, b) as u64)),
                    },
                    None => return Some(Err(())),
                }
            }
            TypeInfoKind::StringType | TypeInfoKind::Raw => {
                let n = match take(&mut off, 2) {
                    Some(b) => rd_uint(e, b) as usize,
                    None => return Some(Err(())),
                };
                match take(&mut off, n) {
                    Some(b) => {
                        if t.kind == TypeInfoKind::StringType {
                            match std::str::from_utf8(b) {
                                Ok(s) => Value::StringVal(s.to_string()),
                                Err(_) => return Some(Err(())),
                            }
                        } else {
                            Value::Raw(b.to_vec())
                        }
                    }
                    None => return Some(Err(())),
                }
            }
            // fixed-point signal types are outside the property's list of supported types
            TypeInfoKind::SignedFixedPoint(_) | TypeInfoKind::UnsignedFixedPoint(_) => return None,
        };
        out.push(v);
    }
    Some(Ok(out))
}

fn value_toks(v: &Value) -> Vec<Tok> {
    let mut w = W::new();
    w.value(v);
    w.0
}

pub fn construct_oracle(e: Endianness, tys: &[TypeInfo], data: &[u8], r: &Result<Vec<Argument>, DltParseError>, o: &mut Fails) {
    match (spec_construct(e, tys, data), r) {
        (None, _) => {}
        (Some(Ok(vals)), Ok(args)) => {
            if args.len() != tys.len() {
                o.push(("one_per_type".into(), format!("{} arguments for {} types", args.len(), tys.len())));
                return;
            }
            for (i, a) in args.iter().enumerate() {
                if value_toks(&a.value) != value_toks(&vals[i]) {
                    o.push(("decoded_value".into(), format!("argument {}: {:?} expected {:?}", i, a.value, vals[i])));
                }
                let mut w1 = W::new();
                w1.ti(&a.type_info);
                let mut w2 = W::new();
                w2.ti(&tys[i]);
                if w1.0 != w2.0 || a.name.is_some() || a.unit.is_some() || a.fixed_point.is_some() {
                    o.push(("carries_type".into(), format!("argument {} does not carry its signal type plainly", i)));
                }
            }
        }
        (Some(Err(())), Err(_)) => {}
        (Some(Ok(_)), Err(e)) => o.push(("accepts_exact_payload".into(), format!("refused a sufficient payload: {:?}", e))),
        (Some(Err(())), Ok(_)) => o.push(("refuses_short_or_bad_utf8".into(), "accepted a payload that is too short or not UTF-8".into())),
    }
}

// ------------------------------------------------------------------ C15
pub fn new_oracle(c: &MessageConfig, sh: &Option<StorageHeader>, ts: &Option<DltTimeStamp>, res: &Option<Message>, o: &mut Fails) {
    let m = match res {
        Some(m) => m,
        None => {
            o.push(("no_panic".into(), "Message::new / add_storage_header panicked".into()));
            return;
        }
    };
    let plen = crate::genmsg::spec_payload_len(&c.payload);
    if m.header.payload_length as usize != plen {
        o.push(("payload_length".into(), format!("payload_length {} but the payload serialises to {} bytes", m.header.payload_length, plen)));
    }
    let bytes = match catch_unwind(AssertUnwindSafe(|| (m.as_bytes(), m.byte_len()))) {
        Ok(x) => x,
        Err(_) => {
            o.push(("no_panic".into(), "as_bytes/byte_len panicked on a built message".into()));
            return;
        }
    };
    let storage = m.storage_header.is_some();
    let wo = bytes.0.len() - if storage { 16 } else { 0 };
    if bytes.1 as usize != wo {
        o.push(("byte_len".into(), format!("byte_len {} but serialisation without storage header has {} bytes", bytes.1, wo)));
    }
    if let Some(x) = &m.extended_header {
        let (want_verbose, want_noar) = match &c.payload {
            PayloadContent::Verbose(a) => (true, Some(a.len())),
            PayloadContent::NetworkTrace(s) => (true, Some(s.len())),
            _ => (false, None),
        };
        if x.verbose != want_verbose {
            o.push(("verbose_flag".into(), format!("verbose = {} for {:?}", x.verbose, kind_name(&c.payload))));
        }
        if let Some(n) = want_noar {
            if x.argument_count as usize != n {
                o.push(("argument_count".into(), format!("argument_count {} for {} arguments", x.argument_count, n)));
            }
        }
    }
    if m.header.has_extended_header != c.extended_header_info.is_some() {
        o.push(("ueh_flag".into(), "has_extended_header does not match the configuration".into()));
    }
    // parses back to an equal message
    match parse_owned(&bytes.0, None, storage) {
        Some(Ok((0, ParsedMessage::Item(m2)))) if msg_toks(&m2) == msg_toks(m) => {}
        other => o.push(("parses_back".into(), format!("built message does not parse back: {}", short_res(&other)))),
    }
    // adding a storage header only prepends 16 bytes with the given time and the ECU id
    if let Some(t) = ts {
        let base = Message::new(c.clone(), sh.clone());
        let base = Message { storage_header: None, ..base };
        if let Ok(plain) = catch_unwind(AssertUnwindSafe(|| base.as_bytes())) {
            let mut want = vec![0x44, 0x4c, 0x54, 0x01];
            want.extend_from_slice(&t.seconds.to_le_bytes());
            want.extend_from_slice(&t.microseconds.to_le_bytes());
            let id = c.ecu_id.clone().unwrap_or_else(|| "ECU".to_string());
            let mut idb = id.as_bytes().to_vec();
            while idb.len() < 4 {
                idb.push(0);
            }
            want.extend_from_slice(&idb);
            want.extend_from_slice(&plain);
            if bytes.0 != want {
                o.push(("storage_header_prepended".into(), "add_storage_header did not just prepend DLT\\x01 + time + ecu id".into()));
            }
        }
    }
}

fn kind_name(p: &PayloadContent) -> &'static str {
    match p {
        PayloadContent::Verbose(_) => "Verbose",
        PayloadContent::NonVerbose(..) => "NonVerbose",
        PayloadContent::ControlMsg(..) => "ControlMsg",
        PayloadContent::NetworkTrace(_) => "NetworkTrace",
    }
}

// ------------------------------------------------------------------ C09
fn severity(l: &LogLevel) -> Option<u8> {
    match l {
        LogLevel::Fatal => Some(1),
        LogLevel::Error => Some(2),
        LogLevel::Warn => Some(3),
        LogLevel::Info => Some(4),
        LogLevel::Debug => Some(5),
        LogLevel::Verbose => Some(6),
        LogLevel::Invalid(_) => None,
    }
}

/// the drop rule as the property states it
pub fn spec_dropped(m: &Message, f: &DltFilterConfig) -> bool {
    let distinct = |v: &Vec<String>| {
        let mut s: Vec<&String> = v.iter().collect();
        s.sort();
        s.dedup();
        s.len() as i64
    };
    match &m.extended_header {
        Some(x) => {
            let min = f.min_log_level.filter(|l| (1..=6).contains(l));
            let level_drop = match (&x.message_type, min) {
                (MessageType::Log(l), Some(min)) => match severity(l) {
                    Some(s) => s > min,
                    None => false,
                },
                _ => false,
            };
            let app_drop = f.app_ids.as_ref().map(|s| !s.contains(&x.application_id)).unwrap_or(false);
            let ctx_drop = f.context_ids.as_ref().map(|s| !s.contains(&x.context_id)).unwrap_or(false);
            let ecu_drop = match (&f.ecu_ids, &m.header.ecu_id) {
                (Some(s), Some(id)) => !s.contains(id),
                _ => false,
            };
            level_drop || app_drop || ctx_drop || ecu_drop
        }
        None => {
            f.app_ids.as_ref().map(|s| f.app_id_count > distinct(s)).unwrap_or(false)
                || f.context_ids.as_ref().map(|s| f.context_id_count > distinct(s)).unwrap_or(false)
        }
    }
}

pub fn filter_oracle(
    m: &Message,
    f: &DltFilterConfig,
    buf: &[u8],
    suffix_len: usize,
    sh: bool,
    res: &Option<Result<(usize, ParsedMessage), DltParseError>>,
    o: &mut Fails,
) {
    let unfiltered = parse_owned(buf, None, sh);
    let dropped = spec_dropped(m, f);
    match res {
        Some(Ok((rl, ParsedMessage::FilteredOut(n)))) => {
            if !dropped {
                o.push(("dropped_iff_criteria_fail".into(), "message dropped although it meets every criterion".into()));
            }
            if *n != m.header.payload_length as usize {
                o.push(("marker_payload_length".into(), format!("FilteredOut({}) for payload length {}", n, m.header.payload_length)));
            }
            if *rl != suffix_len {
                o.push(("same_remainder".into(), format!("rest {} expected {}", rl, suffix_len)));
            }
        }
        Some(Ok((rl, ParsedMessage::Item(m2)))) => {
            if dropped {
                o.push(("dropped_iff_criteria_fail".into(), "message kept although it fails a criterion".into()));
            }
            match &unfiltered {
                Some(Ok((rl0, ParsedMessage::Item(m0)))) if msg_toks(m0) == msg_toks(m2) && rl0 == rl => {}
                other => o.push(("kept_identical".into(), format!("unfiltered parse gives {}", short_res(other)))),
            }
        }
        other => o.push(("filter_result".into(), format!("unexpected result {}", short_res(other)))),
    }
}
