//! Implementation side of the correspondence check: one function per op of coq/Model/Run.v,
//! each producing the same token layout as the model, plus the direct oracles that look
//! for an input on which the property itself fails on the implementation.
use crate::wire::*;
use byteorder::{BigEndian, LittleEndian};
use dlt_core::dlt::*;
use dlt_core::filtering::ProcessedDltFilterConfig;
use dlt_core::parse::*;
use std::convert::TryFrom;
use std::panic::{catch_unwind, AssertUnwindSafe};

pub struct Outcome {
    pub result: Vec<Tok>,
    /// (clause, detail) for every clause of the property's oracle that failed on this case
    pub oracle: Vec<(String, String)>,
}

fn guarded<T>(f: impl FnOnce() -> T) -> Option<T> {
    catch_unwind(AssertUnwindSafe(f)).ok()
}

pub fn w_parse_err(w: &mut W, e: &DltParseError) {
    match e {
        DltParseError::IncompleteParse { needed: None } => {
            w.n(1);
            w.n(0)
        }
        DltParseError::IncompleteParse { needed: Some(n) } => {
            w.n(1);
            w.n(1);
            w.n(n.get() as u128)
        }
        DltParseError::ParsingHickup(_) => w.n(2),
        DltParseError::Unrecoverable(_) => w.n(3),
    }
}

pub fn w_parsed(w: &mut W, p: &ParsedMessage) {
    match p {
        ParsedMessage::Item(m) => {
            w.n(0);
            w.msg(m)
        }
        ParsedMessage::FilteredOut(n) => {
            w.n(1);
            w.n(*n as u128)
        }
        ParsedMessage::Invalid => w.n(2),
    }
}

pub fn w_dlt_message_result(w: &mut W, r: &Result<(&[u8], ParsedMessage), DltParseError>) {
    match r {
        Ok((rest, pm)) => {
            w.n(0);
            w_parsed(w, pm);
            w.n(rest.len() as u128);
        }
        Err(e) => w_parse_err(w, e),
    }
}

pub fn arg_as_bytes(e: Endianness, a: &Argument) -> Vec<u8> {
    match e {
        Endianness::Big => a.as_bytes::<BigEndian>(),
        Endianness::Little => a.as_bytes::<LittleEndian>(),
    }
}

fn op_ts(ms: bool, toks: &[Tok], prop: &str) -> Outcome {
    let mut r = R::new(toks);
    let v = r.n() as u64;
    let res = guarded(|| {
        if ms {
            DltTimeStamp::from_ms(v)
        } else {
            DltTimeStamp::from_us(v)
        }
    });
    let mut w = W::new();
    let mut oracle = vec![];
    match &res {
        Some(t) => {
            w.n(0);
            w.ts(t)
        }
        None => w.n(1),
    }
    if prop == "C17" {
        let unit: u128 = if ms { 1000 } else { 1_000_000 };
        let in_domain = (v as u128) / unit < (1u128 << 32);
        if in_domain {
            match &res {
                None => oracle.push(("no_panic".into(), format!("input {} panics", v))),
                Some(t) => {
                    let want = (v as u128) * (1_000_000 / unit);
                    let got = t.seconds as u128 * 1_000_000 + t.microseconds as u128;
                    if got != want {
                        oracle.push((
                            "same_instant".into(),
                            format!("input {}: {}s {}us denotes {} us, expected {}", v, t.seconds, t.microseconds, got, want),
                        ));
                    }
                    if t.microseconds >= 1_000_000 {
                        oracle.push(("micros_below_1e6".into(), format!("input {}: microseconds {}", v, t.microseconds)));
                    }
                }
            }
        }
    }
    Outcome { result: w.0, oracle }
}

/// independent statement of C19 for the oracle
fn zstr_spec(size: usize, s: &[u8]) -> Option<(Vec<u8>, usize)> {
    if s.len() < size {
        return None;
    }
    let field = &s[..size];
    let upto = match field.iter().position(|b| *b == 0) {
        Some(i) => &field[..i],
        None => field,
    };
    // longest valid UTF-8 prefix, by trying every prefix length from the longest
    let mut k = upto.len();
    loop {
        if std::str::from_utf8(&upto[..k]).is_ok() {
            break;
        }
        k -= 1;
    }
    Some((upto[..k].to_vec(), size))
}

fn op_zstr(toks: &[Tok], prop: &str) -> Outcome {
    let mut r = R::new(toks);
    let size = r.n() as usize;
    let bs = r.b();
    let res = guarded(|| dlt_zero_terminated_string(&bs, size).map(|(rest, s)| (rest.len(), s.as_bytes().to_vec())));
    let mut w = W::new();
    let mut oracle = vec![];
    match &res {
        None => w.n(4),
        Some(Ok((rest_len, s))) => {
            w.n(0);
            w.b(s);
            w.n(*rest_len as u128)
        }
        Some(Err(e)) => w_parse_err(&mut w, e),
    }
    if prop == "C19" || prop == "C03" {
        if res.is_none() {
            oracle.push(("no_panic".into(), "dlt_zero_terminated_string panicked".into()));
        }
    }
    if prop == "C19" {
        match (zstr_spec(size, &bs), &res) {
            (Some((want, consumed)), Some(Ok((rest_len, got)))) => {
                if *got != want {
                    oracle.push(("clean_prefix".into(), format!("got {} want {}", hex(got), hex(&want))));
                }
                if bs.len() - rest_len != consumed {
                    oracle.push(("consumes_size".into(), format!("consumed {} want {}", bs.len() - rest_len, consumed)));
                }
            }
            (Some(_), Some(Err(e))) => oracle.push(("enough_bytes_ok".into(), format!("error {:?} although {} >= {}", e, bs.len(), size))),
            (None, Some(Err(DltParseError::IncompleteParse { needed }))) => {
                if let Some(n) = needed {
                    if n.get() > size - bs.len() {
                        oracle.push(("hint_le_shortfall".into(), format!("needed {} > missing {}", n, size - bs.len())));
                    }
                }
            }
            (None, Some(other)) => oracle.push(("short_is_incomplete".into(), format!("{:?}", other))),
            (_, None) => {}
        }
    }
    Outcome { result: w.0, oracle }
}

fn op_ti(toks: &[Tok], prop: &str) -> Outcome {
    let mut r = R::new(toks);
    let word = r.n() as u32;
    let mut w = W::new();
    let mut oracle = vec![];
    if prop == "C14" {
        if let Some((c, d)) = crate::sweep::ti_oracle(word) {
            oracle.push((c.to_string(), d));
        }
    }
    match guarded(|| TypeInfo::try_from(word).ok().map(|t| {
        let le = t.as_bytes::<LittleEndian>();
        let be = t.as_bytes::<BigEndian>();
        (t, le, be)
    })) {
        None => w.n(4),
        Some(None) => w.n(0),
        Some(Some((t, le, be))) => {
            w.n(1);
            w.ti(&t);
            w.n(u32::from_le_bytes([le[0], le[1], le[2], le[3]]) as u128);
            w.b(&le);
            w.b(&be);
        }
    }
    Outcome { result: w.0, oracle }
}

fn op_msin(toks: &[Tok], prop: &str) -> Outcome {
    let mut r = R::new(toks);
    let b = r.n() as u8;
    let mut w = W::new();
    let mut oracle = vec![];
    match guarded(|| {
        let t = MessageType::try_from(b).ok();
        t.map(|t| {
            let verbose = (b & 1) != 0;
            let enc = u8::from(&t) | u8::from(verbose);
            (t, verbose, enc)
        })
    }) {
        None => w.n(0xdead),
        Some(None) => w.n(0xdeae),
        Some(Some((t, verbose, enc))) => {
            w.mtype(&t);
            w.bool(verbose);
            w.n(enc as u128);
            if prop == "C14" {
                if enc != b {
                    oracle.push(("msin_roundtrip".into(), format!("{:#x} decodes to {:?} which encodes to {:#x}", b, t, enc)));
                }
                // the sub-type the layout prescribes: MSTP bits 1-3, MTIN bits 4-7
                let mstp = (b >> 1) & 7;
                let mtin = b >> 4;
                let class_ok = match (&t, mstp) {
                    (MessageType::Log(_), 0) | (MessageType::ApplicationTrace(_), 1) | (MessageType::NetworkTrace(_), 2) | (MessageType::Control(_), 3) => true,
                    (MessageType::Unknown((a, c)), m) => *a == m && m >= 4 && *c == mtin,
                    _ => false,
                };
                if !class_ok {
                    oracle.push(("msin_layout".into(), format!("{:#x} (MSTP {} MTIN {}) decoded as {:?}", b, mstp, mtin, t)));
                }
            }
        }
    }
    if prop == "C14" && w.0.first() == Some(&Tok::N(0xdead)) {
        oracle.push(("no_panic".into(), "MessageType conversion panicked".into()));
    }
    Outcome { result: w.0, oracle }
}

pub fn run_parse(sh: bool, f: &Option<dlt_core::filtering::DltFilterConfig>, bs: &[u8]) -> Option<Vec<Tok>> {
    guarded(|| {
        let pf: Option<ProcessedDltFilterConfig> = f.as_ref().map(|c| c.into());
        let r = dlt_message(bs, pf.as_ref(), sh);
        let mut w = W::new();
        w_dlt_message_result(&mut w, &r);
        w.0
    })
}

fn op_parse(toks: &[Tok], prop: &str) -> Outcome {
    let mut r = R::new(toks);
    let sh = r.bool();
    let f = r.opt_filter();
    let bs = r.b();
    let mut oracle = vec![];
    let result = match run_parse(sh, &f, &bs) {
        Some(t) => t,
        None => {
            if prop == "C03" {
                oracle.push(("no_panic".into(), "dlt_message panicked".into()));
            }
            vec![Tok::N(4)]
        }
    };
    crate::oracles::parse_oracle(prop, sh, &f, &bs, &mut oracle);
    if prop == "C19" {
        ids_oracle(sh, &bs, &mut oracle);
    }
    Outcome { result, oracle }
}

/// C19, last sentence: the 4-byte ECU, application and context ids of a parsed message are what the
/// fixed-size-field rule yields for the 4 bytes at their place in the input
fn ids_oracle(sh: bool, bs: &[u8], oracle: &mut Vec<(String, String)>) {
    // a buffer that ends inside the ECU id (the first field behind the four fixed header bytes): incomplete,
    // the hint no larger than the shortfall
    {
        let base = if sh { 16 } else { 0 };
        if (!sh || bs.starts_with(b"DLT\x01")) && bs.len() >= base + 4 && bs.len() < base + 8 && bs[base] & 4 != 0 {
            let short = base + 8 - bs.len();
            match guarded(|| dlt_message(bs, None, sh)) {
                Some(Err(DltParseError::IncompleteParse { needed })) => {
                    if let Some(n) = needed {
                        if n.get() > short {
                            oracle.push(("id_incomplete_hint".into(), format!("ECU id short by {} but the hint asks for {}", short, n)));
                        }
                    }
                }
                Some(other) => oracle.push((
                    "id_incomplete".into(),
                    format!("the buffer ends {} bytes into the ECU id but the parser answered {} instead of incomplete", 4 - short, match other { Ok(_) => "a message".to_string(), Err(e) => format!("{:?}", e) }),
                )),
                None => {}
            }
        }
    }
    let m = match guarded(|| dlt_message(bs, None, sh)) {
        Some(Ok((_, ParsedMessage::Item(m)))) => m,
        _ => return,
    };
    let base = if sh {
        if !bs.starts_with(b"DLT\x01") {
            return; // junk in front: offsets unknown here (covered by C06)
        }
        16
    } else {
        0
    };
    let field = |off: usize| -> Option<Vec<u8>> { bs.get(off..off + 4).and_then(|b| zstr_spec(4, b)).map(|x| x.0) };
    let htyp = bs[base];
    let mut off = base + 4;
    let mut check = |what: &str, got: Option<&String>, off: usize, oracle: &mut Vec<(String, String)>| {
        if let (Some(g), Some(w)) = (got, field(off)) {
            if g.as_bytes() != &w[..] {
                oracle.push(("ids_obey_field_rule".into(), format!("{} id {:?} but the field rule gives {}", what, g, hex(&w))));
            }
        }
    };
    if sh {
        check("storage-header ECU", m.storage_header.as_ref().map(|s| &s.ecu_id), 12, oracle);
    }
    if htyp & 4 != 0 {
        check("ECU", m.header.ecu_id.as_ref(), off, oracle);
        off += 4;
    }
    if htyp & 8 != 0 {
        off += 4;
    }
    if htyp & 16 != 0 {
        off += 4;
    }
    if htyp & 1 != 0 {
        if let Some(x) = &m.extended_header {
            check("application", Some(&x.application_id), off + 2, oracle);
            check("context", Some(&x.context_id), off + 6, oracle);
        }
    }
}

fn op_enc(toks: &[Tok], _prop: &str) -> Outcome {
    let mut r = R::new(toks);
    let m = r.msg();
    let mut w = W::new();
    match guarded(|| (m.as_bytes(), m.byte_len())) {
        None => w.n(1),
        Some((bs, bl)) => {
            w.n(0);
            w.b(&bs);
            w.n(bl as u128)
        }
    }
    Outcome { result: w.0, oracle: vec![] }
}

fn op_consume(toks: &[Tok], prop: &str) -> Outcome {
    let mut r = R::new(toks);
    let bs = r.b();
    let mut w = W::new();
    let mut oracle = vec![];
    match guarded(|| dlt_consume_msg(&bs).map(|(rest, c)| (rest.len(), c))) {
        None => {
            w.n(4);
            if prop == "C03" {
                oracle.push(("no_panic".into(), "dlt_consume_msg panicked".into()));
            }
        }
        Some(Ok((rest_len, c))) => {
            w.n(0);
            match c {
                Some(c) => {
                    w.n(1);
                    w.n(c as u128)
                }
                None => w.n(0),
            }
            w.n(rest_len as u128);
        }
        Some(Err(e)) => w_parse_err(&mut w, &e),
    }
    crate::oracles::consume_oracle(prop, &bs, &mut oracle);
    Outcome { result: w.0, oracle }
}

fn op_skipsh(toks: &[Tok], prop: &str) -> Outcome {
    let mut r = R::new(toks);
    let bs = r.b();
    let mut w = W::new();
    let mut oracle = vec![];
    match guarded(|| skip_storage_header(&bs).map(|(rest, c)| (rest.len(), c))) {
        None => {
            w.n(4);
            if prop == "C03" {
                oracle.push(("no_panic".into(), "skip_storage_header panicked".into()));
            }
        }
        Some(Ok((rest_len, c))) => {
            w.n(0);
            w.n(c as u128);
            w.n(rest_len as u128);
        }
        Some(Err(e)) => w_parse_err(&mut w, &e),
    }
    Outcome { result: w.0, oracle }
}

fn op_fwd(toks: &[Tok], prop: &str) -> Outcome {
    let mut r = R::new(toks);
    let bs = r.b();
    let mut w = W::new();
    let mut oracle = vec![];
    let res = guarded(|| forward_to_next_storage_header(&bs).map(|(k, rest)| (k, rest.len(), rest.as_ptr() as usize - bs.as_ptr() as usize)));
    match &res {
        None => {
            w.n(4);
            if prop == "C03" || prop == "C06" {
                oracle.push(("no_panic".into(), "forward_to_next_storage_header panicked".into()));
            }
        }
        Some(None) => w.n(0),
        Some(Some((k, rl, _))) => {
            w.n(1);
            w.n(*k as u128);
            w.n(*rl as u128);
        }
    }
    if prop == "C06" {
        // independent first-occurrence search
        let first = (0..bs.len().saturating_sub(3)).find(|&i| bs[i..i + 4] == [0x44, 0x4c, 0x54, 0x01]);
        match (&res, first) {
            (Some(None), None) => {}
            (Some(Some((k, rl, off))), Some(i)) => {
                if *k as usize != i || *off != i || *rl != bs.len() - i {
                    oracle.push(("first_occurrence".into(), format!("reported {} (rest at {}, len {}), first pattern at {}", k, off, rl, i)));
                }
            }
            (Some(a), b) => oracle.push(("absence_iff_no_pattern".into(), format!("impl {:?} first {:?}", a.map(|x| x.0), b))),
            (None, _) => {}
        }
    }
    Outcome { result: w.0, oracle }
}

fn op_construct(toks: &[Tok], prop: &str) -> Outcome {
    let mut r = R::new(toks);
    let e = r.endian();
    let n = r.n();
    let tys: Vec<TypeInfo> = (0..n).map(|_| r.ti()).collect();
    let data = r.b();
    let mut w = W::new();
    let mut oracle = vec![];
    let res = guarded(|| construct_arguments(e, &tys, &data));
    match &res {
        None => {
            w.n(4);
            if prop == "C03" || prop == "C13" {
                oracle.push(("no_panic".into(), "construct_arguments panicked".into()));
            }
        }
        Some(Ok(args)) => {
            w.n(0);
            w.args(args)
        }
        Some(Err(_)) => w.n(1),
    }
    if prop == "C13" {
        if let Some(r) = &res {
            crate::oracles::construct_oracle(e, &tys, &data, r, &mut oracle);
        }
    }
    Outcome { result: w.0, oracle }
}

/// 44 CONSTRUCT_BIG: data (complete for the types) followed by n zero bytes, n up to beyond 2^32
fn op_construct_big(toks: &[Tok], prop: &str) -> Outcome {
    let mut r = R::new(toks);
    let e = r.endian();
    let n = r.n();
    let tys: Vec<TypeInfo> = (0..n).map(|_| r.ti()).collect();
    let data = r.b();
    let zeros = r.n() as usize;
    let mut w = W::new();
    let mut oracle = vec![];
    // zeroed pages are mapped lazily; only the front is ever touched
    let mut big = vec![0u8; data.len() + zeros];
    big[..data.len()].copy_from_slice(&data);
    let res = guarded(|| construct_arguments(e, &tys, &big));
    let small = guarded(|| construct_arguments(e, &tys, &data));
    match &res {
        None => {
            w.n(4);
            if prop == "C03" || prop == "C13" {
                oracle.push(("no_panic".into(), format!("construct_arguments panicked on {} payload bytes", big.len())));
            }
        }
        Some(Ok(args)) => {
            w.n(0);
            w.args(args)
        }
        Some(Err(_)) => w.n(1),
    }
    if prop == "C13" {
        let same = match (&res, &small) {
            (Some(Ok(a)), Some(Ok(b))) => {
                let (mut wa, mut wb) = (W::new(), W::new());
                wa.args(a);
                wb.args(b);
                wa.0 == wb.0
            }
            (Some(Err(_)), Some(Err(_))) => true,
            (None, None) => true,
            _ => false,
        };
        if !same {
            oracle.push(("trailing_bytes_ignored".into(), format!("{} trailing zero bytes change the result", zeros)));
        }
    }
    Outcome { result: w.0, oracle }
}

fn op_arg(toks: &[Tok], prop: &str) -> Outcome {
    let mut r = R::new(toks);
    let e = r.endian();
    let a = r.arg();
    let mut w = W::new();
    let mut oracle = vec![];
    let l = guarded(|| a.len());
    let v = guarded(|| a.valid());
    let bs = guarded(|| arg_as_bytes(e, &a));
    match (l, v) {
        (Some(l), Some(v)) => {
            w.n(l as u128);
            w.bool(v);
        }
        _ => w.n(4),
    }
    match &bs {
        Some(b) => {
            w.n(0);
            w.b(b)
        }
        None => w.n(1),
    }
    if prop == "C15" && !crate::genmsg::wf_arg(&a) {
        // outside the well-formed domain only the validity clause of the property applies
        let want = match (&a.type_info.kind, &a.value) {
            (TypeInfoKind::Bool, v) => matches!(v, Value::Bool(_)),
            (TypeInfoKind::Float(FloatWidth::Width32), v) => matches!(v, Value::F32(_)),
            (TypeInfoKind::Float(FloatWidth::Width64), v) => matches!(v, Value::F64(_)),
            _ => true,
        };
        if v != Some(want) {
            oracle.push(("validity_check".into(), format!("valid() = {:?} for kind {:?} with value {:?}", v, a.type_info.kind, a.value)));
        }
    } else if prop == "C15" {
        match (l, &bs) {
            (Some(l), Some(b)) => {
                if l != b.len() {
                    oracle.push(("arg_len_eq_serialised".into(), format!("len() = {} but as_bytes has {} bytes", l, b.len())));
                }
            }
            _ => oracle.push(("no_panic".into(), "Argument::len/as_bytes panicked on a well-formed argument".into())),
        }
    }
    Outcome { result: w.0, oracle }
}

fn op_new(toks: &[Tok], prop: &str) -> Outcome {
    let mut r = R::new(toks);
    let c = r.cfg();
    let sh = r.opt_sh();
    let mode = r.n();
    let mut ts = if mode == 1 { Some(r.ts()) } else { None };
    let mut w = W::new();
    let mut oracle = vec![];
    let mut clock = None;
    let res = guarded(|| {
        let m = Message::new(c.clone(), sh.clone());
        match (&ts, mode) {
            (Some(t), _) => m.add_storage_header(Some(t.clone())),
            (None, 2) => {
                // the clock variant: the time is whatever the clock said, everything else is determined
                let before = std::time::SystemTime::now().duration_since(std::time::UNIX_EPOCH).map(|d| d.as_millis()).unwrap_or(0);
                let mut m = m.add_storage_header(None);
                let after = std::time::SystemTime::now().duration_since(std::time::UNIX_EPOCH).map(|d| d.as_millis()).unwrap_or(0);
                if let Some(h) = &mut m.storage_header {
                    clock = Some((before, h.timestamp.clone(), after));
                    h.timestamp = DltTimeStamp { seconds: 0, microseconds: 0 };
                }
                m
            }
            _ => m,
        }
    });
    if mode == 2 {
        ts = Some(DltTimeStamp { seconds: 0, microseconds: 0 });
        if prop == "C15" {
            match &clock {
                Some((b, t, a)) => {
                    let ms = t.seconds as u128 * 1000 + (t.microseconds / 1000) as u128;
                    // (one second of slack for a clock that is stepped while the case runs)
                    if t.microseconds >= 1_000_000 || t.microseconds % 1000 != 0 || ms + 1000 < *b || ms > *a + 1000 {
                        oracle.push(("storage_header_time_is_now".into(), format!("clock gave {}..{} ms, header carries {} s {} us", b, a, t.seconds, t.microseconds)));
                    }
                }
                None => {
                    if res.is_some() {
                        oracle.push(("storage_header_prepended".into(), "add_storage_header(None) left the message without a storage header".into()));
                    }
                }
            }
        }
    }
    match &res {
        Some(m) => w.msg(m),
        None => w.n(4),
    }
    if prop == "C15" {
        let all_wf = match &c.payload {
            PayloadContent::Verbose(args) => args.iter().all(crate::genmsg::wf_arg),
            _ => true,
        };
        if all_wf {
            crate::oracles::new_oracle(&c, &sh, &ts, &res, &mut oracle);
        } else if let Some(m) = &res {
            // outside the well-formed domain only the bookkeeping clauses apply: the recorded payload length and
            // the reported byte length are those of what the writer emits
            if let Some((bytes, bl)) = guarded(|| (m.as_bytes(), m.byte_len())) {
                let storage = if m.storage_header.is_some() { 16 } else { 0 };
                let hdr = 4 + m.header.ecu_id.is_some() as usize * 4 + m.header.session_id.is_some() as usize * 4
                    + m.header.timestamp.is_some() as usize * 4 + m.extended_header.is_some() as usize * 10;
                let actual = bytes.len() - storage - hdr;
                if actual <= 65535 - hdr {
                    if m.header.payload_length as usize != actual {
                        oracle.push(("payload_length".into(), format!("payload_length {} but the payload serialises to {} bytes", m.header.payload_length, actual)));
                    }
                    if bl as usize != bytes.len() - storage {
                        oracle.push(("byte_len".into(), format!("byte_len {} but serialisation without storage header has {} bytes", bl, bytes.len() - storage)));
                    }
                }
            }
        }
    }
    Outcome { result: w.0, oracle }
}

/// 5 TS_CONCURRENT: the conversions run on four threads at once, each walking the values from another starting
/// point, many times; every result must be the one a lone call gives
fn op_ts_concurrent(toks: &[Tok], prop: &str) -> Outcome {
    let mut r = R::new(toks);
    let ms = r.bool();
    let n = r.n();
    let vals: Vec<u64> = (0..n).map(|_| r.n() as u64).collect();
    let conv = move |v: u64| if ms { DltTimeStamp::from_ms(v) } else { DltTimeStamp::from_us(v) };
    let mut w = W::new();
    let mut oracle = vec![];
    let single: Vec<Option<(u32, u32)>> = vals.iter().map(|v| guarded(|| conv(*v)).map(|t| (t.seconds, t.microseconds))).collect();
    for x in &single {
        match x {
            Some((s, u)) => {
                w.n(0);
                w.ts(&DltTimeStamp { seconds: *s, microseconds: *u })
            }
            None => w.n(1),
        }
    }
    if single.iter().all(|x| x.is_some()) && !vals.is_empty() {
        let vals = std::sync::Arc::new(vals);
        let single = std::sync::Arc::new(single);
        let handles: Vec<_> = (0..4usize)
            .map(|t| {
                let (vals, single) = (vals.clone(), single.clone());
                std::thread::spawn(move || {
                    let n = vals.len();
                    for round in 0..400usize {
                        for k in 0..n {
                            let i = (k * (t + 1) + round + t * 7) % n;
                            let got = std::panic::catch_unwind(|| conv(vals[i])).ok().map(|x| (x.seconds, x.microseconds));
                            if got != single[i] {
                                return Some((vals[i], got, single[i]));
                            }
                        }
                    }
                    None
                })
            })
            .collect();
        for h in handles {
            if let Ok(Some((v, got, want))) = h.join() {
                if prop == "C17" && oracle.is_empty() {
                    oracle.push(("thread_safe".into(), format!("input {} converted while other threads convert: {:?}, alone: {:?}", v, got, want)));
                }
            }
        }
    }
    Outcome { result: w.0, oracle }
}

pub fn run_case(prop: &str, op: u32, toks: &[Tok]) -> Outcome {
    match op {
        5 => op_ts_concurrent(toks, prop),
        1 => op_ts(true, toks, prop),
        2 => op_ts(false, toks, prop),
        3 => op_zstr(toks, prop),
        4 => op_ti(toks, prop),
        7 => op_msin(toks, prop),
        8 => op_parse(toks, prop),
        9 => op_enc(toks, prop),
        10 => op_consume(toks, prop),
        11 => op_skipsh(toks, prop),
        12 => op_fwd(toks, prop),
        13 => op_construct(toks, prop),
        44 => op_construct_big(toks, prop),
        14 => op_arg(toks, prop),
        15 => op_new(toks, prop),
        _ => crate::ops2::run_case2(prop, op, toks),
    }
}
