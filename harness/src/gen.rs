//! Case generators, one family per property.  A case is a line `<op> tok tok ...`.
use crate::rng::Rng;
use crate::wire::*;

pub struct Cases {
    pub lines: Vec<String>,
}
impl Cases {
    pub fn new() -> Self {
        Cases { lines: vec![] }
    }
    pub fn push(&mut self, op: u32, w: W) {
        self.lines.push(format!("{} {}", op, print_toks(&w.0)));
    }
}

fn gen_c17(rng: &mut Rng, thorough: bool, out: &mut Cases) {
    let n = if thorough { 200_000 } else { 20_000 };
    for (op, unit) in [(1u32, 1000u128), (2u32, 1_000_000u128)] {
        let top = (1u128 << 32) * unit; // first value past the guard
        let mut vals: Vec<u128> = vec![0, 1, unit - 1, unit, unit + 1, unit + 5, 2 * unit - 1, 1500 * unit / 1000,
            4294, 4295, 4296, top - 1, top - unit, top - unit - 1, top, top + 1, u64::MAX as u128, (u64::MAX / 2) as u128];
        for k in 0..64 {
            vals.push((1u128 << k).min(u64::MAX as u128));
            vals.push(((1u128 << k) - 1).min(u64::MAX as u128));
        }
        // inputs whose quotient by 1000, 10^6 (or a multiple of 2^32 of them) sits on a power of two or a
        // multiple of 2^32: where intermediate 32-bit arithmetic would wrap
        for d in [1000u128, 1_000_000, 1_000_000_000] {
            for k in 0..64u32 {
                let q = 1u128 << k;
                for base in [q * d, (q - 1) * d, (q + 1) * d] {
                    for off in [0u128, 1, d / 2, d - 1] {
                        let v = base + off;
                        if v <= u64::MAX as u128 {
                            vals.push(v);
                            if v > 0 {
                                vals.push(v - 1);
                            }
                        }
                    }
                }
            }
        }
        for j in 1..1000u128 {
            // every multiple of 2^32 below the guard, and the second it falls into
            let v = j << 32;
            if j % 7 == 0 || j < 20 {
                for x in [v, v + 1, v - 1, v / unit * unit, v / unit * unit + unit - 1, (v / unit + 1) * unit] {
                    vals.push(x);
                }
            }
        }
        for _ in 0..n {
            let v = match rng.below(4) {
                0 => rng.next() as u128,
                1 => rng.below(top as u64) as u128,
                2 => rng.below(10_000_000) as u128,
                _ => (rng.below(1 << 32) as u128) * unit + rng.below(unit as u64) as u128,
            };
            vals.push(v);
        }
        // consecutive calls P, P + step: starting points with every kind of sub-unit part, steps around the unit,
        // the powers of two next to it and small ones, forwards and backwards (anything carried over from the
        // previous call shows here)
        let mut steps: Vec<u128> = vec![1, 2, unit - 1, unit, unit + 1, 2 * unit - 1, 2 * unit, 10 * unit];
        for k in [9u32, 10, 19, 20, 21, 29, 30, 31, 32] {
            steps.extend_from_slice(&[(1u128 << k) - 1, 1u128 << k, (1u128 << k) + 1]);
        }
        for base in [5 * unit, 4294 * unit, ((1u128 << 31) - 3) * unit] {
            for sub in [0u128, 1, unit / 2, unit - 1, unit - unit / 20, unit - unit / 21, unit * 951_425 / 1_000_000, unit * 951_424 / 1_000_000] {
                let p0 = base + sub;
                for st in &steps {
                    vals.push(p0);
                    vals.push(p0 + st);
                    vals.push(p0);
                    if p0 >= *st {
                        vals.push(p0 - st);
                    }
                }
            }
        }
        // the same conversions from four threads at once (values that alternate between neighbouring units)
        for base in [5u128, 4294, (1u128 << 31) - 3] {
            let l: Vec<u128> = vec![base * unit + 1, (base + 1) * unit + 2, base * unit + unit - 1, (base + 1) * unit, base * unit, (base + 2) * unit + 7];
            let mut w = W::new();
            w.bool(op == 1);
            w.n(l.len() as u128);
            for v in &l {
                w.n(*v);
            }
            out.push(5, w);
        }
        // a call far outside the guarded range (the last units of the u64 range), then small in-range values
        for y in [u64::MAX as u128, u64::MAX as u128 - unit + 1, u64::MAX as u128 / unit * unit, (u64::MAX as u128 / unit - 1) * unit] {
            for x in [0u128, 1, unit - 1, unit, 448_383, 448_384, 551_615, 551_616] {
                vals.push(y);
                vals.push(x);
            }
        }
        for v in vals {
            let mut w = W::new();
            w.n(v & (u64::MAX as u128));
            out.push(op, w);
        }
    }
}


use crate::genmsg::*;
use dlt_core::dlt::*;
use dlt_core::filtering::DltFilterConfig;

pub fn msg_opts_for(rng: &mut Rng, i: usize) -> MsgOpts {
    let mut o = MsgOpts::default();
    o.kind = Some(match i % 8 {
        0 | 1 | 2 => PKind::Verbose,
        3 => PKind::NonVerbose,
        4 => PKind::Control,
        5 => PKind::NetworkTrace,
        6 => PKind::Verbose,
        _ => PKind::NonVerbose,
    });
    match rng.below(40) {
        0 => {
            o.max_blob = 3000;
            o.max_args = 30
        }
        1 => o.max_args = 255,
        2 => o.target_total = Some(65535),
        3 => o.target_total = Some(65534),
        4 => {
            o.max_args = 0;
            o.max_blob = 0
        }
        _ => {}
    }
    o
}

/// messages built around the literals of the source under test: every binary literal in both storage modes
/// (or the one asked for) and a few of the text literals
pub fn dict_msgs(rng: &mut Rng, storage: Option<bool>) -> Vec<Message> {
    let d = crate::dict::dict();
    let mut v = vec![];
    let modes: Vec<bool> = match storage {
        Some(b) => vec![b],
        None => vec![false, true],
    };
    for sh in &modes {
        let o = MsgOpts { storage: Some(*sh), ..MsgOpts::default() };
        for k in 0..d.bytes.len() {
            let e = &d.bytes[k];
            let binary = d.raw.contains(e);
            if binary || rng.chance(1, 16) {
                if let Some(m) = dict_message(rng, &o, Some(k)) {
                    v.push(m);
                }
            }
        }
    }
    v
}

/// the same bytes read in the other byte order: flip MSBF in the header type of a serialised message
pub fn flip_byte_order(bs: &[u8], sh: bool) -> Vec<u8> {
    let mut v = bs.to_vec();
    let o = if sh { 16 } else { 0 };
    if v.len() > o {
        v[o] ^= 0x02;
    }
    v
}

/// A, A read in the other byte order, A again — one buffer, parsed repeatedly (op 25).  Decoding must not
/// depend on what was decoded before.
pub fn gen_flip_sequences(rng: &mut Rng, n: usize, out: &mut Cases) {
    for i in 0..n {
        let sh = i % 3 == 0;
        let mut o = MsgOpts { storage: Some(sh), kind: Some(PKind::Verbose), max_blob: 12, ..MsgOpts::default() };
        o.max_args = if i % 2 == 0 { 1 } else { 3 };
        let mut m = gen_message(rng, &o);
        if i % 4 == 1 {
            // all arguments of one type
            if let PayloadContent::Verbose(args) = &mut m.payload {
                if let Some(a0) = args.first().cloned() {
                    for a in args.iter_mut() {
                        *a = a0.clone();
                    }
                }
            }
            m.header.payload_length = spec_payload_len(&m.payload) as u16;
        }
        let a = match std::panic::catch_unwind(|| m.as_bytes()) {
            Ok(b) => b,
            Err(_) => continue,
        };
        let b = flip_byte_order(&a, sh);
        let mut buf = a.clone();
        buf.extend_from_slice(&b);
        buf.extend_from_slice(&a);
        push_parse(out, 25, sh, &None, &buf);
        let mut buf = b.clone();
        buf.extend_from_slice(&a);
        push_parse(out, 25, sh, &None, &buf);
    }
}

/// op 39: a receiver's buffer that is parsed again and again as more data arrives, and is then reused for the next
/// message: a cut of a long message A, a longer cut of A, then cuts of a DIFFERENT (shorter) message B that are longer
/// than A's first cut, then B complete.  `missing + 1` travels with every proper prefix (0 = not a prefix).
pub fn gen_inplace(rng: &mut Rng, n: usize, out: &mut Cases) {
    for i in 0..n {
        let sh = i % 2 == 0;
        let big = MsgOpts { storage: Some(sh), dict: false, max_blob: 300, max_args: 6, ..MsgOpts::default() };
        let small = MsgOpts { storage: Some(sh), dict: false, max_blob: 30, max_args: 3, ..MsgOpts::default() };
        let (a, b) = (gen_message(rng, &big), gen_message(rng, &small));
        let (ab, bb) = match (std::panic::catch_unwind(|| a.as_bytes()), std::panic::catch_unwind(|| b.as_bytes())) {
            (Ok(x), Ok(y)) => (x, y),
            _ => continue,
        };
        let (ab, bb) = if ab.len() >= bb.len() { (ab, bb) } else { (bb, ab) };
        if bb.len() < 8 {
            continue;
        }
        let storage = if sh { 16 } else { 0 };
        // cuts of A shortly behind its headers, cuts of B further in
        let ka = (storage + 14 + rng.below(6) as usize).min(ab.len() - 1).min(bb.len() - 2);
        let ka2 = (ka + 1 + rng.below(4) as usize).min(ab.len() - 1);
        let kb = (ka + 1 + rng.below((bb.len() - ka - 1) as u64) as usize).min(bb.len() - 1);
        let mut items: Vec<(usize, Vec<u8>)> = vec![
            (ab.len() - ka + 1, ab[..ka].to_vec()),
            (ab.len() - ka2 + 1, ab[..ka2].to_vec()),
            (bb.len() - kb + 1, bb[..kb].to_vec()),
            (0, bb.clone()),
            (bb.len() - ka + 1, bb[..ka].to_vec()),
            (0, ab.clone()),
        ];
        if i % 3 == 0 {
            items.swap(1, 2);
        }
        if sh && i % 4 == 2 {
            // storage mode: k junk bytes + a stored message first, then (same buffer) prefixes of a stored message whose
            // payload EMBEDS a stored record at offset k, cut behind the embedded record
            let inner = gen_message(rng, &MsgOpts { storage: Some(true), dict: false, max_args: 1, max_blob: 4, ..MsgOpts::default() });
            if let Ok(ib) = std::panic::catch_unwind(|| inner.as_bytes()) {
                if ib.len() < 70 {
                    let k = 16 + 4 + 4 + rng.below(3) as usize; // storage header + standard header + message id (+ pad)
                    let mut body = rng.bytes(k - 24);
                    body.extend_from_slice(&ib);
                    body.extend_from_slice(&rng.bytes(8));
                    let outer = Message {
                        storage_header: Some(StorageHeader { timestamp: DltTimeStamp { seconds: 3, microseconds: 4 }, ecu_id: "OUT".into() }),
                        header: StandardHeader { version: 1, endianness: Endianness::Big, has_extended_header: false, message_counter: 1, ecu_id: None, session_id: None, timestamp: None, payload_length: (4 + body.len()) as u16 },
                        extended_header: None,
                        payload: PayloadContent::NonVerbose(7, body),
                    };
                    if let Ok(ob) = std::panic::catch_unwind(|| outer.as_bytes()) {
                        let mut junked = vec![0x2eu8; k];
                        junked.extend_from_slice(&bb);
                        let cut = (k + ib.len()).max(junked.len()).min(ob.len() - 1);
                        items = vec![(0, junked), (ob.len() - cut + 1, ob[..cut].to_vec()), (0, ob.clone())];
                    }
                }
            }
        }
        let mut w = W::new();
        w.bool(sh);
        w.n(items.len() as u128);
        for (missing, it) in &items {
            w.n(*missing as u128);
            w.b(it);
        }
        out.push(39, w);
    }
}

/// a storage header that lost its message, directly in front of a stored message; with and without junk
pub fn gen_orphan_headers(rng: &mut Rng, n: usize, out: &mut Cases) {
    for i in 0..n {
        let m = gen_message(rng, &MsgOpts { storage: Some(true), max_blob: 10, ..MsgOpts::default() });
        let a = match std::panic::catch_unwind(|| m.as_bytes()) {
            Ok(b) => b,
            Err(_) => continue,
        };
        let mut buf = if i % 2 == 0 { gen_junk(rng) } else { vec![] };
        if i % 5 == 4 {
            // a storage header cut off after 4..15 bytes (a record whose writer died), directly followed by records
            buf.extend_from_slice(b"DLT\x01");
            let k = rng.below(12) as usize;
            buf.extend_from_slice(&rng.bytes(k));
        }
        for _ in 0..(1 + i % 3) {
            if i % 4 >= 2 {
                // a byte-identical copy of the message's own storage header (a logger that wrote it twice)
                buf.extend_from_slice(&a[..16]);
            } else {
                buf.extend_from_slice(b"DLT\x01");
                buf.extend_from_slice(&rng.bytes(12));
            }
        }
        buf.extend_from_slice(&a);
        buf.extend_from_slice(&a);
        push_parse(out, 25, true, &None, &buf);
        push_parse(out, 8, true, &None, &buf);
    }
}

fn gen_c01(rng: &mut Rng, thorough: bool, out: &mut Cases) {
    let n = if thorough { 120_000 } else { 6_000 };
    for m in gen_twin_messages(rng, 40) {
        let mut w = W::new();
        w.msg(&m);
        w.b(&gen_suffix(rng));
        out.push(20, w);
    }
    for m in dict_msgs(rng, None) {
        let mut w = W::new();
        w.msg(&m);
        w.b(&gen_suffix(rng));
        out.push(20, w);
    }
    // a message followed by a LOT of bytes: around 2^16 and around 2^32 (op 34 allocates them zero-filled)
    for i in 0..(if thorough { 200 } else { 40 }) {
        let mut o = msg_opts_for(rng, i);
        o.target_total = None;
        o.max_blob = 20;
        let m = gen_message(rng, &o);
        let len = std::panic::catch_unwind(|| m.as_bytes().len()).unwrap_or(30) as u128;
        let base: u128 = if i % 4 == 3 { 1u128 << 32 } else { 1u128 << 16 };
        let k = rng.below(len as u64 + 1) as u128;
        let nrest = match i % 5 {
            0 => base - len,
            1 => base - len + k,
            2 => base,
            3 => base - k,
            _ => base + k,
        };
        let mut w = W::new();
        w.msg(&m);
        w.n(nrest);
        out.push(34, w);
    }
    for i in 0..n {
        let o = msg_opts_for(rng, i);
        let m = gen_message(rng, &o);
        let suffix = gen_suffix(rng);
        let mut w = W::new();
        w.msg(&m);
        w.b(&suffix);
        out.push(20, w);
    }
}

pub fn hostile_inputs(rng: &mut Rng, n: usize, out: &mut Vec<(bool, Vec<u8>)>) {
    for i in 0..n {
        let o = msg_opts_for(rng, i);
        let m = gen_message(rng, &o);
        let sh = m.storage_header.is_some();
        let bs = match std::panic::catch_unwind(|| m.as_bytes()) {
            Ok(b) => b,
            Err(_) => continue,
        };
        let v = match rng.below(12) {
            0 => bs.clone(),
            1 => {
                let k = rng.below(bs.len() as u64 + 1) as usize;
                bs[..k].to_vec()
            }
            2 => { let k = rng.below(80) as usize; rng.bytes(k) }
            3 => {
                // length field games
                let mut v = bs.clone();
                let o = if sh { 16 } else { 0 };
                if v.len() >= o + 4 {
                    let l = *rng.pick(&[0u16, 1, 3, 4, 5, 13, 14, 15, 16, 0xffff, 0x8000, ((v.len() - o) as u16).wrapping_add(1), ((v.len() - o) as u16).wrapping_sub(1)]);
                    v[o + 2] = (l >> 8) as u8;
                    v[o + 3] = l as u8;
                }
                v
            }
            4 => {
                // NOAR games
                let mut v = bs.clone();
                let o = if sh { 16 } else { 0 };
                if let Some(x) = &m.extended_header {
                    let _ = x;
                    let hl = 4 + m.header.ecu_id.is_some() as usize * 4 + m.header.session_id.is_some() as usize * 4 + m.header.timestamp.is_some() as usize * 4;
                    if v.len() > o + hl + 1 {
                        v[o + hl + 1] = *rng.pick(&[0u8, 1, 2, 255, v[o + hl + 1].wrapping_add(1), v[o + hl + 1].wrapping_sub(1)]);
                    }
                }
                v
            }
            5 => {
                // message followed by another message / garbage (arguments crossing the declared end)
                let mut v = mutate(rng, &bs);
                let extra = gen_suffix(rng);
                v.extend_from_slice(&extra);
                v
            }
            6 => {
                // junk in front (with storage header mode this is resync)
                let k = rng.below(20) as usize;
                let mut v = rng.bytes(k);
                v.extend_from_slice(&bs);
                v
            }
            _ => {
                let mut v = mutate(rng, &bs);
                if rng.chance(1, 3) {
                    let e = gen_suffix(rng);
                    v.extend_from_slice(&e);
                }
                v
            }
        };
        let mode = if rng.chance(1, 8) { !sh } else { sh };
        out.push((mode, v));
    }
}

/// hand-made encodings in the dialect real ECUs emit and other non-canonical forms
/// deterministic boundary encodings that random sampling reaches only now and then
pub fn boundary_inputs(out: &mut Vec<(bool, Vec<u8>)>) {
    for be in [false, true] {
        let u16b = |v: u16| if be { v.to_be_bytes() } else { v.to_le_bytes() };
        let u32b = |v: u32| if be { v.to_be_bytes() } else { v.to_le_bytes() };
        let u64b = |v: u64| if be { v.to_be_bytes() } else { v.to_le_bytes() };
        let wrap = |payload: &[u8], noar: u8| -> Vec<u8> {
            let mut v = vec![0x21 | if be { 2 } else { 0 }, 0x07];
            v.extend_from_slice(&((14 + payload.len()) as u16).to_be_bytes());
            v.extend_from_slice(&[0x41, noar, 0x41, 0x50, 0x50, 0x00, 0x43, 0x54, 0x58, 0x00]);
            v.extend_from_slice(payload);
            v
        };
        // 32- and 64-bit floats: signalling / quiet NaNs with payloads, infinities, zeros, subnormals
        for bits in [0x7fa0_1234u32, 0xff80_0001, 0x7fc0_0000, 0xffc0_0001, 0x7f80_0000, 0xff80_0000, 0x8000_0000, 1, 0x007f_ffff, 0x7f7f_ffff] {
            let mut p = u32b(0x83).to_vec();
            p.extend_from_slice(&u32b(bits));
            out.push((false, wrap(&p, 1)));
        }
        for bits in [0x7ff4_0000_0000_1234u64, 0xfff0_0000_0000_0001, 0x7ff8_0000_0000_0000, 0x7ff0_0000_0000_0000, 0x8000_0000_0000_0000, 1] {
            let mut p = u32b(0x84).to_vec();
            p.extend_from_slice(&u64b(bits));
            out.push((false, wrap(&p, 1)));
        }
        // name and unit size fields whose SUM leaves the 16-bit range, on every numeric kind
        for ti in [0x823u32, 0x843, 0x883, 0x1823, 0x1843, 0x821, 0x845] {
            for (a, b) in [(0xfffdu16, 3u16), (0xfffc, 3), (0x8000, 0x8000), (0xffff, 0xffff), (0xffff, 1), (1, 0xffff), (0, 0), (0, 1), (1, 0)] {
                let mut p = u32b(ti).to_vec();
                p.extend_from_slice(&u16b(a));
                p.extend_from_slice(&u16b(b));
                p.extend_from_slice(&[0x41, 0x00, 0x42, 0x00, 1, 2, 3, 4, 5, 6, 7, 8, 9, 10, 11, 12, 13, 14, 15, 16]);
                out.push((false, wrap(&p, 1)));
            }
        }
        // two consecutive arguments equal under `==` but not bit for bit (float zero signs), and exact duplicates
        for (ti, a, b) in [(0x83u32, u32b(0).to_vec(), u32b(0x8000_0000).to_vec()), (0x83, u32b(0x8000_0000).to_vec(), u32b(0).to_vec()),
                           (0x84, u64b(0).to_vec(), u64b(0x8000_0000_0000_0000).to_vec()), (0x83, u32b(0x3f80_0000).to_vec(), u32b(0x3f80_0000).to_vec())] {
            let mut p = u32b(ti).to_vec();
            p.extend_from_slice(&a);
            p.extend_from_slice(&u32b(ti));
            p.extend_from_slice(&b);
            out.push((false, wrap(&p, 2)));
        }
        {
            // fixed point: quantization +0.0 then -0.0
            let mut p = vec![];
            for q in [0u32, 0x8000_0000] {
                p.extend_from_slice(&u32b(0x1043));
                p.extend_from_slice(&u32b(q));
                p.extend_from_slice(&u32b(7));
                p.extend_from_slice(&u32b(5));
            }
            out.push((false, wrap(&p, 2)));
        }
        // long strings of multi-byte characters at every alignment (anything that cuts text at a byte offset)
        for pre in 0..4usize {
            for (ch, count) in [("€", 1400usize), ("é", 2100), ("𝄞", 1100)] {
                let mut text = "a".repeat(pre);
                text.push_str(&ch.repeat(count));
                let mut p = u32b(0x8200).to_vec();
                p.extend_from_slice(&u16b((text.len() + 1) as u16));
                p.extend_from_slice(text.as_bytes());
                p.push(0);
                out.push((false, wrap(&p, 1)));
            }
        }
        // messages that FILL the 16-bit length exactly with many arguments whose name / unit / text are empty or not
        // terminated (each such field is a byte shorter on the wire than a canonical one) plus one raw filler
        for total in [65535usize, 65534, 65521] {
            for k in [1usize, 2, 8, 9, 30, 254] {
                let mut p: Vec<u8> = vec![];
                for j in 0..k - 1 {
                    match j % 3 {
                        0 => {
                            p.extend_from_slice(&u32b(0x841)); // u8 with variable info: name size 0, unit size 0
                            p.extend_from_slice(&u16b(0));
                            p.extend_from_slice(&u16b(0));
                            p.push(j as u8);
                        }
                        1 => {
                            p.extend_from_slice(&u32b(0xa00)); // string with variable info: size 0, name size 0
                            p.extend_from_slice(&u16b(0));
                            p.extend_from_slice(&u16b(0));
                        }
                        _ => {
                            p.extend_from_slice(&u32b(0x8200)); // UTF-8 string without terminator
                            p.extend_from_slice(&u16b(2));
                            p.extend_from_slice(&[0xc3, 0xa9]);
                        }
                    }
                }
                let rest = total - 14 - p.len() - 6;
                p.extend_from_slice(&u32b(0x400));
                p.extend_from_slice(&u16b(rest as u16));
                p.extend((0..rest).map(|x| (x % 253) as u8));
                out.push((false, wrap(&p, k as u8)));
            }
        }
        // name size 0 / 1 on bool, string, raw with VARI; string size 0 / 1
        for ti in [0x810u32, 0xa00, 0xc00] {
            for (sz, nsz) in [(0u16, 0u16), (1, 0), (0, 1), (1, 1), (2, 0)] {
                let mut p = u32b(ti).to_vec();
                if ti != 0x810 {
                    p.extend_from_slice(&u16b(sz));
                }
                p.extend_from_slice(&u16b(nsz));
                p.extend_from_slice(&[0x00, 0x00, 0x41, 0x00, 0x01]);
                out.push((false, wrap(&p, 1)));
            }
        }
    }
}

pub fn dialect_inputs(rng: &mut Rng, n: usize, out: &mut Vec<(bool, Vec<u8>)>) {
    if n >= 100 {
        boundary_inputs(out);
    }
    for _ in 0..n {
        let be = rng.bool();
        let u16b = |v: u16| if be { v.to_be_bytes() } else { v.to_le_bytes() };
        let u32b = |v: u32| if be { v.to_be_bytes() } else { v.to_le_bytes() };
        let mut payload = vec![];
        let nargs = rng.below(4) as usize;
        for _ in 0..nargs {
            let mut ti: u32 = match rng.below(8) {
                0 => 0x10 | *rng.pick(&[0u32, 1, 2, 3, 7, 15]),                 // bool with any TYLE
                1 => 0x20 | rng.range(0, 6) as u32,                            // sint, TYLE 0..6
                2 => 0x40 | rng.range(1, 5) as u32,
                3 => 0x80 | rng.range(2, 5) as u32,
                4 => 0x200 | rng.below(16) as u32,                             // string with TYLE bits
                5 => 0x400 | rng.below(16) as u32,
                6 => 0x1000 | 0x20 | rng.range(2, 5) as u32,                   // fixed point
                _ => 0x1000 | 0x40 | rng.range(2, 5) as u32,
            };
            if rng.chance(1, 4) { ti |= 0x800; }                               // VARI
            if rng.chance(1, 6) { ti |= 0x2000; }
            if rng.chance(1, 6) { ti |= 0x4000; }                              // STRU (unused)
            if rng.chance(1, 6) { ti |= 0x100; }                               // ARAY (unsupported)
            if rng.chance(1, 4) { ti |= (rng.below(8) as u32) << 15; }
            if rng.chance(1, 5) { ti |= (rng.next() as u32) << 18; }           // reserved bits
            payload.extend_from_slice(&u32b(ti));
            let kindbits = (ti >> 4) & 0x7f;
            let vari = ti & 0x800 != 0;
            let strfield = |rng: &mut Rng| -> Vec<u8> {
                // content with interior NUL / no terminator / invalid UTF-8 / empty
                let n = rng.below(7) as usize;
                let mut v: Vec<u8> = (0..n).map(|_| *rng.pick(&[0x41u8, 0x42, 0x00, 0xc3, 0xa9, 0xff, 0x80, 0xe2, 0x82, 0xac, 0x7f])).collect();
                if rng.bool() { v.push(0); }
                v
            };
            match kindbits {
                0x20 | 0x40 => {
                    // string / raw
                    let body = strfield(rng);
                    let declared = if rng.chance(1, 6) { (body.len() as u16).wrapping_add(*rng.pick(&[1u16, 2, 0xff00])) } else { body.len() as u16 };
                    payload.extend_from_slice(&u16b(declared));
                    if vari {
                        let name = strfield(rng);
                        payload.extend_from_slice(&u16b(name.len() as u16));
                        payload.extend_from_slice(&name);
                    }
                    payload.extend_from_slice(&body);
                }
                1 => {
                    if vari {
                        let name = strfield(rng);
                        payload.extend_from_slice(&u16b(name.len() as u16));
                        payload.extend_from_slice(&name);
                    }
                    payload.push(rng.next() as u8);
                }
                _ => {
                    if vari {
                        let name = strfield(rng);
                        let unit = strfield(rng);
                        payload.extend_from_slice(&u16b(name.len() as u16));
                        payload.extend_from_slice(&u16b(unit.len() as u16));
                        payload.extend_from_slice(&name);
                        payload.extend_from_slice(&unit);
                    }
                    let k = *rng.pick(&[1usize, 2, 4, 8, 12, 16, 20, 24]);
                    let b = rng.bytes(k);
                    payload.extend_from_slice(&b);
                }
            }
        }
        let verbose = rng.chance(3, 4);
        if !verbose {
            let k = rng.below(12) as usize;
            payload = rng.bytes(k);
        }
        let mut htyp: u8 = (rng.below(8) as u8) << 5 | if be { 2 } else { 0 };
        let ueh = rng.chance(5, 6);
        if ueh { htyp |= 1; }
        let mut hdr = vec![];
        for bit in [2u8, 3, 4] {
            if rng.bool() {
                htyp |= 1 << bit;
                let idb: Vec<u8> = match rng.below(4) {
                    0 => vec![0x45, 0x43, 0x55, 0x00],
                    1 => vec![0x41, 0x00, 0x42, 0x43],
                    2 => vec![0xc3, 0xa9, 0xff, 0x41],
                    _ => rng.bytes(4),
                };
                hdr.extend_from_slice(&idb);
            }
        }
        let mut ext = vec![];
        if ueh {
            let msin = if rng.chance(1, 3) { rng.next() as u8 } else { (rng.below(8) as u8) << 4 | (rng.below(4) as u8) << 1 } | verbose as u8;
            ext.push(msin);
            ext.push(if rng.chance(1, 5) { rng.next() as u8 } else { nargs as u8 });
            for _ in 0..2 {
                let idb: Vec<u8> = match rng.below(4) {
                    0 => vec![0x41, 0x50, 0x50, 0x00],
                    1 => vec![0x00, 0x00, 0x00, 0x00],
                    2 => vec![0x41, 0xc3, 0x00, 0x41],
                    _ => rng.bytes(4),
                };
                ext.extend_from_slice(&idb);
            }
        }
        let total = 4 + hdr.len() + ext.len() + payload.len();
        let declared = if rng.chance(1, 8) { (total as i64 + *rng.pick(&[-1i64, 1, -4, 4, 100])).max(0) as u16 } else { total as u16 };
        let mut v = vec![];
        let sh = rng.chance(1, 3);
        if sh {
            v.extend_from_slice(&[0x44, 0x4c, 0x54, 0x01]);
            let t = rng.bytes(8);
            v.extend_from_slice(&t);
            v.extend_from_slice(&[0x45, 0x00, 0x41, 0x42]);
        }
        v.push(htyp);
        v.push(rng.next() as u8);
        v.extend_from_slice(&declared.to_be_bytes());
        v.extend_from_slice(&hdr);
        v.extend_from_slice(&ext);
        v.extend_from_slice(&payload);
        if rng.chance(1, 4) {
            let e = gen_suffix(rng);
            v.extend_from_slice(&e);
        }
        out.push((sh, v));
    }
}

pub fn gen_filter(rng: &mut Rng, m: Option<&Message>) -> DltFilterConfig {
    let ids = |rng: &mut Rng, present: Option<&String>| -> Option<Vec<String>> {
        if rng.chance(2, 5) {
            None
        } else {
            let n = rng.below(4) as usize;
            let mut v: Vec<String> = (0..n).map(|_| gen_id(rng)).collect();
            if let Some(p) = present {
                match rng.below(11) {
                    0..=3 => v.push(p.clone()),
                    // NUL-padded, over-long and shortened variants (an id list is compared as text, not as a 4-byte field)
                    8 => v.push(format!("{}\0", p)),
                    9 => v.push(format!("{}X", p)),
                    10 => v.push(p.chars().take(p.chars().count().saturating_sub(1)).collect()),
                    // near misses of the message's id: trimmed, padded, case-changed, prefix
                    4 => v.push(p.trim_end().to_string()),
                    5 => v.push(format!("{} ", p)),
                    6 => v.push(if rng.bool() { p.to_lowercase() } else { p.to_uppercase() }),
                    _ => {}
                }
            }
            if rng.chance(1, 4) && !v.is_empty() {
                let d = v[0].clone();
                v.push(d); // duplicated id
            }
            Some(v)
        }
    };
    let (app, ctx, ecu) = match m {
        Some(m) => (
            m.extended_header.as_ref().map(|x| x.application_id.clone()),
            m.extended_header.as_ref().map(|x| x.context_id.clone()),
            m.header.ecu_id.clone(),
        ),
        None => (None, None, None),
    };
    let app_ids = ids(rng, app.as_ref());
    let ecu_ids = ids(rng, ecu.as_ref());
    let context_ids = ids(rng, ctx.as_ref());
    let cnt = |rng: &mut Rng, s: &Option<Vec<String>>| -> i64 {
        let n = s.as_ref().map(|v| v.len() as i64).unwrap_or(0);
        // (and counts whose DIFFERENCE to the set size is a multiple of a narrower integer's range)
        *rng.pick(&[
            0i64, n - 1, n, n + 1, n - 2, 100, -1, i64::MAX, i64::MIN, n - 1, n, n + 1,
            n + (1 << 32), n + (1 << 32) + 1, n + (1 << 33), n - (1 << 32), n + (1 << 16), n + 256, n + (1 << 31), 1 << 32, (1 << 32) - 1, 1 << 31,
        ])
    };
    let app_id_count = cnt(rng, &app_ids);
    let context_id_count = cnt(rng, &context_ids);
    DltFilterConfig {
        min_log_level: match rng.below(4) {
            0 => None,
            1 => Some(rng.next() as u8),
            _ => Some(rng.range(0, 8) as u8),
        },
        app_ids,
        ecu_ids,
        context_ids,
        app_id_count,
        context_id_count,
    }
}

fn push_parse(out: &mut Cases, op: u32, sh: bool, f: &Option<DltFilterConfig>, bs: &[u8]) {
    let mut w = W::new();
    w.bool(sh);
    w.opt_filter(f);
    w.b(bs);
    out.push(op, w);
}

fn gen_c03(rng: &mut Rng, thorough: bool, out: &mut Cases) {
    let n = if thorough { 400_000 } else { 24_000 };
    let mut ins = vec![];
    hostile_inputs(rng, n, &mut ins);
    dialect_inputs(rng, n / 2, &mut ins);
    for (i, (sh, bs)) in ins.iter().enumerate() {
        let f = if i % 3 == 0 { Some(gen_filter(rng, None)) } else { None };
        push_parse(out, 21, *sh, &f, bs);
        match i % 8 {
            0 => {
                let mut w = W::new();
                w.b(bs);
                out.push(10, w);
            }
            1 => {
                let mut w = W::new();
                w.b(bs);
                out.push(11, w);
            }
            2 => {
                let mut w = W::new();
                w.b(bs);
                out.push(12, w);
            }
            3 => {
                let mut w = W::new();
                w.n(*rng.pick(&[0u128, 1, 4, 5, 65535, bs.len() as u128, bs.len() as u128 + 1]));
                w.b(bs);
                out.push(3, w);
            }
            _ => {}
        }
    }
    // inputs > 64 KiB: a single string/raw argument with a huge declared size
    let big = if thorough { 40 } else { 6 };
    for k in 0..big {
        let be = k % 2 == 0;
        let mut v = vec![0x21 | if be { 2 } else { 0 }, 0x00];
        let total: u16 = *rng.pick(&[20u16, 24, 0xffff, 0x1000]);
        v.extend_from_slice(&total.to_be_bytes());
        v.extend_from_slice(&[0x41, 0x01, 0x41, 0, 0, 0, 0x43, 0, 0, 0]);
        let ti: u32 = if k % 3 == 0 { 0x400 } else { 0x200 };
        v.extend_from_slice(&if be { ti.to_be_bytes() } else { ti.to_le_bytes() });
        v.extend_from_slice(&[0xff, 0xff]);
        let body = vec![0x41u8; 65535 + (k % 4) * 7];
        v.extend_from_slice(&body);
        push_parse(out, 21, false, &None, &v);
    }
    // deterministic boundary encodings (float specials, size fields whose sum leaves 16 bits, size 0/1 fields)
    let mut bi = vec![];
    boundary_inputs(&mut bi);
    for (sh, bs) in bi {
        push_parse(out, 21, sh, &None, &bs);
    }
    // non-verbose argument construction: exact payloads, every truncation, trailing bytes, boundary field sizes
    gen_c13_n(rng, if thorough { 30_000 } else { 2_000 }, out);
}

fn gen_c04(rng: &mut Rng, thorough: bool, out: &mut Cases) {
    let n = if thorough { 300_000 } else { 20_000 };
    let mut ins = vec![];
    for m in dict_msgs(rng, None) {
        if let Ok(b) = std::panic::catch_unwind(|| m.as_bytes()) {
            let sh = m.storage_header.is_some();
            let mut two = b.clone();
            two.extend_from_slice(&b);
            ins.push((sh, b.clone()));
            ins.push((sh, b[..b.len() - 1].to_vec()));
            ins.push((sh, two));
        }
    }
    gen_orphan_headers(rng, if thorough { 200 } else { 30 }, out);
    gen_flip_sequences(rng, if thorough { 2000 } else { 200 }, out);
    gen_inplace(rng, if thorough { 4000 } else { 400 }, out);
    hostile_inputs(rng, n, &mut ins);
    dialect_inputs(rng, n / 2, &mut ins);
    for (i, (sh, bs)) in ins.iter().enumerate() {
        let f = if i % 2 == 0 { Some(gen_filter(rng, None)) } else { None };
        push_parse(out, 8, *sh, &f, bs);
        if *sh && i % 4 == 0 {
            let mut w = W::new();
            w.b(bs);
            out.push(10, w);
        }
        if i % 16 == 0 {
            // repeated parsing of a buffer with several messages
            let mut buf = bs.clone();
            for _ in 0..rng.below(4) {
                let m = gen_message(rng, &MsgOpts { storage: Some(*sh), ..MsgOpts::default() });
                if let Ok(b) = std::panic::catch_unwind(|| m.as_bytes()) {
                    buf.extend_from_slice(&b);
                }
            }
            push_parse(out, 25, *sh, &f, &buf);
        }
    }
}

fn gen_c05(rng: &mut Rng, thorough: bool, out: &mut Cases) {
    let n = if thorough { 30_000 } else { 1_500 };
    header_cut_sweep(rng, out);
    for i in 0..n {
        let mut o = msg_opts_for(rng, i);
        o.target_total = None;
        o.dict = false; // every cut of a 20 KB message is too much; op 31 below takes them at selected cuts
        o.max_blob = o.max_blob.min(60);
        o.max_args = o.max_args.min(8);
        let m = gen_message(rng, &o);
        let f = if i % 3 == 0 { Some(gen_filter(rng, Some(&m))) } else { None };
        let mut w = W::new();
        w.msg(&m);
        w.opt_filter(&f);
        out.push(23, w);
    }
    // a payload that itself contains a complete stored DLT record (a tunnelled log line), every cut
    for i in 0..(if thorough { 300 } else { 30 }) {
        let inner = gen_message(rng, &MsgOpts { storage: Some(true), max_args: 1, max_blob: 4, ..MsgOpts::default() });
        let inner_bytes = match std::panic::catch_unwind(|| inner.as_bytes()) {
            Ok(b) if b.len() < 80 => b,
            _ => continue,
        };
        let pre = rng.below(3) as usize;
        let mut body = rng.bytes(pre);
        body.extend_from_slice(&inner_bytes);
        let post = 1 + rng.below(4) as usize;
        body.extend_from_slice(&rng.bytes(post));
        let sh = if i % 3 == 0 { None } else { Some(StorageHeader { timestamp: DltTimeStamp { seconds: 1, microseconds: 2 }, ecu_id: "E".to_string() }) };
        let conf = MessageConfig {
            version: 1,
            counter: i as u8,
            endianness: if rng.bool() { Endianness::Big } else { Endianness::Little },
            ecu_id: if rng.bool() { Some("ECU1".to_string()) } else { None },
            session_id: None,
            timestamp: None,
            payload: if i % 2 == 0 { PayloadContent::NonVerbose(rng.next() as u32, body.clone()) } else {
                PayloadContent::Verbose(vec![Argument {
                    type_info: TypeInfo { kind: TypeInfoKind::Raw, coding: StringCoding::ASCII, has_variable_info: false, has_trace_info: false },
                    name: None,
                    unit: None,
                    fixed_point: None,
                    value: Value::Raw(body.clone()),
                }])
            },
            extended_header_info: if i % 2 == 0 && i % 4 != 0 { None } else {
                Some(ExtendedHeaderConfig { message_type: MessageType::Log(LogLevel::Info), app_id: "APP".to_string(), context_id: "CTX".to_string() })
            },
        };
        let m = match std::panic::catch_unwind(|| Message::new(conf, sh)) {
            Ok(m) => m,
            Err(_) => continue,
        };
        let mut w = W::new();
        w.msg(&m);
        w.opt_filter(&None);
        out.push(23, w);
    }
    // messages built around the literals of the source under test, at selected cuts
    for m in dict_msgs(rng, None) {
        let len = match std::panic::catch_unwind(|| m.as_bytes().len()) {
            Ok(l) => l,
            Err(_) => continue,
        };
        let storage = if m.storage_header.is_some() { 16 } else { 0 };
        let mut cuts: Vec<usize> = vec![0, 1, 3, 4, 5, 8, 15, 16, 17, storage + 3, storage + 4, storage + 5, storage + 7, storage + 8, storage + 9, storage + 12, len / 2, len - 5, len - 4, len - 2, len - 1];
        for _ in 0..6 {
            cuts.push(rng.below(len as u64) as usize);
        }
        cuts.retain(|k| *k < len);
        cuts.sort();
        cuts.dedup();
        let mut w = W::new();
        w.msg(&m);
        w.opt_filter(&None);
        w.n(cuts.len() as u128);
        for k in &cuts {
            w.n(*k as u128);
        }
        out.push(31, w);
    }
    gen_inplace(rng, if thorough { 6000 } else { 600 }, out);
    // junk in front of a cut message (C05 through C06)
    gen_junkcut(rng, if thorough { 200 } else { 25 }, out);
    // boundary totals (length field 65519 .. 65535) at selected cut positions, both storage modes
    let nb = if thorough { 200 } else { 24 };
    for i in 0..nb {
        let mut o = msg_opts_for(rng, i);
        o.storage = Some(i % 2 == 0);
        o.target_total = Some(*rng.pick(&[65535usize, 65534, 65521, 65520, 65519, 32768, 256]));
        let m = gen_message(rng, &o);
        let len = match std::panic::catch_unwind(|| m.as_bytes().len()) {
            Ok(l) => l,
            Err(_) => continue,
        };
        let storage = if m.storage_header.is_some() { 16 } else { 0 };
        let mut cuts: Vec<usize> = vec![0, 1, 3, 4, 15, 16, 17, storage + 3, storage + 4, storage + 5, storage + 8, storage + 12, storage + 16, storage + 26, storage + 30, len / 2, len - 2, len - 1];
        for _ in 0..6 {
            cuts.push(rng.below(len as u64) as usize);
        }
        cuts.retain(|k| *k < len);
        cuts.sort();
        cuts.dedup();
        let mut w = W::new();
        w.msg(&m);
        w.opt_filter(&if i % 3 == 0 { Some(gen_filter(rng, Some(&m))) } else { None });
        w.n(cuts.len() as u128);
        for k in &cuts {
            w.n(*k as u128);
        }
        out.push(31, w);
    }
}

fn gen_junk(rng: &mut Rng) -> Vec<u8> {
    // never contains the pattern; often ends in a partial pattern or contains near misses
    let alphabet = [0x44u8, 0x4c, 0x54, 0x01, 0x00, 0xff, 0x45];
    let n = rng.below(24) as usize;
    let mut v: Vec<u8> = (0..n).map(|_| if rng.chance(2, 3) { *rng.pick(&alphabet) } else { rng.next() as u8 }).collect();
    match rng.below(5) {
        0 => v.extend_from_slice(&[0x44]),
        1 => v.extend_from_slice(&[0x44, 0x4c]),
        2 => v.extend_from_slice(&[0x44, 0x4c, 0x54]),
        3 => v.extend_from_slice(&[0x44, 0x4c, 0x54, 0x02]),
        _ => {}
    }
    while let Some(i) = crate::oracles::find_pattern(&v) {
        v[i + 3] = 0x02;
    }
    v
}

fn gen_c06(rng: &mut Rng, thorough: bool, out: &mut Cases) {
    let n = if thorough { 200_000 } else { 12_000 };
    // search
    for _ in 0..n {
        let alphabet = [0x44u8, 0x4c, 0x54, 0x01, 0x00];
        let len = rng.below(40) as usize;
        let mut v: Vec<u8> = (0..len).map(|_| if rng.chance(5, 6) { *rng.pick(&alphabet) } else { rng.next() as u8 }).collect();
        if rng.chance(1, 3) && len >= 4 {
            let i = rng.below(len as u64 - 3) as usize;
            v[i..i + 4].copy_from_slice(&[0x44, 0x4c, 0x54, 0x01]);
        }
        let mut w = W::new();
        w.b(&v);
        out.push(12, w);
    }
    // junk ++ message ++ rest
    for i in 0..n / 4 {
        let mut o = msg_opts_for(rng, i);
        o.storage = Some(true);
        o.target_total = None;
        let m = gen_message(rng, &o);
        let junk = gen_junk(rng);
        let rest = gen_suffix(rng);
        let f = if i % 4 == 0 { Some(gen_filter(rng, Some(&m))) } else { None };
        let mut w = W::new();
        w.b(&junk);
        w.msg(&m);
        w.b(&rest);
        w.opt_filter(&f);
        out.push(24, w);
    }
    for (i, m) in dict_msgs(rng, Some(true)).into_iter().enumerate() {
        let mut w = W::new();
        w.b(&if i % 4 == 3 { vec![] } else { gen_junk(rng) });
        w.msg(&m);
        w.b(&gen_suffix(rng));
        w.opt_filter(&None);
        out.push(24, w);
        let mut w = W::new();
        w.b(&gen_junk(rng));
        w.n(3);
        for k in 0..3 {
            if k == 1 {
                w.msg(&m);
            } else {
                w.msg(&gen_message(rng, &MsgOpts { storage: Some(true), ..MsgOpts::default() }));
            }
            w.b(&gen_junk(rng));
        }
        out.push(29, w);
    }
    gen_orphan_headers(rng, if thorough { 300 } else { 40 }, out);
    // long pattern-free junk: beyond one maximum-size message, with near misses at its end
    for (i, jl) in [65547usize, 65548, 65551, 65552, 70000, 131072, 140001].iter().enumerate() {
        let mut junk: Vec<u8> = (0..*jl).map(|k| if k % 7 == 3 { 0x44 } else { (k % 251) as u8 | 0x80 }).collect();
        let l = junk.len();
        junk[l - 3..].copy_from_slice(&[0x44, 0x4c, 0x54][..3]);
        if i % 2 == 1 {
            junk[l - 1] = 0x00;
        }
        let mut w = W::new();
        let mut v = junk.clone();
        v.extend_from_slice(&[0x44, 0x4c, 0x54, 0x01, 1, 2, 3]);
        w.b(&v);
        out.push(12, w);
        let mut w = W::new();
        w.b(&junk);
        out.push(12, w);
        let m = gen_message(rng, &MsgOpts { storage: Some(true), ..MsgOpts::default() });
        let mut w = W::new();
        // the junk must not complete a pattern with the message's first bytes: end it with a harmless byte
        let mut j2 = junk.clone();
        j2.push(0x2e);
        w.b(&j2);
        w.msg(&m);
        w.b(&gen_suffix(rng));
        w.opt_filter(&if i % 3 == 0 { Some(gen_filter(rng, Some(&m))) } else { None });
        out.push(24, w);
    }
    gen_bigjunk(rng, thorough, out);
    gen_junkcut(rng, if thorough { 150 } else { 20 }, out);
    // streams with junk between messages
    for _ in 0..n / 16 {
        let k = rng.range(1, 5);
        let mut w = W::new();
        w.b(&gen_junk(rng));
        w.n(k as u128);
        for _ in 0..k {
            let m = gen_message(rng, &MsgOpts { storage: Some(true), ..MsgOpts::default() });
            w.msg(&m);
            w.b(&gen_junk(rng));
        }
        out.push(29, w);
    }
}

fn gen_c09(rng: &mut Rng, thorough: bool, out: &mut Cases) {
    // id sets beyond every 8- and 16-bit count (255, 256, 65535, 65536, 70001 distinct ids) against messages without
    // extended header: dropped exactly when the declared total exceeds the number of selected ids
    for (k, nids) in [255usize, 256, 65535, 65536, 70001].iter().enumerate() {
        if !thorough && (k == 2 || k == 4) {
            continue; // (the model's set construction is quadratic: one 65536-id configuration in the quick tier)
        }
        let ids: Vec<String> = (0..*nids).map(|j| if j < 65536 { format!("{:04X}", j) } else { format!("z{:03X}", j - 65536) }).collect();
        for (which, delta) in [(0usize, 1i64), (0, 0), (1, 1), (1, -1)] {
            if !thorough && *nids > 60000 && !(which == 0 && delta == 1) {
                continue;
            }
            let mut o = MsgOpts { kind: Some(PKind::NonVerbose), max_blob: 4, dict: false, ..MsgOpts::default() };
            o.storage = Some(k % 2 == 0);
            let mut m = gen_message(rng, &o);
            m.extended_header = None;
            m.header.has_extended_header = false;
            let f = DltFilterConfig {
                min_log_level: None,
                app_ids: if which == 0 { Some(ids.clone()) } else { None },
                ecu_ids: None,
                context_ids: if which == 1 { Some(ids.clone()) } else { None },
                app_id_count: if which == 0 { *nids as i64 + delta } else { 0 },
                context_id_count: if which == 1 { *nids as i64 + delta } else { 0 },
            };
            let mut w = W::new();
            w.msg(&m);
            w.filter(&f);
            w.b(&gen_suffix(rng));
            out.push(26, w);
        }
    }
    let n = if thorough { 200_000 } else { 12_000 };
    for i in 0..n {
        let mut o = msg_opts_for(rng, i);
        o.target_total = None;
        let mut m = gen_message(rng, &o);
        if i % 3 == 0 {
            if let Some(x) = &mut m.extended_header {
                // concentrate on log messages incl. invalid levels
                if !matches!(x.message_type, MessageType::NetworkTrace(_) | MessageType::Control(_)) {
                    x.message_type = MessageType::Log(gen_log_level(rng));
                }
            }
        }
        let f = gen_filter(rng, Some(&m));
        let mut w = W::new();
        w.msg(&m);
        w.filter(&f);
        w.b(&gen_suffix(rng));
        out.push(26, w);
        if i % 4 == 0 {
            let mut w = W::new();
            w.filter(&f);
            out.push(27, w);
        }
    }
    for l in 0..=255u8 {
        let mut f = gen_filter(rng, None);
        f.min_log_level = Some(l);
        let mut w = W::new();
        w.filter(&f);
        out.push(27, w);
    }
    // hand-built processed configurations: any minimum level incl. Invalid(_)
    for i in 0..n / 6 {
        let mut o = msg_opts_for(rng, i);
        o.target_total = None;
        o.kind = Some(PKind::Verbose);
        let mut m = gen_message(rng, &o);
        if let Some(x) = &mut m.extended_header {
            if !matches!(x.message_type, MessageType::NetworkTrace(_)) && i % 5 != 0 {
                x.message_type = MessageType::Log(gen_log_level(rng));
            }
        }
        let mut f = gen_filter(rng, Some(&m));
        if i % 3 != 0 {
            f.app_ids = None;
            f.context_ids = None;
            f.ecu_ids = None;
        }
        let mut w = W::new();
        w.msg(&m);
        w.filter(&f);
        match rng.below(4) {
            0 => w.n(0),
            1 => {
                w.n(1);
                w.log_level(&LogLevel::Invalid(rng.next() as u8));
            }
            _ => {
                w.n(1);
                w.log_level(&gen_log_level(rng));
            }
        }
        w.b(&gen_suffix(rng));
        out.push(30, w);
    }
}

pub fn gen_signal_type(rng: &mut Rng, allow_fp: bool) -> TypeInfo {
    let mut t = gen_signal_type_plain(rng, allow_fp);
    // the flags a signal type may carry travel with the argument unchanged
    if rng.chance(1, 6) {
        t.has_variable_info = true;
    }
    if rng.chance(1, 8) {
        t.has_trace_info = true;
    }
    t
}
fn gen_signal_type_plain(rng: &mut Rng, allow_fp: bool) -> TypeInfo {
    let kind = loop {
        let k = gen_kind(rng);
        if allow_fp || !matches!(k, TypeInfoKind::SignedFixedPoint(_) | TypeInfoKind::UnsignedFixedPoint(_)) {
            break k;
        }
    };
    TypeInfo {
        kind,
        coding: gen_coding(rng),
        has_variable_info: rng.chance(1, 8),
        has_trace_info: rng.chance(1, 8),
    }
}

fn gen_c13(rng: &mut Rng, thorough: bool, out: &mut Cases) {
    let n = if thorough { 150_000 } else { 8_000 };
    // very long type lists (index and counter widths: 2^8, 2^15, 2^16)
    for (i, nt) in [255usize, 256, 257, 4096, 32767, 32768, 65535, 65536, 65537, 70000].iter().enumerate() {
        if !thorough && *nt > 66000 {
            continue;
        }
        let t = TypeInfo {
            // (bool for the long ones: the model decodes a bool field by pattern matching, every other kind measures
            // the remaining payload first, which is quadratic on lists)
            kind: if i % 2 == 0 && *nt < 5000 { TypeInfoKind::Unsigned(TypeLength::BitLength8) } else { TypeInfoKind::Bool },
            coding: StringCoding::ASCII,
            has_variable_info: false,
            has_trace_info: false,
        };
        let data: Vec<u8> = (0..*nt).map(|k| (k % 251) as u8 & if i % 2 == 0 && *nt < 5000 { 0xff } else { 1 }).collect();
        for d in [&data[..], &data[..data.len() - 1]] {
            let mut w = W::new();
            w.endian(if i % 3 == 0 { Endianness::Big } else { Endianness::Little });
            w.n(*nt as u128);
            for _ in 0..*nt {
                w.ti(&t);
            }
            w.b(d);
            out.push(13, w);
        }
    }
    // complete payloads followed by gigabytes of zeros (payload lengths around 2^31 and 2^32)
    for (i, zeros) in [1u128 << 16, (1 << 31) - 11, 1 << 31, (1 << 31) + 4096, 3 << 30, (1u128 << 32) - 11, (1u128 << 32) + 5].iter().enumerate() {
        if !thorough && i % 2 == 1 && i > 1 {
            continue;
        }
        let tys = vec![
            TypeInfo { kind: TypeInfoKind::Unsigned(TypeLength::BitLength16), coding: StringCoding::ASCII, has_variable_info: false, has_trace_info: false },
            TypeInfo { kind: TypeInfoKind::Bool, coding: StringCoding::ASCII, has_variable_info: false, has_trace_info: false },
            TypeInfo { kind: TypeInfoKind::StringType, coding: StringCoding::UTF8, has_variable_info: false, has_trace_info: false },
            TypeInfo { kind: TypeInfoKind::Signed(TypeLength::BitLength32), coding: StringCoding::ASCII, has_variable_info: false, has_trace_info: false },
        ];
        let be = i % 2 == 0;
        let mut data = vec![0x12, 0x34, 1];
        data.extend_from_slice(&if be { 2u16.to_be_bytes() } else { 2u16.to_le_bytes() });
        data.extend_from_slice(&[0xc3, 0xa9, 0xff, 0xff, 0xff, 0xfe]);
        let mut w = W::new();
        w.endian(if be { Endianness::Big } else { Endianness::Little });
        w.n(tys.len() as u128);
        for t in &tys {
            w.ti(t);
        }
        w.b(&data);
        w.n(*zeros);
        out.push(44, w);
    }
    gen_c13_n(rng, n, out)
}

fn gen_c13_n(rng: &mut Rng, n: usize, out: &mut Cases) {
    for i in 0..n {
        let nt = rng.below(6) as usize;
        let tys: Vec<TypeInfo> = (0..nt).map(|_| gen_signal_type(rng, i % 10 == 0)).collect();
        let be = rng.bool();
        // exact payload
        let mut data = vec![];
        for t in &tys {
            match t.kind {
                TypeInfoKind::Bool => data.push(rng.next() as u8),
                TypeInfoKind::StringType | TypeInfoKind::Raw => {
                    let body: Vec<u8> = if t.kind == TypeInfoKind::StringType && rng.chance(4, 5) {
                        let mut s = gen_text(rng, 12).into_bytes();
                        if rng.chance(1, 5) {
                            s.push(0);
                        }
                        s
                    } else if i % 97 == 5 {
                        // boundary field sizes: the sign bit of the 16-bit length and the maximum
                        let k = *rng.pick(&[32767usize, 32768, 32769, 40000, 65535, 255, 256]);
                        let fill = if t.kind == TypeInfoKind::StringType { 0x41u8 } else { rng.next() as u8 };
                        vec![fill; k]
                    } else {
                        let k = rng.below(10) as usize;
                        (0..k).map(|_| *rng.pick(&[0x41u8, 0xc3, 0xa9, 0xff, 0x80, 0x00, 0xe2, 0x82, 0xac])).collect()
                    };
                    let l = body.len() as u16;
                    data.extend_from_slice(&if be { l.to_be_bytes() } else { l.to_le_bytes() });
                    data.extend_from_slice(&body);
                }
                TypeInfoKind::Signed(l) | TypeInfoKind::Unsigned(l) => {
                    let b = rng.bytes(l as usize / 8);
                    data.extend_from_slice(&b)
                }
                TypeInfoKind::Float(w) => {
                    let b = rng.bytes(w as usize / 8);
                    data.extend_from_slice(&b)
                }
                TypeInfoKind::SignedFixedPoint(w) | TypeInfoKind::UnsignedFixedPoint(w) => {
                    let b = rng.bytes(4 + 2 * (w as usize / 8));
                    data.extend_from_slice(&b)
                }
            }
        }
        let e = if be { Endianness::Big } else { Endianness::Little };
        let push = |out: &mut Cases, d: &[u8]| {
            let mut w = W::new();
            w.endian(e);
            w.n(tys.len() as u128);
            for t in &tys {
                w.ti(t);
            }
            w.b(d);
            out.push(13, w);
        };
        push(out, &data);
        if i % 4 == 0 && data.len() < 2000 {
            for k in 0..data.len() {
                push(out, &data[..k]);
            }
        } else if !data.is_empty() {
            let k = rng.below(data.len() as u64) as usize;
            push(out, &data[..k]);
        }
        let mut more = data.clone();
        let k = 1 + rng.below(5) as usize;
        let extra = rng.bytes(k);
        more.extend_from_slice(&extra);
        push(out, &more);
    }
}

fn gen_c15(rng: &mut Rng, thorough: bool, out: &mut Cases) {
    let n = if thorough { 200_000 } else { 12_000 };
    for i in 0..n {
        let mut a = gen_arg(rng, if i % 50 == 0 { 65000 } else { 60 });
        if i % 6 == 1 {
            // arguments OUTSIDE the well-formed domain: value of another kind, name/unit presence against the
            // variable-info flag, fixed-point data on a plain kind (Argument::valid, the writer's fallback arms)
            match rng.below(5) {
                0 => a.value = gen_arg(rng, 12).value,
                1 => a.name = None,
                2 => a.unit = if a.unit.is_some() { None } else { Some("u".to_string()) },
                3 => a.type_info.has_variable_info = !a.type_info.has_variable_info,
                _ => a.type_info.kind = gen_kind(rng),
            }
        }
        let mut w = W::new();
        w.endian(if rng.bool() { Endianness::Big } else { Endianness::Little });
        w.arg(&a);
        out.push(14, w);
    }
    gen_c15_new(rng, n / 2, out);
}

pub fn gen_c15_new(rng: &mut Rng, n: usize, out: &mut Cases) {
    for i in 0..n {
        let mut o = msg_opts_for(rng, i);
        if i % 2 == 0 {
            o.target_total = None;
        }
        let mut m = gen_message(rng, &o);
        if i % 6 == 1 {
            // configurations whose arguments are OUTSIDE the well-formed domain (name/unit presence against the
            // variable-info flag, a value of another kind or width): the constructor's bookkeeping must still
            // describe what the writer emits
            if let PayloadContent::Verbose(args) = &mut m.payload {
                if !args.is_empty() {
                    let k = rng.below(args.len() as u64) as usize;
                    let a = &mut args[k];
                    match rng.below(5) {
                        0 => a.value = gen_arg(rng, 12).value,
                        1 => a.name = None,
                        2 => a.unit = if a.unit.is_some() { None } else { Some("u".to_string()) },
                        3 => a.type_info.has_variable_info = !a.type_info.has_variable_info,
                        _ => a.type_info.kind = gen_kind(rng),
                    }
                }
            }
        }
        // a configuration consistent with the payload kind
        let c = MessageConfig {
            version: m.header.version,
            counter: m.header.message_counter,
            endianness: m.header.endianness,
            ecu_id: m.header.ecu_id.clone(),
            session_id: m.header.session_id,
            timestamp: m.header.timestamp,
            payload: m.payload.clone(),
            extended_header_info: m.extended_header.as_ref().map(|x| ExtendedHeaderConfig {
                message_type: x.message_type.clone(),
                app_id: x.application_id.clone(),
                context_id: x.context_id.clone(),
            }),
        };
        let mut w = W::new();
        w.cfg(&c);
        w.opt_sh(&m.storage_header);
        match rng.below(6) {
            0 | 1 => {
                w.n(1);
                w.ts(&DltTimeStamp { seconds: gen_u(rng, 32) as u32, microseconds: gen_u(rng, 32) as u32 });
            }
            2 => w.n(2), // add_storage_header(None): the clock
            _ => w.n(0),
        }
        out.push(15, w);
    }
}

fn gen_c16(rng: &mut Rng, thorough: bool, out: &mut Cases) {
    let n = if thorough { 300_000 } else { 20_000 };
    let mut ins = vec![];
    for m in gen_twin_messages(rng, 40) {
        if let Ok(b) = std::panic::catch_unwind(|| m.as_bytes()) {
            ins.push((false, b));
        }
    }
    dialect_inputs(rng, n, &mut ins);
    hostile_inputs(rng, n / 2, &mut ins);
    gen_flip_sequences(rng, if thorough { 3000 } else { 300 }, out);
    gen_new_then_stable(rng, if thorough { 20_000 } else { 2_000 }, out);
    for (sh, bs) in ins {
        let mut w = W::new();
        w.bool(sh);
        w.b(&bs);
        out.push(28, w);
    }
}

/// a message of the same shape and sizes but other contents
pub fn sibling(m: &Message) -> Message {
    let mut s = m.clone();
    let flip = |b: &mut Vec<u8>| {
        for x in b.iter_mut() {
            *x ^= 0x55;
        }
    };
    match &mut s.payload {
        PayloadContent::NonVerbose(id, b) => {
            *id ^= 2;
            flip(b);
        }
        PayloadContent::ControlMsg(_, b) => flip(b),
        PayloadContent::NetworkTrace(l) => l.iter_mut().for_each(flip),
        PayloadContent::Verbose(args) => {
            for a in args.iter_mut() {
                a.value = match &a.value {
                    Value::Bool(v) => Value::Bool(v ^ 1),
                    Value::U8(v) => Value::U8(v ^ 1),
                    Value::U16(v) => Value::U16(v ^ 1),
                    Value::U32(v) => Value::U32(v ^ 1),
                    Value::U64(v) => Value::U64(v ^ 1),
                    Value::U128(v) => Value::U128(v ^ 1),
                    Value::I8(v) => Value::I8(v ^ 1),
                    Value::I16(v) => Value::I16(v ^ 1),
                    Value::I32(v) => Value::I32(v ^ 1),
                    Value::I64(v) => Value::I64(v ^ 1),
                    Value::I128(v) => Value::I128(v ^ 1),
                    Value::F32(v) => Value::F32(f32::from_bits(v.to_bits() ^ 1)),
                    Value::F64(v) => Value::F64(f64::from_bits(v.to_bits() ^ 1)),
                    Value::StringVal(t) => Value::StringVal(t.chars().map(|c| if c == 'a' { 'b' } else if c.is_ascii() { 'a' } else { c }).collect()),
                    Value::Raw(b) => Value::Raw(b.iter().map(|x| x ^ 0x55).collect()),
                };
            }
        }
    }
    s
}

/// op 38: Message::new(configuration of m) is built and dropped unwritten, then a SIBLING of m (same shape and
/// sizes, other contents) is parsed and re-serialised
pub fn gen_new_then_stable(rng: &mut Rng, n: usize, out: &mut Cases) {
    for i in 0..n {
        let mut o = msg_opts_for(rng, i);
        o.target_total = None;
        o.dict = false;
        o.max_blob = if i % 5 == 0 { 0 } else { 12 };
        o.max_args = 3;
        let m = gen_message(rng, &o);
        let sib = sibling(&m);
        let bs = match std::panic::catch_unwind(|| sib.as_bytes()) {
            Ok(b) => b,
            Err(_) => continue,
        };
        let c = MessageConfig {
            version: m.header.version,
            counter: m.header.message_counter,
            endianness: m.header.endianness,
            ecu_id: m.header.ecu_id.clone(),
            session_id: m.header.session_id,
            timestamp: m.header.timestamp,
            payload: m.payload.clone(),
            extended_header_info: m.extended_header.as_ref().map(|x| ExtendedHeaderConfig {
                message_type: x.message_type.clone(),
                app_id: x.application_id.clone(),
                context_id: x.context_id.clone(),
            }),
        };
        let mut w = W::new();
        w.cfg(&c);
        w.opt_sh(&m.storage_header);
        w.bool(m.storage_header.is_some());
        w.b(&bs);
        out.push(38, w);
    }
}

fn gen_c02(rng: &mut Rng, thorough: bool, out: &mut Cases) {
    // the constructor's length bookkeeping for configurations in and outside the well-formed domain (the writer is
    // what the layout clause is about; Message::new decides the LEN field it writes)
    {
        let mut tmp = Cases::new();
        gen_c15_new(rng, if thorough { 4000 } else { 600 }, &mut tmp);
        for l in tmp.lines {
            out.lines.push(l);
        }
    }
    for m in gen_twin_messages(rng, 40) {
        let mut w = W::new();
        w.msg(&m);
        out.push(61, w);
    }
    // encoding: well-formed messages of every kind
    let n = if thorough { 100_000 } else { 5_000 };
    for i in 0..n {
        let o = msg_opts_for(rng, i);
        let m = gen_message(rng, &o);
        let mut w = W::new();
        w.msg(&m);
        out.push(61, w);
        // decoding of canonical bytes, with a suffix, and of every / some truncations
        if let Ok(b) = std::panic::catch_unwind(|| m.as_bytes()) {
            let sh = m.storage_header.is_some();
            let mut full = b.clone();
            full.extend_from_slice(&gen_suffix(rng));
            let mut w = W::new();
            w.bool(sh);
            w.b(&full);
            out.push(60, w);
            if b.len() < 400 {
                let cuts: Vec<usize> = if i % 8 == 0 { (0..b.len()).collect() } else { vec![rng.below(b.len() as u64 + 1) as usize] };
                for k in cuts {
                    let mut w = W::new();
                    w.bool(if i % 16 == 1 { !sh } else { sh });
                    w.b(&b[..k]);
                    out.push(60, w);
                }
            }
        }
    }
    // decoding: dialect, malformed, mutated, random inputs in both storage modes
    let n = if thorough { 300_000 } else { 20_000 };
    let mut ins = vec![];
    {
        // orphaned, duplicated and cut-off storage headers in front of stored messages (with and without junk)
        let mut tmp = Cases::new();
        gen_orphan_headers(rng, if thorough { 600 } else { 120 }, &mut tmp);
        for l in tmp.lines {
            if let Some(rest) = l.strip_prefix("8 ") {
                // "8 <sh> <filter none> <bytes>": reuse the bytes for the reference decoder
                let toks = crate::wire::parse_toks(rest);
                let mut r = crate::wire::R::new(&toks);
                let sh = r.bool();
                let _ = r.opt_filter();
                ins.push((sh, r.b()));
            }
        }
    }
    dialect_inputs(rng, n, &mut ins);
    hostile_inputs(rng, n, &mut ins);
    for (sh, bs) in ins {
        let mut w = W::new();
        w.bool(sh);
        w.b(&bs);
        out.push(60, w);
    }
    // small scope, exhaustively: EVERY byte string up to length 5 (quick) / 7 (thorough) over an alphabet chosen to
    // form header-type bytes, small length fields and message-info bytes; no storage header
    {
        let alphabet = [0x00u8, 0x01, 0x04, 0x08, 0x0e, 0x20, 0x21, 0x41];
        let maxlen = if thorough { 7 } else { 5 };
        for len in 0..=maxlen {
            let total = alphabet.len().pow(len as u32);
            for idx in 0..total {
                let mut v = Vec::with_capacity(len);
                let mut x = idx;
                for _ in 0..len {
                    v.push(alphabet[x % alphabet.len()]);
                    x /= alphabet.len();
                }
                let mut w = W::new();
                w.bool(false);
                w.b(&v);
                out.push(60, w);
            }
        }
    }
    // junk in front of a storage-header message that is cut short: every cut of small messages (incomplete vs reject)
    for i in 0..n / 40 {
        let mut o = msg_opts_for(rng, i);
        o.storage = Some(true);
        o.target_total = None;
        o.max_args = 2;
        o.max_blob = 6;
        let m = gen_message(rng, &o);
        if let Ok(b) = std::panic::catch_unwind(|| m.as_bytes()) {
            if b.len() > 120 {
                continue;
            }
            let junk = gen_junk(rng);
            for k in 16..b.len() {
                let mut buf = junk.clone();
                buf.extend_from_slice(&b[..k]);
                let mut w = W::new();
                w.bool(true);
                w.b(&buf);
                out.push(60, w);
            }
        }
    }
    gen_bigjunk(rng, thorough, out);
    gen_junkcut(rng, if thorough { 150 } else { 20 }, out);
    // junk in front of storage-header messages, partial markers
    for i in 0..n / 10 {
        let m = gen_message(rng, &MsgOpts { storage: Some(true), ..MsgOpts::default() });
        if let Ok(b) = std::panic::catch_unwind(|| m.as_bytes()) {
            let mut buf = gen_junk(rng);
            buf.extend_from_slice(&b);
            if i % 3 == 0 {
                buf.extend_from_slice(&gen_junk(rng));
            }
            let mut w = W::new();
            w.bool(true);
            w.b(&buf);
            out.push(60, w);
        }
    }
}

/// every combination of optional header fields x declared lengths (below the header, exact, too large) x every
/// cut through the headers, both storage modes: what a buffer that ends inside a header field reports
pub fn header_cut_sweep(rng: &mut Rng, out: &mut Cases) {
    for sh in [false, true] {
        for flags in 0..32u8 {
            let htyp = 0x20 | flags;
            let mut full: Vec<u8> = vec![];
            if sh {
                full.extend_from_slice(b"DLT\x01");
                full.extend_from_slice(&[1, 0, 0, 0, 2, 0, 0, 0]);
                full.extend_from_slice(b"EC\x00U");
            }
            let o = full.len();
            full.extend_from_slice(&[htyp, rng.next() as u8, 0, 0]);
            if flags & 4 != 0 {
                full.extend_from_slice(&[0x45, 0x43, if flags & 8 != 0 { 0 } else { 0x55 }, 0x31]);
            }
            if flags & 8 != 0 {
                full.extend_from_slice(&[0, 0, 1, 2]);
            }
            if flags & 0x10 != 0 {
                full.extend_from_slice(&[9, 9, 9, 9]);
            }
            if flags & 1 != 0 {
                full.extend_from_slice(&[0x40, 0, 0x41, 0x50, 0xC3, 0x00, 0x43, 0x54, 0x58, 0xFF]);
            }
            full.extend_from_slice(&[1, 2, 3, 4, 5, 6]);
            let real = (full.len() - o) as u16;
            for l in [0u16, 1, 2, 3, 4, 7, 8, real - 1, real, real + 1, 0xffff] {
                let mut v = full.clone();
                v[o + 2] = (l >> 8) as u8;
                v[o + 3] = l as u8;
                for cut in o..=v.len() {
                    push_parse(out, 8, sh, &None, &v[..cut]);
                }
            }
        }
    }
}

/// neighbouring header fields whose bytes are valid UTF-8 only when read TOGETHER: a multi-byte character straddling
/// the border between application and context id, between ECU id and the field behind it, between the storage
/// header's ECU id and the header type.  Each id is decided by its own four bytes.
pub fn straddling_ids(out: &mut Cases) {
    for ch in ["é", "€", "𝄞", "\u{7ff}", "\u{800}", "\u{ffff}"] {
        let cb = ch.as_bytes();
        for k in 1..cb.len() {
            // k bytes of the character end the first field, the rest start the second
            let mut first = vec![b'a'; 4 - k];
            first.extend_from_slice(&cb[..k]);
            for tail in [b'd', 0u8] {
                let mut second = cb[k..].to_vec();
                while second.len() < 4 {
                    second.push(tail);
                }
                // application / context id
                let mut v = vec![0x21, 7, 0, 0, 0x41, 0];
                v.extend_from_slice(&first);
                v.extend_from_slice(&second);
                v.extend_from_slice(&[1, 2, 3, 4]);
                let l = v.len() as u16;
                v[2] = (l >> 8) as u8;
                v[3] = l as u8;
                push_parse(out, 8, false, &None, &v);
                // ECU id / session id, with extended header behind
                let mut v = vec![0x2d, 7, 0, 0];
                v.extend_from_slice(&first);
                v.extend_from_slice(&second);
                v.extend_from_slice(&[0x41, 0, b'A', b'P', b'P', 0, b'C', b'T', b'X', 0, 1, 2, 3, 4]);
                let l = v.len() as u16;
                v[2] = (l >> 8) as u8;
                v[3] = l as u8;
                push_parse(out, 8, false, &None, &v);
                // storage-header ECU id / what follows (only the first field is an id here)
                let mut v = b"DLT\x01".to_vec();
                v.extend_from_slice(&[1, 0, 0, 0, 2, 0, 0, 0]);
                v.extend_from_slice(&first);
                let o = v.len();
                v.extend_from_slice(&[0x21, 7, 0, 0, 0x41, 0]);
                v.extend_from_slice(&second);
                v.extend_from_slice(&first);
                v.extend_from_slice(&[1, 2, 3, 4]);
                let l = (v.len() - o) as u16;
                v[o + 2] = (l >> 8) as u8;
                v[o + 3] = l as u8;
                push_parse(out, 8, true, &None, &v);
            }
        }
    }
}

fn gen_c19(rng: &mut Rng, thorough: bool, out: &mut Cases) {
    header_cut_sweep(rng, out);
    straddling_ids(out);
    // fields of 8..24 bytes in which 0x01 / 0x80 / 0x81 / 0x7f stand directly before or behind the first NUL, at every
    // position (word-at-a-time terminator searches have their false positives exactly there)
    for size in [8usize, 9, 15, 16, 17, 24] {
        for pos in 0..size {
            for near in [0x01u8, 0x80, 0x81, 0x7f, 0xff, 0x02] {
                for variant in 0..3 {
                    let mut s: Vec<u8> = (0..size).map(|k| b'a' + (k % 26) as u8).collect();
                    s[pos] = 0;
                    match variant {
                        0 if pos > 0 => s[pos - 1] = near,
                        1 if pos + 1 < size => s[pos + 1] = near,
                        2 if pos > 1 => {
                            s[pos - 1] = near;
                            s[pos - 2] = near;
                        }
                        _ => continue,
                    }
                    if near >= 0x80 && variant != 1 {
                        // keep the text in front valid UTF-8 for half of them: a two-byte character ending at pos
                        if pos >= 2 && near != 0xff {
                            s[pos - 2] = 0xc2;
                        }
                    }
                    s.extend_from_slice(b"++");
                    let mut w = W::new();
                    w.n(size as u128);
                    w.b(&s);
                    out.push(3, w);
                }
            }
        }
    }
    let alphabet: [u8; 25] = [
        0x00, 0x41, 0x7F, 0x80, 0x8F, 0x90, 0x9F, 0xA0, 0xBF, 0xC0, 0xC1, 0xC2, 0xDF, 0xE0, 0xE1, 0xEC, 0xED, 0xEE, 0xEF, 0xF0, 0xF1,
        0xF3, 0xF4, 0xF5, 0xFF,
    ];
    // exhaustive over the boundary alphabet for strings of length <= 4 (thorough) / <= 3 plus a sample (quick)
    let maxlen = if thorough { 4 } else { 3 };
    let mut cur: Vec<usize> = vec![];
    loop {
        let s: Vec<u8> = cur.iter().map(|i| alphabet[*i]).collect();
        for size in 0..=6u128 {
            if thorough || cur.len() < 3 || (cur.iter().sum::<usize>() + size as usize) % 4 == 0 {
                let mut w = W::new();
                w.n(size);
                w.b(&s);
                out.push(3, w);
            }
        }
        // next
        let mut i = cur.len();
        loop {
            if i == 0 {
                cur = vec![0; cur.len() + 1];
                break;
            }
            i -= 1;
            if cur[i] + 1 < alphabet.len() {
                cur[i] += 1;
                for j in i + 1..cur.len() {
                    cur[j] = 0;
                }
                break;
            }
        }
        if cur.len() > maxlen {
            break;
        }
    }
    if !thorough {
        for _ in 0..40_000 {
            let s: Vec<u8> = (0..4).map(|_| *rng.pick(&alphabet)).collect();
            let mut w = W::new();
            w.n(rng.below(7) as u128);
            w.b(&s);
            out.push(3, w);
        }
    }
    let n = if thorough { 100_000 } else { 10_000 };
    for _ in 0..n {
        let len = match rng.below(6) {
            0 => rng.below(70_000),
            _ => rng.below(40),
        } as usize;
        let s: Vec<u8> = if rng.bool() {
            let mut t = gen_text(rng, len).into_bytes();
            if rng.bool() && !t.is_empty() {
                let i = rng.below(t.len() as u64) as usize;
                t[i] = *rng.pick(&[0u8, 0xff, 0x80, 0xc3]);
            }
            t
        } else {
            (0..len).map(|_| if rng.chance(1, 12) { 0 } else { *rng.pick(&alphabet) }).collect()
        };
        let size = match rng.below(6) {
            0 => s.len() as u128,
            1 => s.len() as u128 + 1 + rng.below(5) as u128,
            2 => 65535,
            3 => 0,
            _ => rng.below(s.len() as u64 + 2) as u128,
        };
        let mut w = W::new();
        w.n(size);
        w.b(&s);
        out.push(3, w);
    }
    // the ids a statistics collector is handed (storage header, standard header, extended header) for streams whose
    // id fields hold arbitrary bytes: interior NULs, invalid UTF-8, no terminator
    for i in 0..(if thorough { 3000 } else { 400 }) {
        let sh = i % 4 != 0;
        let mut stream = vec![];
        for _ in 0..(1 + i % 3) {
            let mut ins = vec![];
            dialect_inputs(rng, 1, &mut ins);
            let (_, bs) = ins.pop().unwrap();
            if sh {
                stream.extend_from_slice(b"DLT\x01");
                stream.extend_from_slice(&rng.bytes(8));
                let idb: Vec<u8> = (0..4).map(|_| *rng.pick(&[0x41u8, 0x42, 0x00, 0xc3, 0xa9, 0xff, 0x80, 0xc4, 0x20])).collect();
                stream.extend_from_slice(&idb);
            }
            stream.extend_from_slice(&bs);
        }
        let mut w = W::new();
        w.bool(sh);
        w.n(0);
        w.b(&stream);
        out.push(33, w);
    }
    // a buffer that ends inside an id field, with junk in front of the storage header
    gen_junkcut(rng, if thorough { 150 } else { 20 }, out);
    // the 4-byte ids of messages obey the same rule: parse messages whose ids are arbitrary bytes
    for _ in 0..n / 10 {
        let mut ins = vec![];
        dialect_inputs(rng, 1, &mut ins);
        for (sh, bs) in ins {
            push_parse(out, 8, sh, &None, &bs);
        }
    }
}

fn gen_c10(rng: &mut Rng, thorough: bool, out: &mut Cases) {
    let n = if thorough { 40_000 } else { 2_500 };
    for i in 0..n {
        let sh = rng.bool();
        let nparts = match rng.below(6) {
            0 => 0,
            1 => 1,
            _ => rng.range(2, 5),
        } as usize;
        // a small id vocabulary so that ids repeat across messages and parts
        // (with ids that a cheaper key -- packed characters, folded case, trimmed, summed bytes -- would conflate)
        let ids = [
            "A", "B", "APP", "CTX1", "", "é", "NONE", "中", "N-", "䅁", "AA", "app", "A ", " A", "AB", "BA", "AC", "BB", "ABC", "ABCD",
            "ABCE", "\u{e9}", "e\u{301}", "ECU", "DLT",
        ];
        let mut w = W::new();
        w.n((i % 4) as u128);
        w.n(nparts as u128);
        for _ in 0..nparts {
            let k = rng.below(5) as usize;
            w.n(k as u128);
            for j in 0..k {
                let mut o = msg_opts_for(rng, i + j);
                o.storage = Some(sh);
                o.target_total = None;
                o.max_blob = 12;
                o.max_args = 3;
                let mut m = gen_message(rng, &o);
                if rng.chance(3, 4) {
                    if let Some(x) = &mut m.extended_header {
                        x.application_id = rng.pick(&ids).to_string();
                        x.context_id = rng.pick(&ids).to_string();
                        if rng.bool() && !matches!(x.message_type, MessageType::NetworkTrace(_) | MessageType::Control(_)) {
                            x.message_type = MessageType::Log(gen_log_level(rng));
                        }
                    }
                    if m.header.ecu_id.is_some() {
                        m.header.ecu_id = Some(rng.pick(&ids).to_string());
                    }
                }
                w.msg(&m);
            }
        }
        out.push(32, w);
    }
    // many distinct ids (beyond any small-table / linear-scan threshold: 300, 1100, 4200), merged with parts that bring
    // both known and new ids in a scrambled order
    for (ci, nid) in [300usize, 1100, 4200].iter().enumerate() {
        if !thorough && *nid > 2000 {
            continue;
        }
        let mk = |rng: &mut Rng, j: usize, sh: bool| -> Message {
            let id = format!("{:04X}", (j * 7919) % 65536);
            Message {
                storage_header: if sh { Some(StorageHeader { timestamp: DltTimeStamp { seconds: 1, microseconds: 2 }, ecu_id: "E".into() }) } else { None },
                header: StandardHeader {
                    version: 1,
                    endianness: Endianness::Big,
                    has_extended_header: true,
                    message_counter: j as u8,
                    ecu_id: if j % 3 == 0 { Some(id.clone()) } else { None },
                    session_id: None,
                    timestamp: None,
                    payload_length: 4,
                },
                extended_header: Some(ExtendedHeader {
                    verbose: false,
                    argument_count: 0,
                    message_type: MessageType::Log(gen_log_level(rng)),
                    application_id: if j % 2 == 0 { id.clone() } else { "APP".into() },
                    context_id: id,
                }),
                payload: PayloadContent::NonVerbose(j as u32, vec![]),
            }
        };
        for shape in 0..4u128 {
            let sh = shape % 2 == 0;
            let mut w = W::new();
            w.n(shape);
            w.n(3);
            w.n(*nid as u128);
            for j in 0..*nid {
                w.msg(&mk(rng, j, sh));
            }
            for part in 0..2 {
                let k = 60;
                w.n(k as u128);
                for _ in 0..k {
                    let j = if rng.bool() { rng.below(*nid as u64) as usize } else { *nid + rng.below(5000) as usize + part * 5000 };
                    w.msg(&mk(rng, j, sh));
                }
            }
            out.push(32, w);
            if ci > 0 && shape >= 1 {
                break;
            }
        }
    }
    // the scan loop on arbitrary streams (well-formed, truncated, hostile lengths, random) under read schedules
    crate::gen2::gen_scan(rng, if thorough { 20_000 } else { 1_500 }, out);
}

fn gen_c14(rng: &mut Rng, thorough: bool, out: &mut Cases) {
    // all 256 MSIN bytes
    for b in 0..=255u128 {
        let mut w = W::new();
        w.n(b);
        out.push(7, w);
    }
    // all 256 HTYP bytes, observed through dlt_message on a complete non-verbose message
    for b in 0..=255u8 {
        for variant in 0..2 {
            let mut v = vec![b, 0x11 + variant, 0, 0];
            for bit in [2u8, 3, 4] {
                if b & (1 << bit) != 0 {
                    v.extend_from_slice(&[0x41 + bit, 0x42, 0x43, 0x44]);
                }
            }
            if b & 1 != 0 {
                v.extend_from_slice(&[0x40, 0x00, 0x41, 0x50, 0x50, 0x00, 0x43, 0x54, 0x58, 0x00]);
            }
            v.extend_from_slice(&[1, 2, 3, 4, 5, 6, 7, 8]);
            let l = v.len() as u16;
            v[2] = (l >> 8) as u8;
            v[3] = l as u8;
            let mut w = W::new();
            w.bool(false);
            w.n(0);
            w.b(&v);
            out.push(8, w);
        }
    }
    // hand-built descriptions OUTSIDE what the decoder can produce (reserved string codings 0, 1, 8, 9, 255, with the
    // coding also on non-string kinds) are SERIALISED first, then messages carrying every coding are parsed: whatever
    // the writer leaves behind must not reach the decoder
    for round in 0..2 {
        for v in [0u8, 1, 8, 9, 15, 255, 3] {
            for kind in [TypeInfoKind::StringType, TypeInfoKind::Raw, TypeInfoKind::Unsigned(TypeLength::BitLength8), TypeInfoKind::Bool] {
                let value = match kind {
                    TypeInfoKind::StringType => Value::StringVal("ab".into()),
                    TypeInfoKind::Raw => Value::Raw(vec![1, 2]),
                    TypeInfoKind::Bool => Value::Bool(1),
                    _ => Value::U8(7),
                };
                let a = Argument {
                    type_info: TypeInfo { kind, coding: StringCoding::Reserved(v), has_variable_info: false, has_trace_info: round == 1 },
                    name: None,
                    unit: None,
                    fixed_point: None,
                    value,
                };
                let mut w = W::new();
                w.endian(if round == 0 { Endianness::Big } else { Endianness::Little });
                w.arg(&a);
                out.push(14, w);
            }
        }
        for be in [false, true] {
            for scod in 0..8u32 {
                for base in [0x200u32, 0x400, 0x41, 0x11] {
                    let ti = base | (scod << 15) | if round == 1 { 0x2000 } else { 0 };
                    let tib = if be { ti.to_be_bytes() } else { ti.to_le_bytes() };
                    let mut p = tib.to_vec();
                    match base {
                        0x200 | 0x400 => {
                            p.extend_from_slice(&if be { 3u16.to_be_bytes() } else { 3u16.to_le_bytes() });
                            p.extend_from_slice(&[0x61, 0x62, 0x00]);
                        }
                        _ => p.push(1),
                    }
                    let mut v = vec![0x21 | if be { 2 } else { 0 }, 0x07, 0, 0, 0x41, 1, 0x41, 0x50, 0x50, 0x00, 0x43, 0x54, 0x58, 0x00];
                    v.extend_from_slice(&p);
                    let l = v.len() as u16;
                    v[2] = (l >> 8) as u8;
                    v[3] = l as u8;
                    push_parse(out, 8, false, &None, &v);
                }
            }
        }
    }
    // the same argument bytes read in both byte orders, one after the other
    gen_flip_sequences(rng, if thorough { 3000 } else { 300 }, out);
    // all 256 header-type bytes once more with a filter that has an ECU-id set (containing the ids used), with and
    // without storage header: what is decoded must not depend on a filter that lets the message pass
    for sh in [false, true] {
        for b in 0..=255u8 {
            let mut v = vec![];
            if sh {
                v.extend_from_slice(b"DLT\x01");
                v.extend_from_slice(&[1, 0, 0, 0, 2, 0, 0, 0]);
                v.extend_from_slice(b"STOR");
            }
            let o = v.len();
            v.extend_from_slice(&[b, 0x11, 0, 0]);
            if b & 4 != 0 {
                v.extend_from_slice(b"ECU1");
            }
            if b & 8 != 0 {
                v.extend_from_slice(&[0, 0, 0, 9]);
            }
            if b & 0x10 != 0 {
                v.extend_from_slice(&[0, 0, 1, 0]);
            }
            if b & 1 != 0 {
                v.extend_from_slice(&[0x40, 0x00, 0x41, 0x50, 0x50, 0x00, 0x43, 0x54, 0x58, 0x00]);
            }
            v.extend_from_slice(&[1, 2, 3, 4, 5, 6, 7, 8]);
            let l = (v.len() - o) as u16;
            v[o + 2] = (l >> 8) as u8;
            v[o + 3] = l as u8;
            let f = DltFilterConfig {
                min_log_level: None,
                app_ids: None,
                ecu_ids: Some(vec!["ECU1".into(), "STOR".into(), "ECU".into()]),
                context_ids: None,
                app_id_count: 0,
                context_id_count: 0,
            };
            push_parse(out, 8, sh, &Some(f), &v);
        }
    }
    // type-info words through the ordinary pipeline: boundary words and a seeded sample
    // (the exhaustive comparison is the ti-sweep)
    let mut words: Vec<u32> = vec![0, 0xffff_ffff, 0x3ffff, 0x40000, 0x8000_0000];
    for b in 0..32 {
        words.push(1 << b);
        words.push(!(1u32 << b));
    }
    let n = if thorough { 200_000 } else { 30_000 };
    for _ in 0..n {
        let kind = *rng.pick(&[0x10u32, 0x20, 0x40, 0x80, 0x200, 0x400, 0x100, 0x30, 0]);
        let w = match rng.below(3) {
            0 => rng.next() as u32,
            1 => kind | rng.below(16) as u32 | ((rng.below(128) as u32) << 11),
            _ => kind | rng.below(16) as u32 | ((rng.next() as u32) & 0xffff_f800),
        };
        words.push(w);
    }
    for wd in words {
        let mut w = W::new();
        w.n(wd as u128);
        out.push(4, w);
    }
}

pub fn generate(prop: &str, seed: u64, thorough: bool) -> Cases {
    let mut rng = Rng::new(seed);
    let mut out = Cases::new();
    match prop {
        "C01" => gen_c01(&mut rng, thorough, &mut out),
        "C02" => gen_c02(&mut rng, thorough, &mut out),
        "C03" => gen_c03(&mut rng, thorough, &mut out),
        "C04" => gen_c04(&mut rng, thorough, &mut out),
        "C05" => gen_c05(&mut rng, thorough, &mut out),
        "C06" => gen_c06(&mut rng, thorough, &mut out),
        "C07" => crate::gen2::gen_readers(&mut rng, thorough, 40, &mut out),
        "C08" => crate::gen2::gen_readers(&mut rng, thorough, 41, &mut out),
        "C09" => gen_c09(&mut rng, thorough, &mut out),
        "C10" => gen_c10(&mut rng, thorough, &mut out),
        "C11" => crate::genfibex::gen_c11(&mut rng, thorough, &mut out),
        "C12" => crate::genfibex::gen_c12(&mut rng, thorough, &mut out),
        "C13" => gen_c13(&mut rng, thorough, &mut out),
        "C18" => crate::gen2::gen_c18(&mut rng, thorough, &mut out),
        "C14" => gen_c14(&mut rng, thorough, &mut out),
        "C15" => gen_c15(&mut rng, thorough, &mut out),
        "C16" => gen_c16(&mut rng, thorough, &mut out),
        "C17" => gen_c17(&mut rng, thorough, &mut out),
        "C19" => gen_c19(&mut rng, thorough, &mut out),
        _ => panic!("no generator for {}", prop),
    }
    out
}

/// op 35: long constant junk in front of a storage-header message (lengths around 64 KiB, 1 MiB, 10 MiB, 16 MiB, 2^32)
pub fn gen_bigjunk(rng: &mut Rng, thorough: bool, out: &mut Cases) {
    let ten = 10usize * 1024 * 1024;
    let mut ns: Vec<(u128, u8)> = vec![
        (65548, 0x2e), (65551, 0x44), (1 << 20, 0x00), ((ten - 4) as u128, 0x2e), ((ten - 3) as u128, 0x00), (ten as u128, 0x44),
        ((ten + 5) as u128, 0x00), ((1 << 24) + 1, 0x00), ((1u128 << 32) + 7, 0x00),
    ];
    if thorough {
        ns.extend_from_slice(&[((1 << 26) + 3, 0x54), ((1u128 << 32) - 3, 0x00), ((1u128 << 33) + 1, 0x00)]);
    }
    // junk lengths next to every large number the source under test spells (block sizes, capacities)
    for big in crate::dict::dict().big.iter() {
        for d in 0..6u128 {
            let n = *big as u128 + 1 - d;
            if !ns.iter().any(|(x, _)| *x == n) {
                ns.push((n, if d % 2 == 0 { 0x00 } else { 0x2e }));
            }
        }
    }
    for (i, (n, fill)) in ns.iter().enumerate() {
        let m = gen_message(rng, &MsgOpts { storage: Some(true), ..MsgOpts::default() });
        let mut w = W::new();
        w.n(*n);
        w.n(*fill as u128);
        w.msg(&m);
        w.b(&if i % 2 == 0 { gen_suffix(rng) } else { vec![] });
        out.push(35, w);
    }
}

/// op 36: short pattern-free junk, then every cut of a small storage-header message
pub fn gen_junkcut(rng: &mut Rng, nmsgs: usize, out: &mut Cases) {
    for i in 0..nmsgs {
        let mut o = msg_opts_for(rng, i);
        o.storage = Some(true);
        o.target_total = None;
        o.max_args = 2;
        o.max_blob = 6;
        let m = gen_message(rng, &o);
        let len = match std::panic::catch_unwind(|| m.as_bytes().len()) {
            Ok(l) if l <= 140 => l,
            _ => continue,
        };
        let junk = match i % 4 {
            0 => vec![0x00],
            1 => vec![0x44, 0x4c, 0x54],
            _ => gen_junk(rng),
        };
        if junk.is_empty() {
            continue;
        }
        for k in 0..len {
            let mut w = W::new();
            w.b(&junk);
            w.msg(&m);
            w.n(k as u128);
            out.push(36, w);
        }
    }
}

/// verbose messages whose consecutive arguments are equal under `==` but not bit for bit (+0.0 / -0.0 in a float value
/// or a fixed-point quantization), and exact duplicates
pub fn gen_twin_messages(rng: &mut Rng, n: usize) -> Vec<Message> {
    let mut v = vec![];
    for i in 0..n {
        let ti = |kind: TypeInfoKind| TypeInfo { kind, coding: StringCoding::ASCII, has_variable_info: false, has_trace_info: false };
        let (a, b): (Argument, Argument) = match i % 4 {
            0 => {
                let mk = |bits: u32| Argument { type_info: ti(TypeInfoKind::Float(FloatWidth::Width32)), name: None, unit: None, fixed_point: None, value: Value::F32(f32::from_bits(bits)) };
                (mk(0), mk(0x8000_0000))
            }
            1 => {
                let mk = |bits: u64| Argument { type_info: ti(TypeInfoKind::Float(FloatWidth::Width64)), name: None, unit: None, fixed_point: None, value: Value::F64(f64::from_bits(bits)) };
                (mk(0x8000_0000_0000_0000), mk(0))
            }
            2 => {
                let mk = |bits: u32| Argument {
                    type_info: ti(TypeInfoKind::UnsignedFixedPoint(FloatWidth::Width32)),
                    name: None,
                    unit: None,
                    fixed_point: Some(FixedPoint { quantization: f32::from_bits(bits), offset: FixedPointValue::I32(7) }),
                    value: Value::U32(5),
                };
                (mk(0), mk(0x8000_0000))
            }
            _ => {
                let a = gen_arg(rng, 8);
                (a.clone(), a)
            }
        };
        let mut args = vec![];
        if rng.bool() {
            args.push(gen_arg(rng, 6));
        }
        args.push(a);
        args.push(b);
        let conf = MessageConfig {
            version: 1,
            counter: i as u8,
            endianness: if rng.bool() { Endianness::Big } else { Endianness::Little },
            ecu_id: None,
            session_id: None,
            timestamp: None,
            payload: PayloadContent::Verbose(args),
            extended_header_info: Some(ExtendedHeaderConfig { message_type: MessageType::Log(LogLevel::Info), app_id: "APP".to_string(), context_id: "CTX".to_string() }),
        };
        if let Ok(m) = std::panic::catch_unwind(|| Message::new(conf, None)) {
            v.push(m);
        }
    }
    v
}
