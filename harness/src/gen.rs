//! Case generators, one family per property.  A case is a line `<op> tok tok ...`.
use crate::rng::Rng;
use crate::wire::*;

pub struct Cases {
    pub lines: Vec<String>,
}
impl Cases {
    pub fn new() -> Self {
        Cases { lines: vec![] }
    }
    pub fn push(&mut self, op: u32, w: W) {
        self.lines.push(format!("{} {}", op, print_toks(&w.0)));
    }
}

fn gen_c17(rng: &mut Rng, thorough: bool, out: &mut Cases) {
    let n = if thorough { 200_000 } else { 20_000 };
    for (op, unit) in [(1u32, 1000u128), (2u32, 1_000_000u128)] {
        let top = (1u128 << 32) * unit; // first value past the guard
        let mut vals: Vec<u128> = vec![0, 1, unit - 1, unit, unit + 1, unit + 5, 2 * unit - 1, 1500 * unit / 1000,
            4294, 4295, 4296, top - 1, top - unit, top - unit - 1, top, top + 1, u64::MAX as u128, (u64::MAX / 2) as u128];
        for k in 0..64 {
            vals.push((1u128 << k).min(u64::MAX as u128));
            vals.push(((1u128 << k) - 1).min(u64::MAX as u128));
        }
        for _ in 0..n {
            let v = match rng.below(4) {
                0 => rng.next() as u128,
                1 => rng.below(top as u64) as u128,
                2 => rng.below(10_000_000) as u128,
                _ => (rng.below(1 << 32) as u128) * unit + rng.below(unit as u64) as u128,
            };
            vals.push(v);
        }
        for v in vals {
            let mut w = W::new();
            w.n(v & (u64::MAX as u128));
            out.push(op, w);
        }
    }
}

pub fn generate(prop: &str, seed: u64, thorough: bool) -> Cases {
    let mut rng = Rng::new(seed);
    let mut out = Cases::new();
    match prop {
        "C17" => gen_c17(&mut rng, thorough, &mut out),
        _ => panic!("no generator for {}", prop),
    }
    out
}
