#!/bin/bash
# run every check once (quick by default); prints one summary line per property
tier=${1:-quick}
cd "$(dirname "$0")"
for i in $(seq -w 1 19); do
  p=C$i
  s=$(date +%s)
  out=$(timeout 3000 ./check $p --tier $tier 2>&1); rc=$?
  e=$(date +%s)
  echo "$p rc=$rc $((e-s))s :: $(echo "$out" | tail -1)"
  echo "$out" | grep -E "VIOLATION|KNOWN-FINDING" | head -3
done
