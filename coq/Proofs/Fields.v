(* Proofs/Fields.v — fixed-width integer fields: put/get round trips in both byte orders,
   two's complement, and the streaming number parsers of Nom.v on written fields. *)
From Coq Require Import Lia ZifyBool ZifyN ZifyNat.
From DltV.Model Require Import Bytes Nom.
From DltV.Proofs Require Import BytesBasics.
Open Scope N_scope.

Lemma le_put_length k v : length (le_put k v) = k.
Proof. revert v; induction k as [|k IH]; intros v; cbn [le_put length]; [reflexivity | now rewrite IH]. Qed.

Lemma put_uint_length e k v : length (put_uint e k v) = k.
Proof. destruct e; cbn [put_uint]; [|rewrite rev_length]; apply le_put_length. Qed.

Lemma len_put_uint e k v : len (put_uint e k v) = N.of_nat k.
Proof. unfold len. now rewrite put_uint_length. Qed.

Lemma le_get_le_put k v : le_get (le_put k v) = v mod 256 ^ N.of_nat k.
Proof.
  revert v; induction k as [|k IH]; intros v.
  - cbn [le_put le_get]. change (256 ^ N.of_nat 0) with 1. now rewrite N.mod_1_r.
  - cbn [le_put le_get]. rewrite IH, b2n_n2b.
    replace (N.of_nat (S k)) with (N.succ (N.of_nat k)) by lia.
    rewrite N.pow_succ_r'.
    assert (Hp : 256 ^ N.of_nat k <> 0) by (apply N.pow_nonzero; lia).
    rewrite N.mod_mul_r by lia. reflexivity.
Qed.

Lemma le_get_bound bs : le_get bs < 256 ^ len bs.
Proof.
  induction bs as [|b r IH].
  - cbn. lia.
  - cbn [le_get]. rewrite len_cons.
    replace (1 + len r) with (N.succ (len r)) by lia. rewrite N.pow_succ_r'.
    pose proof (b2n_lt b). nia.
Qed.

Lemma le_put_le_get bs : le_put (length bs) (le_get bs) = bs.
Proof.
  induction bs as [|b r IH]; [reflexivity|].
  cbn [length le_put le_get]. f_equal.
  - pose proof (b2n_lt b).
    replace (b2n b + 256 * le_get r) with (b2n b + le_get r * 256) by lia.
    unfold n2b. rewrite N.mod_add by lia. rewrite N.mod_small by lia.
    unfold b2n. now rewrite Byte.of_to_N.
  - pose proof (b2n_lt b).
    replace ((b2n b + 256 * le_get r) / 256) with (le_get r); [exact IH|].
    replace (b2n b + 256 * le_get r) with (b2n b + le_get r * 256) by lia.
    rewrite N.div_add by lia. rewrite N.div_small by lia. lia.
Qed.

Lemma get_put_uint e k v : v < 256 ^ N.of_nat k -> get_uint e (put_uint e k v) = v.
Proof.
  intros H. destruct e; cbn [get_uint put_uint]; [|rewrite rev_involutive];
    rewrite le_get_le_put; now apply N.mod_small.
Qed.

Lemma get_put_uint_mod e k v : get_uint e (put_uint e k v) = v mod 256 ^ N.of_nat k.
Proof. destruct e; cbn [get_uint put_uint]; [|rewrite rev_involutive]; apply le_get_le_put. Qed.

Lemma put_get_uint e bs : put_uint e (length bs) (get_uint e bs) = bs.
Proof.
  destruct e; cbn [get_uint put_uint].
  - apply le_put_le_get.
  - rewrite <- (rev_length bs). rewrite le_put_le_get. apply rev_involutive.
Qed.

Lemma get_uint_bound e bs : get_uint e bs < 256 ^ len bs.
Proof.
  destruct e; cbn [get_uint]; [apply le_get_bound|].
  rewrite <- len_rev. apply le_get_bound.
Qed.

Lemma pow256 k : 256 ^ N.of_nat k = 2 ^ (8 * N.of_nat k).
Proof. change 256 with (2 ^ 8). now rewrite <- N.pow_mul_r. Qed.

(* byte order reversal: the BE bytes are the reversed LE bytes *)
Lemma put_uint_BE_rev k v : put_uint BE k v = rev (put_uint LE k v).
Proof. reflexivity. Qed.
Lemma get_uint_BE_rev bs : get_uint BE bs = get_uint LE (rev bs).
Proof. reflexivity. Qed.

(* ---- two's complement ---- *)
Lemma to_signed_of_signed bits z : 0 < bits -> in_signed bits z = true ->
  to_signed bits (of_signed bits z) = z.
Proof.
  intros Hb H. unfold in_signed in H. apply andb_true_iff in H as [H1 H2].
  apply Z.leb_le in H1. apply Z.ltb_lt in H2.
  unfold to_signed, of_signed.
  assert (Hpow : 2 ^ bits = 2 * 2 ^ (bits - 1)).
  { replace bits with (N.succ (bits - 1)) at 1 by lia. now rewrite N.pow_succ_r'. }
  assert (Hpos : 0 < 2 ^ (bits - 1)) by (apply N.neq_0_lt_0, N.pow_nonzero; lia).
  set (h := 2 ^ (bits - 1)) in *. rewrite Hpow.
  assert (Hm : (0 <= z mod Z.of_N (2 * h) < Z.of_N (2 * h))%Z) by (apply Z.mod_pos_bound; lia).
  destruct (Z.leb_spec 0 z) as [Hz|Hz].
  - rewrite Z.mod_small by lia.
    destruct (N.ltb_spec (Z.to_N z) h); lia.
  - assert (E : (z mod Z.of_N (2 * h) = z + Z.of_N (2 * h))%Z).
    { symmetry. apply Z.mod_unique_pos with (q := (-1)%Z); lia. }
    rewrite E. destruct (N.ltb_spec (Z.to_N (z + Z.of_N (2 * h))) h); lia.
Qed.

Lemma of_signed_bound bits z : of_signed bits z < 2 ^ bits.
Proof.
  unfold of_signed.
  assert (Hpos : 0 < 2 ^ bits) by (apply N.neq_0_lt_0, N.pow_nonzero; lia).
  pose proof (Z.mod_pos_bound z (Z.of_N (2 ^ bits))). lia.
Qed.

Lemma to_signed_in_range bits n : 0 < bits -> n < 2 ^ bits -> in_signed bits (to_signed bits n) = true.
Proof.
  intros Hb Hn. unfold in_signed, to_signed.
  assert (Hpow : 2 ^ bits = 2 * 2 ^ (bits - 1)).
  { replace bits with (N.succ (bits - 1)) at 1 by lia. now rewrite N.pow_succ_r'. }
  set (h := 2 ^ (bits - 1)) in *. rewrite Hpow in *.
  destruct (N.ltb_spec n h); apply andb_true_iff; split; lia.
Qed.

Lemma of_signed_to_signed bits n : 0 < bits -> n < 2 ^ bits -> of_signed bits (to_signed bits n) = n.
Proof.
  intros Hb Hn. unfold of_signed, to_signed.
  assert (Hpow : 2 ^ bits = 2 * 2 ^ (bits - 1)).
  { replace bits with (N.succ (bits - 1)) at 1 by lia. now rewrite N.pow_succ_r'. }
  set (h := 2 ^ (bits - 1)) in *. rewrite Hpow in *.
  destruct (N.ltb_spec n h).
  - rewrite Z.mod_small by lia. lia.
  - replace ((Z.of_N n - Z.of_N (2 * h)) mod Z.of_N (2 * h))%Z with (Z.of_N n).
    + lia.
    + apply Z.mod_unique_pos with (q := (-1)%Z); lia.
Qed.

Lemma get_put_sint e k z : (0 < k)%nat -> in_signed (8 * N.of_nat k) z = true ->
  get_sint e (put_sint e k z) = z.
Proof.
  intros Hk H. unfold get_sint, put_sint. rewrite put_uint_length.
  rewrite get_put_uint.
  - apply to_signed_of_signed; [lia | exact H].
  - rewrite pow256. apply of_signed_bound.
Qed.

(* ---- the streaming number parsers on a written field ---- *)
Lemma firstn_app_exact {A} (a b : list A) n : n = length a -> firstn n (a ++ b) = a.
Proof. intros ->. rewrite firstn_app, Nat.sub_diag, firstn_all. cbn. apply app_nil_r. Qed.
Lemma skipn_app_exact {A} (a b : list A) n : n = length a -> skipn n (a ++ b) = b.
Proof. intros ->. rewrite skipn_app, Nat.sub_diag, skipn_all. reflexivity. Qed.

Lemma uint_put e k v rest : v < 256 ^ N.of_nat k ->
  uint e k (put_uint e k v ++ rest) = POk v rest.
Proof.
  intros H. unfold uint. rewrite len_app, len_put_uint.
  destruct (N.ltb_spec (N.of_nat k + len rest) (N.of_nat k)) as [Hlt|_]; [lia|].
  rewrite firstn_app_exact by (now rewrite put_uint_length).
  rewrite skipn_app_exact by (now rewrite put_uint_length).
  now rewrite get_put_uint.
Qed.

Lemma sint_put e k z rest : (0 < k)%nat -> in_signed (8 * N.of_nat k) z = true ->
  sint e k (put_sint e k z ++ rest) = POk z rest.
Proof.
  intros Hk H. unfold sint, put_sint, pmap.
  rewrite uint_put by (rewrite pow256; apply of_signed_bound).
  cbn [pbind]. now rewrite to_signed_of_signed by (lia || exact H).
Qed.

Lemma uint_ok_inv e k i v rest : uint e k i = POk v rest ->
  i = firstn k i ++ rest /\ length (firstn k i) = k /\ v = get_uint e (firstn k i) /\ rest = skipn k i.
Proof.
  unfold uint. destruct (N.ltb_spec (len i) (N.of_nat k)) as [|Hge]; [discriminate|].
  intros H. injection H as <- <-. unfold len in Hge.
  repeat split; [now rewrite firstn_skipn | rewrite firstn_length; lia].
Qed.

Lemma uint_short e k i : len i < N.of_nat k ->
  uint e k i = PIncomplete (Some (N.of_nat k - len i)).
Proof.
  intros H. unfold uint. destruct (N.ltb_spec (len i) (N.of_nat k)); [|lia].
  unfold needed_new. destruct (N.eqb_spec (N.of_nat k - len i) 0); [lia | reflexivity].
Qed.

Lemma uint_value_bound e k i v rest : uint e k i = POk v rest -> v < 256 ^ N.of_nat k.
Proof.
  intros H. apply uint_ok_inv in H as (_ & Hl & -> & _).
  pose proof (get_uint_bound e (firstn k i)) as Hb. unfold len in Hb. now rewrite Hl in Hb.
Qed.
