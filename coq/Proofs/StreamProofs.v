(* StreamProofs.v — the async reader delivers the cuts of Spec/ReaderSpec.v for every poll schedule,
   hence exactly what the blocking reader delivers. *)
From Coq Require Import Lia ZifyBool ZifyN ZifyNat.
From DltV.Model Require Import Bytes Nom Dlt Parse Reader Stream.
From DltV.Spec Require Import ReaderSpec.
From DltV.Proofs Require Import ReaderProofs.
Open Scope N_scope.

(* Pending plays the role Interrupted plays for the blocking source *)
Definition poll_of_rres (r : rres) : poll (list byte) :=
  match r with ROk bs => Ready bs | RInterrupted => Pending end.

Lemma asrc_poll_read_src_read : forall want s,
  asrc_poll_read want s = (poll_of_rres (fst (src_read want s)), snd (src_read want s)).
Proof.
  intros want [[|k sg] rest]; unfold asrc_poll_read, src_read; cbn [src_sched src_rest]; [reflexivity|].
  destruct (k =? 0); reflexivity.
Qed.

Lemma abr_poll_read_br_read : forall cap want br,
  abr_poll_read cap want br = (poll_of_rres (fst (br_read cap want br)), snd (br_read cap want br)).
Proof.
  intros cap want br. unfold abr_poll_read, br_read, abr_poll_fill_buf, br_fill_buf.
  destruct (is_nil (br_buf br) && (cap <=? want)).
  - rewrite asrc_poll_read_src_read. destruct (src_read want (br_src br)) as [r s']. reflexivity.
  - destruct (is_nil (br_buf br)); [|reflexivity].
    rewrite asrc_poll_read_src_read. destruct (src_read cap (br_src br)) as [[bs|] s']; reflexivity.
Qed.

(* one poll of the ReadExact future: it has moved n bytes of the view into the destination *)
Lemma rx_poll_spec : forall fuel cap want got br,
  (N.to_nat (N.min want (len (br_view br))) < fuel)%nat ->
  exists n res want' got' br',
    rx_poll fuel cap want got br = (res, (want', got'), br')
    /\ n <= want /\ n <= len (br_view br)
    /\ want' = want - n /\ got' = got ++ takeN n (br_view br)
    /\ br_view br' = dropN n (br_view br)
    /\ (length (br_sched br') <= length (br_sched br))%nat
    /\ match res with
       | RxPending => (length (br_sched br') < length (br_sched br))%nat
       | RxReady XOk => n = want
       | RxReady XEof => n = len (br_view br) /\ len (br_view br) < want
       | RxReady XFuel => False
       end.
Proof.
  induction fuel as [|fuel IH]; intros cap want got br Hf; [lia|].
  cbn [rx_poll]. destruct (want =? 0) eqn:E0.
  - exists 0, (RxReady XOk), want, got, br.
    rewrite takeN_0, dropN_0, app_nil_r. repeat split; lia.
  - assert (Hw : 0 < want) by lia.
    pose proof (br_read_spec cap want br Hw) as H.
    rewrite abr_poll_read_br_read.
    destruct (br_read cap want br) as [[bs|] br1]; cbn [fst snd poll_of_rres].
    + destruct H as (H1 & H2 & H3 & H4 & H5).
      destruct bs as [|b bs].
      * rewrite len_nil in *. pose proof (H4 eq_refl) as Hv.
        exists 0, (RxReady XEof), want, got, br1.
        rewrite takeN_0, app_nil_r. rewrite Hv in *. change (len (@nil byte)) with 0.
        repeat split; try lia; try reflexivity. exact H2.
      * set (B := b :: bs) in *.
        assert (HB : 0 < len B) by (unfold B; rewrite len_cons; lia).
        assert (HBv : len B <= len (br_view br)).
        { rewrite H1 at 1. rewrite len_takeN. lia. }
        destruct (IH cap (want - len B) (got ++ B) br1) as (n1 & res & want' & got' & br' & E & Hn1 & Hn2 & Hw' & Hg' & V & Hs & Hres).
        { rewrite H2, len_dropN. lia. }
        rewrite H2, len_dropN in *.
        exists (len B + n1), res, want', got', br'.
        split; [exact E|]. split; [lia|]. split; [lia|]. split; [lia|].
        split; [rewrite Hg', <- app_assoc, takeN_add, <- H1; reflexivity|].
        split; [rewrite V, dropN_dropN; reflexivity|].
        split; [lia|].
        destruct res as [|[| |]]; lia.
    + destruct H as (H1 & H2).
      exists 0, RxPending, want, got, br1.
      rewrite takeN_0, dropN_0, app_nil_r. repeat split; try lia; try reflexivity. exact H1.
Qed.

(* awaiting the ReadExact future: whatever the poll schedule, exactly the next [want] bytes *)
Lemma rx_await_spec : forall fuel cap want got br,
  (length (br_sched br) < fuel)%nat ->
  exists br',
    rx_await fuel cap want got br
    = ((if want <=? len (br_view br) then XOk else XEof), got ++ takeN want (br_view br), br')
    /\ br_view br' = dropN want (br_view br).
Proof.
  induction fuel as [|fuel IH]; intros cap want got br Hf; [lia|].
  cbn [rx_await].
  destruct (rx_poll_spec (rx_poll_fuel want br) cap want got br)
    as (n & res & want' & got' & br1 & E & Hn1 & Hn2 & Hw' & Hg' & V & Hs & Hres).
  { unfold rx_poll_fuel. rewrite !length_len, !len_takeN. unfold br_view. rewrite len_app. lia. }
  rewrite E. destruct res as [|[| |]].
  - destruct (IH cap want' got' br1) as (br' & E' & V'); [lia|].
    exists br'. rewrite E', V', V, len_dropN, dropN_dropN, Hw', Hg'.
    replace (n + (want - n)) with want by lia.
    replace (want - n <=? len (br_view br) - n) with (want <=? len (br_view br)) by lia.
    split; [|reflexivity]. f_equal. f_equal. rewrite <- app_assoc. f_equal.
    replace want with (n + (want - n)) at 2 by lia. rewrite takeN_add. reflexivity.
  - subst n. exists br1. replace (want <=? len (br_view br)) with true by lia.
    rewrite Hg'. split; [reflexivity|exact V].
  - destruct Hres as (-> & Hlt). exists br1. replace (want <=? len (br_view br)) with false by lia.
    rewrite Hg', V. rewrite !takeN_all, !dropN_all by lia. split; reflexivity.
  - destruct Hres.
Qed.

Lemma abr_read_exact_spec : forall cap want br,
  exists br',
    abr_read_exact cap want br
    = ((if want <=? len (br_view br) then XOk else XEof), takeN want (br_view br), br')
    /\ br_view br' = dropN want (br_view br).
Proof.
  intros cap want br. unfold abr_read_exact.
  destruct (rx_await_spec (length (br_sched br) + 1) cap want [] br) as (br' & E & V); [lia|].
  exists br'. rewrite E. split; [reflexivity|exact V].
Qed.

Lemma async_run_cap_spec : forall cap pi s f sh,
  async_run_cap cap pi s f sh = (spec_run s f sh, true).
Proof.
  intros. unfold async_run_cap, spec_run.
  rewrite (run_spec bufreader (abr_read_exact cap) br_view (abr_read_exact_spec cap)).
  - reflexivity.
  - apply len_new_scratch.
  - cbn [new_reader rd_src br_view br_buf br_src src_rest app]. lia.
Qed.

Lemma async_run_default_spec : forall pi s f sh,
  async_run_default pi s f sh = (spec_run s f sh, true).
Proof. intros. apply (async_run_cap_spec default_cap). Qed.

(* C08 *)
Lemma async_eq_blocking : forall pi s f sh,
  async_run_default pi s f sh = reader_run_default [] s f sh.
Proof. intros. now rewrite async_run_default_spec, reader_run_default_spec. Qed.

Lemma async_eq_blocking_any : forall pi sigma s f sh,
  async_run_default pi s f sh = reader_run_default sigma s f sh.
Proof. intros. now rewrite async_run_default_spec, reader_run_default_spec. Qed.

Lemma async_run_default_no_panic : forall pi s f sh,
  (forall bs, dlt_message bs f sh <> PPanic) ->
  ~ In OPanic (fst (async_run_default pi s f sh)).
Proof.
  intros pi s f sh Hd. rewrite async_run_default_spec. cbn [fst].
  apply spec_run_fuel_no_panic. exact Hd.
Qed.

Lemma async_run_pinned_panics :
  async_run_pinned [0; 1; 0] [x00; x00; x00; x02] None false = ([OPanic], true).
Proof. vm_compute. reflexivity. Qed.
