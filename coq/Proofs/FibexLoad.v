(* FibexLoad.v — running the loader over the canonical rendering of FIBEX elements collects exactly
   those elements (C11, first half), for any order of elements and any split over files. *)
From Coq Require Import Lia ZifyBool ZifyN ZifyNat.
From Coq Require Import Sorting.Permutation.
From Coq.Strings Require Import Ascii String.
From DltV.Model Require Import Bytes RustInt Dlt Fibex.
From DltV.Spec Require Import FibexSpec.
From DltV.Proofs Require Import BytesBasics FibexTerm FibexLookup FibexDenote.
Open Scope N_scope.

(* ---------- fuel-free reasoning about read_event ---------- *)
Lemma step_cont_len r r' :
  read_event_step r = SCont r' -> (length (r_events r') < length (r_events r))%nat.
Proof.
  intros H. pose proof (read_event_step_ok r) as Hs. rewrite H in Hs.
  destruct (r_events r); [discriminate|]. exact Hs.
Qed.

Lemma step_ret_len r e r' :
  read_event_step r = SRet e r' -> e <> EEof -> (length (r_events r') < length (r_events r))%nat.
Proof.
  intros H Hne. pose proof (read_event_step_ok r) as Hs. rewrite H in Hs.
  destruct (r_events r); [injection Hs as He _; subst e; exfalso; apply Hne; reflexivity|]. apply Hs.
Qed.

Lemma read_event_cont ef r r' :
  read_event_step r = SCont r' -> (length (r_events r) < ef)%nat ->
  read_event ef r = read_event ef r'.
Proof.
  intros H Hlen. pose proof (step_cont_len r r' H) as Hl.
  destruct ef as [|f]; [lia|].
  assert (E : read_event (S f) r = read_event f r') by (cbn [read_event]; rewrite H; reflexivity).
  rewrite E. symmetry. apply read_event_mono; [apply read_event_not_fuel; lia|lia].
Qed.

Lemma read_event_ret ef r e r' :
  read_event_step r = SRet e r' -> (0 < ef)%nat -> read_event ef r = ROk (e, r').
Proof. intros H Hlen. destruct ef as [|f]; [lia|]. cbn [read_event]. rewrite H. reflexivity. Qed.

(* [silent r r']: the reader gets from r to r' by loop iterations that return nothing *)
Inductive silent : reader -> reader -> Prop :=
| silent_refl r : silent r r
| silent_step r r1 r2 : read_event_step r = SCont r1 -> silent r1 r2 -> silent r r2.

Lemma silent_len r r' : silent r r' -> (length (r_events r') <= length (r_events r))%nat.
Proof.
  induction 1 as [|r r1 r2 H _ IH]; [lia|]. apply step_cont_len in H. lia.
Qed.

Lemma silent_trans r1 r2 r3 : silent r1 r2 -> silent r2 r3 -> silent r1 r3.
Proof. induction 1; intros; [assumption|]. eapply silent_step; eauto. Qed.

Lemma silent_read_event ef r r' :
  silent r r' -> (length (r_events r) < ef)%nat -> read_event ef r = read_event ef r'.
Proof.
  induction 1 as [|r r1 r2 H _ IH]; intros Hlen; [reflexivity|].
  rewrite (read_event_cont ef r r1 H Hlen). apply IH.
  apply step_cont_len in H. lia.
Qed.

(* [ev_ret r e r']: the next read_event on r returns e and leaves r' *)
Definition ev_ret (r : reader) (e : event) (r' : reader) : Prop :=
  exists r0, silent r r0 /\ read_event_step r0 = SRet e r'.

Lemma ev_ret_read_event ef r e r' :
  ev_ret r e r' -> (length (r_events r) < ef)%nat -> read_event ef r = ROk (e, r').
Proof.
  intros (r0 & Hs & Hr) Hlen. rewrite (silent_read_event ef r r0 Hs Hlen).
  apply read_event_ret; [exact Hr|lia].
Qed.

Lemma ev_ret_silent r r0 e r' : silent r r0 -> ev_ret r0 e r' -> ev_ret r e r'.
Proof. intros Hs (r1 & Hs1 & Hr). exists r1. split; [eapply silent_trans; eauto|exact Hr]. Qed.

(* ---------- computing steps on a reader whose next XML events are known ---------- *)
Ltac step_compute :=
  lazy -[usize_from_str decimal];
  repeat match goal with H : usize_from_str _ = Some _ |- _ => rewrite H end;
  lazy -[usize_from_str decimal];
  reflexivity.
Ltac run_silent :=
  repeat (eapply silent_step; [step_compute|]); apply silent_refl.
Ltac run_ev_ret :=
  eexists; split; [run_silent|step_compute].

Definition keeps (r r' : reader) : Prop :=
  r_short_name r' = r_short_name r /\ r_description r' = r_description r /\
  r_byte_length r' = r_byte_length r.

Lemma run_signal_instance r sn t sr rest :
  usize_from_str t = Some sn ->
  r_events r = [XStart (bs "SIGNAL-INSTANCE") [id_attr_of instance_id]]
               ++ text_el "SEQUENCE-NUMBER" t
               ++ [XEmpty (bs "SIGNAL-REF") [id_ref_attr_of sr]; XEnd (bs "SIGNAL-INSTANCE")] ++ rest ->
  exists r', ev_ret r (ESignalInstance instance_id sn sr) r' /\ r_events r' = rest /\ keeps r r'.
Proof.
  intros Ht He. destruct r as [evs f1 f2 f3 f4 f5 f6 f7 f8 f9 f10 f11 f12]. cbn [r_events] in He. subst evs.
  eexists. split; [run_ev_ret|]. split; [reflexivity|]. repeat split.
Qed.

Ltac open_reader r He :=
  destruct r as [evs f1 f2 f3 f4 f5 f6 f7 f8 f9 f10 f11 f12];
  cbn [r_events r_short_name r_description r_byte_length] in *; subst.

Lemma run_pdu_open r id sn desc tb bl rest :
  usize_from_str tb = Some bl ->
  r_events r = [XStart (bs "PDU") [id_attr_of id]]
               ++ text_el "SHORT-NAME" sn ++ opt_text_el "DESC" desc
               ++ text_el "BYTE-LENGTH" tb ++ text_el "PDU-TYPE" (bs "OTHER")
               ++ [XStart (bs "SIGNAL-INSTANCES") []] ++ rest ->
  exists r1 r2, read_event_step r = SRet (EPduStart id) r1 /\ silent r1 r2 /\
                r_events r2 = rest /\ r_description r2 = desc /\ r_byte_length r2 = Some bl.
Proof.
  intros Ht He. open_reader r He.
  destruct desc as [d|]; do 2 eexists; (split; [step_compute|]); (split; [run_silent|]); repeat split.
Qed.

Lemma run_pdu_close r bl rest :
  r_events r = [XEnd (bs "SIGNAL-INSTANCES"); XEnd (bs "PDU")] ++ rest ->
  r_byte_length r = Some bl ->
  exists r', ev_ret r (EPduEnd (r_short_name r) (r_description r) bl) r' /\ r_events r' = rest.
Proof.
  intros He Hb. open_reader r He.
  eexists. split; [run_ev_ret|reflexivity].
Qed.

Lemma run_frame_open r id sn tb bl rest :
  usize_from_str tb = Some bl ->
  r_events r = [XStart (bs "FRAME") [id_attr_of id]]
               ++ text_el "SHORT-NAME" sn ++ text_el "BYTE-LENGTH" tb
               ++ text_el "FRAME-TYPE" (bs "OTHER") ++ [XStart (bs "PDU-INSTANCES") []] ++ rest ->
  exists r1 r2, read_event_step r = SRet (EFrameStart id) r1 /\ silent r1 r2 /\
                r_events r2 = rest /\ r_short_name r2 = Some sn /\ r_byte_length r2 = Some bl.
Proof.
  intros Ht He. open_reader r He.
  do 2 eexists; (split; [step_compute|]); (split; [run_silent|]); repeat split.
Qed.

Lemma run_pdu_instance r sn t pr rest :
  usize_from_str t = Some sn ->
  r_events r = [XStart (bs "PDU-INSTANCE") [id_attr_of instance_id]; XEmpty (bs "PDU-REF") [id_ref_attr_of pr]]
               ++ text_el "SEQUENCE-NUMBER" t ++ [XEnd (bs "PDU-INSTANCE")] ++ rest ->
  exists r', ev_ret r (EPduInstance instance_id pr sn) r' /\ r_events r' = rest /\ keeps r r'.
Proof.
  intros Ht He. open_reader r He.
  eexists. split; [run_ev_ret|]. split; [reflexivity|]. repeat split.
Qed.

Lemma run_frame_mid r mt mi app ctx rest :
  r_events r = [XEnd (bs "PDU-INSTANCES"); XStart (bs "MANUFACTURER-EXTENSION") []]
               ++ opt_text_el "MESSAGE_TYPE" mt ++ opt_text_el "MESSAGE_INFO" mi
               ++ opt_text_el "APPLICATION_ID" app ++ opt_text_el "CONTEXT_ID" ctx
               ++ [XEnd (bs "MANUFACTURER-EXTENSION")] ++ rest ->
  exists r', ev_ret r (EManufacturerExtension mt mi app ctx) r' /\ r_events r' = rest /\ keeps r r'.
Proof.
  intros He. open_reader r He.
  destruct mt, mi, app, ctx;
    (eexists; split; [run_ev_ret|]; split; [reflexivity|]; repeat split).
Qed.

Lemma run_frame_close r sn bl rest :
  r_events r = [XEnd (bs "FRAME")] ++ rest ->
  r_short_name r = Some sn -> r_byte_length r = Some bl ->
  exists r', ev_ret r (EFrameEnd sn bl) r' /\ r_events r' = rest.
Proof.
  intros He Hs Hb. open_reader r He.
  eexists. split; [run_ev_ret|reflexivity].
Qed.

Lemma run_signal r id cr rest :
  r_events r = render_element (ElSignal id cr) ++ rest ->
  exists r', ev_ret r (ESignal id cr) r' /\ r_events r' = rest.
Proof.
  intros He. open_reader r He.
  eexists. split; [run_ev_ret|reflexivity].
Qed.

Lemma run_coding r id b rest :
  r_events r = render_element (ElCoding id b) ++ rest ->
  exists r', ev_ret r (ECoding id b) r' /\ r_events r' = rest.
Proof.
  intros He. open_reader r He.
  eexists. split; [run_ev_ret|reflexivity].
Qed.

(* ---------- fuel-free reasoning about the three loops ---------- *)
Lemma read_pdu_loop_silent ef fuel r r' acc :
  silent r r' -> (length (r_events r) < ef)%nat ->
  read_pdu_loop ef fuel r acc = read_pdu_loop ef fuel r' acc.
Proof.
  intros Hs Hlen. destruct fuel as [|f]; [reflexivity|].
  cbn [read_pdu_loop]. rewrite (silent_read_event ef r r' Hs Hlen). reflexivity.
Qed.

Lemma read_pdu_loop_instance ef fuel r r' i sn sr acc :
  read_event ef r = ROk (ESignalInstance i sn sr, r') ->
  (length (r_events r) < ef)%nat -> (length (r_events r) < fuel)%nat ->
  read_pdu_loop ef fuel r acc = read_pdu_loop ef fuel r' (acc ++ [(sn, sr)]).
Proof.
  intros He Hef Hf. destruct fuel as [|f]; [lia|].
  assert (E : read_pdu_loop ef (S f) r acc = read_pdu_loop ef f r' (acc ++ [(sn, sr)]))
    by (cbn [read_pdu_loop]; rewrite He; reflexivity).
  rewrite E. symmetry.
  apply read_event_ok_len in He. destruct He as (_ & He & _). specialize (He ltac:(discriminate)).
  apply read_pdu_loop_mono; [apply read_pdu_loop_not_fuel; lia|lia|lia].
Qed.

Lemma read_pdu_loop_end ef fuel r r' s d b acc :
  read_event ef r = ROk (EPduEnd s d b, r') -> (0 < fuel)%nat ->
  read_pdu_loop ef fuel r acc = ROk ((d, map snd (sort_by_key acc)), r').
Proof.
  intros He Hf. destruct fuel as [|f]; [lia|]. cbn [read_pdu_loop]. rewrite He. reflexivity.
Qed.

Lemma read_frame_loop_silent ef fuel r r' acc ext :
  silent r r' -> (length (r_events r) < ef)%nat ->
  read_frame_loop ef fuel r acc ext = read_frame_loop ef fuel r' acc ext.
Proof.
  intros Hs Hlen. destruct fuel as [|f]; [reflexivity|].
  cbn [read_frame_loop]. rewrite (silent_read_event ef r r' Hs Hlen). reflexivity.
Qed.

Lemma read_frame_loop_instance ef fuel r r' i pr sn acc ext :
  read_event ef r = ROk (EPduInstance i pr sn, r') ->
  (length (r_events r) < ef)%nat -> (length (r_events r) < fuel)%nat ->
  read_frame_loop ef fuel r acc ext = read_frame_loop ef fuel r' (acc ++ [(sn, pr)]) ext.
Proof.
  intros He Hef Hf. destruct fuel as [|f]; [lia|].
  assert (E : read_frame_loop ef (S f) r acc ext = read_frame_loop ef f r' (acc ++ [(sn, pr)]) ext)
    by (cbn [read_frame_loop]; rewrite He; reflexivity).
  rewrite E. symmetry.
  apply read_event_ok_len in He. destruct He as (_ & He & _). specialize (He ltac:(discriminate)).
  apply read_frame_loop_mono; [apply read_frame_loop_not_fuel; lia|lia|lia].
Qed.

Lemma read_frame_loop_ext ef fuel r r' mt mi app ctx acc ext :
  read_event ef r = ROk (EManufacturerExtension mt mi app ctx, r') ->
  (length (r_events r) < ef)%nat -> (length (r_events r) < fuel)%nat ->
  read_frame_loop ef fuel r acc ext = read_frame_loop ef fuel r' acc (ctx, app, mt, mi).
Proof.
  intros He Hef Hf. destruct fuel as [|f]; [lia|].
  assert (E : read_frame_loop ef (S f) r acc ext = read_frame_loop ef f r' acc (ctx, app, mt, mi))
    by (cbn [read_frame_loop]; rewrite He; reflexivity).
  rewrite E. symmetry.
  apply read_event_ok_len in He. destruct He as (_ & He & _). specialize (He ltac:(discriminate)).
  apply read_frame_loop_mono; [apply read_frame_loop_not_fuel; lia|lia|lia].
Qed.

Lemma read_frame_loop_end ef fuel r r' sn b acc c a t i :
  read_event ef r = ROk (EFrameEnd sn b, r') -> (0 < fuel)%nat ->
  read_frame_loop ef fuel r acc (c, a, t, i) = ROk (mkFRD sn c a t i (map snd (sort_by_key acc)), r').
Proof.
  intros He Hf. destruct fuel as [|f]; [lia|]. cbn [read_frame_loop]. rewrite He. reflexivity.
Qed.

Lemma read_file_loop_fuel ef f1 f2 r g :
  (length (r_events r) < ef)%nat -> (length (r_events r) < f1)%nat -> (length (r_events r) < f2)%nat ->
  read_file_loop ef f1 r g = read_file_loop ef f2 r g.
Proof.
  intros He H1 H2. destruct (Nat.le_ge_cases f1 f2) as [Hle|Hle].
  - symmetry. apply read_file_loop_mono; [apply read_file_loop_not_fuel; lia|lia|exact Hle].
  - apply read_file_loop_mono; [apply read_file_loop_not_fuel; lia|lia|exact Hle].
Qed.

(* ---------- one PDU element ---------- *)
Lemma seqs_ok_cons a t : seqs_ok (a :: t) = true -> fst a < 2 ^ 64 /\ seqs_ok t = true.
Proof. unfold seqs_ok. cbn [forallb]. rewrite andb_true_iff. intros [H1 H2]. split; [lia|exact H2]. Qed.

Lemma pdu_instances_run : forall sigs acc r rest ef fuel d bl,
  seqs_ok sigs = true ->
  r_events r = flat_map render_signal_instance sigs
               ++ [XEnd (bs "SIGNAL-INSTANCES"); XEnd (bs "PDU")] ++ rest ->
  r_description r = d -> r_byte_length r = Some bl ->
  (length (r_events r) < ef)%nat -> (length (r_events r) < fuel)%nat ->
  exists r', r_events r' = rest /\
             read_pdu_loop ef fuel r acc = ROk ((d, map snd (sort_by_key (acc ++ sigs))), r').
Proof.
  induction sigs as [|a t IH]; intros acc r rest ef fuel d bl Hok He Hd Hb Hef Hf.
  - cbn [flat_map List.app] in He.
    destruct (run_pdu_close r bl rest He Hb) as (r' & Hr & He').
    exists r'. split; [exact He'|]. rewrite app_nil_r.
    rewrite (read_pdu_loop_end ef fuel r r' (r_short_name r) (r_description r) bl acc);
      [rewrite Hd; reflexivity|apply ev_ret_read_event; assumption|lia].
  - apply seqs_ok_cons in Hok. destruct Hok as [Ha Hok].
    cbn [flat_map] in He. unfold render_signal_instance at 1 in He. rewrite <- !app_assoc in He.
    destruct (run_signal_instance r (fst a) (decimal (fst a)) (snd a) _
                (usize_from_str_decimal _ Ha) He) as (r' & Hr & He' & (_ & Hk2 & Hk3)).
    pose proof (ev_ret_read_event ef r _ r' Hr Hef) as Hre.
    rewrite (read_pdu_loop_instance ef fuel r r' _ _ _ acc Hre Hef Hf).
    assert (Hlen : (length (r_events r') < length (r_events r))%nat).
    { apply read_event_ok_len in Hre. apply Hre. discriminate. }
    destruct (IH (acc ++ [(fst a, snd a)]) r' rest ef fuel d bl Hok He'
                 ltac:(congruence) ltac:(congruence) ltac:(lia) ltac:(lia)) as (r'' & He'' & Hrun).
    exists r''. split; [exact He''|]. rewrite Hrun.
    destruct a as [sn sr]. cbn [fst snd]. rewrite <- app_assoc. reflexivity.
Qed.

Lemma file_loop_pdu p r rest g ef fuel :
  element_ok (ElPdu p) = true ->
  r_events r = render_pdu p ++ rest ->
  (length (r_events r) < ef)%nat -> (length (r_events r) < fuel)%nat ->
  exists r', r_events r' = rest /\
             read_file_loop ef fuel r g = read_file_loop ef fuel r' (gather_step g (ElPdu p)).
Proof.
  intros Hok He Hef Hf. cbn [element_ok] in Hok. rewrite !andb_true_iff in Hok.
  destruct Hok as [[[_ _] Hbl] Hseq].
  unfold render_pdu in He. rewrite <- !app_assoc in He.
  destruct (run_pdu_open r (ap_id p) (ap_short_name p) (ap_desc p) (decimal (ap_byte_length p))
              (ap_byte_length p) _ (usize_from_str_decimal (ap_byte_length p) ltac:(lia)) He)
    as (r1 & r2 & Hstep & Hsil & He2 & Hd2 & Hb2).
  pose proof (step_ret_len r _ r1 Hstep ltac:(discriminate)) as Hl1.
  pose proof (silent_len r1 r2 Hsil) as Hl2.
  destruct (pdu_instances_run (ap_signals p) [] r2 rest ef ef (ap_desc p) (ap_byte_length p)
              Hseq He2 Hd2 Hb2 ltac:(lia) ltac:(lia)) as (r' & He' & Hrun).
  exists r'. split; [exact He'|].
  assert (Hl3 : (length (r_events r') <= length (r_events r2))%nat)
    by (apply (read_pdu_loop_ok_len ef ef r2 [] _ r' Hrun)).
  destruct fuel as [|f]; [lia|].
  assert (E : read_file_loop ef (S f) r g = read_file_loop ef f r' (gather_step g (ElPdu p))).
  { cbn [read_file_loop]. rewrite (read_event_ret ef r _ r1 Hstep ltac:(lia)).
    unfold read_pdu. rewrite (read_pdu_loop_silent ef ef r1 r2 [] Hsil ltac:(lia)), Hrun.
    reflexivity. }
  rewrite E. apply read_file_loop_fuel; lia.
Qed.

(* ---------- one FRAME element ---------- *)
Lemma frame_instances_run : forall pdus acc r rest ef fuel ext sn bl mt mi app ctx,
  seqs_ok pdus = true ->
  r_events r = flat_map render_pdu_instance pdus
               ++ [XEnd (bs "PDU-INSTANCES"); XStart (bs "MANUFACTURER-EXTENSION") []]
               ++ opt_text_el "MESSAGE_TYPE" mt ++ opt_text_el "MESSAGE_INFO" mi
               ++ opt_text_el "APPLICATION_ID" app ++ opt_text_el "CONTEXT_ID" ctx
               ++ [XEnd (bs "MANUFACTURER-EXTENSION")] ++ [XEnd (bs "FRAME")] ++ rest ->
  r_short_name r = Some sn -> r_byte_length r = Some bl ->
  (length (r_events r) < ef)%nat -> (length (r_events r) < fuel)%nat ->
  exists r', r_events r' = rest /\
             read_frame_loop ef fuel r acc ext =
             ROk (mkFRD sn ctx app mt mi (map snd (sort_by_key (acc ++ pdus))), r').
Proof.
  induction pdus as [|a t IH]; intros acc r rest ef fuel ext sn bl mt mi app ctx Hok He Hs Hb Hef Hf.
  - cbn [flat_map List.app] in He.
    change ([XEnd (bs "PDU-INSTANCES"); XStart (bs "MANUFACTURER-EXTENSION") []]
            ++ opt_text_el "MESSAGE_TYPE" mt ++ opt_text_el "MESSAGE_INFO" mi
            ++ opt_text_el "APPLICATION_ID" app ++ opt_text_el "CONTEXT_ID" ctx
            ++ [XEnd (bs "MANUFACTURER-EXTENSION")] ++ [XEnd (bs "FRAME")] ++ rest)
      with (XEnd (bs "PDU-INSTANCES") :: XStart (bs "MANUFACTURER-EXTENSION") []
            :: (opt_text_el "MESSAGE_TYPE" mt ++ opt_text_el "MESSAGE_INFO" mi
            ++ opt_text_el "APPLICATION_ID" app ++ opt_text_el "CONTEXT_ID" ctx
            ++ [XEnd (bs "MANUFACTURER-EXTENSION")] ++ [XEnd (bs "FRAME")] ++ rest)) in He.
    destruct (run_frame_mid r mt mi app ctx ([XEnd (bs "FRAME")] ++ rest) He)
      as (r1 & Hr1 & He1 & (Hk1 & _ & Hk3)).
    pose proof (ev_ret_read_event ef r _ r1 Hr1 Hef) as Hre1.
    rewrite (read_frame_loop_ext ef fuel r r1 _ _ _ _ acc ext Hre1 Hef Hf).
    assert (Hlen : (length (r_events r1) < length (r_events r))%nat).
    { apply read_event_ok_len in Hre1. apply Hre1. discriminate. }
    destruct (run_frame_close r1 sn bl rest He1 ltac:(congruence) ltac:(congruence)) as (r' & Hr' & He').
    exists r'. split; [exact He'|]. rewrite app_nil_r.
    apply read_frame_loop_end with (b := bl); [apply ev_ret_read_event; [exact Hr'|lia]|lia].
  - apply seqs_ok_cons in Hok. destruct Hok as [Ha Hok].
    cbn [flat_map] in He. unfold render_pdu_instance at 1 in He. rewrite <- !app_assoc in He.
    destruct (run_pdu_instance r (fst a) (decimal (fst a)) (snd a) _
                (usize_from_str_decimal _ Ha) He) as (r' & Hr & He' & (Hk1 & _ & Hk3)).
    pose proof (ev_ret_read_event ef r _ r' Hr Hef) as Hre.
    rewrite (read_frame_loop_instance ef fuel r r' _ _ _ acc ext Hre Hef Hf).
    assert (Hlen : (length (r_events r') < length (r_events r))%nat).
    { apply read_event_ok_len in Hre. apply Hre. discriminate. }
    destruct (IH (acc ++ [(fst a, snd a)]) r' rest ef fuel ext sn bl mt mi app ctx Hok He'
                 ltac:(congruence) ltac:(congruence) ltac:(lia) ltac:(lia)) as (r'' & He'' & Hrun).
    exists r''. split; [exact He''|]. rewrite Hrun.
    destruct a as [sq pr]. cbn [fst snd]. rewrite <- app_assoc. reflexivity.
Qed.

Lemma file_loop_frame f r rest g ef fuel :
  element_ok (ElFrame f) = true ->
  r_events r = render_frame f ++ rest ->
  (length (r_events r) < ef)%nat -> (length (r_events r) < fuel)%nat ->
  exists r', r_events r' = rest /\
             read_file_loop ef fuel r g = read_file_loop ef fuel r' (gather_step g (ElFrame f)).
Proof.
  intros Hok He Hef Hf. cbn [element_ok] in Hok. rewrite !andb_true_iff in Hok.
  destruct Hok as [[[[[[_ Hbl] _] _] _] _] Hseq].
  unfold render_frame in He. rewrite <- !app_assoc in He.
  destruct (run_frame_open r (af_id f) (af_short_name f) (decimal (af_byte_length f))
              (af_byte_length f) _ (usize_from_str_decimal (af_byte_length f) ltac:(lia)) He)
    as (r1 & r2 & Hstep & Hsil & He2 & Hs2 & Hb2).
  pose proof (step_ret_len r _ r1 Hstep ltac:(discriminate)) as Hl1.
  pose proof (silent_len r1 r2 Hsil) as Hl2.
  destruct (frame_instances_run (af_pdus f) [] r2 rest ef ef (None, None, None, None)
              (af_short_name f) (af_byte_length f) (af_message_type f) (af_message_info f)
              (af_application_id f) (af_context_id f)
              Hseq He2 Hs2 Hb2 ltac:(lia) ltac:(lia)) as (r' & He' & Hrun).
  exists r'. split; [exact He'|].
  assert (Hl3 : (length (r_events r') <= length (r_events r2))%nat)
    by (apply (read_frame_loop_ok_len ef ef r2 [] _ _ r' Hrun)).
  destruct fuel as [|fu]; [lia|].
  assert (E : read_file_loop ef (S fu) r g = read_file_loop ef fu r' (gather_step g (ElFrame f))).
  { cbn [read_file_loop]. rewrite (read_event_ret ef r _ r1 Hstep ltac:(lia)).
    unfold read_frame. rewrite (read_frame_loop_silent ef ef r1 r2 [] _ Hsil ltac:(lia)), Hrun.
    reflexivity. }
  rewrite E. apply read_file_loop_fuel; lia.
Qed.

(* ---------- SIGNAL and CODING elements ---------- *)
Lemma file_loop_signal id cr r rest g ef fuel :
  r_events r = render_element (ElSignal id cr) ++ rest ->
  (length (r_events r) < ef)%nat -> (length (r_events r) < fuel)%nat ->
  exists r', r_events r' = rest /\
             read_file_loop ef fuel r g = read_file_loop ef fuel r' (gather_step g (ElSignal id cr)).
Proof.
  intros He Hef Hf. destruct (run_signal r id cr rest He) as (r' & Hr & He').
  pose proof (ev_ret_read_event ef r _ r' Hr Hef) as Hre.
  exists r'. split; [exact He'|].
  assert (Hlen : (length (r_events r') < length (r_events r))%nat).
  { apply read_event_ok_len in Hre. apply Hre. discriminate. }
  destruct fuel as [|fu]; [lia|].
  assert (E : read_file_loop ef (S fu) r g = read_file_loop ef fu r' (gather_step g (ElSignal id cr)))
    by (cbn [read_file_loop]; rewrite Hre; reflexivity).
  rewrite E. apply read_file_loop_fuel; lia.
Qed.

Lemma file_loop_coding id b r rest g ef fuel :
  r_events r = render_element (ElCoding id b) ++ rest ->
  (length (r_events r) < ef)%nat -> (length (r_events r) < fuel)%nat ->
  exists r', r_events r' = rest /\
             read_file_loop ef fuel r g = read_file_loop ef fuel r' (gather_step g (ElCoding id b)).
Proof.
  intros He Hef Hf. destruct (run_coding r id b rest He) as (r' & Hr & He').
  pose proof (ev_ret_read_event ef r _ r' Hr Hef) as Hre.
  exists r'. split; [exact He'|].
  assert (Hlen : (length (r_events r') < length (r_events r))%nat).
  { apply read_event_ok_len in Hre. apply Hre. discriminate. }
  destruct fuel as [|fu]; [lia|].
  assert (E : read_file_loop ef (S fu) r g = read_file_loop ef fu r' (gather_step g (ElCoding id b)))
    by (cbn [read_file_loop]; rewrite Hre; reflexivity).
  rewrite E. apply read_file_loop_fuel; lia.
Qed.

(* ---------- a whole file, all files ---------- *)
Lemma file_loop_elements : forall els r rest g ef fuel,
  elements_ok els = true ->
  r_events r = flat_map render_element els ++ rest ->
  (length (r_events r) < ef)%nat -> (length (r_events r) < fuel)%nat ->
  exists r', r_events r' = rest /\
             read_file_loop ef fuel r g = read_file_loop ef fuel r' (gathered_of els g).
Proof.
  induction els as [|e t IH]; intros r rest g ef fuel Hok He Hef Hf.
  - exists r. split; [exact He|reflexivity].
  - unfold elements_ok in Hok. cbn [forallb] in Hok. apply andb_true_iff in Hok. destruct Hok as [Hoke Hokt].
    cbn [flat_map] in He. rewrite <- app_assoc in He.
    assert (H1 : exists r1, r_events r1 = flat_map render_element t ++ rest /\
                            read_file_loop ef fuel r g = read_file_loop ef fuel r1 (gather_step g e)).
    { destruct e as [p|f|id cr|id b].
      - apply file_loop_pdu; assumption.
      - apply file_loop_frame; assumption.
      - apply file_loop_signal; assumption.
      - apply file_loop_coding; assumption. }
    destruct H1 as (r1 & He1 & Hrun1).
    assert (Hlen : (length (r_events r1) <= length (r_events r))%nat).
    { rewrite He, He1, !app_length. lia. }
    destruct (IH r1 rest (gather_step g e) ef fuel Hokt He1 ltac:(lia) ltac:(lia)) as (r' & He' & Hrun).
    exists r'. split; [exact He'|]. rewrite Hrun1, Hrun. reflexivity.
Qed.

Lemma file_loop_rendered els g ef :
  elements_ok els = true ->
  (length (flat_map render_element els) < ef)%nat ->
  read_file_loop ef ef (reader_from_events (flat_map render_element els)) g = ROk (gathered_of els g).
Proof.
  intros Hok Hef.
  destruct (file_loop_elements els (reader_from_events (flat_map render_element els)) [] g ef ef Hok)
    as (r' & He' & Hrun).
  - cbn [reader_from_events r_events]. rewrite app_nil_r. reflexivity.
  - exact Hef.
  - exact Hef.
  - rewrite Hrun. destruct ef as [|f]; [lia|].
    cbn [read_file_loop]. rewrite (read_event_eof f r' He'). reflexivity.
Qed.

Lemma elements_ok_app a b : elements_ok (a ++ b) = elements_ok a && elements_ok b.
Proof. apply forallb_app. Qed.

Lemma read_files_rendered : forall (l : layout) g ef,
  elements_ok (concat l) = true ->
  (max_events (files_of l) < ef)%nat ->
  read_files ef (files_of l) g = ROk (gathered_of (concat l) g).
Proof.
  induction l as [|els t IH]; intros g ef Hok Hef; [reflexivity|].
  cbn [concat] in Hok. rewrite elements_ok_app in Hok. apply andb_true_iff in Hok.
  destruct Hok as [Hok1 Hok2].
  cbn [files_of map read_files concat]. cbn [files_of map max_events file_events] in Hef.
  rewrite (file_loop_rendered els g ef Hok1 ltac:(lia)).
  rewrite gathered_of_app. apply IH; [exact Hok2|]. unfold files_of. lia.
Qed.

(* ---------- the loader on rendered documents ---------- *)
Theorem load_rendered (l : layout) :
  l <> [] -> elements_ok (concat l) = true ->
  match denote (concat l) with
  | Some d => exists m, gather_fibex_data (files_of l) = Some m /\ meta_equiv m d
  | None => load (files_of l) = Refused /\ gather_fibex_data (files_of l) = None
  end.
Proof.
  intros Hne Hok.
  assert (Hload : load (files_of l) =
                  match assemble (gathered_of (concat l) gathered_empty) with
                  | Some m => Loaded m
                  | None => Refused
                  end).
  { unfold load, load_fuel, read_fibexes.
    destruct l as [|els t]; [contradiction|].
    change (files_of (els :: t)) with (FileEvents (flat_map render_element els) :: files_of t) at 1.
    cbv iota.
    rewrite (read_files_rendered (els :: t) gathered_empty _ Hok).
    - destruct (assemble _); reflexivity.
    - pose proof (max_events_le_total (files_of (els :: t))). unfold fuel_bound. lia. }
  pose proof (assemble_denote (concat l)) as Had.
  unfold gather_fibex_data. rewrite Hload.
  destruct (assemble (gathered_of (concat l) gathered_empty)) as [m|];
    destruct (denote (concat l)) as [d|]; try contradiction.
  - exists m. split; [reflexivity|exact Had].
  - split; reflexivity.
Qed.
