(* Proofs/TimeStamp.v — C17: DltTimeStamp::from_ms / from_us. *)
From Coq Require Import Lia ZifyBool ZifyN.
From DltV.Model Require Import Bytes RustInt Dlt.
Open Scope N_scope.
Ltac Zify.zify_post_hook ::= Z.div_mod_to_equations.

Lemma from_ms_spec ms :
  ms / 1000 < 2 ^ 32 ->
  exists t, from_ms ms = Val t /\ ts_secs t * 1000000 + ts_micros t = ms * 1000 /\ ts_micros t < 1000000.
Proof.
  intros Hg. unfold from_ms, mul_chk, wrap, chk_bind.
  assert (H32 : 2 ^ 32 = 4294967296) by reflexivity. rewrite H32 in *.
  assert (Hm : (ms mod 1000) mod 4294967296 = ms mod 1000) by (apply N.mod_small; lia).
  rewrite Hm.
  destruct (N.ltb_spec (ms mod 1000 * 1000) 4294967296) as [_|Hbad]; [|lia].
  eexists; split; [reflexivity|]. cbn [ts_secs ts_micros].
  rewrite (N.mod_small (ms / 1000)) by lia. lia.
Qed.

Lemma from_us_spec us :
  us / 1000000 < 2 ^ 32 ->
  exists t, from_us us = Val t /\ ts_secs t * 1000000 + ts_micros t = us /\ ts_micros t < 1000000.
Proof.
  intros Hg. unfold from_us, wrap.
  assert (H32 : 2 ^ 32 = 4294967296) by reflexivity. rewrite H32 in *.
  eexists; split; [reflexivity|]. cbn [ts_secs ts_micros].
  rewrite (N.mod_small (us / 1000000)) by lia.
  rewrite (N.mod_small (us mod 1000000)) by lia. lia.
Qed.
