(* Proofs/Consumption.v — C04 (a successful parse consumes exactly the declared message) and the
   panic-freedom of the message parser (part of C03). *)
From Coq Require Import Lia ZifyBool ZifyN ZifyNat.
From DltV.Model Require Import Bytes RustInt Utf8 Nom Dlt Parse.
From DltV.Proofs Require Import BytesBasics Fields Utf8Lemmas ZString Codes ParseLemmas Search.
Open Scope N_scope.

(* the big-endian length field of a standard header starting at [bs] *)
Definition declared_len (bs : list byte) : N := get_uint BE (firstn 2 (skipn 2 bs)).
Definition htyp_of (bs : list byte) : N := b2n (hd x00 bs).

Lemma declared_len_eq htyp mcnt overall tail :
  overall < 65536 -> declared_len (n2b htyp :: n2b mcnt :: put_uint BE 2 overall ++ tail) = overall.
Proof.
  intros H. unfold declared_len. cbn [skipn].
  rewrite firstn_app_exact by (now rewrite put_uint_length).
  apply get_put_uint. exact H.
Qed.

(* ---------- no panic ---------- *)
Ltac nopanic :=
  repeat first
    [ apply uint_no_panic | apply sint_no_panic | apply take_no_panic | apply tag_no_panic
    | apply zstring_no_panic | apply dlt_standard_header_no_panic | apply dlt_extended_header_no_panic
    | apply pmap_no_panic
    | (apply pbind_no_panic; [|intros ? ?])
    | discriminate ].

Lemma dlt_variable_name_no_panic e i : dlt_variable_name e i <> PPanic.
Proof. unfold dlt_variable_name. nopanic. Qed.
Lemma dlt_variable_name_and_unit_no_panic e t i : dlt_variable_name_and_unit e t i <> PPanic.
Proof. unfold dlt_variable_name_and_unit. destruct (ti_var_info t); nopanic. Qed.
Lemma dlt_uint_no_panic e w i : dlt_uint e w i <> PPanic.
Proof. destruct w; unfold dlt_uint, u8; nopanic. Qed.
Lemma dlt_sint_no_panic e w i : dlt_sint e w i <> PPanic.
Proof. destruct w; unfold dlt_sint; nopanic. Qed.
Lemma dlt_fint_no_panic e w i : dlt_fint e w i <> PPanic.
Proof. destruct w; unfold dlt_fint; nopanic. Qed.
Lemma dlt_type_info_no_panic e i : dlt_type_info e i <> PPanic.
Proof.
  unfold dlt_type_info. apply pbind_no_panic; [apply uint_no_panic|]. intros info r.
  now destruct (ti_decode info).
Qed.
Lemma dlt_fixed_point_no_panic e w i : dlt_fixed_point e w i <> PPanic.
Proof.
  unfold dlt_fixed_point. apply pbind_no_panic; [apply uint_no_panic|]. intros q r.
  destruct w; nopanic.
Qed.
Lemma opt_name_no_panic e (c : bool) i :
  (if c then pmap Some (dlt_variable_name e i) else POk (@None (list byte)) i) <> PPanic.
Proof. destruct c; [apply pmap_no_panic, dlt_variable_name_no_panic | discriminate]. Qed.

Lemma dlt_argument_no_panic e i : dlt_argument e i <> PPanic.
Proof.
  unfold dlt_argument. apply pbind_no_panic; [apply dlt_type_info_no_panic|]. intros t r.
  destruct (ti_kind_of t);
    repeat first
      [ apply dlt_variable_name_and_unit_no_panic | apply dlt_sint_no_panic | apply dlt_uint_no_panic
      | apply dlt_fint_no_panic | apply dlt_fixed_point_no_panic | apply opt_name_no_panic
      | apply uint_no_panic | apply take_no_panic | apply zstring_no_panic
      | (apply pbind_no_panic; [|intros ? ?]) | discriminate ].
Qed.

Lemma count_no_panic {A} (p : list byte -> pres A) n i :
  (forall i, p i <> PPanic) -> count p n i <> PPanic.
Proof.
  intros Hp. revert i; induction n as [|n IH]; intros i; cbn [count]; [discriminate|].
  apply pbind_no_panic; [apply Hp|]. intros a r.
  apply pbind_no_panic; [apply IH|]. discriminate.
Qed.

Lemma dlt_payload_no_panic e i verbose pl noar mt : dlt_payload e i verbose pl noar mt <> PPanic.
Proof.
  unfold dlt_payload. destruct verbose.
  - apply pbind_no_panic; [apply take_no_panic|]. intros pbytes r.
    pose proof (count_no_panic (dlt_argument e) (N.to_nat noar) pbytes (dlt_argument_no_panic e)) as C.
    destruct (count (dlt_argument e) (N.to_nat noar) pbytes); try discriminate; [|congruence].
    destruct mt as [[]|]; discriminate.
  - assert (NV : (if pl <? 4 then PFailure
                 else let* (id, i1) := uint e 4 i in let* (bs, rest) := take (pl - 4) i1 in POk (PNonVerbose id bs) rest)
                <> PPanic).
    { destruct (pl <? 4); [discriminate|]. nopanic. }
    destruct mt as [[]|]; try exact NV.
    destruct (pl <? 1); [discriminate|].
    apply pbind_no_panic; [destruct i; discriminate|]. intros. nopanic.
Qed.

Lemma dlt_storage_header_no_panic i : dlt_storage_header i <> PPanic.
Proof.
  unfold dlt_storage_header. destruct (len i <? 16); [discriminate|].
  destruct (forward_to_next_storage_header i) as [[c r]|]; [|discriminate]. nopanic.
Qed.

Lemma dlt_message_after_no_panic shs after f : dlt_message_after shs after f <> PPanic.
Proof.
  unfold dlt_message_after. apply pbind_no_panic; [apply dlt_standard_header_no_panic|]. intros h r.
  apply pbind_no_panic.
  - destruct (h_has_ext h); [apply pmap_no_panic, dlt_extended_header_no_panic | discriminate].
  - intros ext r2. destruct (validated_payload_length h (len after)); try discriminate.
    destruct (filtered_out ext f (h_ecu h)).
    + nopanic.
    + apply pbind_no_panic; [apply dlt_payload_no_panic | discriminate].
Qed.

Lemma dlt_message_no_panic bs f sh : dlt_message bs f sh <> PPanic.
Proof.
  unfold dlt_message. apply pbind_no_panic.
  - destruct sh; [apply dlt_storage_header_no_panic | discriminate].
  - intros. apply dlt_message_after_no_panic.
Qed.

Lemma skip_storage_header_ok i n rest : skip_storage_header i = POk n rest -> n = 16 /\ splits i rest 16.
Proof.
  unfold skip_storage_header. intros H.
  apply pbind_ok_inv in H as (t1 & i1 & E1 & H).
  apply pbind_ok_inv in H as (t2 & i2 & E2 & H).
  apply pbind_ok_inv in H as (t3 & i3 & E3 & H).
  pose proof (splits_trans _ _ _ _ _ (tag_splits _ _ _ _ E1)
    (splits_trans _ _ _ _ _ (tag_splits _ _ _ _ E2) (proj1 (take_ok_inv _ _ _ _ E3)))) as S.
  destruct (len i <? len i3); [discriminate|].
  destruct (len i - len i3 =? 16); [|discriminate]. injection H as <- <-. split; [reflexivity | exact S].
Qed.
Lemma skip_storage_header_no_panic i : skip_storage_header i <> PPanic.
Proof.
  unfold skip_storage_header. intros H.
  destruct (tag [x44; x4c; x54] i) as [t1 i1| | | |] eqn:E1; cbn [pbind] in H; try discriminate; try (now apply tag_no_panic in E1).
  destruct (tag [x01] i1) as [t2 i2| | | |] eqn:E2; cbn [pbind] in H; try discriminate; try (now apply tag_no_panic in E2).
  destruct (take 12 i2) as [t3 i3| | | |] eqn:E3; cbn [pbind] in H; try discriminate; try (now apply take_no_panic in E3).
  pose proof (splits_len _ _ _ (splits_trans _ _ _ _ _ (tag_splits _ _ _ _ E1)
    (splits_trans _ _ _ _ _ (tag_splits _ _ _ _ E2) (proj1 (take_ok_inv _ _ _ _ E3))))) as L.
  change (len [x44; x4c; x54]) with 3 in L. change (len [x01]) with 1 in L.
  destruct (N.ltb_spec (len i) (len i3)); [lia|].
  destruct (len i - len i3 =? 16); discriminate.
Qed.

Lemma dlt_consume_msg_no_panic i : dlt_consume_msg i <> PPanic.
Proof.
  unfold dlt_consume_msg. destruct i as [|b i]; [discriminate|].
  apply pbind_no_panic; [apply skip_storage_header_no_panic|]. intros. nopanic.
Qed.

(* ---------- consumption ---------- *)
Lemma dlt_payload_splits e i verbose pl noar mt p rest :
  dlt_payload e i verbose pl noar mt = POk p rest -> splits i rest pl.
Proof.
  unfold dlt_payload. destruct verbose.
  - intros H. apply pbind_ok_inv in H as (pb & r & E & H). apply take_ok_inv in E as [S _].
    destruct (count (dlt_argument e) (N.to_nat noar) pb); try discriminate.
    destruct mt as [[]|]; injection H as _ <-; exact S.
  - assert (NV : (if pl <? 4 then PFailure
                 else let* (id, i1) := uint e 4 i in let* (bs, rest) := take (pl - 4) i1 in POk (PNonVerbose id bs) rest)
                = POk p rest -> splits i rest pl).
    { destruct (N.ltb_spec pl 4) as [|Hpl]; [discriminate|]. intros Hq.
      apply pbind_ok_inv in Hq as (id & i1 & E1 & Hq). apply pbind_ok_inv in Hq as (bs & r & E2 & Hq).
      injection Hq as _ <-.
      pose proof (splits_trans _ _ _ _ _ (uint_splits _ _ _ _ _ E1) (proj1 (take_ok_inv _ _ _ _ E2))) as S.
      replace pl with (N.of_nat 4 + (pl - 4)) by lia. exact S. }
    destruct mt as [[]|]; try exact NV.
    destruct (N.ltb_spec pl 1) as [|Hpl]; [discriminate|]. intros Hq.
    apply pbind_ok_inv in Hq as (id & i1 & E1 & Hq). apply pbind_ok_inv in Hq as (bs & r & E2 & Hq).
    injection Hq as _ <-.
    assert (S1 : splits i i1 1).
    { destruct i as [|b i]; [discriminate|]. injection E1 as _ <-. now exists [b]. }
    pose proof (splits_trans _ _ _ _ _ S1 (proj1 (take_ok_inv _ _ _ _ E2))) as S.
    replace pl with (1 + (pl - 1)) by lia. exact S.
Qed.

(* after the storage header: exactly the declared length is consumed *)
Lemma dlt_message_after_consumes shs after f pm rest :
  dlt_message_after shs after f = POk pm rest ->
  splits after rest (declared_len after) /\ 4 <= declared_len after /\ pm <> Invalid /\
  (forall n, pm = FilteredOut n -> n = declared_len after - calculate_all_headers_length (htyp_of after)).
Proof.
  unfold dlt_message_after. intros H.
  apply pbind_ok_inv in H as (h & after_std & Eh & H).
  destruct (dlt_standard_header_ok _ _ _ Eh) as (htyp & mcnt & overall & tail & F).
  destruct (std_facts_overall _ _ _ _ _ _ _ F) as [Ov _].
  pose proof (sf_input _ _ _ _ _ _ _ F) as Hin.
  assert (DL : declared_len after = overall)
    by (rewrite Hin; apply declared_len_eq, (sf_overall_lt _ _ _ _ _ _ _ F)).
  assert (HT : htyp_of after = htyp).
  { rewrite Hin. unfold htyp_of. cbn [hd]. rewrite b2n_n2b. apply N.mod_small, (sf_htyp_lt _ _ _ _ _ _ _ F). }
  pose proof (sf_headers_le _ _ _ _ _ _ _ F) as Hle.
  pose proof (sf_splits _ _ _ _ _ _ _ F) as Sstd.
  apply pbind_ok_inv in H as (ext & after_headers & Ee & H).
  assert (Sext : splits after_std after_headers (if flag htyp 1 then 10 else 0)).
  { rewrite (sf_has_ext _ _ _ _ _ _ _ F) in Ee. destruct (flag htyp 1).
    - apply pmap_ok_inv in Ee as (x & Ex & _). eapply dlt_extended_header_splits, Ex.
    - injection Ee as _ <-. apply splits_refl. }
  unfold validated_payload_length in H. rewrite Ov, (sf_type_byte _ _ _ _ _ _ _ F) in H.
  destruct (N.ltb_spec overall (calculate_all_headers_length htyp)) as [|_]; [lia|].
  destruct (N.ltb_spec (len after) overall) as [|Hfit]; [discriminate|].
  rewrite DL, HT.
  assert (H4 : 4 <= overall) by (unfold calculate_all_headers_length, calculate_standard_header_length in Hle; lia).
  assert (Sum : forall r, splits after_headers r (overall - calculate_all_headers_length htyp) ->
                          splits after r overall).
  { intros r Sr. pose proof (splits_trans _ _ _ _ _ Sstd (splits_trans _ _ _ _ _ Sext Sr)) as S.
    replace overall with (calculate_standard_header_length htyp +
      ((if flag htyp 1 then 10 else 0) + (overall - calculate_all_headers_length htyp))); [exact S|].
    unfold calculate_all_headers_length in *. lia. }
  destruct (filtered_out ext f (h_ecu h)).
  - apply pbind_ok_inv in H as (x & am & Et & H). injection H as <- <-.
    apply take_ok_inv in Et as [St _]. repeat split; [now apply Sum | exact H4 | discriminate|].
    intros n Hn. now injection Hn as <-.
  - apply pbind_ok_inv in H as (p & r & Ep & H). injection H as <- <-.
    apply dlt_payload_splits in Ep. repeat split; [now apply Sum | exact H4 | discriminate | discriminate].
Qed.

(* with or without storage header *)
Definition located (sh : bool) (bs : list byte) (skip : N) (after : list byte) : Prop :=
  if sh then find_pattern bs = Some (N.to_nat skip) /\ 16 <= len (skipn (N.to_nat skip) bs)
             /\ after = skipn (N.to_nat skip + 16) bs
  else skip = 0 /\ after = bs.

Lemma dlt_storage_header_ok bs shs after :
  dlt_storage_header bs = POk shs after ->
  (shs = None /\ after = [] /\ find_pattern bs = None) \/
  (exists s k, shs = Some (s, k) /\ find_pattern bs = Some (N.to_nat k) /\
               splits (skipn (N.to_nat k) bs) after 16).
Proof.
  unfold dlt_storage_header, forward_to_next_storage_header.
  destruct (len bs <? 16); [discriminate|].
  destruct (find_pattern bs) as [k|] eqn:Fp.
  - intros H. right.
    apply pbind_ok_inv in H as (t1 & i1 & E1 & H). apply pbind_ok_inv in H as (t2 & i2 & E2 & H).
    apply pbind_ok_inv in H as (secs & i3 & E3 & H). apply pbind_ok_inv in H as (mic & i4 & E4 & H).
    apply pbind_ok_inv in H as (ecu & i5 & E5 & H). injection H as <- <-.
    eexists _, (N.of_nat k). rewrite Nat2N.id. split; [reflexivity|]. split; [reflexivity|].
    exact (splits_trans _ _ _ _ _ (tag_splits _ _ _ _ E1) (splits_trans _ _ _ _ _ (tag_splits _ _ _ _ E2)
      (splits_trans _ _ _ _ _ (uint_splits _ _ _ _ _ E3) (splits_trans _ _ _ _ _ (uint_splits _ _ _ _ _ E4)
      (zstring_splits _ _ _ _ E5))))).
  - intros H. injection H as <- <-. now left.
Qed.

Lemma skipn_skipn_plus {A} a b (l : list A) : skipn b (skipn a l) = skipn (a + b) l.
Proof. apply skipn_skipn_add. Qed.

Theorem dlt_message_consumes bs f sh pm rest :
  dlt_message bs f sh = POk pm rest ->
  exists skip after, located sh bs skip after /\
    splits bs rest (skip + (if sh then 16 else 0) + declared_len after) /\
    4 <= declared_len after /\ pm <> Invalid /\
    (forall n, pm = FilteredOut n -> n = declared_len after - calculate_all_headers_length (htyp_of after)).
Proof.
  unfold dlt_message. intros H. apply pbind_ok_inv in H as (shs & after & Es & H).
  destruct sh.
  - apply dlt_storage_header_ok in Es as [(-> & -> & _)|(s & k & -> & Fp & S16)].
    + exfalso. unfold dlt_message_after, dlt_standard_header in H. discriminate.
    + apply dlt_message_after_consumes in H as (Sa & H4 & Hinv & Hf).
      exists k, after. split; [|split; [|auto]].
      * unfold located. split; [exact Fp|].
        pose proof (splits_len _ _ _ S16) as L16. split; [lia|].
        destruct (splits_firstn _ _ _ S16) as [_ E]. rewrite E. change (N.to_nat 16) with 16%nat.
        apply skipn_skipn_plus.
      * assert (Sk : splits bs (skipn (N.to_nat k) bs) k).
        { apply splits_of_firstn.
          apply find_pattern_some in Fp as [(r & Hr) _].
          assert (len (skipn (N.to_nat k) bs) <> 0) by (rewrite Hr; discriminate).
          rewrite len_skipn in *. lia. }
        pose proof (splits_trans _ _ _ _ _ Sk (splits_trans _ _ _ _ _ S16 Sa)) as S.
        now rewrite N.add_assoc in S.
  - injection Es as <- <-. apply dlt_message_after_consumes in H as (Sa & H4 & Hinv & Hf).
    exists 0, bs. split; [now split|]. split; [|auto]. now rewrite !N.add_0_l.
Qed.

(* the skipper *)
Theorem dlt_consume_msg_consumes bs c rest :
  dlt_consume_msg bs = POk (Some c) rest ->
  c = 16 + declared_len (skipn 16 bs) /\ splits bs rest c /\ 0 < c.
Proof.
  unfold dlt_consume_msg. destruct bs as [|b0 bs0]; [discriminate|]. set (bs := b0 :: bs0). intros H.
  apply pbind_ok_inv in H as (sk & after & Es & H). apply skip_storage_header_ok in Es as [-> S16].
  apply pbind_ok_inv in H as (h & r & Eh & H).
  destruct (dlt_standard_header_ok _ _ _ Eh) as (htyp & mcnt & overall & tail & F).
  destruct (std_facts_overall _ _ _ _ _ _ _ F) as [Ov _]. rewrite Ov in H.
  apply pbind_ok_inv in H as (x & am & Et & H). injection H as <- <-.
  apply take_ok_inv in Et as [St _].
  destruct (splits_firstn _ _ _ S16) as [_ E]. change (N.to_nat 16) with 16%nat in E.
  assert (DL : declared_len (skipn 16 bs) = overall).
  { rewrite <- E, (sf_input _ _ _ _ _ _ _ F). apply declared_len_eq, (sf_overall_lt _ _ _ _ _ _ _ F). }
  rewrite DL. split; [reflexivity|]. split; [exact (splits_trans _ _ _ _ _ S16 St) | change (0 < 16 + overall); lia].
Qed.

(* the presence of a filter never changes where the next message is looked for *)
Theorem filter_independent_rest bs f1 f2 sh pm1 pm2 rest1 rest2 :
  dlt_message bs f1 sh = POk pm1 rest1 -> dlt_message bs f2 sh = POk pm2 rest2 -> rest1 = rest2.
Proof.
  intros H1 H2.
  apply dlt_message_consumes in H1 as (k1 & a1 & L1 & S1 & _).
  apply dlt_message_consumes in H2 as (k2 & a2 & L2 & S2 & _).
  assert (k1 = k2 /\ a1 = a2) as [<- <-].
  { unfold located in *. destruct sh.
    - destruct L1 as (F1 & _ & ->), L2 as (F2 & _ & ->). rewrite F1 in F2. injection F2 as F2.
      split; [lia | now rewrite F2].
    - destruct L1 as (-> & ->), L2 as (-> & ->). now split. }
  destruct (splits_firstn _ _ _ S1) as [_ ->]. destruct (splits_firstn _ _ _ S2) as [_ ->]. reflexivity.
Qed.

(* repeated parsing terminates and every iteration starts on a message boundary:
   fuel = length of the buffer is never exhausted *)
Lemma parse_all_progress bs f sh pm rest :
  dlt_message bs f sh = POk pm rest -> (length rest < length bs)%nat.
Proof.
  intros H. apply dlt_message_consumes in H as (k & a & _ & S & H4 & _).
  apply splits_len in S. unfold len in S. lia.
Qed.
Theorem parse_all_terminates fuel bs f sh :
  (length bs < fuel)%nat ->
  let '(l, r) := parse_all fuel bs f sh in
  forall x y, dlt_message r f sh <> POk x y.
Proof.
  revert bs; induction fuel as [|fuel IH]; intros bs Hf; [lia|].
  cbn [parse_all]. destruct (dlt_message bs f sh) as [pm rest| | | |] eqn:E;
    try (intros x y; congruence).
  pose proof (parse_all_progress _ _ _ _ _ E) as P.
  specialize (IH rest ltac:(lia)). destruct (parse_all fuel rest f sh) as [l r]. exact IH.
Qed.
