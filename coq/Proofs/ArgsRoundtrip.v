(* Proofs/ArgsRoundtrip.v — every well-formed argument, written by Argument::as_bytes in either byte
   order, is read back by dlt_argument (with any continuation), and every proper prefix of its bytes
   is reported Incomplete: [stable (dlt_argument e) (arg_bytes e a) a].  Same for lists (count). *)
From Coq Require Import Lia ZifyBool ZifyN ZifyNat.
From DltV.Model Require Import Bytes RustInt Utf8 Nom Dlt Parse.
From DltV.Spec Require Import WellFormed.
From DltV.Proofs Require Import BytesBasics Fields Utf8Lemmas ZString ParseLemmas Stable.
Open Scope N_scope.

(* ---------- type info: encode then decode, for canonical codings ---------- *)
Lemma ti_roundtrip t : wf_coding (ti_coding t) = true ->
  ti_decode (ti_encode t) = Some t /\ ti_encode t < 2 ^ 18.
Proof.
  destruct t as [k c v tr]. cbn [ti_coding]. intros H.
  destruct c as [| |n].
  - destruct k as [|[]|[]|[]|[]|[]| |], v, tr; vm_compute; split; reflexivity.
  - destruct k as [|[]|[]|[]|[]|[]| |], v, tr; vm_compute; split; reflexivity.
  - cbn [wf_coding] in H. apply andb_true_iff in H as [H1 H2]. apply N.leb_le in H1, H2.
    assert (E : n = 2 \/ n = 3 \/ n = 4 \/ n = 5 \/ n = 6 \/ n = 7) by lia. clear H1 H2.
    destruct E as [->|[->|[->|[->|[->| ->]]]]];
      destruct k as [|[]|[]|[]|[]|[]| |], v, tr; vm_compute; split; reflexivity.
Qed.

(* ---------- small tools ---------- *)
Lemma stable_bind_last {A B} (p1 : list byte -> pres A) (p2 : A -> list byte -> pres B) c1 v1 v2 :
  stable p1 c1 v1 -> (forall i, p2 v1 i = POk v2 i) -> stable (fun i => pbind (p1 i) p2) c1 v2.
Proof.
  intros H1 H2. rewrite <- (app_nil_r c1). apply (stable_bind p1 p2 c1 [] v1 v2 H1).
  apply (stable_ext (fun i => POk v2 i)); [intros i; symmetry; apply H2 | apply stable_ret].
Qed.

Lemma lt_256_pow k v b : v < 2 ^ b -> b <= 8 * N.of_nat k -> v < 256 ^ N.of_nat k.
Proof.
  intros H1 H2. rewrite pow256. eapply N.lt_le_trans; [exact H1|]. apply N.pow_le_mono_r; [discriminate | exact H2].
Qed.

Lemma stable_uint_bits e k b v : (v <? 2 ^ b) = true -> b <= 8 * N.of_nat k -> stable (uint e k) (put_uint e k v) v.
Proof. intros H1 H2. apply stable_uint. apply N.ltb_lt in H1. eapply lt_256_pow; eassumption. Qed.

Lemma put_uint_1 e v : put_uint e 1 v = put_uint BE 1 v.
Proof. destruct e; reflexivity. Qed.
Lemma put_sint_1 e z : put_sint e 1 z = put_sint BE 1 z.
Proof. unfold put_sint. apply put_uint_1. Qed.

Lemma stable_type_info e t :
  wf_coding (ti_coding t) = true -> stable (dlt_type_info e) (ti_bytes e t) t.
Proof.
  intros H. destruct (ti_roundtrip t H) as [D B]. unfold dlt_type_info, ti_bytes.
  apply (stable_bind_last (uint e 4) _ _ (ti_encode t)).
  - apply stable_uint. apply (lt_256_pow 4 _ 18 B). cbn. lia.
  - intros i. rewrite D. reflexivity.
Qed.

Lemma u16_len_plus1_eq s : len s <= 65534 -> u16_len_plus1 s = len s + 1.
Proof.
  intros H. unfold u16_len_plus1. rewrite (N.mod_small (len s)) by lia. apply N.mod_small. lia.
Qed.

Lemma wf_text_inv s : wf_text s = true -> len s <= 65534 /\ no_nul s = true /\ valid_utf8 s = true.
Proof.
  unfold wf_text. intros H. apply andb_true_iff in H as [H Hv]. apply andb_true_iff in H as [Hl Hn].
  apply N.leb_le in Hl. auto.
Qed.

(* a NUL-terminated string, the size field counting the NUL *)
Lemma stable_zterm s : no_nul s = true -> valid_utf8 s = true -> stable (zstring (len s + 1)) (s ++ [x00]) s.
Proof.
  intros Hn Hv. pose proof (stable_zstring (len s + 1) s Hn Hv) as H.
  replace (len s + 1 - len s) with 1 in H by lia. change (N.to_nat 1) with 1%nat in H.
  apply H. lia.
Qed.

Lemma stable_variable_name e n :
  wf_text n = true ->
  stable (dlt_variable_name e) (put_uint e 2 (u16_len_plus1 n) ++ n ++ [x00]) n.
Proof.
  intros H. apply wf_text_inv in H as (Hl & Hn & Hv). rewrite (u16_len_plus1_eq n Hl).
  unfold dlt_variable_name.
  apply (stable_bind (uint e 2) _ _ _ (len n + 1)).
  - apply stable_uint. change (256 ^ N.of_nat 2) with 65536. lia.
  - cbv beta. now apply stable_zterm.
Qed.

(* ---------- name and unit (numeric kinds) ---------- *)
Definition nu_bytes (e : endian) (t : type_info) (name unit : option (list byte)) : list byte :=
  if ti_var_info t then
     put_uint e 2 (match name with Some n => u16_len_plus1 n | None => 1 end)
     ++ put_uint e 2 (match unit with Some u => u16_len_plus1 u | None => 1 end)
     ++ (match name with Some n => n ++ [x00] | None => [x00] end)
     ++ (match unit with Some u => u ++ [x00] | None => [x00] end)
  else [].

Lemma buf_ti_name_unit_eq e t name unit fp :
  buf_ti_name_unit e t name unit fp = ti_bytes e t ++ nu_bytes e t name unit ++ fp_bytes e fp.
Proof. reflexivity. Qed.

Lemma stable_name_unit e t name unit :
  Bool.eqb (WellFormed.is_some name) (ti_var_info t) = true ->
  Bool.eqb (WellFormed.is_some unit) (ti_var_info t) = true ->
  wf_opt wf_text name = true -> wf_opt wf_text unit = true ->
  stable (dlt_variable_name_and_unit e t) (nu_bytes e t name unit) (name, unit).
Proof.
  intros E1 E2 W1 W2. apply Bool.eqb_prop in E1, E2.
  unfold dlt_variable_name_and_unit, nu_bytes. destruct (ti_var_info t).
  - destruct name as [n|]; [|discriminate]. destruct unit as [u|]; [|discriminate].
    cbn [wf_opt] in W1, W2.
    apply wf_text_inv in W1 as (Hl1 & Hn1 & Hv1). apply wf_text_inv in W2 as (Hl2 & Hn2 & Hv2).
    rewrite (u16_len_plus1_eq n Hl1), (u16_len_plus1_eq u Hl2).
    apply (stable_bind (uint e 2) _ _ _ (len n + 1));
      [apply stable_uint; change (256 ^ N.of_nat 2) with 65536; lia|]. cbv beta.
    apply (stable_bind (uint e 2) _ _ _ (len u + 1));
      [apply stable_uint; change (256 ^ N.of_nat 2) with 65536; lia|]. cbv beta.
    apply (stable_bind (zstring (len n + 1)) _ _ _ n); [now apply stable_zterm|]. cbv beta.
    apply (stable_bind_last (zstring (len u + 1)) _ _ u); [now apply stable_zterm|].
    reflexivity.
  - destruct name; [discriminate|]. destruct unit; [discriminate|]. apply stable_ret.
Qed.

(* ---------- values ---------- *)
Lemma stable_dlt_sint e l v :
  wf_signed_value l v = true -> stable (dlt_sint e l) (signed_value_bytes e v) v.
Proof.
  intros H. destruct l, v; try discriminate H; cbn [wf_signed_value] in H;
    unfold dlt_sint, signed_value_bytes.
  - rewrite put_sint_1. apply (stable_pmap VI8 (sint BE 1)). apply stable_sint; [lia | exact H].
  - apply (stable_pmap VI16 (sint e 2)). apply stable_sint; [lia | exact H].
  - apply (stable_pmap VI32 (sint e 4)). apply stable_sint; [lia | exact H].
  - apply (stable_pmap VI64 (sint e 8)). apply stable_sint; [lia | exact H].
  - apply (stable_pmap VI128 (sint e 16)). apply stable_sint; [lia | exact H].
Qed.

Lemma stable_dlt_uint e l v :
  wf_unsigned_value l v = true -> stable (dlt_uint e l) (unsigned_value_bytes e v) v.
Proof.
  intros H. destruct l, v; try discriminate H; cbn [wf_unsigned_value] in H;
    unfold dlt_uint, unsigned_value_bytes.
  - rewrite put_uint_1. apply (stable_pmap VU8 (uint BE 1)). apply (stable_uint_bits BE 1 8 n H). cbn; lia.
  - apply (stable_pmap VU16 (uint e 2)). apply (stable_uint_bits e 2 16 n H). cbn; lia.
  - apply (stable_pmap VU32 (uint e 4)). apply (stable_uint_bits e 4 32 n H). cbn; lia.
  - apply (stable_pmap VU64 (uint e 8)). apply (stable_uint_bits e 8 64 n H). cbn; lia.
  - apply (stable_pmap VU128 (uint e 16)). apply (stable_uint_bits e 16 128 n H). cbn; lia.
Qed.

Lemma stable_dlt_fint32 e b : (b <? 2 ^ 32) = true -> stable (dlt_fint e W32) (put_uint e 4 b) (VF32 b).
Proof. intros H. apply (stable_pmap VF32 (uint e 4)). apply (stable_uint_bits e 4 32 b H). cbn; lia. Qed.
Lemma stable_dlt_fint64 e b : (b <? 2 ^ 64) = true -> stable (dlt_fint e W64) (put_uint e 8 b) (VF64 b).
Proof. intros H. apply (stable_pmap VF64 (uint e 8)). apply (stable_uint_bits e 8 64 b H). cbn; lia. Qed.

Lemma stable_fixed_point e w fp :
  wf_fp w (Some fp) = true -> stable (dlt_fixed_point e w) (fp_bytes e (Some fp)) fp.
Proof.
  destruct fp as [q o]. unfold wf_fp. cbn [fp_quant fp_offset]. intros H.
  apply andb_true_iff in H as [Hq Ho].
  unfold dlt_fixed_point, fp_bytes. cbn [fp_quant fp_offset].
  apply (stable_bind (uint e 4) _ _ _ q); [apply (stable_uint_bits e 4 32 q Hq); cbn; lia|]. cbv beta.
  destruct w, o as [z|z]; try discriminate Ho; unfold fp_offset_bytes.
  - apply (stable_bind_last (sint e 4) _ _ z); [apply stable_sint; [lia | exact Ho] | reflexivity].
  - apply (stable_bind_last (sint e 8) _ _ z); [apply stable_sint; [lia | exact Ho] | reflexivity].
Qed.

(* ---------- optional name (bool, string, raw) ---------- *)
Definition name_bytes (e : endian) (name : option (list byte)) : list byte :=
  match name with Some n => put_uint e 2 (u16_len_plus1 n) ++ n ++ [x00] | None => [] end.

Lemma stable_opt_name e (vari : bool) name :
  Bool.eqb (WellFormed.is_some name) vari = true -> wf_opt wf_text name = true ->
  stable (fun i => if vari then pmap Some (dlt_variable_name e i) else POk None i) (name_bytes e name) name.
Proof.
  intros E W. apply Bool.eqb_prop in E. destruct vari.
  - destruct name as [n|]; [|discriminate]. cbn [name_bytes].
    apply (stable_pmap Some (dlt_variable_name e)). now apply stable_variable_name.
  - destruct name; [discriminate|]. apply stable_ret.
Qed.

(* the three conjuncts of the name-only / name-and-unit conditions *)
Lemma name_only_inv (name unit : option (list byte)) vari :
  Bool.eqb (WellFormed.is_some name) vari && is_none unit && wf_opt wf_text name = true ->
  Bool.eqb (WellFormed.is_some name) vari = true /\ unit = None /\ wf_opt wf_text name = true.
Proof.
  intros H. apply andb_true_iff in H as [H H3]. apply andb_true_iff in H as [H1 H2].
  destruct unit; [discriminate|]. auto.
Qed.
Lemma name_unit_inv (name unit : option (list byte)) vari :
  Bool.eqb (WellFormed.is_some name) vari && Bool.eqb (WellFormed.is_some unit) vari
    && wf_opt wf_text name && wf_opt wf_text unit = true ->
  Bool.eqb (WellFormed.is_some name) vari = true /\ Bool.eqb (WellFormed.is_some unit) vari = true
  /\ wf_opt wf_text name = true /\ wf_opt wf_text unit = true.
Proof.
  intros H. apply andb_true_iff in H as [H H4]. apply andb_true_iff in H as [H H3].
  apply andb_true_iff in H as [H1 H2]. auto.
Qed.
Lemma is_none_inv {A} (o : option A) : is_none o = true -> o = None.
Proof. destruct o; [discriminate | reflexivity]. Qed.

(* ---------- one argument ---------- *)
Theorem stable_argument e a : wf_arg a = true -> stable (dlt_argument e) (arg_bytes e a) a.
Proof.
  destruct a as [t name unit fp v]. unfold wf_arg. cbn [a_ti a_name a_unit a_fp a_value].
  intros H. apply andb_true_iff in H as [Hc H].
  pose proof (stable_type_info e t Hc) as ST.
  unfold dlt_argument, arg_bytes. cbn [a_ti a_name a_unit a_fp a_value].
  destruct (ti_kind_of t) as [|l|w|l|w|w| |] eqn:K.
  - (* bool *)
    apply andb_true_iff in H as [H Hv]. apply andb_true_iff in H as [H Hf].
    apply name_only_inv in H as (E & -> & W). apply is_none_inv in Hf as ->.
    destruct v as [x| | | | | | | | | | | | | |]; try discriminate Hv.
    unfold buf_ti_name. rewrite <- app_assoc.
    apply (stable_bind (dlt_type_info e) _ (ti_bytes e t) _ t _ ST); cbv beta; rewrite K.
    apply (stable_bind _ _ (name_bytes e name) _ name _ (stable_opt_name e _ name E W)). cbv beta.
    apply (stable_bind_last u8 _ _ x); [apply stable_u8; now apply N.ltb_lt | reflexivity].
  - (* signed *)
    apply andb_true_iff in H as [H Hv]. apply andb_true_iff in H as [H Hf].
    apply name_unit_inv in H as (E1 & E2 & W1 & W2). apply is_none_inv in Hf as ->.
    rewrite buf_ti_name_unit_eq. cbn [fp_bytes]. rewrite app_nil_r, <- app_assoc.
    apply (stable_bind (dlt_type_info e) _ (ti_bytes e t) _ t _ ST); cbv beta; rewrite K.
    apply (stable_bind _ _ _ _ _ _ (stable_name_unit e t name unit E1 E2 W1 W2)). cbv beta.
    apply (stable_bind_last _ _ _ _ _ (stable_dlt_sint e l v Hv)). reflexivity.
  - (* signed fixed point *)
    apply andb_true_iff in H as [H Hv]. apply andb_true_iff in H as [H Hf].
    apply name_unit_inv in H as (E1 & E2 & W1 & W2).
    destruct fp as [fp|]; [|discriminate Hf].
    rewrite buf_ti_name_unit_eq. rewrite <- !app_assoc.
    apply (stable_bind (dlt_type_info e) _ (ti_bytes e t) _ t _ ST); cbv beta; rewrite K.
    apply (stable_bind _ _ _ _ _ _ (stable_name_unit e t name unit E1 E2 W1 W2)). cbv beta.
    apply (stable_bind _ _ _ _ _ _ (stable_fixed_point e w fp Hf)). cbv beta.
    apply (stable_bind_last _ _ _ _ _ (stable_dlt_sint e _ v Hv)). reflexivity.
  - (* unsigned *)
    apply andb_true_iff in H as [H Hv]. apply andb_true_iff in H as [H Hf].
    apply name_unit_inv in H as (E1 & E2 & W1 & W2). apply is_none_inv in Hf as ->.
    rewrite buf_ti_name_unit_eq. cbn [fp_bytes]. rewrite app_nil_r, <- app_assoc.
    apply (stable_bind (dlt_type_info e) _ (ti_bytes e t) _ t _ ST); cbv beta; rewrite K.
    apply (stable_bind _ _ _ _ _ _ (stable_name_unit e t name unit E1 E2 W1 W2)). cbv beta.
    apply (stable_bind_last _ _ _ _ _ (stable_dlt_uint e l v Hv)). reflexivity.
  - (* unsigned fixed point *)
    apply andb_true_iff in H as [H Hv]. apply andb_true_iff in H as [H Hf].
    apply name_unit_inv in H as (E1 & E2 & W1 & W2).
    destruct fp as [fp|]; [|discriminate Hf].
    rewrite buf_ti_name_unit_eq. rewrite <- !app_assoc.
    apply (stable_bind (dlt_type_info e) _ (ti_bytes e t) _ t _ ST); cbv beta; rewrite K.
    apply (stable_bind _ _ _ _ _ _ (stable_name_unit e t name unit E1 E2 W1 W2)). cbv beta.
    apply (stable_bind _ _ _ _ _ _ (stable_fixed_point e w fp Hf)). cbv beta.
    apply (stable_bind_last _ _ _ _ _ (stable_dlt_uint e _ v Hv)). reflexivity.
  - (* float *)
    assert (H' : Bool.eqb (WellFormed.is_some name) (ti_var_info t) && Bool.eqb (WellFormed.is_some unit) (ti_var_info t)
                 && wf_opt wf_text name && wf_opt wf_text unit && is_none fp = true
                 /\ exists b, (w = W32 /\ v = VF32 b /\ (b <? 2 ^ 32) = true) \/ (w = W64 /\ v = VF64 b /\ (b <? 2 ^ 64) = true)).
    { destruct w; apply andb_true_iff in H as [H Hv]; (split; [exact H|]);
        destruct v as [| | | | | | | | | | |b|b| |]; try discriminate Hv; exists b; auto. }
    clear H. destruct H' as (H & b & Hb).
    apply andb_true_iff in H as [H Hf].
    apply name_unit_inv in H as (E1 & E2 & W1 & W2). apply is_none_inv in Hf as ->.
    rewrite buf_ti_name_unit_eq. cbn [fp_bytes]. rewrite app_nil_r, <- app_assoc.
    apply (stable_bind (dlt_type_info e) _ (ti_bytes e t) _ t _ ST); cbv beta; rewrite K.
    apply (stable_bind _ _ _ _ _ _ (stable_name_unit e t name unit E1 E2 W1 W2)). cbv beta.
    destruct Hb as [(-> & -> & Hb)|(-> & -> & Hb)]; cbn [float_value_bytes].
    + apply (stable_bind_last _ _ _ _ _ (stable_dlt_fint32 e b Hb)). reflexivity.
    + apply (stable_bind_last _ _ _ _ _ (stable_dlt_fint64 e b Hb)). reflexivity.
  - (* string *)
    apply andb_true_iff in H as [H Hv]. apply andb_true_iff in H as [H Hf].
    apply name_only_inv in H as (E & -> & W). apply is_none_inv in Hf as ->.
    destruct v as [| | | | | | | | | | | | |s|]; try discriminate Hv.
    assert (EB : (match ti_var_info t, name with
                  | true, Some n => ti_bytes e t ++ put_uint e 2 (u16_len_plus1 s) ++ put_uint e 2 (u16_len_plus1 n)
                                    ++ n ++ [x00] ++ s ++ [x00]
                  | false, None => ti_bytes e t ++ put_uint e 2 (u16_len_plus1 s) ++ s ++ [x00]
                  | _, _ => []
                  end) = ti_bytes e t ++ put_uint e 2 (u16_len_plus1 s) ++ name_bytes e name ++ s ++ [x00]).
    { pose proof (Bool.eqb_prop _ _ E) as E'. destruct (ti_var_info t), name as [n|]; try discriminate E'.
      - cbn [name_bytes]. now rewrite <- !app_assoc.
      - reflexivity. }
    rewrite EB. clear EB.
    apply wf_text_inv in Hv as (Hl & Hn & Hu). rewrite (u16_len_plus1_eq s Hl).
    apply (stable_bind (dlt_type_info e) _ (ti_bytes e t) _ t _ ST); cbv beta; rewrite K.
    apply (stable_bind (uint e 2) _ _ _ (len s + 1));
      [apply stable_uint; change (256 ^ N.of_nat 2) with 65536; lia|]. cbv beta.
    apply (stable_bind _ _ (name_bytes e name) _ name _ (stable_opt_name e _ name E W)). cbv beta.
    apply (stable_bind_last (zstring (len s + 1)) _ _ s); [now apply stable_zterm | reflexivity].
  - (* raw *)
    apply andb_true_iff in H as [H Hv]. apply andb_true_iff in H as [H Hf].
    apply name_only_inv in H as (E & -> & W). apply is_none_inv in Hf as ->.
    destruct v as [| | | | | | | | | | | | | |bs]; try discriminate Hv.
    assert (EB : (match ti_var_info t, name with
                  | true, Some n => ti_bytes e t ++ put_uint e 2 (len bs mod 65536) ++ put_uint e 2 (u16_len_plus1 n)
                                    ++ n ++ [x00] ++ bs
                  | false, None => ti_bytes e t ++ put_uint e 2 (len bs mod 65536) ++ bs
                  | _, _ => []
                  end) = ti_bytes e t ++ put_uint e 2 (len bs mod 65536) ++ name_bytes e name ++ bs).
    { pose proof (Bool.eqb_prop _ _ E) as E'. destruct (ti_var_info t), name as [n|]; try discriminate E'.
      - cbn [name_bytes]. now rewrite <- !app_assoc.
      - reflexivity. }
    rewrite EB. clear EB. apply N.leb_le in Hv.
    rewrite (N.mod_small (len bs) 65536) by lia.
    apply (stable_bind (dlt_type_info e) _ (ti_bytes e t) _ t _ ST); cbv beta; rewrite K.
    apply (stable_bind (uint e 2) _ _ _ (len bs));
      [apply stable_uint; change (256 ^ N.of_nat 2) with 65536; lia|]. cbv beta.
    apply (stable_bind _ _ (name_bytes e name) _ name _ (stable_opt_name e _ name E W)). cbv beta.
    apply (stable_bind_last (take (len bs)) _ _ bs); [now apply stable_take | reflexivity].
Qed.

Corollary argument_roundtrip e a r : wf_arg a = true -> dlt_argument e (arg_bytes e a ++ r) = POk a r.
Proof. intros H. apply (stable_argument e a H). Qed.

(* ---------- lists of arguments: nom's count ---------- *)
Lemma stable_count {A} (p : list byte -> pres A) (bytes : A -> list byte) (l : list A) :
  (forall a, In a l -> stable p (bytes a) a) ->
  stable (count p (length l)) (flat_map bytes l) l.
Proof.
  induction l as [|a l IH]; intros H.
  - apply stable_ret.
  - cbn [length count flat_map].
    apply (stable_bind p _ (bytes a) (flat_map bytes l) a (a :: l)); [apply H; now left|].
    cbv beta. apply (stable_pmap (cons a) (count p (length l))). apply IH.
    intros b Hb. apply H. now right.
Qed.

Theorem stable_arguments e args :
  forallb wf_arg args = true ->
  stable (count (dlt_argument e) (length args)) (flat_map (arg_bytes e) args) args.
Proof.
  intros H. apply stable_count. intros a Ha. apply stable_argument.
  rewrite forallb_forall in H. now apply H.
Qed.

Corollary arguments_roundtrip e args r :
  forallb wf_arg args = true ->
  count (dlt_argument e) (length args) (flat_map (arg_bytes e) args ++ r) = POk args r.
Proof. intros H. apply (stable_arguments e args H). Qed.

(* ---------- the debug-build `len as u16 + 1` overflow checks do not fire ---------- *)
Lemma len_plus1_no_overflow s : wf_text s = true -> len_plus1_overflows s = false.
Proof.
  intros H. apply wf_text_inv in H as (Hl & _ & _). unfold len_plus1_overflows.
  rewrite N.mod_small by lia. apply N.eqb_neq. lia.
Qed.
Lemma opt_no_overflow o : wf_opt wf_text o = true -> opt_overflows o = false.
Proof. destruct o as [s|]; [apply len_plus1_no_overflow | reflexivity]. Qed.

Lemma arg_no_overflow a : wf_arg a = true -> arg_bytes_overflows a = false.
Proof.
  destruct a as [t name unit fp v]. unfold wf_arg, arg_bytes_overflows. cbn [a_ti a_name a_unit a_fp a_value].
  intros H. apply andb_true_iff in H as [_ H].
  assert (NU : forall b, Bool.eqb (WellFormed.is_some name) (ti_var_info t) && Bool.eqb (WellFormed.is_some unit) (ti_var_info t)
                 && wf_opt wf_text name && wf_opt wf_text unit && b = true ->
               (if ti_var_info t then opt_overflows name || opt_overflows unit else false) = false).
  { intros b Hb. apply andb_true_iff in Hb as [Hb _]. apply name_unit_inv in Hb as (_ & _ & W1 & W2).
    rewrite (opt_no_overflow _ W1), (opt_no_overflow _ W2). now destruct (ti_var_info t). }
  destruct (ti_kind_of t) as [|l|w|l|w|w| |] eqn:K.
  - apply andb_true_iff in H as [H _]. apply andb_true_iff in H as [H _].
    apply name_only_inv in H as (_ & _ & W). now apply opt_no_overflow.
  - apply andb_true_iff in H as [H _]. now apply (NU _ H).
  - apply andb_true_iff in H as [H _]. now apply (NU _ H).
  - apply andb_true_iff in H as [H _]. now apply (NU _ H).
  - apply andb_true_iff in H as [H _]. now apply (NU _ H).
  - destruct w; apply andb_true_iff in H as [H _]; now apply (NU _ H).
  - apply andb_true_iff in H as [H Hv]. apply andb_true_iff in H as [H _].
    apply name_only_inv in H as (_ & _ & W).
    destruct v as [| | | | | | | | | | | | |s|]; try discriminate Hv.
    rewrite (len_plus1_no_overflow s Hv).
    destruct (ti_var_info t), name as [n|]; try reflexivity.
    cbn [wf_opt] in W. now rewrite (len_plus1_no_overflow n W).
  - apply andb_true_iff in H as [H Hv]. apply andb_true_iff in H as [H _].
    apply name_only_inv in H as (_ & _ & W).
    destruct v as [| | | | | | | | | | | | | |bs]; try discriminate Hv.
    destruct (ti_var_info t), name as [n|]; try reflexivity.
    cbn [wf_opt] in W. now apply len_plus1_no_overflow.
Qed.
