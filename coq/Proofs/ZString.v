(* Proofs/ZString.v — C19: the fixed-size, NUL-terminated string field parser
   [Parse.zstring] (dlt_zero_terminated_string_intern, parse.rs:314-343). *)
From Coq Require Import Lia ZifyBool ZifyN ZifyNat.
From DltV.Model Require Import Bytes Utf8 Nom Parse.
From DltV.Proofs Require Import BytesBasics Utf8Lemmas.
Open Scope N_scope.

(* the bytes before the first NUL (all of [l] if there is none) *)
Fixpoint upto_nul (l : list byte) : list byte :=
  match l with [] => [] | b :: r => if is_nul b then [] else b :: upto_nul r end.

(* ---------- upto_nul ---------- *)

Lemma upto_nul_no_nul l : no_nul (upto_nul l) = true.
Proof.
  induction l as [|b r IH]; [reflexivity|].
  cbn [upto_nul]. destruct (is_nul b) eqn:E; [reflexivity|].
  rewrite no_nul_cons, E, IH. reflexivity.
Qed.

Lemma upto_nul_id l : no_nul l = true -> upto_nul l = l.
Proof.
  induction l as [|b r IH]; [reflexivity|].
  rewrite no_nul_cons. intros H. apply andb_true_iff in H. destruct H as [Hb Hr].
  cbn [upto_nul]. destruct (is_nul b); [discriminate|]. rewrite (IH Hr). reflexivity.
Qed.

Lemma upto_nul_fix_iff l : upto_nul l = l <-> no_nul l = true.
Proof.
  split; [|apply upto_nul_id]. intros H. rewrite <- H. apply upto_nul_no_nul.
Qed.

(* [l] is [upto_nul l], then either nothing or a NUL and the remainder *)
Lemma upto_nul_split l :
  exists r, l = upto_nul l ++ r /\ (r = [] \/ exists r', r = x00 :: r').
Proof.
  induction l as [|b l IH].
  - exists []. split; [reflexivity|left; reflexivity].
  - cbn [upto_nul]. destruct (is_nul b) eqn:E.
    + exists (b :: l). split; [reflexivity|]. right. exists l.
      apply is_nul_iff in E. rewrite E. reflexivity.
    + destruct IH as (r & Hl & Hr). exists r. split; [|exact Hr].
      cbn [app]. rewrite <- Hl. reflexivity.
Qed.

Lemma upto_nul_spec l :
  no_nul (upto_nul l) = true /\
  exists r, l = upto_nul l ++ r /\ (r = [] \/ exists r', r = x00 :: r').
Proof. split; [apply upto_nul_no_nul|apply upto_nul_split]. Qed.

Lemma upto_nul_len_le l : len (upto_nul l) <= len l.
Proof.
  destruct (upto_nul_split l) as (r & Hl & _).
  rewrite Hl at 2. rewrite len_app. lia.
Qed.

Lemma upto_nul_idem l : upto_nul (upto_nul l) = upto_nul l.
Proof. apply upto_nul_id, upto_nul_no_nul. Qed.

Lemma upto_nul_app_nul s r : no_nul s = true -> upto_nul (s ++ x00 :: r) = s.
Proof.
  induction s as [|b s IH]; [reflexivity|].
  rewrite no_nul_cons. intros H. apply andb_true_iff in H. destruct H as [Hb Hs].
  cbn [app upto_nul]. destruct (is_nul b); [discriminate|]. rewrite (IH Hs). reflexivity.
Qed.

Lemma upto_nul_app_pad s pad : no_nul s = true -> upto_nul (s ++ repeat x00 pad) = s.
Proof.
  intros H. destruct pad as [|pad].
  - cbn [repeat]. rewrite app_nil_r. apply upto_nul_id, H.
  - cbn [repeat]. apply upto_nul_app_nul, H.
Qed.

(* ---------- position of the first NUL ---------- *)

Lemma position_nul_some l i :
  position is_nul l = Some i ->
  (i < length l)%nat /\ upto_nul l = firstn i l /\ no_nul (firstn i l) = true.
Proof.
  revert i. induction l as [|b r IH]; intros i; [discriminate|].
  cbn [position upto_nul]. destruct (is_nul b) eqn:E.
  - intros H. injection H as <-. cbn [length firstn]. repeat split. lia.
  - destruct (position is_nul r) as [j|] eqn:P; [|discriminate].
    cbn [option_map]. intros H. injection H as <-.
    destruct (IH j eq_refl) as (Hlt & Hu & Hn).
    cbn [length firstn]. rewrite no_nul_cons, E, Hn, Hu. repeat split. lia.
Qed.

Lemma position_nul_none l : position is_nul l = None -> no_nul l = true.
Proof.
  induction l as [|b r IH]; [reflexivity|].
  cbn [position]. destruct (is_nul b) eqn:E; [discriminate|].
  destruct (position is_nul r) as [j|] eqn:P; [discriminate|].
  intros _. rewrite no_nul_cons, E, (IH eq_refl). reflexivity.
Qed.

(* cutting at or after the first NUL does not change what precedes it *)
Lemma upto_nul_firstn_ge l i n :
  position is_nul l = Some i -> (i <= n)%nat -> upto_nul (firstn n l) = firstn i l.
Proof.
  revert i n. induction l as [|b r IH]; intros i n; [discriminate|].
  cbn [position]. destruct (is_nul b) eqn:E.
  - intros H _. injection H as <-. destruct n as [|n]; cbn [firstn upto_nul]; [reflexivity|].
    rewrite E. reflexivity.
  - destruct (position is_nul r) as [j|] eqn:P; [|discriminate].
    cbn [option_map]. intros H Hle. injection H as <-.
    destruct n as [|n]; [lia|].
    cbn [firstn upto_nul]. rewrite E, (IH j n eq_refl) by lia. reflexivity.
Qed.

(* cutting at or before the first NUL leaves no NUL *)
Lemma upto_nul_firstn_le l i n :
  position is_nul l = Some i -> (n <= i)%nat -> upto_nul (firstn n l) = firstn n l.
Proof.
  intros P Hle. apply upto_nul_id.
  destruct (position_nul_some l i P) as (_ & _ & Hn).
  replace n with (Nat.min n i) by lia. rewrite <- firstn_firstn. apply no_nul_firstn, Hn.
Qed.

Lemma upto_nul_firstn_none l n :
  position is_nul l = None -> upto_nul (firstn n l) = firstn n l.
Proof. intros P. apply upto_nul_id, no_nul_firstn, position_nul_none, P. Qed.

Lemma skipn_skipn_add {A} (a b : nat) (l : list A) : skipn a (skipn b l) = skipn (b + a) l.
Proof.
  revert l. induction b as [|b IH]; intros l; [reflexivity|].
  destruct l as [|x l]; [cbn [skipn Nat.add]; apply skipn_nil|].
  cbn [skipn Nat.add]. apply IH.
Qed.

(* ---------- zstring ---------- *)

Lemma zstring_enough size s :
  size <= len s ->
  zstring size s =
  POk (utf8_prefix (upto_nul (firstn (N.to_nat size) s))) (skipn (N.to_nat size) s).
Proof.
  intros Hle. unfold zstring, take_while_0_n_not_nul.
  assert (Hfull : len (firstn (N.to_nat size) s) = size) by (apply len_firstn_N, Hle).
  assert (Hwhole :
    pbind (POk (firstn (N.to_nat size) s) (skipn (N.to_nat size) s))
      (fun content rest_with_null =>
         if size <? len content then PPanic
         else pbind (take (size - len content) rest_with_null)
                (fun _ rest => POk (utf8_prefix content) rest)) =
    POk (utf8_prefix (firstn (N.to_nat size) s)) (skipn (N.to_nat size) s)).
  { cbn [pbind]. rewrite Hfull, N.ltb_irrefl, N.sub_diag. unfold take.
    destruct (len (skipn (N.to_nat size) s) <? 0) eqn:E; [lia|].
    cbn [pbind N.to_nat skipn]. reflexivity. }
  destruct (position is_nul s) as [idx|] eqn:P.
  - destruct (N.of_nat idx <=? size) eqn:Hk.
    + destruct (position_nul_some s idx P) as (Hlt & _ & _).
      cbn [pbind].
      assert (Hc : len (firstn idx s) = N.of_nat idx) by (rewrite len_firstn; unfold len; lia).
      rewrite Hc. destruct (size <? N.of_nat idx) eqn:Hp; [lia|].
      unfold take. rewrite len_skipn.
      destruct (len s - N.of_nat idx <? size - N.of_nat idx) eqn:Ht; [lia|].
      cbn [pbind]. rewrite (upto_nul_firstn_ge s idx (N.to_nat size) P) by lia.
      rewrite skipn_skipn_add. do 2 f_equal. lia.
    + cbv zeta. rewrite Hwhole. rewrite (upto_nul_firstn_le s idx (N.to_nat size) P) by lia.
      reflexivity.
  - destruct (size <=? len s) eqn:E; [|lia].
    rewrite Hwhole, (upto_nul_firstn_none s (N.to_nat size) P). reflexivity.
Qed.

Lemma zstring_short size s :
  len s < size ->
  exists n, zstring size s = PIncomplete (Some n) /\ 1 <= n <= size - len s.
Proof.
  intros Hlt. unfold zstring, take_while_0_n_not_nul.
  destruct (position is_nul s) as [idx|] eqn:P.
  - destruct (position_nul_some s idx P) as (Hi & _ & _).
    assert (Hi' : N.of_nat idx < len s) by (unfold len; lia).
    destruct (N.of_nat idx <=? size) eqn:Hk; [|lia].
    cbn [pbind].
    assert (Hc : len (firstn idx s) = N.of_nat idx) by (rewrite len_firstn; lia).
    rewrite Hc. destruct (size <? N.of_nat idx) eqn:Hp; [lia|].
    unfold take. rewrite len_skipn.
    destruct (len s - N.of_nat idx <? size - N.of_nat idx) eqn:Ht; [|lia].
    cbn [pbind]. unfold needed_new.
    destruct (size - N.of_nat idx - (len s - N.of_nat idx) =? 0) eqn:Hz; [lia|].
    eexists. split; [reflexivity|]. lia.
  - destruct (size <=? len s) eqn:E; [lia|].
    cbn [pbind]. exists 1. split; [reflexivity|]. lia.
Qed.

(* the exact hint: the shortfall when a NUL is present, 1 ("at least one more") otherwise *)
Lemma zstring_short_exact size s :
  len s < size ->
  zstring size s =
  PIncomplete (Some (if no_nul s then 1 else size - len s)).
Proof.
  intros Hlt. unfold zstring, take_while_0_n_not_nul.
  destruct (position is_nul s) as [idx|] eqn:P.
  - destruct (position_nul_some s idx P) as (Hi & _ & _).
    assert (Hi' : N.of_nat idx < len s) by (unfold len; lia).
    assert (Hnn : no_nul s = false).
    { destruct (no_nul s) eqn:Hn; [|reflexivity].
      assert (Hs : upto_nul (firstn (length s) s) = firstn idx s)
        by (apply upto_nul_firstn_ge; [exact P|lia]).
      rewrite firstn_all, (upto_nul_id s Hn) in Hs.
      apply (f_equal (@length byte)) in Hs. rewrite firstn_length in Hs. lia. }
    rewrite Hnn.
    destruct (N.of_nat idx <=? size) eqn:Hk; [|lia].
    cbn [pbind].
    assert (Hc : len (firstn idx s) = N.of_nat idx) by (rewrite len_firstn; lia).
    rewrite Hc. destruct (size <? N.of_nat idx) eqn:Hp; [lia|].
    unfold take. rewrite len_skipn.
    destruct (len s - N.of_nat idx <? size - N.of_nat idx) eqn:Ht; [|lia].
    cbn [pbind]. unfold needed_new.
    destruct (size - N.of_nat idx - (len s - N.of_nat idx) =? 0) eqn:Hz; [lia|].
    do 2 f_equal. lia.
  - rewrite (position_nul_none s P).
    destruct (size <=? len s) eqn:E; [lia|]. reflexivity.
Qed.

Lemma zstring_no_panic size s : zstring size s <> PPanic.
Proof.
  destruct (N.le_gt_cases size (len s)) as [Hle|Hlt].
  - rewrite (zstring_enough size s Hle). discriminate.
  - destruct (zstring_short size s Hlt) as (n & -> & _). discriminate.
Qed.

Lemma zstring_ok_inv size s r rest :
  zstring size s = POk r rest ->
  size <= len s /\
  r = utf8_prefix (upto_nul (firstn (N.to_nat size) s)) /\
  rest = skipn (N.to_nat size) s.
Proof.
  intros H. destruct (N.le_gt_cases size (len s)) as [Hle|Hlt].
  - rewrite (zstring_enough size s Hle) in H. injection H as <- <-. repeat split. exact Hle.
  - destruct (zstring_short size s Hlt) as (n & E & _). rewrite E in H. discriminate.
Qed.

Lemma zstring_rest_suffix size s r rest :
  zstring size s = POk r rest -> rest = skipn (N.to_nat size) s /\ size <= len s.
Proof.
  intros H. apply zstring_ok_inv in H. destruct H as (Hle & _ & Hrest). split; assumption.
Qed.

(* the parser consumes exactly [size] bytes *)
Lemma zstring_consumes size s r rest :
  zstring size s = POk r rest -> len s = size + len rest /\ exists c, len c = size /\ s = c ++ rest.
Proof.
  intros H. apply zstring_ok_inv in H. destruct H as (Hle & _ & ->).
  split.
  - rewrite len_skipn_N. lia.
  - exists (firstn (N.to_nat size) s). split; [apply len_firstn_N, Hle|].
    symmetry. apply firstn_skipn.
Qed.

Lemma zstring_result_clean size s r rest :
  zstring size s = POk r rest -> valid_utf8 r = true /\ no_nul r = true /\ len r <= size.
Proof.
  intros H. apply zstring_ok_inv in H. destruct H as (Hle & -> & _).
  split; [apply valid_utf8_prefix|]. split.
  - apply utf8_prefix_no_nul, upto_nul_no_nul.
  - pose proof (utf8_prefix_len_le (upto_nul (firstn (N.to_nat size) s))) as H1.
    pose proof (upto_nul_len_le (firstn (N.to_nat size) s)) as H2.
    pose proof (len_firstn_le (N.to_nat size) s) as H3. lia.
Qed.

(* incomplete exactly when the buffer is shorter than the declared size; never Error/Failure *)
Lemma zstring_cases size s :
  (size <= len s /\ exists r, zstring size s = POk r (skipn (N.to_nat size) s)) \/
  (len s < size /\ exists n, zstring size s = PIncomplete (Some n)).
Proof.
  destruct (N.le_gt_cases size (len s)) as [Hle|Hlt].
  - left. split; [exact Hle|]. eexists. apply zstring_enough, Hle.
  - right. split; [exact Hlt|]. destruct (zstring_short size s Hlt) as (n & E & _).
    exists n. exact E.
Qed.

(* ---------- round trip: a clean string, NUL padding, anything ---------- *)

Lemma zstring_put s pad rest :
  no_nul s = true -> valid_utf8 s = true ->
  zstring (len s + N.of_nat pad) (s ++ repeat x00 pad ++ rest) = POk s rest.
Proof.
  intros Hn Hv.
  assert (Hsz : len s + N.of_nat pad = len (s ++ repeat x00 pad))
    by (rewrite len_app, len_repeat; reflexivity).
  rewrite app_assoc, Hsz.
  rewrite zstring_enough by (rewrite (len_app (s ++ repeat x00 pad) rest); lia).
  rewrite firstn_len_app, skipn_len_app, (upto_nul_app_pad s pad Hn), (utf8_prefix_valid s Hv).
  reflexivity.
Qed.

Lemma zstring_put_nopad s rest :
  no_nul s = true -> valid_utf8 s = true -> zstring (len s) (s ++ rest) = POk s rest.
Proof.
  intros Hn Hv. pose proof (zstring_put s 0 rest Hn Hv) as H.
  cbn [repeat app N.of_nat] in H. rewrite N.add_0_r in H. exact H.
Qed.

(* the same, with the size given independently: any [size >= len s] filled up with NULs *)
Lemma zstring_put_size size s rest :
  no_nul s = true -> valid_utf8 s = true -> len s <= size ->
  zstring size (s ++ repeat x00 (N.to_nat (size - len s)) ++ rest) = POk s rest.
Proof.
  intros Hn Hv Hle. pose proof (zstring_put s (N.to_nat (size - len s)) rest Hn Hv) as H.
  replace (len s + N.of_nat (N.to_nat (size - len s))) with size in H by lia. exact H.
Qed.

(* a terminated string: one NUL after the content, size counts it *)
Lemma zstring_put_terminated s rest :
  no_nul s = true -> valid_utf8 s = true ->
  zstring (len s + 1) (s ++ x00 :: rest) = POk s rest.
Proof.
  intros Hn Hv. exact (zstring_put s 1 rest Hn Hv).
Qed.
