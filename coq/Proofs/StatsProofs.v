(* StatsProofs.v — lemmas about the statistics collector (C10).
   Main device: the meaning of an id map is its [lookup] function; [merge_income] (and
   [add_for_level], which is a special case) acts on it as [opt_merge] with a singleton; the
   tally of a list of statistics is an [opt_merge]-homomorphism from lists. *)
From Coq Require Import Lia ZifyBool ZifyN ZifyNat Permutation.
From DltV.Model Require Import Bytes Dlt Stats.
From DltV.Spec Require Import StatsSpec.
Open Scope N_scope.

(* ---------- bytes_eqb decides equality ---------- *)
Lemma b2n_inj : forall a b, b2n a = b2n b -> a = b.
Proof.
  unfold b2n. intros a b H.
  pose proof (Byte.of_to_N a) as Ha. rewrite H, Byte.of_to_N in Ha. congruence.
Qed.

Lemma byte_eqb_eq : forall a b, byte_eqb a b = true <-> a = b.
Proof.
  intros a b. unfold byte_eqb. rewrite N.eqb_eq. split; [apply b2n_inj | congruence].
Qed.

Lemma bytes_eqb_eq : forall a b, bytes_eqb a b = true <-> a = b.
Proof.
  induction a as [|x a IH]; intros [|y b]; cbn [bytes_eqb].
  - split; reflexivity.
  - split; discriminate.
  - split; discriminate.
  - rewrite andb_true_iff, byte_eqb_eq, IH. split.
    + intros [Hx Ha]. congruence.
    + intros H. inversion H. split; reflexivity.
Qed.

Lemma bytes_eqb_refl : forall a, bytes_eqb a a = true.
Proof. intros a. apply bytes_eqb_eq. reflexivity. Qed.

Lemma bytes_eqb_neq : forall a b, bytes_eqb a b = false <-> a <> b.
Proof.
  intros a b. rewrite <- bytes_eqb_eq. destruct (bytes_eqb a b); split; congruence.
Qed.

Lemma bytes_eqb_sym : forall a b, bytes_eqb a b = bytes_eqb b a.
Proof.
  intros a b. destruct (bytes_eqb a b) eqn:E; symmetry.
  - apply bytes_eqb_eq. apply bytes_eqb_eq in E. congruence.
  - apply bytes_eqb_neq. apply bytes_eqb_neq in E. congruence.
Qed.

(* ---------- level distributions ---------- *)
Lemma ld_ext : forall d d', (forall b, ld_get b d = ld_get b d') -> d = d'.
Proof.
  intros [a0 a1 a2 a3 a4 a5 a6 a7] [b0 b1 b2 b3 b4 b5 b6 b7] H.
  pose proof (H BNonLog) as H0. pose proof (H BFatal) as H1. pose proof (H BError) as H2.
  pose proof (H BWarning) as H3. pose proof (H BInfo) as H4. pose proof (H BDebug) as H5.
  pose proof (H BVerbose) as H6. pose proof (H BInvalid) as H7.
  cbn [ld_get non_log log_fatal log_error log_warning log_info log_debug log_verbose log_invalid] in *.
  congruence.
Qed.

Lemma ld_merge_assoc : forall a b c,
  level_dist_merge (level_dist_merge a b) c = level_dist_merge a (level_dist_merge b c).
Proof.
  intros [a0 a1 a2 a3 a4 a5 a6 a7] [b0 b1 b2 b3 b4 b5 b6 b7] [c0 c1 c2 c3 c4 c5 c6 c7].
  unfold level_dist_merge.
  cbn [non_log log_fatal log_error log_warning log_info log_debug log_verbose log_invalid].
  f_equal; lia.
Qed.

Lemma ld_merge_comm : forall a b, level_dist_merge a b = level_dist_merge b a.
Proof.
  intros [a0 a1 a2 a3 a4 a5 a6 a7] [b0 b1 b2 b3 b4 b5 b6 b7].
  unfold level_dist_merge.
  cbn [non_log log_fatal log_error log_warning log_info log_debug log_verbose log_invalid].
  f_equal; lia.
Qed.

Lemma ld_get_merge : forall b x y, ld_get b (level_dist_merge x y) = ld_get b x + ld_get b y.
Proof. intros [] x y; reflexivity. Qed.

Lemma ld_get_new : forall b lv,
  ld_get b (level_dist_new lv) = if bucket_eqb (bucket_of lv) b then 1 else 0.
Proof. intros [] [[]|]; reflexivity. Qed.

(* the in-place increment is a merge with the one-message distribution *)
Lemma ld_incr_as_merge : forall lv d,
  level_dist_incr lv d = level_dist_merge d (level_dist_new lv).
Proof.
  intros lv [a0 a1 a2 a3 a4 a5 a6 a7].
  destruct lv as [[]|]; unfold level_dist_incr, level_dist_merge, level_dist_new;
    cbn [non_log log_fatal log_error log_warning log_info log_debug log_verbose log_invalid];
    f_equal; lia.
Qed.

Lemma ld_total_merge : forall a b, ld_total (level_dist_merge a b) = ld_total a + ld_total b.
Proof.
  intros [a0 a1 a2 a3 a4 a5 a6 a7] [b0 b1 b2 b3 b4 b5 b6 b7].
  unfold ld_total, level_dist_merge.
  cbn [non_log log_fatal log_error log_warning log_info log_debug log_verbose log_invalid].
  lia.
Qed.

Lemma ld_total_new : forall lv, ld_total (level_dist_new lv) = 1.
Proof. intros [[]|]; reflexivity. Qed.

Lemma ld_total_buckets : forall d,
  ld_total d = fold_right (fun b acc => ld_get b d + acc) 0 all_buckets.
Proof.
  intros d. unfold ld_total, all_buckets. cbn [fold_right ld_get]. lia.
Qed.

(* ---------- merging optional distributions ---------- *)
Definition opt_merge (x y : option level_dist) : option level_dist :=
  match x, y with
  | Some a, Some b => Some (level_dist_merge a b)
  | Some a, None => Some a
  | None, _ => y
  end.

Lemma opt_merge_None_r : forall x, opt_merge x None = x.
Proof. intros [d|]; reflexivity. Qed.

Lemma opt_merge_None_l : forall x, opt_merge None x = x.
Proof. reflexivity. Qed.

Lemma opt_merge_assoc : forall x y z, opt_merge (opt_merge x y) z = opt_merge x (opt_merge y z).
Proof.
  intros [a|] [b|] [c|]; cbn [opt_merge]; try reflexivity.
  rewrite ld_merge_assoc. reflexivity.
Qed.

Lemma opt_merge_comm : forall x y, opt_merge x y = opt_merge y x.
Proof.
  intros [a|] [b|]; cbn [opt_merge]; try reflexivity.
  rewrite ld_merge_comm. reflexivity.
Qed.

(* ---------- id maps: lookup, keys, merge_income ---------- *)
Lemma add_for_level_as_merge : forall lv m id,
  add_for_level lv m id = merge_income m id (level_dist_new lv).
Proof.
  intros lv m id. induction m as [|[k d] r IH]; cbn [add_for_level merge_income].
  - reflexivity.
  - destruct (bytes_eqb k id) eqn:E.
    + rewrite ld_incr_as_merge. reflexivity.
    + rewrite IH. reflexivity.
Qed.

Lemma lookup_None_iff : forall m id, lookup m id = None <-> ~ In id (keys m).
Proof.
  intros m id. induction m as [|[k d] r IH]; cbn [lookup keys map fst In].
  - split; [intros _ [] | reflexivity].
  - destruct (bytes_eqb k id) eqn:E.
    + apply bytes_eqb_eq in E. split; [discriminate | intros H; exfalso; apply H; left; exact E].
    + apply bytes_eqb_neq in E. fold (keys r). rewrite IH. split.
      * intros H [H1|H1]; [exact (E H1) | exact (H H1)].
      * intros H H1. apply H. right. exact H1.
Qed.

Lemma lookup_merge_income : forall o id inc id',
  lookup (merge_income o id inc) id'
  = opt_merge (lookup o id') (if bytes_eqb id id' then Some inc else None).
Proof.
  intros o id inc id'. induction o as [|[k d] r IH]; cbn [merge_income lookup].
  - destruct (bytes_eqb id id'); reflexivity.
  - destruct (bytes_eqb k id) eqn:E.
    + apply bytes_eqb_eq in E. subst k. cbn [lookup].
      destruct (bytes_eqb id id') eqn:E2.
      * reflexivity.
      * rewrite opt_merge_None_r. reflexivity.
    + cbn [lookup]. destruct (bytes_eqb k id') eqn:E3.
      * apply bytes_eqb_eq in E3. subst id'. rewrite bytes_eqb_sym, E. reflexivity.
      * exact IH.
Qed.

Lemma In_keys_merge_income : forall o id inc x,
  In x (keys (merge_income o id inc)) <-> In x (keys o) \/ x = id.
Proof.
  intros o id inc x. induction o as [|[k d] r IH]; cbn [merge_income keys map fst In].
  - split; [intros [H|[]]; right; congruence | intros [[]|H]; left; congruence].
  - destruct (bytes_eqb k id) eqn:E; cbn [keys map fst In].
    + apply bytes_eqb_eq in E. subst k. fold (keys r). split.
      * intros H. left. exact H.
      * intros [H|H]; [exact H | left; congruence].
    + fold (keys r) in *. fold (keys (merge_income r id inc)). rewrite IH. tauto.
Qed.

Lemma NoDup_merge_income : forall o id inc,
  NoDup (keys o) -> NoDup (keys (merge_income o id inc)).
Proof.
  intros o id inc. induction o as [|[k d] r IH]; intros ND; cbn [merge_income].
  - cbn. constructor; [intros [] | constructor].
  - destruct (bytes_eqb k id) eqn:E.
    + exact ND.
    + cbn [keys map fst] in *. fold (keys r) in *. fold (keys (merge_income r id inc)).
      inversion ND as [|? ? Hnin ND']; subst. constructor.
      * rewrite In_keys_merge_income. intros [H|H]; [exact (Hnin H)|].
        subst k. rewrite bytes_eqb_refl in E. discriminate.
      * apply IH. exact ND'.
Qed.

Lemma map_total_merge_income : forall o id inc,
  map_total (merge_income o id inc) = map_total o + ld_total inc.
Proof.
  intros o id inc. induction o as [|[k d] r IH]; cbn [merge_income map_total].
  - lia.
  - destruct (bytes_eqb k id); cbn [map_total].
    + rewrite ld_total_merge. lia.
    + rewrite IH. lia.
Qed.

(* ---------- merge_levels ---------- *)
Lemma merge_levels_cons : forall o k d r,
  merge_levels o ((k, d) :: r) = merge_levels (merge_income o k d) r.
Proof. reflexivity. Qed.

Lemma NoDup_merge_levels : forall i o, NoDup (keys o) -> NoDup (keys (merge_levels o i)).
Proof.
  induction i as [|[k d] r IH]; intros o ND.
  - exact ND.
  - rewrite merge_levels_cons. apply IH. apply NoDup_merge_income. exact ND.
Qed.

Lemma lookup_merge_levels : forall i o id, NoDup (keys i) ->
  lookup (merge_levels o i) id = opt_merge (lookup o id) (lookup i id).
Proof.
  induction i as [|[k d] r IH]; intros o id ND.
  - cbn [merge_levels fold_left lookup]. rewrite opt_merge_None_r. reflexivity.
  - rewrite merge_levels_cons. cbn [keys map fst] in ND. fold (keys r) in ND.
    inversion ND as [|? ? Hnin ND']; subst.
    rewrite (IH _ _ ND'), lookup_merge_income. cbn [lookup].
    destruct (bytes_eqb k id) eqn:E.
    + apply bytes_eqb_eq in E. subst k.
      apply lookup_None_iff in Hnin. rewrite Hnin, opt_merge_None_r. reflexivity.
    + rewrite opt_merge_None_r. reflexivity.
Qed.

Lemma map_total_merge_levels : forall i o,
  map_total (merge_levels o i) = map_total o + map_total i.
Proof.
  induction i as [|[k d] r IH]; intros o.
  - cbn [merge_levels fold_left map_total]. lia.
  - rewrite merge_levels_cons, IH, map_total_merge_income. cbn [map_total]. lia.
Qed.

(* with unique keys, membership of an entry is lookup *)
Lemma In_lookup : forall m id d, NoDup (keys m) -> (In (id, d) m <-> lookup m id = Some d).
Proof.
  induction m as [|[k e] r IH]; intros id d ND; cbn [In lookup].
  - split; [intros [] | discriminate].
  - cbn [keys map fst] in ND. fold (keys r) in ND. inversion ND as [|? ? Hnin ND']; subst.
    destruct (bytes_eqb k id) eqn:E.
    + apply bytes_eqb_eq in E. subst k. split.
      * intros [H|H]; [congruence|]. exfalso. apply Hnin.
        change id with (fst (id, d)). apply in_map. exact H.
      * intros H. left. congruence.
    + apply bytes_eqb_neq in E. rewrite <- (IH id d ND'). split.
      * intros [H|H]; [congruence | exact H].
      * intros H. right. exact H.
Qed.

Lemma lookup_ext_Permutation : forall m m', NoDup (keys m) -> NoDup (keys m') ->
  (forall id, lookup m id = lookup m' id) -> Permutation m m'.
Proof.
  intros m m' ND ND' H. apply NoDup_Permutation.
  - exact (NoDup_map_inv fst m ND).
  - exact (NoDup_map_inv fst m' ND').
  - intros [id d]. rewrite (In_lookup m id d ND), (In_lookup m' id d ND'), H. reflexivity.
Qed.

(* ---------- one collector step ---------- *)
Definition cmap (k : key_kind) (c : collector) : idmap :=
  match k with KEcu => sc_ecu c | KApp => sc_app c | KCtx => sc_ctx c end.

Lemma map_of_collect : forall k c, map_of k (collect c) = cmap k c.
Proof. intros [] c; reflexivity. Qed.

(* the contribution of one message to the entry [id] of map [k] *)
Definition single_dist (k : key_kind) (id : list byte) (s : statistic) : option level_dist :=
  if has_key k id s then Some (level_dist_new (st_level s)) else None.

Lemma lookup_collect_statistic : forall k c s id,
  lookup (cmap k (collect_statistic c s)) id
  = opt_merge (lookup (cmap k c) id) (single_dist k id s).
Proof.
  intros k c [lv ecu ext vb] id.
  unfold collect_statistic, single_dist, has_key, key_of, NONE_ID.
  cbn [st_level st_ecu st_ext st_verbose].
  destruct k; destruct ext as [[ap ct]|]; destruct ecu as [e|];
    cbn [cmap sc_ecu sc_app sc_ctx];
    rewrite ?add_for_level_as_merge, ?lookup_merge_income, ?opt_merge_None_r; reflexivity.
Qed.

Lemma NoDup_collect_statistic : forall k c s,
  NoDup (keys (cmap k c)) -> NoDup (keys (cmap k (collect_statistic c s))).
Proof.
  intros k c [lv ecu ext vb] ND.
  unfold collect_statistic. cbn [st_level st_ecu st_ext st_verbose].
  destruct k; destruct ext as [[ap ct]|]; destruct ecu as [e|];
    cbn [cmap sc_ecu sc_app sc_ctx] in *;
    rewrite ?add_for_level_as_merge; try apply NoDup_merge_income; exact ND.
Qed.

Lemma non_verbose_collect_statistic : forall c s,
  sc_non_verbose (collect_statistic c s) = sc_non_verbose c || negb (st_verbose s).
Proof.
  intros c s. unfold collect_statistic. destruct (st_ext s) as [[ap ct]|]; reflexivity.
Qed.

Lemma total_collect_statistic : forall c s,
  map_total (sc_ecu (collect_statistic c s)) = map_total (sc_ecu c) + 1.
Proof.
  intros c s. unfold collect_statistic.
  destruct (st_ext s) as [[ap ct]|]; destruct (st_ecu s) as [e|]; cbn [sc_ecu];
    rewrite add_for_level_as_merge, map_total_merge_income, ld_total_new; reflexivity.
Qed.

(* ---------- the tally as an opt_merge-homomorphism ---------- *)
Definition tally_ld (k : key_kind) (id : list byte) (l : list statistic) : level_dist :=
  mkLD (tally_lookup k id BNonLog l) (tally_lookup k id BFatal l) (tally_lookup k id BError l)
       (tally_lookup k id BWarning l) (tally_lookup k id BInfo l) (tally_lookup k id BDebug l)
       (tally_lookup k id BVerbose l) (tally_lookup k id BInvalid l).

Definition tally_dist (k : key_kind) (id : list byte) (l : list statistic) : option level_dist :=
  if key_present k id l then Some (tally_ld k id l) else None.

Lemma ld_get_tally_ld : forall b k id l, ld_get b (tally_ld k id l) = tally_lookup k id b l.
Proof. intros [] k id l; reflexivity. Qed.

Lemma tally_lookup_cons : forall k id b s l,
  tally_lookup k id b (s :: l)
  = (if has_key k id s && bucket_eqb (bucket_of (st_level s)) b then 1 else 0)
    + tally_lookup k id b l.
Proof.
  intros k id b s l. unfold tally_lookup, count_where. cbn [filter].
  destruct (has_key k id s && bucket_eqb (bucket_of (st_level s)) b); cbn [length]; lia.
Qed.

Lemma tally_absent : forall k id b l, key_present k id l = false -> tally_lookup k id b l = 0.
Proof.
  intros k id b l. induction l as [|s l IH]; intros H.
  - reflexivity.
  - unfold key_present in *. cbn [existsb] in H. apply orb_false_iff in H. destruct H as [H1 H2].
    rewrite tally_lookup_cons, H1, (IH H2). reflexivity.
Qed.

Lemma tally_dist_nil : forall k id, tally_dist k id [] = None.
Proof. reflexivity. Qed.

Lemma tally_dist_cons : forall k id s l,
  tally_dist k id (s :: l) = opt_merge (single_dist k id s) (tally_dist k id l).
Proof.
  intros k id s l. unfold tally_dist, single_dist, key_present. cbn [existsb].
  destruct (has_key k id s) eqn:Hs; cbn [orb].
  - destruct (existsb (has_key k id) l) eqn:Hl; cbn [opt_merge]; f_equal; apply ld_ext; intros b.
    + rewrite ld_get_merge, ld_get_new, !ld_get_tally_ld, tally_lookup_cons, Hs. reflexivity.
    + rewrite ld_get_new, ld_get_tally_ld, tally_lookup_cons, Hs.
      rewrite (tally_absent k id b l Hl). cbn [andb]. lia.
  - destruct (existsb (has_key k id) l) eqn:Hl; cbn [opt_merge]; [|reflexivity].
    f_equal. apply ld_ext. intros b.
    rewrite !ld_get_tally_ld, tally_lookup_cons, Hs. reflexivity.
Qed.

Lemma tally_dist_app : forall k id a b,
  tally_dist k id (a ++ b) = opt_merge (tally_dist k id a) (tally_dist k id b).
Proof.
  intros k id a b. induction a as [|s a IH]; cbn [app].
  - reflexivity.
  - rewrite !tally_dist_cons, IH, opt_merge_assoc. reflexivity.
Qed.

Lemma tally_dist_perm : forall k id l l', Permutation l l' -> tally_dist k id l = tally_dist k id l'.
Proof.
  intros k id l l' P. induction P as [|x l l' P IH|x y l|l l' l'' P1 IH1 P2 IH2].
  - reflexivity.
  - rewrite !tally_dist_cons, IH. reflexivity.
  - rewrite !tally_dist_cons, <- !opt_merge_assoc.
    rewrite (opt_merge_comm (single_dist k id y)). reflexivity.
  - congruence.
Qed.

Lemma non_verbose_spec_app : forall a b,
  non_verbose_spec (a ++ b) = non_verbose_spec a || non_verbose_spec b.
Proof. intros a b. unfold non_verbose_spec. apply existsb_app. Qed.

Lemma non_verbose_spec_perm : forall l l', Permutation l l' -> non_verbose_spec l = non_verbose_spec l'.
Proof.
  intros l l' P. unfold non_verbose_spec.
  induction P as [|x l l' P IH|x y l|l l' l'' P1 IH1 P2 IH2]; cbn [existsb].
  - reflexivity.
  - rewrite IH. reflexivity.
  - rewrite !orb_assoc, (orb_comm (negb (st_verbose y))). reflexivity.
  - congruence.
Qed.

(* ---------- the collector run ---------- *)
Lemma lookup_fold : forall k id l c,
  lookup (cmap k (fold_left collect_statistic l c)) id
  = opt_merge (lookup (cmap k c) id) (tally_dist k id l).
Proof.
  intros k id l. induction l as [|s l IH]; intros c; cbn [fold_left].
  - rewrite tally_dist_nil, opt_merge_None_r. reflexivity.
  - rewrite IH, lookup_collect_statistic, tally_dist_cons, opt_merge_assoc. reflexivity.
Qed.

Lemma NoDup_fold : forall k l c,
  NoDup (keys (cmap k c)) -> NoDup (keys (cmap k (fold_left collect_statistic l c))).
Proof.
  intros k l. induction l as [|s l IH]; intros c ND; cbn [fold_left].
  - exact ND.
  - apply IH. apply NoDup_collect_statistic. exact ND.
Qed.

Lemma non_verbose_fold : forall l c,
  sc_non_verbose (fold_left collect_statistic l c) = sc_non_verbose c || non_verbose_spec l.
Proof.
  induction l as [|s l IH]; intros c; cbn [fold_left].
  - unfold non_verbose_spec. cbn [existsb]. rewrite orb_false_r. reflexivity.
  - rewrite IH, non_verbose_collect_statistic. unfold non_verbose_spec. cbn [existsb].
    rewrite orb_assoc. reflexivity.
Qed.

Lemma total_fold : forall l c,
  map_total (sc_ecu (fold_left collect_statistic l c))
  = map_total (sc_ecu c) + N.of_nat (length l).
Proof.
  induction l as [|s l IH]; intros c; cbn [fold_left length].
  - lia.
  - rewrite IH, total_collect_statistic. lia.
Qed.

Lemma lookup_collect_all : forall k id l,
  lookup (map_of k (collect_all l)) id = tally_dist k id l.
Proof.
  intros k id l. unfold collect_all. rewrite map_of_collect, lookup_fold.
  destruct k; reflexivity.
Qed.

Lemma collect_all_wf : forall l, stat_wf (collect_all l).
Proof.
  intros l k. unfold collect_all. rewrite map_of_collect. apply NoDup_fold.
  destruct k; constructor.
Qed.

Lemma non_verbose_collect_all : forall l, si_non_verbose (collect_all l) = non_verbose_spec l.
Proof.
  intros l. unfold collect_all, collect. cbn [si_non_verbose]. rewrite non_verbose_fold. reflexivity.
Qed.

(* ---------- C10: the result is the tally ---------- *)
Lemma collect_all_tally : forall l : list statistic,
  (forall k, NoDup (keys (map_of k (collect_all l)))) /\
  (forall k id,
     match lookup (map_of k (collect_all l)) id with
     | Some d => key_present k id l = true /\ forall b, ld_get b d = tally_lookup k id b l
     | None => key_present k id l = false
     end) /\
  si_non_verbose (collect_all l) = non_verbose_spec l.
Proof.
  intros l. split; [|split].
  - apply collect_all_wf.
  - intros k id. rewrite lookup_collect_all. unfold tally_dist.
    destruct (key_present k id l).
    + split; [reflexivity | intros b; apply ld_get_tally_ld].
    + reflexivity.
  - apply non_verbose_collect_all.
Qed.

Lemma collect_all_total : forall l : list statistic,
  map_total (si_ecu (collect_all l)) = N.of_nat (length l).
Proof.
  intros l. unfold collect_all, collect. cbn [si_ecu]. rewrite total_fold. reflexivity.
Qed.

(* every message has exactly one ECU key and one bucket: summing the tally over the keys of
   the ECU map and the eight buckets also gives the number of messages *)
Lemma map_total_as_buckets : forall m,
  map_total m
  = fold_right (fun e acc => fold_right (fun b acc' => ld_get b (snd e) + acc') 0 all_buckets + acc) 0 m.
Proof.
  induction m as [|[k d] r IH]; cbn [map_total fold_right snd].
  - reflexivity.
  - rewrite IH, ld_total_buckets. reflexivity.
Qed.

(* ---------- stat_equiv ---------- *)
Lemma stat_equiv_refl : forall a, stat_wf a -> stat_equiv a a.
Proof.
  intros a W. split; [|reflexivity]. intros k. split; [apply W | split; [apply W | reflexivity]].
Qed.

Lemma stat_equiv_sym : forall a b, stat_equiv a b -> stat_equiv b a.
Proof.
  intros a b [H Hv]. split; [|symmetry; exact Hv].
  intros k. destruct (H k) as (Na & Nb & L). split; [exact Nb | split; [exact Na|]].
  intros id. symmetry. apply L.
Qed.

Lemma stat_equiv_trans : forall a b c, stat_equiv a b -> stat_equiv b c -> stat_equiv a c.
Proof.
  intros a b c [H1 V1] [H2 V2]. split; [|congruence].
  intros k. destruct (H1 k) as (Na & _ & L1). destruct (H2 k) as (_ & Nc & L2).
  split; [exact Na | split; [exact Nc|]]. intros id. rewrite L1. apply L2.
Qed.

Lemma stat_equiv_wf_l : forall a b, stat_equiv a b -> stat_wf a.
Proof. intros a b [H _] k. apply (H k). Qed.

Lemma stat_equiv_wf_r : forall a b, stat_equiv a b -> stat_wf b.
Proof. intros a b [H _] k. apply (H k). Qed.

(* equivalent results have the same entries, as multisets *)
Lemma stat_equiv_Permutation : forall a b, stat_equiv a b ->
  forall k, Permutation (map_of k a) (map_of k b).
Proof.
  intros a b [H _] k. destruct (H k) as (Na & Nb & L). apply lookup_ext_Permutation; assumption.
Qed.

Lemma map_of_merge : forall k a b,
  map_of k (merge a b) = merge_levels (map_of k a) (map_of k b).
Proof. intros [] a b; reflexivity. Qed.

Lemma merge_wf : forall a b, stat_wf a -> stat_wf (merge a b).
Proof. intros a b W k. rewrite map_of_merge. apply NoDup_merge_levels. apply W. Qed.

Lemma stat_info_new_wf : stat_wf stat_info_new.
Proof. intros []; constructor. Qed.

Lemma lookup_merge : forall k a b id, stat_wf b ->
  lookup (map_of k (merge a b)) id
  = opt_merge (lookup (map_of k a) id) (lookup (map_of k b) id).
Proof. intros k a b id W. rewrite map_of_merge. apply lookup_merge_levels. apply W. Qed.

Lemma merge_equiv : forall a a' b b',
  stat_equiv a a' -> stat_equiv b b' -> stat_equiv (merge a b) (merge a' b').
Proof.
  intros a a' b b' Ea Eb.
  pose proof (stat_equiv_wf_l _ _ Ea) as Wa. pose proof (stat_equiv_wf_r _ _ Ea) as Wa'.
  pose proof (stat_equiv_wf_l _ _ Eb) as Wb. pose proof (stat_equiv_wf_r _ _ Eb) as Wb'.
  destruct Ea as [Ha Va]. destruct Eb as [Hb Vb]. split.
  - intros k. split; [apply merge_wf; exact Wa | split; [apply merge_wf; exact Wa'|]].
    intros id. rewrite !lookup_merge by assumption.
    destruct (Ha k) as (_ & _ & La). destruct (Hb k) as (_ & _ & Lb).
    rewrite La, Lb. reflexivity.
  - unfold merge. cbn [si_non_verbose]. congruence.
Qed.

(* ---------- C10: merging ---------- *)
Lemma merge_collect_all : forall a b : list statistic,
  stat_equiv (merge (collect_all a) (collect_all b)) (collect_all (a ++ b)).
Proof.
  intros a b. split.
  - intros k. split; [apply merge_wf, collect_all_wf | split; [apply collect_all_wf|]].
    intros id. rewrite lookup_merge by apply collect_all_wf.
    rewrite !lookup_collect_all, tally_dist_app. reflexivity.
  - unfold merge. cbn [si_non_verbose].
    rewrite !non_verbose_collect_all, non_verbose_spec_app. reflexivity.
Qed.

Lemma merge_comm : forall a b, stat_wf a -> stat_wf b -> stat_equiv (merge a b) (merge b a).
Proof.
  intros a b Wa Wb. split.
  - intros k. split; [apply merge_wf; exact Wa | split; [apply merge_wf; exact Wb|]].
    intros id. rewrite !lookup_merge by assumption. apply opt_merge_comm.
  - unfold merge. cbn [si_non_verbose]. apply orb_comm.
Qed.

Lemma merge_assoc : forall a b c, stat_wf a -> stat_wf b -> stat_wf c ->
  stat_equiv (merge (merge a b) c) (merge a (merge b c)).
Proof.
  intros a b c Wa Wb Wc. split.
  - intros k. split; [apply merge_wf, merge_wf; exact Wa | split; [apply merge_wf; exact Wa|]].
    intros id. pose proof (merge_wf b c Wb) as Wbc.
    rewrite !lookup_merge by assumption. apply opt_merge_assoc.
  - unfold merge. cbn [si_non_verbose]. symmetry. apply orb_assoc.
Qed.

Lemma merge_neutral : forall a, stat_wf a ->
  stat_equiv (merge stat_info_new a) a /\ stat_equiv (merge a stat_info_new) a.
Proof.
  intros a W. split; split.
  - intros k. split; [apply merge_wf, stat_info_new_wf | split; [apply W|]].
    intros id. rewrite lookup_merge by exact W. destruct k; reflexivity.
  - reflexivity.
  - intros k. split; [apply merge_wf; exact W | split; [apply W|]].
    intros id. rewrite lookup_merge by apply stat_info_new_wf.
    destruct k; cbn [map_of stat_info_new si_ecu si_app si_ctx lookup]; apply opt_merge_None_r.
  - unfold merge. cbn [si_non_verbose stat_info_new]. apply orb_false_r.
Qed.

(* merging with the empty result on the right changes nothing at all *)
Lemma merge_new_r_eq : forall a, merge a stat_info_new = a.
Proof.
  intros [ap ct ec nv]. unfold merge, merge_levels, stat_info_new.
  cbn [si_app si_ctx si_ecu si_non_verbose fold_left]. rewrite orb_false_r. reflexivity.
Qed.

Lemma collect_all_perm : forall l l', Permutation l l' -> stat_equiv (collect_all l) (collect_all l').
Proof.
  intros l l' P. split.
  - intros k. split; [apply collect_all_wf | split; [apply collect_all_wf|]].
    intros id. rewrite !lookup_collect_all. apply tally_dist_perm. exact P.
  - rewrite !non_verbose_collect_all. apply non_verbose_spec_perm. exact P.
Qed.

(* ---------- C10: any split, order and grouping ---------- *)
Lemma flatten_node : forall a b, flatten (Node a b) = flatten a ++ flatten b.
Proof. intros a b. unfold flatten. cbn [leaves]. apply concat_app. Qed.

Lemma eval_tree_flatten : forall t, stat_equiv (eval_tree t) (collect_all (flatten t)).
Proof.
  induction t as [l|a IHa b IHb].
  - unfold flatten. cbn [eval_tree leaves concat]. rewrite app_nil_r.
    apply stat_equiv_refl, collect_all_wf.
  - cbn [eval_tree]. rewrite flatten_node.
    eapply stat_equiv_trans; [apply merge_equiv; [exact IHa | exact IHb]|].
    apply merge_collect_all.
Qed.

Lemma Permutation_concat' : forall (A : Type) (ls ls' : list (list A)),
  Permutation ls ls' -> Permutation (concat ls) (concat ls').
Proof.
  intros A ls ls' P. induction P as [|x l l' P IH|x y l|l l' l'' P1 IH1 P2 IH2]; cbn [concat].
  - constructor.
  - apply Permutation_app_head. exact IH.
  - rewrite !app_assoc. apply Permutation_app_tail. apply Permutation_app_comm.
  - eapply Permutation_trans; eassumption.
Qed.

Lemma eval_tree_perm : forall t t', Permutation (flatten t) (flatten t') ->
  stat_equiv (eval_tree t) (eval_tree t').
Proof.
  intros t t' P.
  eapply stat_equiv_trans; [apply eval_tree_flatten|].
  eapply stat_equiv_trans; [apply collect_all_perm; exact P|].
  apply stat_equiv_sym, eval_tree_flatten.
Qed.

(* the parts of a stream, merged in any order and grouping *)
Lemma eval_tree_parts : forall (parts : list (list statistic)) t,
  Permutation (leaves t) parts -> stat_equiv (eval_tree t) (collect_all (concat parts)).
Proof.
  intros parts t P.
  eapply stat_equiv_trans; [apply eval_tree_flatten|].
  apply collect_all_perm. unfold flatten. apply Permutation_concat'. exact P.
Qed.

Lemma eval_tree_message_parts : forall (parts : list (list message)) t,
  Permutation (leaves t) (map (map statistic_of_message) parts) ->
  stat_equiv (eval_tree t) (collect_messages (concat parts)).
Proof.
  intros parts t P. unfold collect_messages. rewrite concat_map.
  apply eval_tree_parts. exact P.
Qed.

(* ---------- message streams: one statistic per message, in order ---------- *)
Lemma collect_messages_total : forall ms : list message,
  map_total (si_ecu (collect_messages ms)) = N.of_nat (length ms).
Proof.
  intros ms. unfold collect_messages. rewrite collect_all_total, map_length. reflexivity.
Qed.

Lemma collect_messages_app : forall a b : list message,
  stat_equiv (merge (collect_messages a) (collect_messages b)) (collect_messages (a ++ b)).
Proof.
  intros a b. unfold collect_messages. rewrite map_app. apply merge_collect_all.
Qed.
