(* Proofs/Headers.v — the three headers: written bytes parse back (with any continuation) and every
   proper prefix of them is reported Incomplete with a safe hint. *)
From Coq Require Import Lia ZifyBool ZifyN ZifyNat.
From DltV.Model Require Import Bytes Utf8 Nom Dlt Parse.
From DltV.Spec Require Import WellFormed.
From DltV.Proofs Require Import BytesBasics Fields Utf8Lemmas ZString ParseLemmas Stable.
Open Scope N_scope.

(* ---------- header-type byte: encode then decode ---------- *)
Lemma htyp_fields (x : bool) (e : endian) (w s t : bool) (v : N) : v < 8 ->
  let b := htyp_encode x e w s t v in
  b < 256 /\ flag b 1 = x /\ (if flag b 2 then BE else LE) = e /\ flag b 4 = w /\ flag b 8 = s
  /\ flag b 16 = t /\ N.land (N.shiftr b 5) 7 = v.
Proof.
  intros Hv.
  assert (E : v = 0 \/ v = 1 \/ v = 2 \/ v = 3 \/ v = 4 \/ v = 5 \/ v = 6 \/ v = 7) by lia.
  destruct x, e, w, s, t; repeat (destruct E as [->|E]); try subst v; vm_compute; repeat split; trivial.
Qed.

Lemma put_zstring_eq s : len s <= 4 -> put_zstring s 4 = s ++ repeat x00 (N.to_nat (4 - len s)).
Proof.
  intros H. unfold put_zstring, zeros. f_equal. f_equal. unfold len in *. lia.
Qed.
Lemma len_put_zstring s : len s <= 4 -> len (put_zstring s 4) = 4.
Proof. intros H. rewrite put_zstring_eq, len_app, len_repeat by exact H. lia. Qed.

Lemma stable_id s : wf_id s = true -> stable (zstring 4) (put_zstring s 4) s.
Proof.
  unfold wf_id. intros H. apply andb_true_iff in H as [H Hv]. apply andb_true_iff in H as [Hl Hn].
  apply N.leb_le in Hl. rewrite put_zstring_eq by exact Hl. now apply stable_zstring.
Qed.

(* ---------- standard header ---------- *)
Definition opt_bytes {A} (w : A -> list byte) (o : option A) : list byte :=
  match o with Some a => w a | None => [] end.

Lemma std_header_bytes_eq h :
  std_header_bytes h =
  [n2b (header_type_byte h)] ++ [n2b (h_mcnt h)] ++ put_uint BE 2 (overall_length h)
  ++ (if is_some (h_ecu h) then opt_bytes (fun id => put_zstring id 4) (h_ecu h) else [])
  ++ (if is_some (h_session h) then opt_bytes (put_uint BE 4) (h_session h) else [])
  ++ (if is_some (h_timestamp h) then opt_bytes (put_uint BE 4) (h_timestamp h) else []) ++ [].
Proof.
  unfold std_header_bytes. rewrite app_nil_r.
  destruct (h_ecu h), (h_session h), (h_timestamp h); reflexivity.
Qed.

Lemma std_header_stable h :
  wf_std h = true -> overall_length_raw h <= 65535 ->
  stable dlt_standard_header (std_header_bytes h) h.
Proof.
  intros Hwf Hlen. unfold wf_std in Hwf.
  apply andb_true_iff in Hwf as [Hwf Ht]. apply andb_true_iff in Hwf as [Hwf Hs].
  apply andb_true_iff in Hwf as [Hwf He]. apply andb_true_iff in Hwf as [Hv Hm].
  apply N.ltb_lt in Hv, Hm.
  remember (header_type_byte h) as htyp eqn:Hh.
  destruct (htyp_fields (h_has_ext h) (h_endian h) (is_some (h_ecu h)) (is_some (h_session h))
              (is_some (h_timestamp h)) (h_version h) Hv) as (B & F1 & F2 & F4 & F8 & F16 & FV).
  assert (Hhtyp : htyp = htyp_encode (h_has_ext h) (h_endian h) (is_some (h_ecu h)) (is_some (h_session h))
                           (is_some (h_timestamp h)) (h_version h)).
  { rewrite Hh. unfold header_type_byte, is_some. now destruct (h_ecu h), (h_session h), (h_timestamp h). }
  rewrite <- Hhtyp in *. clear Hhtyp.
  assert (Ov : overall_length h = overall_length_raw h) by (apply N.mod_small; lia).
  assert (AH : calculate_all_headers_length htyp + h_payload_length h = overall_length_raw h).
  { unfold calculate_all_headers_length, calculate_standard_header_length, overall_length_raw.
    rewrite F1, F4, F8, F16. unfold is_some. destruct (h_ecu h), (h_session h), (h_timestamp h), (h_has_ext h); lia. }
  rewrite std_header_bytes_eq. rewrite <- Hh. clear Hh. unfold dlt_standard_header.
  apply (stable_bind u8 _ [n2b htyp] _ htyp); [now apply stable_u8|]. cbv beta.
  apply (stable_bind u8 _ [n2b (h_mcnt h)] _ (h_mcnt h)); [now apply stable_u8|]. cbv beta.
  apply (stable_bind (uint BE 2) _ (put_uint BE 2 (overall_length h)) _ (overall_length h));
    [apply stable_uint; change (256 ^ N.of_nat 2) with 65536; lia|]. cbv beta.
  rewrite F4, F8, F16.
  eapply (stable_bind _ _ _ _ (h_ecu h)).
  { destruct (h_ecu h) as [id|] eqn:Ee; cbn [is_some opt_bytes].
    - apply (stable_pmap Some (zstring 4)). apply stable_id. exact He.
    - apply stable_ret. }
  cbv beta.
  eapply (stable_bind _ _ _ _ (h_session h)).
  { destruct (h_session h) as [sv|] eqn:Es; cbn [is_some opt_bytes].
    - apply (stable_pmap Some (uint BE 4)). apply stable_uint. rewrite pow256.
      change (8 * N.of_nat 4) with 32. apply N.ltb_lt. exact Hs.
    - apply stable_ret. }
  cbv beta.
  eapply (stable_bind _ _ _ _ (h_timestamp h)).
  { destruct (h_timestamp h) as [tv|] eqn:Et; cbn [is_some opt_bytes].
    - apply (stable_pmap Some (uint BE 4)). apply stable_uint. rewrite pow256.
      change (8 * N.of_nat 4) with 32. apply N.ltb_lt. exact Ht.
    - apply stable_ret. }
  cbv beta.
  destruct (N.ltb_spec (overall_length h) (calculate_all_headers_length htyp)) as [Hbad|_]; [lia|].
  rewrite FV, F2, F1.
  replace (overall_length h - calculate_all_headers_length htyp) with (h_payload_length h) by lia.
  destruct h; apply stable_ret.
Qed.

(* ---------- message-info byte: encode then decode ---------- *)
Ltac enum16 v H :=
  let E := fresh "E" in
  assert (E : v = 0 \/ v = 1 \/ v = 2 \/ v = 3 \/ v = 4 \/ v = 5 \/ v = 6 \/ v = 7 \/ v = 8 \/ v = 9
              \/ v = 10 \/ v = 11 \/ v = 12 \/ v = 13 \/ v = 14 \/ v = 15) by lia;
  repeat (destruct E as [->|E]); try subst v.

Lemma msin_decode_encode t (vb : bool) : wf_mtype t = true ->
  msin_encode t vb < 256 /\ message_type_decode (msin_encode t vb) = t /\ msin_verbose (msin_encode t vb) = vb.
Proof.
  intros H. destruct t as [[| | | | | |v]|[| | | | |v]|[| | | | | | |v]|[| |v]|mstp mtin]; cbn [wf_mtype wf_log_level] in H.
  1-6,8-12,14-20,22-23: destruct vb; vm_compute; repeat split; trivial.
  - apply andb_true_iff in H as [H1 H2]. apply N.ltb_lt in H1.
    enum16 v H1; try (cbn in H2; discriminate); destruct vb; vm_compute; repeat split; trivial.
  - apply andb_true_iff in H as [H1 H2]. apply N.ltb_lt in H1.
    enum16 v H1; try (cbn in H2; discriminate); destruct vb; vm_compute; repeat split; trivial.
  - apply andb_true_iff in H as [H2 H1]. apply N.ltb_lt in H1.
    enum16 v H1; try (cbn in H2; discriminate); destruct vb; vm_compute; repeat split; trivial.
  - apply andb_true_iff in H as [H1 H2]. apply N.ltb_lt in H1.
    enum16 v H1; try (cbn in H2; discriminate); destruct vb; vm_compute; repeat split; trivial.
  - apply andb_true_iff in H as [H H3]. apply andb_true_iff in H as [H1 H2].
    apply N.leb_le in H1. apply N.ltb_lt in H2, H3.
    assert (Em : mstp = 4 \/ mstp = 5 \/ mstp = 6 \/ mstp = 7) by lia.
    enum16 mtin H3; repeat (destruct Em as [->|Em]); try subst mstp; destruct vb; vm_compute; repeat split; trivial.
Qed.

(* ---------- extended header ---------- *)
Lemma ext_header_stable x : wf_ext x = true -> stable dlt_extended_header (ext_header_bytes x) x.
Proof.
  unfold wf_ext. intros H. apply andb_true_iff in H as [H Hc]. apply andb_true_iff in H as [H Ha].
  apply andb_true_iff in H as [Hn Ht]. apply N.ltb_lt in Hn.
  destruct (msin_decode_encode (e_mtype x) (e_verbose x) Ht) as (B & D & V).
  unfold ext_header_bytes, dlt_extended_header.
  change ([n2b (msin_encode (e_mtype x) (e_verbose x)); n2b (e_noar x)] ++ put_zstring (e_apid x) 4 ++ put_zstring (e_ctid x) 4)
    with ([n2b (msin_encode (e_mtype x) (e_verbose x))] ++ [n2b (e_noar x)] ++ put_zstring (e_apid x) 4 ++ put_zstring (e_ctid x) 4).
  rewrite <- (app_nil_r (put_zstring (e_ctid x) 4)).
  apply (stable_bind u8 _ _ _ (msin_encode (e_mtype x) (e_verbose x))); [now apply stable_u8|]. cbv beta.
  apply (stable_bind u8 _ _ _ (e_noar x)); [now apply stable_u8|]. cbv beta.
  apply (stable_bind parse_ecu_id _ _ _ (e_apid x)); [now apply stable_id|]. cbv beta.
  apply (stable_bind parse_ecu_id _ _ _ (e_ctid x)); [now apply stable_id|]. cbv beta.
  rewrite D, V. destruct x; apply stable_ret.
Qed.

Lemma len_std_header_bytes h :
  wf_std h = true ->
  len (std_header_bytes h) = calculate_standard_header_length (header_type_byte h).
Proof.
  intros Hwf. unfold wf_std in Hwf.
  apply andb_true_iff in Hwf as [Hwf _]. apply andb_true_iff in Hwf as [Hwf _].
  apply andb_true_iff in Hwf as [Hwf He]. apply andb_true_iff in Hwf as [Hv _]. apply N.ltb_lt in Hv.
  destruct (htyp_fields (h_has_ext h) (h_endian h) (is_some (h_ecu h)) (is_some (h_session h))
              (is_some (h_timestamp h)) (h_version h) Hv) as (_ & _ & _ & F4 & F8 & F16 & _).
  assert (Hhtyp : header_type_byte h = htyp_encode (h_has_ext h) (h_endian h) (is_some (h_ecu h)) (is_some (h_session h))
                           (is_some (h_timestamp h)) (h_version h)).
  { unfold header_type_byte, is_some. now destruct (h_ecu h), (h_session h), (h_timestamp h). }
  rewrite <- Hhtyp in *. unfold calculate_standard_header_length. rewrite F4, F8, F16.
  unfold std_header_bytes. rewrite !len_app, len_put_uint.
  assert (L1 : len (match h_ecu h with Some id => put_zstring id 4 | None => [] end) = if is_some (h_ecu h) then 4 else 0).
  { destruct (h_ecu h) as [id|]; [|reflexivity]. cbn [is_some]. apply len_put_zstring.
    cbn in He. unfold wf_id in He. apply andb_true_iff in He as [He _]. apply andb_true_iff in He as [He _].
    now apply N.leb_le. }
  assert (L2 : len (match h_session h with Some v => put_uint BE 4 v | None => [] end) = if is_some (h_session h) then 4 else 0)
    by (destruct (h_session h); [apply len_put_uint | reflexivity]).
  assert (L3 : len (match h_timestamp h with Some v => put_uint BE 4 v | None => [] end) = if is_some (h_timestamp h) then 4 else 0)
    by (destruct (h_timestamp h); [apply len_put_uint | reflexivity]).
  rewrite L1, L2, L3. change (len [n2b (header_type_byte h); n2b (h_mcnt h)]) with 2.
  destruct (is_some (h_ecu h)), (is_some (h_session h)), (is_some (h_timestamp h)); lia.
Qed.

Lemma len_ext_header_bytes x : wf_ext x = true -> len (ext_header_bytes x) = 10.
Proof.
  unfold wf_ext. intros H. apply andb_true_iff in H as [H Hc]. apply andb_true_iff in H as [_ Ha].
  unfold wf_id in *. apply andb_true_iff in Ha as [Ha _]. apply andb_true_iff in Ha as [Ha _].
  apply andb_true_iff in Hc as [Hc _]. apply andb_true_iff in Hc as [Hc _].
  apply N.leb_le in Ha, Hc.
  unfold ext_header_bytes. rewrite !len_app, !len_put_zstring by assumption. reflexivity.
Qed.

(* ---------- lengths declared by a well-formed standard header ---------- *)
Lemma header_type_byte_eq h :
  header_type_byte h = htyp_encode (h_has_ext h) (h_endian h) (is_some (h_ecu h)) (is_some (h_session h))
                           (is_some (h_timestamp h)) (h_version h).
Proof. unfold header_type_byte, is_some. now destruct (h_ecu h), (h_session h), (h_timestamp h). Qed.

Lemma wf_std_version h : wf_std h = true -> h_version h < 8.
Proof.
  unfold wf_std. intros Hwf.
  apply andb_true_iff in Hwf as [Hwf _]. apply andb_true_iff in Hwf as [Hwf _].
  apply andb_true_iff in Hwf as [Hwf _]. apply andb_true_iff in Hwf as [Hv _]. now apply N.ltb_lt.
Qed.

Lemma all_headers_length_split h :
  wf_std h = true ->
  calculate_all_headers_length (header_type_byte h) =
  calculate_standard_header_length (header_type_byte h) + (if h_has_ext h then 10 else 0).
Proof.
  intros Hwf. pose proof (wf_std_version h Hwf) as Hv.
  destruct (htyp_fields (h_has_ext h) (h_endian h) (is_some (h_ecu h)) (is_some (h_session h))
              (is_some (h_timestamp h)) (h_version h) Hv) as (_ & F1 & _).
  rewrite <- header_type_byte_eq in F1. unfold calculate_all_headers_length. now rewrite F1.
Qed.

Lemma all_headers_length_eq h :
  wf_std h = true ->
  calculate_all_headers_length (header_type_byte h) + h_payload_length h = overall_length_raw h.
Proof.
  intros Hwf. pose proof (wf_std_version h Hwf) as Hv.
  destruct (htyp_fields (h_has_ext h) (h_endian h) (is_some (h_ecu h)) (is_some (h_session h))
              (is_some (h_timestamp h)) (h_version h) Hv) as (_ & F1 & _ & F4 & F8 & F16 & _).
  rewrite <- header_type_byte_eq in *.
  unfold calculate_all_headers_length, calculate_standard_header_length, overall_length_raw.
  rewrite F1, F4, F8, F16. unfold is_some.
  destruct (h_ecu h), (h_session h), (h_timestamp h), (h_has_ext h); lia.
Qed.
