(* Proofs/LayoutArgs.v — C02: the streaming field parsers of the model against the total readers
   of Spec/Layout.v.
     [field p k f]   : p is a fixed-size field parser — with >= k bytes it returns f(first k bytes)
                       and the rest, with fewer it is Incomplete;
     [agree x y]     : a parser result and a reader result on the SAME input coincide
                       (Ok <-> fits with the same value and rest; Incomplete/Error <-> does not fit);
   then, argument by argument kind,  agree (dlt_argument e i) (rd_arg e i)  for every input. *)
From Coq Require Import Lia ZifyBool ZifyN ZifyNat.
From DltV.Model Require Import Bytes RustInt Utf8 Nom Dlt Parse.
From DltV.Spec Require Import Layout.
From DltV.Proofs Require Import BytesBasics Fields Utf8Lemmas ZString Codes ParseLemmas LayoutBits.
Open Scope N_scope.

Lemma until_nul_eq l : until_nul l = upto_nul l.
Proof. induction l as [|b r IH]; [reflexivity|]. cbn [until_nul upto_nul]. unfold is_nul. now rewrite IH. Qed.

(* ---------- fixed-size fields ---------- *)
Definition field {A} (p : list byte -> pres A) (k : N) (f : list byte -> A) : Prop :=
  forall i, (k <= len i -> p i = POk (f (firstn (N.to_nat k) i)) (skipn (N.to_nat k) i))
         /\ (len i < k -> exists n, p i = PIncomplete n).

Lemma field_long {A} (p : list byte -> pres A) k f i : field p k f -> k <= len i ->
  p i = POk (f (firstn (N.to_nat k) i)) (skipn (N.to_nat k) i).
Proof. intros F. apply (F i). Qed.
Lemma field_short {A} (p : list byte -> pres A) k f i : field p k f -> len i < k ->
  exists n, p i = PIncomplete n.
Proof. intros F. apply (F i). Qed.

Lemma field_uint e k : field (uint e k) (N.of_nat k) (get_uint e).
Proof.
  intros i. split; intros H.
  - unfold uint. destruct (N.ltb_spec (len i) (N.of_nat k)); [lia|]. now rewrite Nat2N.id.
  - rewrite uint_short by exact H. eexists. reflexivity.
Qed.

Lemma field_ext {A} (p : list byte -> pres A) k f f' :
  (forall c, len c = k -> f c = f' c) -> field p k f -> field p k f'.
Proof.
  intros E F i. split; intros H.
  - rewrite (field_long _ _ _ _ F H). f_equal. apply E. now apply len_firstn_N.
  - now apply (field_short _ _ _ _ F).
Qed.

Lemma field_pmap {A B} (g : A -> B) (p : list byte -> pres A) k f :
  field p k f -> field (fun i => pmap g (p i)) k (fun c => g (f c)).
Proof.
  intros F i. split; intros H.
  - now rewrite (field_long _ _ _ _ F H).
  - destruct (field_short _ _ _ _ F H) as (n & ->). now exists n.
Qed.

Lemma field_sint e k : field (sint e k) (N.of_nat k) (get_sint e).
Proof.
  apply (field_ext _ _ (fun c => to_signed (8 * N.of_nat k) (get_uint e c))).
  - intros c Hc. unfold get_sint. unfold len in Hc. now rewrite Hc.
  - apply (field_pmap (to_signed (8 * N.of_nat k))), field_uint.
Qed.

Lemma field_zstring size : field (zstring size) size text_of.
Proof.
  intros i. split; intros H.
  - rewrite zstring_enough by exact H. reflexivity.
  - destruct (zstring_short size i H) as (n & -> & _). eexists. reflexivity.
Qed.

Lemma field_take n : field (take n) n (fun c => c).
Proof.
  intros i. split; intros H.
  - now apply take_enough.
  - rewrite take_short by exact H. eexists. reflexivity.
Qed.

Lemma get_uint_single e b : get_uint e [b] = b2n b.
Proof. destruct e; cbn [get_uint rev app le_get]; lia. Qed.
Lemma len1_single (c : list byte) : len c = 1 -> exists b, c = [b].
Proof.
  destruct c as [|b [|b' c]]; unfold len; cbn [length]; intros H; try lia. now exists b.
Qed.
Lemma get_uint_1 e e' c : len c = 1 -> get_uint e c = get_uint e' c.
Proof. intros H. destruct (len1_single c H) as (b & ->). now rewrite !get_uint_single. Qed.
Lemma get_sint_1 e e' c : len c = 1 -> get_sint e c = get_sint e' c.
Proof. intros H. unfold get_sint. now rewrite (get_uint_1 e e' c H). Qed.

Lemma field_u8 e : field u8 1 (get_uint e).
Proof. apply (field_ext _ _ (get_uint BE)); [intros c; apply get_uint_1 | apply (field_uint BE 1)]. Qed.
Lemma field_s8 e : field (sint BE 1) 1 (get_sint e).
Proof. apply (field_ext _ _ (get_sint BE)); [intros c; apply get_sint_1 | apply (field_sint BE 1)]. Qed.

(* ---------- agreement on the same input ---------- *)
Definition agree {A} (x : pres A) (y : option (A * list byte)) : Prop :=
  match x with
  | POk v r => y = Some (v, r)
  | PIncomplete _ => y = None
  | PError => y = None
  | PFailure => False
  | PPanic => False
  end.

Lemma agree_field {A} (p : list byte -> pres A) k f i : field p k f -> agree (p i) (rd k f i).
Proof.
  intros F. unfold rd. destruct (N.ltb_spec (len i) k) as [H|H].
  - destruct (field_short _ _ _ _ F H) as (n & ->). reflexivity.
  - rewrite (field_long _ _ _ _ F H). reflexivity.
Qed.

Lemma agree_bind {A B} (x : pres A) (y : option (A * list byte))
    (f : A -> list byte -> pres B) (g : A -> list byte -> option (B * list byte)) :
  agree x y -> (forall v r, agree (f v r) (g v r)) -> agree (pbind x f) (obind y g).
Proof.
  intros H K. destruct x as [v r| | | |]; cbn [agree pbind] in *; try contradiction; subst y;
    cbn [obind]; [apply K | reflexivity | reflexivity].
Qed.

Lemma agree_pmap {A B} (h : A -> B) (x : pres A) (y : option (A * list byte)) :
  agree x y -> agree (pmap h x) (obind y (fun v r => Some (h v, r))).
Proof. intros H. unfold pmap. apply agree_bind; [exact H | intros; reflexivity]. Qed.

Lemma agree_ret {A} (v : A) i : agree (POk v i) (Some (v, i)).
Proof. reflexivity. Qed.

Lemma agree_opt {A} (c : bool) (p : list byte -> pres A) (g : reader A) i :
  (forall i, agree (p i) (g i)) ->
  agree (if c then pmap Some (p i) else POk None i) (rd_opt c g i).
Proof.
  intros H. unfold rd_opt. destruct c; [|reflexivity]. apply agree_pmap, H.
Qed.

(* ---------- the pieces of an argument ---------- *)
Lemma agree_uint e k i : agree (uint e k i) (rd_uint e (N.of_nat k) i).
Proof. apply agree_field, field_uint. Qed.
Lemma agree_zstring size i : agree (zstring size i) (rd_text size i).
Proof. apply agree_field, field_zstring. Qed.

Lemma agree_name e i : agree (dlt_variable_name e i) (rd_name e i).
Proof.
  unfold dlt_variable_name, rd_name. apply agree_bind; [apply (agree_uint e 2)|].
  intros v r. apply agree_zstring.
Qed.

Lemma agree_name_opt e (c : bool) i :
  agree (if c then pmap Some (dlt_variable_name e i) else POk None i) (rd_name_opt e c i).
Proof. apply agree_opt. intros. apply agree_name. Qed.

Lemma agree_name_unit e t i :
  agree (dlt_variable_name_and_unit e t i) (rd_name_unit e (ti_var_info t) i).
Proof.
  unfold dlt_variable_name_and_unit, rd_name_unit. destruct (ti_var_info t); [|reflexivity].
  apply agree_bind; [apply (agree_uint e 2)|]. intros nl r1.
  apply agree_bind; [apply (agree_uint e 2)|]. intros ul r2.
  apply agree_bind; [apply agree_zstring|]. intros name r3.
  apply agree_bind; [apply agree_zstring|]. intros unit r4. reflexivity.
Qed.

Lemma agree_unsigned e w i : agree (dlt_uint e w i) (rd_unsigned e w i).
Proof.
  unfold dlt_uint, rd_unsigned. destruct w; cbn [int_bytes]; apply agree_pmap.
  - apply agree_field, field_u8.
  - apply (agree_uint e 2).
  - apply (agree_uint e 4).
  - apply (agree_uint e 8).
  - apply (agree_uint e 16).
Qed.

Lemma agree_sint e k i : agree (sint e k i) (rd_sint e (N.of_nat k) i).
Proof. apply agree_field, field_sint. Qed.

Lemma agree_signed e w i : agree (dlt_sint e w i) (rd_signed e w i).
Proof.
  unfold dlt_sint, rd_signed. destruct w; cbn [int_bytes]; apply agree_pmap.
  - apply agree_field, field_s8.
  - apply (agree_sint e 2).
  - apply (agree_sint e 4).
  - apply (agree_sint e 8).
  - apply (agree_sint e 16).
Qed.

Lemma agree_float e w i : agree (dlt_fint e w i) (rd_float e w i).
Proof.
  unfold dlt_fint, rd_float. destruct w; cbn [float_bytes]; apply agree_pmap.
  - apply (agree_uint e 4).
  - apply (agree_uint e 8).
Qed.

Lemma agree_fixed e w i : agree (dlt_fixed_point e w i) (rd_fixed e w i).
Proof.
  unfold dlt_fixed_point, rd_fixed. apply agree_bind; [apply (agree_uint e 4)|]. intros q r.
  destruct w; cbn [float_bytes].
  - apply agree_bind; [apply (agree_sint e 4)|]. intros o r'. reflexivity.
  - apply agree_bind; [apply (agree_sint e 8)|]. intros o r'. reflexivity.
Qed.

Lemma int_of_float_width_eq w : int_of_float_width w = float_width_to_type_length w.
Proof. now destruct w. Qed.

(* ---------- one argument, every input ---------- *)
Theorem agree_arg e i : agree (dlt_argument e i) (rd_arg e i).
Proof.
  unfold dlt_argument, rd_arg, dlt_type_info.
  pose proof (agree_uint e 4 i) as H. change (N.of_nat 4) with 4 in H.
  destruct (uint e 4 i) as [w r| | | |]; cbn [agree] in H; try contradiction; rewrite H;
    cbn [pbind obind agree]; try reflexivity.
  rewrite ti_of_word_decode. destruct (ti_decode w) as [t|]; cbn [pbind agree]; [|reflexivity].
  cbv zeta. destruct (ti_kind_of t) as [|l|fw|l|fw|fw| |].
  - (* bool *)
    apply agree_bind; [apply agree_name_opt|]. intros name r1.
    apply agree_bind; [apply agree_field, field_u8|]. intros b r2. reflexivity.
  - (* signed *)
    apply agree_bind; [apply agree_name_unit|]. intros nu r1.
    apply agree_bind; [apply agree_signed|]. intros v r2. reflexivity.
  - (* signed fixed point *)
    apply agree_bind; [apply agree_name_unit|]. intros nu r1.
    apply agree_bind; [apply agree_fixed|]. intros fp r2.
    apply agree_bind; [apply agree_signed|]. intros v r3. reflexivity.
  - (* unsigned *)
    apply agree_bind; [apply agree_name_unit|]. intros nu r1.
    apply agree_bind; [apply agree_unsigned|]. intros v r2. reflexivity.
  - (* unsigned fixed point *)
    apply agree_bind; [apply agree_name_unit|]. intros nu r1.
    apply agree_bind; [apply agree_fixed|]. intros fp r2.
    apply agree_bind; [apply agree_unsigned|]. intros v r3. reflexivity.
  - (* float *)
    apply agree_bind; [apply agree_name_unit|]. intros nu r1.
    apply agree_bind; [apply agree_float|]. intros v r2. reflexivity.
  - (* string *)
    apply agree_bind; [apply (agree_uint e 2)|]. intros size r1.
    apply agree_bind; [apply agree_name_opt|]. intros name r2.
    apply agree_bind; [apply agree_zstring|]. intros s r3. reflexivity.
  - (* raw *)
    apply agree_bind; [apply (agree_uint e 2)|]. intros size r1.
    apply agree_bind; [apply agree_name_opt|]. intros name r2.
    apply agree_bind; [apply agree_field, field_take|]. intros bs r3. reflexivity.
Qed.

(* ---------- NOAR arguments ---------- *)
Theorem agree_args e n i : agree (count (dlt_argument e) n i) (rd_args e n i).
Proof.
  revert i. induction n as [|n IH]; intros i; cbn [count rd_args]; [reflexivity|].
  apply agree_bind; [apply agree_arg|]. intros a r.
  apply agree_bind; [apply IH|]. intros l r'. reflexivity.
Qed.

Lemma raw_data_eq args : raw_data args = raw_slices args.
Proof. reflexivity. Qed.
