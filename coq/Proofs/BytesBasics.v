(* Proofs/BytesBasics.v — elementary facts about [b2n]/[n2b], byte(-list) equality and the
   N-valued length [len].  Bytes are never destructed; everything goes through [Byte.to_N]. *)
From Coq Require Import Lia ZifyBool ZifyN ZifyNat.
From DltV.Model Require Import Bytes.
Open Scope N_scope.

Lemma b2n_lt (b : byte) : b2n b < 256.
Proof.
  unfold b2n. pose proof (Byte.to_N_bounded b) as H. lia.
Qed.

Lemma n2b_b2n (b : byte) : n2b (b2n b) = b.
Proof.
  unfold n2b, b2n. rewrite N.mod_small by (pose proof (Byte.to_N_bounded b); lia).
  rewrite Byte.of_to_N. reflexivity.
Qed.

Lemma b2n_n2b (n : N) : b2n (n2b n) = n mod 256.
Proof.
  unfold n2b, b2n.
  destruct (Byte.of_N (n mod 256)) as [b|] eqn:E.
  - apply Byte.to_of_N in E. exact E.
  - exfalso. apply Byte.of_N_None_iff in E.
    pose proof (N.mod_upper_bound n 256). lia.
Qed.

Lemma b2n_inj (a b : byte) : b2n a = b2n b -> a = b.
Proof.
  intros H. rewrite <- (n2b_b2n a), <- (n2b_b2n b), H. reflexivity.
Qed.

Lemma n2b_small (n : N) : n < 256 -> b2n (n2b n) = n.
Proof. intros H. rewrite b2n_n2b. apply N.mod_small. exact H. Qed.

Lemma b2n_x00 : b2n x00 = 0.
Proof. reflexivity. Qed.

Lemma is_nul_x00 : is_nul x00 = true.
Proof. reflexivity. Qed.

Lemma is_nul_iff (b : byte) : is_nul b = true <-> b = x00.
Proof.
  unfold is_nul. rewrite N.eqb_eq. split.
  - intros H. apply b2n_inj. rewrite H. reflexivity.
  - intros ->. reflexivity.
Qed.

Lemma byte_eqb_eq (a b : byte) : byte_eqb a b = true <-> a = b.
Proof.
  unfold byte_eqb. rewrite N.eqb_eq. split.
  - apply b2n_inj.
  - intros ->. reflexivity.
Qed.

Lemma byte_eqb_refl (a : byte) : byte_eqb a a = true.
Proof. apply byte_eqb_eq. reflexivity. Qed.

Lemma byte_eqb_neq (a b : byte) : byte_eqb a b = false <-> a <> b.
Proof.
  split.
  - intros H E. apply byte_eqb_eq in E. congruence.
  - intros H. destruct (byte_eqb a b) eqn:E; [|reflexivity].
    apply byte_eqb_eq in E. contradiction.
Qed.

Lemma bytes_eqb_eq (a b : list byte) : bytes_eqb a b = true <-> a = b.
Proof.
  revert b. induction a as [|x a IH]; intros [|y b]; cbn [bytes_eqb].
  - split; reflexivity.
  - split; discriminate.
  - split; discriminate.
  - rewrite andb_true_iff, byte_eqb_eq, IH. split.
    + intros [-> ->]. reflexivity.
    + intros E. injection E as -> ->. split; reflexivity.
Qed.

Lemma bytes_eqb_refl (a : list byte) : bytes_eqb a a = true.
Proof. apply bytes_eqb_eq. reflexivity. Qed.

(* ---------- [len] ---------- *)
Section Len.
Context {A : Type}.
Implicit Types (l : list A).

Lemma len_nil : len (@nil A) = 0.
Proof. reflexivity. Qed.

Lemma len_cons (a : A) l : len (a :: l) = 1 + len l.
Proof. unfold len. cbn [length]. lia. Qed.

Lemma len_app l1 l2 : len (l1 ++ l2) = len l1 + len l2.
Proof. unfold len. rewrite app_length. lia. Qed.

Lemma len_0_iff l : len l = 0 <-> l = [].
Proof.
  unfold len. destruct l as [|a l]; cbn [length]; split; intros H; try reflexivity; try discriminate; lia.
Qed.

Lemma len_to_nat l : N.to_nat (len l) = length l.
Proof. unfold len. lia. Qed.

Lemma len_firstn (k : nat) l : len (firstn k l) = N.min (N.of_nat k) (len l).
Proof. unfold len. rewrite firstn_length. lia. Qed.

Lemma len_firstn_le (k : nat) l : len (firstn k l) <= N.of_nat k.
Proof. rewrite len_firstn. lia. Qed.

Lemma len_firstn_le_len (k : nat) l : len (firstn k l) <= len l.
Proof. rewrite len_firstn. lia. Qed.

Lemma len_firstn_N (n : N) l : n <= len l -> len (firstn (N.to_nat n) l) = n.
Proof. intros H. rewrite len_firstn. lia. Qed.

Lemma len_skipn (k : nat) l : len (skipn k l) = len l - N.of_nat k.
Proof. unfold len. rewrite skipn_length. lia. Qed.

Lemma len_skipn_N (n : N) l : len (skipn (N.to_nat n) l) = len l - n.
Proof. rewrite len_skipn. lia. Qed.

Lemma len_repeat (a : A) (k : nat) : len (repeat a k) = N.of_nat k.
Proof. unfold len. rewrite repeat_length. reflexivity. Qed.

Lemma len_rev l : len (rev l) = len l.
Proof. unfold len. rewrite rev_length. reflexivity. Qed.

Lemma len_map {B} (f : A -> B) l : len (map f l) = len l.
Proof. unfold len. rewrite map_length. reflexivity. Qed.

(* [firstn]/[skipn] at an [N] index across an append whose left part has exactly that length *)
Lemma firstn_len_app l1 l2 : firstn (N.to_nat (len l1)) (l1 ++ l2) = l1.
Proof.
  rewrite len_to_nat, firstn_app, Nat.sub_diag, firstn_all. cbn [firstn]. apply app_nil_r.
Qed.

Lemma skipn_len_app l1 l2 : skipn (N.to_nat (len l1)) (l1 ++ l2) = l2.
Proof.
  rewrite len_to_nat, skipn_app, Nat.sub_diag, skipn_all. reflexivity.
Qed.

End Len.
