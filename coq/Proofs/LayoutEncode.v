(* Proofs/LayoutEncode.v — C02 (encoding): on well-formed messages the crate's serialiser
   [message_bytes] produces exactly the layout [spec_encode] of Spec/Layout.v. *)
From Coq Require Import Lia ZifyBool ZifyN ZifyNat.
From DltV.Model Require Import Bytes RustInt Utf8 Dlt.
From DltV.Spec Require Import WellFormed Layout.
From DltV.Proofs Require Import BytesBasics Fields Codes LayoutBits.
Open Scope N_scope.

Ltac split_and H :=
  repeat match type of H with
         | (_ && _) = true => let H2 := fresh H in apply andb_true_iff in H as [H H2]
         end.

(* ---------- small facts ---------- *)
Lemma u16_len_plus1_text s : wf_text s = true -> u16_len_plus1 s = len s + 1.
Proof.
  unfold wf_text. intros W. split_and W. unfold u16_len_plus1.
  rewrite (N.mod_small (len s)) by lia. apply N.mod_small. lia.
Qed.
Lemma len_pad4 id : wf_id id = true -> len (pad4 id) = 4.
Proof.
  unfold wf_id. intros W. split_and W. unfold pad4. rewrite len_app, len_repeat.
  unfold len in *. lia.
Qed.

Lemma storage_eq s : storage_header_bytes s = enc_storage s.
Proof. reflexivity. Qed.

Lemma ext_eq x : wf_ext x = true -> ext_header_bytes x = enc_ext x.
Proof.
  unfold wf_ext. intros W. split_and W. unfold ext_header_bytes, enc_ext.
  now rewrite (msin_enc (e_mtype x) (e_verbose x)) by assumption.
Qed.
Lemma len_enc_ext x : wf_ext x = true -> len (enc_ext x) = 10.
Proof.
  unfold wf_ext. intros W. split_and W. unfold enc_ext.
  rewrite !len_app, !len_pad4 by assumption. reflexivity.
Qed.

(* ---------- arguments ---------- *)
Definition is_number (v : value) : bool :=
  match v with VBool _ | VString _ | VRaw _ => false | _ => true end.

Lemma enc_arg_number e a : is_number (a_value a) = true ->
  enc_arg e a = put_uint e 4 (word_of_ti (a_ti a)) ++ enc_name_unit e (a_name a) (a_unit a)
                ++ enc_fixed e (a_fp a) ++ enc_number e (a_value a).
Proof. unfold enc_arg. destruct (a_value a); intros H; try discriminate; reflexivity. Qed.

Lemma signed_number e l v : wf_signed_value l v = true ->
  is_number v = true /\ signed_value_bytes e v = enc_number e v.
Proof. destruct l, v; intros H; try discriminate; split; reflexivity. Qed.
Lemma unsigned_number e l v : wf_unsigned_value l v = true ->
  is_number v = true /\ unsigned_value_bytes e v = enc_number e v.
Proof. destruct l, v; intros H; try discriminate; split; reflexivity. Qed.

Lemma fp_eq e fp : fp_bytes e fp = enc_fixed e fp.
Proof. destruct fp as [[q [z|z]]|]; reflexivity. Qed.

Lemma name_eq e t name : wf_coding (ti_coding t) = true -> wf_opt wf_text name = true ->
  buf_ti_name e t name = put_uint e 4 (word_of_ti t) ++ enc_name e name.
Proof.
  intros Wc Wn. unfold buf_ti_name, ti_bytes, enc_name. rewrite (ti_enc t Wc).
  destruct name as [n|]; [|reflexivity]. cbn [wf_opt] in Wn. now rewrite (u16_len_plus1_text n Wn).
Qed.

Lemma name_unit_eq e t name unit fp :
  wf_coding (ti_coding t) = true ->
  Bool.eqb (is_some name) (ti_var_info t) && Bool.eqb (is_some unit) (ti_var_info t)
  && wf_opt wf_text name && wf_opt wf_text unit = true ->
  buf_ti_name_unit e t name unit fp
  = put_uint e 4 (word_of_ti t) ++ enc_name_unit e name unit ++ enc_fixed e fp.
Proof.
  intros Wc W. split_and W. unfold buf_ti_name_unit, ti_bytes, enc_name_unit.
  rewrite (ti_enc t Wc), fp_eq.
  destruct (ti_var_info t), name as [n|], unit as [u|]; try discriminate; cbn [wf_opt is_some] in *.
  - rewrite (u16_len_plus1_text n), (u16_len_plus1_text u) by assumption.
    now rewrite <- !app_assoc.
  - reflexivity.
Qed.

Lemma arg_eq e a : wf_arg a = true -> arg_bytes e a = enc_arg e a.
Proof.
  unfold wf_arg. cbv zeta. intros W. apply andb_true_iff in W as [Wc W].
  unfold arg_bytes.
  destruct (ti_kind_of (a_ti a)) as [|l|fw|l|fw|fw| |] eqn:K.
  - (* bool *)
    split_and W. destruct (a_value a) as [n| | | | | | | | | | | | | |] eqn:V; try discriminate.
    unfold enc_arg. rewrite V. rewrite name_eq by assumption. now rewrite <- app_assoc.
  - (* signed *)
    apply andb_true_iff in W as [W Wv]. apply andb_true_iff in W as [W Wf].
    destruct (signed_number e l _ Wv) as [Hn Hb].
    rewrite (enc_arg_number e a Hn), Hb, (name_unit_eq e _ _ _ _ Wc W). now rewrite <- !app_assoc.
  - (* signed fixed point *)
    apply andb_true_iff in W as [W Wv]. apply andb_true_iff in W as [W Wf].
    destruct (signed_number e _ _ Wv) as [Hn Hb].
    rewrite (enc_arg_number e a Hn), Hb, (name_unit_eq e _ _ _ _ Wc W). now rewrite <- !app_assoc.
  - (* unsigned *)
    apply andb_true_iff in W as [W Wv]. apply andb_true_iff in W as [W Wf].
    destruct (unsigned_number e l _ Wv) as [Hn Hb].
    rewrite (enc_arg_number e a Hn), Hb, (name_unit_eq e _ _ _ _ Wc W). now rewrite <- !app_assoc.
  - (* unsigned fixed point *)
    apply andb_true_iff in W as [W Wv]. apply andb_true_iff in W as [W Wf].
    destruct (unsigned_number e _ _ Wv) as [Hn Hb].
    rewrite (enc_arg_number e a Hn), Hb, (name_unit_eq e _ _ _ _ Wc W). now rewrite <- !app_assoc.
  - (* float *)
    assert (G : Bool.eqb (is_some (a_name a)) (ti_var_info (a_ti a))
                && Bool.eqb (is_some (a_unit a)) (ti_var_info (a_ti a))
                && wf_opt wf_text (a_name a) && wf_opt wf_text (a_unit a) = true
                /\ is_number (a_value a) = true
                /\ float_value_bytes e (a_value a) = enc_number e (a_value a)).
    { destruct fw; apply andb_true_iff in W as [W Wv]; apply andb_true_iff in W as [W Wf];
        (split; [exact W|]); destruct (a_value a); try discriminate; split; reflexivity. }
    destruct G as (W' & Hn & Hb).
    rewrite (enc_arg_number e a Hn), Hb, (name_unit_eq e _ _ _ _ Wc W'). now rewrite <- !app_assoc.
  - (* string *)
    apply andb_true_iff in W as [W Wv]. apply andb_true_iff in W as [W Wf].
    split_and W.
    destruct (a_value a) as [| | | | | | | | | | | | |s|] eqn:V; try discriminate.
    unfold enc_arg, enc_name, ti_bytes. rewrite V, (ti_enc _ Wc), (u16_len_plus1_text s Wv).
    destruct (ti_var_info (a_ti a)), (a_name a) as [n|]; try discriminate; cbn [wf_opt is_some] in *.
    + rewrite (u16_len_plus1_text n) by assumption. now rewrite <- !app_assoc.
    + reflexivity.
  - (* raw *)
    apply andb_true_iff in W as [W Wv]. apply andb_true_iff in W as [W Wf].
    split_and W.
    destruct (a_value a) as [| | | | | | | | | | | | | |bs] eqn:V; try discriminate.
    unfold enc_arg, enc_name, ti_bytes. rewrite V, (ti_enc _ Wc).
    rewrite (N.mod_small (len bs)) by lia.
    destruct (ti_var_info (a_ti a)), (a_name a) as [n|]; try discriminate; cbn [wf_opt is_some] in *.
    + rewrite (u16_len_plus1_text n) by assumption. now rewrite <- !app_assoc.
    + reflexivity.
Qed.

Lemma flat_map_eq {A B} (f g : A -> list B) l :
  (forall a, In a l -> f a = g a) -> flat_map f l = flat_map g l.
Proof.
  induction l as [|a l IH]; intros H; [reflexivity|]. cbn [flat_map].
  rewrite (H a) by now left. rewrite IH; [reflexivity|]. intros b Hb. apply H. now right.
Qed.

(* ---------- payload ---------- *)
Lemma payload_eq e x p : wf_kind x p = true -> payload_bytes e p = enc_payload e p.
Proof.
  unfold wf_kind. intros W. destruct p as [args|id bs|ct bs|slices].
  - destruct x as [x|]; [|discriminate]. split_and W.
    cbn [payload_bytes enc_payload]. apply flat_map_eq. intros a Ha.
    apply arg_eq. match goal with H : forallb wf_arg args = true |- _ => rewrite forallb_forall in H; now apply H end.
  - reflexivity.
  - reflexivity.
  - destruct x as [x|]; [|discriminate]. split_and W.
    cbn [payload_bytes enc_payload]. apply flat_map_eq. intros s Hs.
    match goal with H : forallb _ slices = true |- _ => rewrite forallb_forall in H; specialize (H s Hs) end.
    rewrite (N.mod_small (len s)) by lia. reflexivity.
Qed.

(* ---------- the whole message ---------- *)
Theorem spec_encode_correct m : wf_message m = true -> message_bytes m = spec_encode m.
Proof.
  unfold wf_message. intros W.
  apply andb_true_iff in W as [W Wlen]. apply andb_true_iff in W as [W Wkind].
  apply andb_true_iff in W as [W Wext]. apply andb_true_iff in W as [W Wue].
  apply andb_true_iff in W as [Wst Wstd].
  apply Bool.eqb_prop in Wue.
  unfold wf_std in Wstd. split_and Wstd.
  unfold len_ok in Wlen. apply andb_true_iff in Wlen as [Wpl Wtot].
  apply N.eqb_eq in Wpl. apply N.leb_le in Wtot.
  unfold message_bytes, spec_encode. cbv zeta.
  set (h := m_header m) in *. set (e := h_endian h) in *.
  rewrite (payload_eq e (m_ext m) (m_payload m) Wkind) in *.
  set (pay := enc_payload e (m_payload m)) in *.
  assert (Ext : match m_ext m with Some x => ext_header_bytes x | None => [] end
                = match m_ext m with Some x => enc_ext x | None => [] end).
  { destruct (m_ext m) as [x|]; [|reflexivity]. now apply ext_eq. }
  rewrite Ext.
  set (ext := match m_ext m with Some x => enc_ext x | None => [] end) in *.
  assert (Lext : len ext = if h_has_ext h then 10 else 0).
  { subst ext. rewrite Wue. destruct (m_ext m) as [x|]; [|reflexivity]. now apply len_enc_ext. }
  f_equal.
  unfold std_header_bytes. fold h.
  set (optional := (match h_ecu h with Some id => pad4 id | None => [] end)
                   ++ (match h_session h with Some v => put_uint BE 4 v | None => [] end)
                   ++ (match h_timestamp h with Some v => put_uint BE 4 v | None => [] end)).
  assert (Lopt : len optional = (match h_ecu h with Some _ => 4 | None => 0 end)
                                + (match h_session h with Some _ => 4 | None => 0 end)
                                + (match h_timestamp h with Some _ => 4 | None => 0 end)).
  { subst optional. rewrite !len_app.
    assert (L1 : len (match h_ecu h with Some id => pad4 id | None => [] end)
                 = match h_ecu h with Some _ => 4 | None => 0 end).
    { destruct (h_ecu h) as [id|]; [|reflexivity]. now apply len_pad4. }
    assert (L2 : forall o : option N, len (match o with Some v => put_uint BE 4 v | None => [] end)
                                      = match o with Some _ => 4 | None => 0 end).
    { intros [v|]; [apply (len_put_uint BE 4) | reflexivity]. }
    rewrite L1, !L2. lia. }
  assert (Hlen : overall_length h = 4 + len optional + len ext + len pay).
  { unfold overall_length. unfold overall_length_raw in *. rewrite Lopt, Lext, <- Wpl.
    rewrite N.mod_small by lia. lia. }
  assert (Hty : header_type_byte h
                = htyp_word (present (m_ext m)) (match e with BE => true | LE => false end)
                    (present (h_ecu h)) (present (h_session h)) (present (h_timestamp h)) (h_version h)).
  { unfold header_type_byte. rewrite Wue.
    rewrite <- (htyp_enc (present (m_ext m)) (match e with BE => true | LE => false end)) by lia.
    fold e. destruct e; reflexivity. }
  rewrite Hlen, Hty.
  change (put_zstring) with (fun s max => s ++ repeat x00 (max - length s)).
  cbv beta. fold pad4.
  change (match h_ecu h with Some id => id ++ repeat x00 (4 - length id) | None => [] end)
    with (match h_ecu h with Some id => pad4 id | None => [] end).
  fold optional. now rewrite <- !app_assoc.
Qed.
