(* FibexDenote.v — the second half of read_fibexes (PDU table, frame maps) computes, up to map
   lookups, the declarative meaning [denote] of the elements that the first half collected. *)
From Coq Require Import Lia ZifyBool ZifyN ZifyNat.
From Coq.Strings Require Import Ascii String.
From DltV.Model Require Import Bytes RustInt Dlt Fibex.
From DltV.Spec Require Import FibexSpec.
From DltV.Proofs Require Import BytesBasics FibexLookup.
Open Scope N_scope.

(* ---------- what the first loop collects, stated on elements ---------- *)
Definition prd_of (p : apdu) : pdu_read_data := (ap_desc p, ordered_refs (ap_signals p)).
Definition frd_of (f : aframe) : frame_read_data :=
  mkFRD (af_short_name f) (af_context_id f) (af_application_id f) (af_message_type f)
        (af_message_info f) (ordered_refs (af_pdus f)).

Definition gather_step (g : gathered) (e : element) : gathered :=
  match e with
  | ElPdu p => mkGathered (g_frames g) (g_pdus g ++ [(ap_id p, prd_of p)]) (g_signals g) (g_codings g)
  | ElFrame f => mkGathered (g_frames g ++ [(af_id f, frd_of f)]) (g_pdus g) (g_signals g) (g_codings g)
  | ElSignal i c => mkGathered (g_frames g) (g_pdus g) ((i, c) :: g_signals g) (g_codings g)
  | ElCoding i b => mkGathered (g_frames g) (g_pdus g) (g_signals g) ((i, b) :: g_codings g)
  end.
Definition gathered_of (els : list element) (g : gathered) : gathered := fold_left gather_step els g.

Lemma gathered_of_app els1 els2 g : gathered_of (els1 ++ els2) g = gathered_of els2 (gathered_of els1 g).
Proof. apply fold_left_app. Qed.

Lemma gathered_of_fields : forall els g,
  g_frames (gathered_of els g) = g_frames g ++ map (fun f => (af_id f, frd_of f)) (el_frames els) /\
  g_pdus (gathered_of els g) = g_pdus g ++ map (fun p => (ap_id p, prd_of p)) (el_pdus els) /\
  g_signals (gathered_of els g) = rev (el_signals els) ++ g_signals g /\
  g_codings (gathered_of els g) = rev (el_codings els) ++ g_codings g.
Proof.
  induction els as [|e t IH]; intros g.
  - cbn. rewrite !app_nil_r. auto.
  - unfold gathered_of in *. cbn [fold_left].
    destruct (IH (gather_step g e)) as (H1 & H2 & H3 & H4).
    rewrite H1, H2, H3, H4.
    destruct e as [p|f|i c|i b]; cbn [gather_step g_frames g_pdus g_signals g_codings];
      unfold el_frames, el_pdus, el_signals, el_codings; cbn [filter_map map rev];
      rewrite <- ?app_assoc; cbn [app]; auto.
Qed.

(* ---------- the vocabulary tables ---------- *)
Ltac split_names :=
  repeat (match goal with
          | |- context [if bytes_eqb ?a ?b then _ else _] => destruct (bytes_eqb a b)
          | |- context [bytes_eqb ?a ?b || _] => destruct (bytes_eqb a b)
          end; cbn [orb]; try reflexivity).

Lemma type_info_for_base_type_table (b : bstr) :
  type_info_for_base_type b = assoc_get b base_data_types.
Proof.
  unfold type_info_for_base_type, is_name, base_data_types. cbn [assoc_get].
  split_names.
Qed.

Lemma type_info_for_signal_ref_table (r : bstr) (signals codings : list (bstr * bstr)) :
  type_info_for_signal_ref r signals codings =
  match assoc_get r standard_signals with
  | Some t => t
  | None =>
    match assoc_get r signals with
    | Some c => match assoc_get c codings with
                | Some b => assoc_get b base_data_types
                | None => None
                end
    | None => None
    end
  end.
Proof.
  unfold type_info_for_signal_ref, is_name, standard_signals. cbn [assoc_get].
  split_names.
  destruct (assoc_get r signals) as [c|]; [|reflexivity].
  destruct (assoc_get c codings) as [b|]; [|reflexivity].
  apply type_info_for_base_type_table.
Qed.

(* ---------- first-definition-wins maps ---------- *)
Lemma assoc_get_app {V} (k : bstr) (m1 m2 : list (bstr * V)) :
  assoc_get k (m1 ++ m2) = match assoc_get k m1 with Some x => Some x | None => assoc_get k m2 end.
Proof.
  induction m1 as [|[k' v'] t IH]; cbn [app assoc_get]; [reflexivity|].
  destruct (bytes_eqb k k'); [reflexivity|exact IH].
Qed.

Lemma key_get_app {V} (k : frame_key) (m1 m2 : list (frame_key * V)) :
  key_get k (m1 ++ m2) = match key_get k m1 with Some x => Some x | None => key_get k m2 end.
Proof.
  induction m1 as [|[k' v'] t IH]; cbn [app key_get]; [reflexivity|].
  destruct (frame_key_eqb k k'); [reflexivity|exact IH].
Qed.

Lemma insert_vacant_get {V} (k k' : bstr) (v : V) m :
  assoc_get k (insert_vacant k' v m) =
  match assoc_get k m with Some x => Some x | None => if bytes_eqb k k' then Some v else None end.
Proof.
  unfold insert_vacant. destruct (assoc_get k' m) as [x|] eqn:E.
  - destruct (assoc_get k m) as [y|] eqn:Ek; [reflexivity|].
    destruct (bytes_eqb k k') eqn:Ekk; [|reflexivity].
    apply bytes_eqb_eq in Ekk. subst k'. congruence.
  - rewrite assoc_get_app. cbn [assoc_get]. reflexivity.
Qed.

Lemma key_insert_vacant_get {V} (k k' : frame_key) (v : V) m :
  key_get k (key_insert_vacant k' v m) =
  match key_get k m with Some x => Some x | None => if frame_key_eqb k k' then Some v else None end.
Proof.
  unfold key_insert_vacant. destruct (key_get k' m) as [x|] eqn:E.
  - destruct (key_get k m) as [y|] eqn:Ek; [reflexivity|].
    destruct (frame_key_eqb k k') eqn:Ekk; [|reflexivity].
    apply frame_key_eqb_eq in Ekk. subst k'. congruence.
  - rewrite key_get_app. cbn [key_get]. reflexivity.
Qed.

Lemma fold_insert_vacant_get {P V} (F : P -> V) : forall (l : list (bstr * P)) m k,
  assoc_get k (fold_left (fun m '(id, p) => insert_vacant id (F p) m) l m) =
  match assoc_get k m with
  | Some x => Some x
  | None => assoc_get k (map (fun ip => (fst ip, F (snd ip))) l)
  end.
Proof.
  induction l as [|[id p] t IH]; intros m k; cbn [fold_left map assoc_get fst snd].
  - destruct (assoc_get k m); reflexivity.
  - rewrite IH, insert_vacant_get.
    destruct (assoc_get k m); [reflexivity|].
    destruct (bytes_eqb k id); reflexivity.
Qed.

(* ---------- the PDU table ---------- *)
Lemma pdu_metadata_of_denote els g p :
  g_signals g = rev (el_signals els) -> g_codings g = rev (el_codings els) ->
  pdu_metadata_of g (prd_of p) = denote_pdu els p.
Proof.
  intros Hs Hc. unfold pdu_metadata_of, denote_pdu, prd_of. cbn [fst snd]. f_equal.
  generalize (ordered_refs (ap_signals p)) as refs.
  induction refs as [|r t IH]; cbn [filter_map]; [reflexivity|].
  rewrite IH. rewrite type_info_for_signal_ref_table, Hs, Hc.
  reflexivity.
Qed.

Lemma build_pdu_by_id_get els g k :
  g_pdus g = map (fun p => (ap_id p, prd_of p)) (el_pdus els) ->
  g_signals g = rev (el_signals els) -> g_codings g = rev (el_codings els) ->
  assoc_get k (build_pdu_by_id g) = assoc_get k (pdu_table els).
Proof.
  intros Hp Hs Hc. unfold build_pdu_by_id. rewrite fold_insert_vacant_get. cbn [assoc_get].
  rewrite Hp, map_map. unfold pdu_table. cbn [fst snd].
  f_equal. apply map_ext. intros p. rewrite (pdu_metadata_of_denote els g p Hs Hc). reflexivity.
Qed.

(* ---------- the frame maps ---------- *)
Lemma resolve_pdu_refs_all_some pbi refs :
  resolve_pdu_refs pbi refs = all_some (map (fun r => assoc_get r pbi) refs).
Proof.
  induction refs as [|r t IH]; cbn [resolve_pdu_refs map all_some]; [reflexivity|].
  destruct (assoc_get r pbi); [|reflexivity]. rewrite IH. reflexivity.
Qed.

(* denote_frame against an arbitrary table *)
Definition dframe (tbl : list (bstr * pdu_metadata)) (f : aframe) : option frame_metadata :=
  match all_some (map (fun r => assoc_get r tbl) (ordered_refs (af_pdus f))) with
  | Some pdus =>
    Some (mkFrame (af_short_name f) pdus (af_application_id f) (af_context_id f)
                  (af_message_type f) (af_message_info f))
  | None => None
  end.

Definition entries (fms : list (aframe * frame_metadata)) : list (bstr * frame_metadata) :=
  map (fun fm => (af_id (fst fm), snd fm)) fms.

Lemma build_frames_denote : forall (fs : list aframe) pbi tbl m,
  (forall k, assoc_get k pbi = assoc_get k tbl) ->
  match build_frames pbi (map (fun f => (af_id f, frd_of f)) fs) m,
        all_some (map (fun f => option_map (fun fm => (f, fm)) (dframe tbl f)) fs) with
  | Some m', Some fms =>
    (forall k, assoc_get k (frame_map m') =
               match assoc_get k (frame_map m) with Some x => Some x | None => assoc_get k (entries fms) end) /\
    (forall k, key_get k (frame_map_with_key m') =
               match key_get k (frame_map_with_key m) with
               | Some x => Some x
               | None => key_get k (filter_map keyed_entry fms)
               end)
  | None, None => True
  | _, _ => False
  end.
Proof.
  induction fs as [|f t IH]; intros pbi tbl m Hext; cbn [map build_frames all_some].
  - split; intros k; cbn [entries map filter_map assoc_get key_get].
    + destruct (assoc_get k (frame_map m)); reflexivity.
    + destruct (key_get k (frame_map_with_key m)); reflexivity.
  - cbn [frd_of frd_pdu_refs frd_short_name frd_context_id frd_application_id frd_message_type frd_message_info].
    rewrite resolve_pdu_refs_all_some.
    assert (Hd : dframe tbl f =
                 match all_some (map (fun r => assoc_get r tbl) (ordered_refs (af_pdus f))) with
                 | Some pdus => Some (mkFrame (af_short_name f) pdus (af_application_id f) (af_context_id f)
                                              (af_message_type f) (af_message_info f))
                 | None => None
                 end) by reflexivity.
    rewrite Hd. clear Hd.
    rewrite (map_ext (fun r => assoc_get r pbi) (fun r => assoc_get r tbl) Hext).
    destruct (all_some (map (fun r => assoc_get r tbl) (ordered_refs (af_pdus f)))) as [ps|]; [|exact I].
    cbn [option_map].
    match goal with |- context [build_frames pbi _ ?m1] => specialize (IH pbi tbl m1 Hext); set (M1 := m1) in * end.
    destruct (build_frames pbi (map (fun f0 => (af_id f0, frd_of f0)) t) M1) as [m'|];
      destruct (all_some (map (fun f0 => option_map (fun fm => (f0, fm)) (dframe tbl f0)) t)) as [fms|];
      try exact IH.
    destruct IH as [IH1 IH2]. subst M1. cbn [frame_map frame_map_with_key] in *.
    split; intros k.
    + rewrite IH1, insert_vacant_get. cbn [entries map assoc_get fst snd].
      destruct (assoc_get k (frame_map m)); [reflexivity|].
      destruct (bytes_eqb k (af_id f)); reflexivity.
    + rewrite IH2. cbn [filter_map]. unfold keyed_entry at 2. cbn [fst snd].
      destruct (af_context_id f) as [c|]; [destruct (af_application_id f) as [a|]|].
      * rewrite key_insert_vacant_get. cbn [key_get].
        destruct (key_get k (frame_map_with_key m)); [reflexivity|].
        destruct (frame_key_eqb k (c, a, af_id f)); reflexivity.
      * reflexivity.
      * reflexivity.
Qed.

(* ---------- assemble = denote ---------- *)
Theorem assemble_denote (els : list element) :
  match assemble (gathered_of els gathered_empty), denote els with
  | Some m, Some d => meta_equiv m d
  | None, None => True
  | _, _ => False
  end.
Proof.
  destruct (gathered_of_fields els gathered_empty) as (Hf & Hp & Hs & Hc).
  cbn [gathered_empty g_frames g_pdus g_signals g_codings app] in *. rewrite app_nil_r in Hs, Hc.
  unfold assemble, denote. rewrite Hf.
  pose proof (build_frames_denote (el_frames els) (build_pdu_by_id (gathered_of els gathered_empty))
                (pdu_table els) (mkMeta [] [])
                (fun k => build_pdu_by_id_get els _ k Hp Hs Hc)) as H.
  change (fun f => option_map (fun fm => (f, fm)) (dframe (pdu_table els) f))
    with (fun f => option_map (fun m => (f, m)) (denote_frame els f)) in H.
  destruct (build_frames _ _ (mkMeta [] [])) as [m|];
    destruct (all_some (map (fun f => option_map (fun m => (f, m)) (denote_frame els f)) (el_frames els))) as [fms|];
    try exact H.
Qed.
