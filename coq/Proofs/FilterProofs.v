(* Proofs/FilterProofs.v — C09: parsing with a filter = parsing without, except that exactly the
   messages failing the criteria of Spec/FilterSpec.v become FilteredOut markers. *)
From Coq Require Import Lia ZifyBool ZifyN ZifyNat.
From DltV.Model Require Import Bytes Nom Dlt Parse.
From DltV.Spec Require Import FilterSpec.
From DltV.Proofs Require Import BytesBasics ParseLemmas Consumption.
Open Scope N_scope.

(* ---------- sets: dedup (the model of HashSet::from_iter) against the raw list ---------- *)
Lemma mem_bytes_In x l : mem_bytes x l = true <-> In x l.
Proof.
  unfold mem_bytes. rewrite existsb_exists. split.
  - intros (y & Hy & E). apply bytes_eqb_eq in E. now subst.
  - intros H. exists x. split; [exact H | apply bytes_eqb_refl].
Qed.

Lemma mem_bytes_in_dec x l : mem_bytes x l = if in_dec bytes_eq_dec x l then true else false.
Proof.
  destruct (in_dec bytes_eq_dec x l) as [H|H].
  - now apply mem_bytes_In.
  - destruct (mem_bytes x l) eqn:E; [|reflexivity]. apply mem_bytes_In in E. contradiction.
Qed.

Lemma mem_dedup x l : mem_bytes x (dedup l) = mem_bytes x l.
Proof.
  induction l as [|y l IH]; [reflexivity|].
  cbn [dedup]. destruct (mem_bytes y l) eqn:E.
  - rewrite IH. unfold mem_bytes at 2. cbn [existsb]. fold (mem_bytes x l).
    destruct (bytes_eqb x y) eqn:Exy; [|reflexivity].
    apply bytes_eqb_eq in Exy. subst y. now rewrite E.
  - unfold mem_bytes in *. cbn [existsb]. now rewrite IH.
Qed.

Lemma dedup_nodup l : dedup l = nodup bytes_eq_dec l.
Proof.
  induction l as [|y l IH]; [reflexivity|].
  cbn [dedup nodup]. rewrite mem_bytes_in_dec, IH. now destruct (in_dec bytes_eq_dec y l).
Qed.

Lemma length_dedup l : length (dedup l) = distinct_count l.
Proof. unfold distinct_count. now rewrite dedup_nodup. Qed.

Lemma NoDup_dedup l : NoDup (dedup l).
Proof. rewrite dedup_nodup. apply NoDup_nodup. Qed.

(* the two Rust conversions (From<DltFilterConfig>, From<&DltFilterConfig>) build each HashSet from
   the same sequence of ids (the borrowed one from a clone of the Vec); a HashSet is determined,
   as far as `contains` and `len` are concerned, by exactly these two facts about the model's
   duplicate-free list: *)
Lemma conversions_agree l :
  (forall x, mem_bytes x (dedup l) = id_in x l) /\ length (dedup l) = distinct_count l /\ NoDup (dedup l).
Proof. split; [intros x; apply mem_dedup | split; [apply length_dedup | apply NoDup_dedup]]. Qed.

(* ---------- levels ---------- *)
Lemma u8_to_log_level_none v : v = 0 \/ 7 <= v -> u8_to_log_level v = None.
Proof.
  intros H. destruct v as [|p]; [reflexivity|].
  destruct p as [p|p|]; [| |lia];
    (destruct p as [p|p|]; [| |try reflexivity; lia]);
    (destruct p as [p|p|]; try reflexivity; lia).
Qed.

Lemma levels_no_filtering cfg v :
  fc_min_log_level cfg = Some v -> (v = 0 \/ 7 <= v) -> pf_min_log_level (process_filter cfg) = None.
Proof.
  intros E H. unfold process_filter. cbn [pf_min_log_level]. rewrite E. now apply u8_to_log_level_none.
Qed.

Lemma u8_to_log_level_number v l : u8_to_log_level v = Some l <-> level_number l = Some v.
Proof.
  split.
  - intros H. destruct (N.le_gt_cases 7 v) as [Hv|Hv].
    + rewrite u8_to_log_level_none in H by auto. discriminate.
    + assert (C : v = 0 \/ v = 1 \/ v = 2 \/ v = 3 \/ v = 4 \/ v = 5 \/ v = 6) by lia.
      destruct C as [->|[->|[->|[->|[->|[->| ->]]]]]]; cbn in H; try discriminate;
        injection H as <-; reflexivity.
  - destruct l; cbn [level_number]; intros H; try discriminate; injection H as <-; reflexivity.
Qed.

(* the level criterion of the processed configuration is the sentence's criterion *)
Lemma level_criterion (min : option N) (x : ext_header) :
  (match (match min with Some v => u8_to_log_level v | None => None end) with
   | Some l => skip_with_level x l
   | None => false
   end) = spec_level_dropped min (e_mtype x).
Proof.
  destruct min as [v|]; [|reflexivity].
  unfold spec_level_dropped, skip_with_level.
  destruct (u8_to_log_level v) as [l|] eqn:E.
  - apply u8_to_log_level_number in E.
    destruct (e_mtype x) as [n| | | |]; try reflexivity.
    destruct l; cbn [level_number] in E; try discriminate; injection E as <-;
      destruct n; reflexivity.
  - destruct (e_mtype x) as [n| | | |]; try reflexivity.
    destruct (level_number n) as [k|]; [|reflexivity].
    destruct (N.leb_spec 1 v) as [H1|H1]; [|reflexivity].
    destruct (N.leb_spec v 6) as [H6|H6]; [|reflexivity].
    exfalso.
    assert (C : v = 1 \/ v = 2 \/ v = 3 \/ v = 4 \/ v = 5 \/ v = 6) by lia.
    destruct C as [->|[->|[->|[->|[->| ->]]]]]; discriminate.
Qed.

(* hand-built processed configuration: the skip table incl. invalid levels (dlt.rs:546-556) *)
Lemma skip_with_level_table x min :
  skip_with_level x min =
  match e_mtype x with
  | MLog n => spec_skip_table n min
  | _ => false
  end.
Proof.
  unfold skip_with_level. destruct (e_mtype x) as [n| | | |]; try reflexivity.
  destruct n, min; reflexivity.
Qed.

(* the four cases of the table spelled out *)
Lemma skip_with_level_cases x n min :
  e_mtype x = MLog n ->
  (forall a b, level_number n = Some a -> level_number min = Some b ->
               skip_with_level x min = (b <? a)) /\
  (forall a, level_number n = Some a -> level_number min = None -> skip_with_level x min = true) /\
  (forall b, level_number n = None -> level_number min = Some b -> skip_with_level x min = false) /\
  (forall a b, n = LInvalid a -> min = LInvalid b -> skip_with_level x min = (a <? b)).
Proof.
  intros E. rewrite skip_with_level_table, E. unfold spec_skip_table. repeat split.
  - intros a b -> ->. reflexivity.
  - intros a -> ->. reflexivity.
  - intros b -> ->. reflexivity.
  - intros a b -> ->. reflexivity.
Qed.

(* ---------- the decision procedure on a processed raw configuration = the sentence ---------- *)
Lemma set_criterion (s : option (list (list byte))) id :
  (match option_map dedup s with Some l => negb (mem_bytes id l) | None => false end) = not_allowed s id.
Proof. destruct s as [l|]; [|reflexivity]. cbn [option_map not_allowed]. now rewrite mem_dedup. Qed.

Lemma count_criterion (s : option (list (list byte))) (c : Z) :
  (match option_map dedup s with Some l => (Z.of_N (len l) <? c)%Z | None => false end)
  = smaller_than_count s c.
Proof.
  destruct s as [l|]; [|reflexivity]. cbn [option_map smaller_than_count].
  unfold len. rewrite nat_N_Z, length_dedup. reflexivity.
Qed.

Lemma filtered_out_spec cfg m :
  filtered_out (m_ext m) (Some (process_filter cfg)) (h_ecu (m_header m)) = spec_dropped cfg m.
Proof.
  unfold filtered_out, spec_dropped, process_filter.
  cbn [pf_min_log_level pf_app_ids pf_context_ids pf_ecu_ids pf_app_id_count pf_context_id_count].
  destruct (m_ext m) as [x|].
  - rewrite level_criterion, !set_criterion. f_equal.
    destruct (h_ecu (m_header m)) as [ecu|].
    + destruct (fc_ecu_ids cfg) as [l|]; [|reflexivity].
      cbn [option_map not_allowed]. now rewrite mem_dedup.
    + now destruct (option_map dedup (fc_ecu_ids cfg)).
  - now rewrite !count_criterion.
Qed.

(* ---------- the parser with and without a filter ---------- *)
Lemma vpl_ok_payload i h rest htyp mcnt overall tail remaining pl :
  std_facts i h rest htyp mcnt overall tail ->
  validated_payload_length h remaining = VplOk pl -> pl = h_payload_length h.
Proof.
  intros F. destruct (std_facts_overall _ _ _ _ _ _ _ F) as [Ov _].
  unfold validated_payload_length. rewrite Ov, (sf_type_byte _ _ _ _ _ _ _ F), (sf_payload _ _ _ _ _ _ _ F).
  destruct (overall <? calculate_all_headers_length htyp); [discriminate|].
  destruct (remaining <? overall); [discriminate|]. intros H. now injection H as <-.
Qed.

Lemma after_filter shs a pf m rest :
  dlt_message_after shs a None = POk (Item m) rest ->
  dlt_message_after shs a (Some pf) =
    if filtered_out (m_ext m) (Some pf) (h_ecu (m_header m))
    then POk (FilteredOut (h_payload_length (m_header m))) rest
    else POk (Item m) rest.
Proof.
  unfold dlt_message_after. intros H.
  apply pbind_ok_inv in H as (h & after_std & Eh & H). rewrite Eh. cbn [pbind].
  destruct (dlt_standard_header_ok _ _ _ Eh) as (htyp & mcnt & overall & tail & F).
  apply pbind_ok_inv in H as (ext & after_headers & Ee & H). rewrite Ee. cbn [pbind].
  destruct (validated_payload_length h (len a)) as [pl|n|] eqn:V; try discriminate.
  apply (vpl_ok_payload _ _ _ _ _ _ _ _ _ F) in V. subst pl.
  change (filtered_out ext None (h_ecu h)) with false in H. cbn iota in H.
  apply pbind_ok_inv in H as (p & r & Ep & H). injection H as <- <-.
  cbn [m_ext m_header].
  destruct (filtered_out ext (Some pf) (h_ecu h)).
  - apply dlt_payload_splits in Ep as (c & -> & Hc). now rewrite (take_app _ _ _ Hc).
  - rewrite Ep. reflexivity.
Qed.

Lemma after_filter_only_drops shs a pf m rest :
  dlt_message_after shs a (Some pf) = POk (Item m) rest ->
  dlt_message_after shs a None = POk (Item m) rest.
Proof.
  unfold dlt_message_after. intros H.
  apply pbind_ok_inv in H as (h & after_std & Eh & H). rewrite Eh. cbn [pbind].
  apply pbind_ok_inv in H as (ext & after_headers & Ee & H). rewrite Ee. cbn [pbind].
  destruct (validated_payload_length h (len a)) as [pl|n|]; try discriminate.
  change (filtered_out ext None (h_ecu h)) with false. cbn iota.
  destruct (filtered_out ext (Some pf) (h_ecu h)); [|exact H].
  apply pbind_ok_inv in H as (x & r & _ & H). discriminate.
Qed.

(* any processed configuration (also a hand-built one) *)
Theorem filter_relative bs pf sh m rest :
  dlt_message bs None sh = POk (Item m) rest ->
  dlt_message bs (Some pf) sh =
    if filtered_out (m_ext m) (Some pf) (h_ecu (m_header m))
    then POk (FilteredOut (h_payload_length (m_header m))) rest
    else POk (Item m) rest.
Proof.
  unfold dlt_message. intros H.
  apply pbind_ok_inv in H as (shs & after & Es & H). rewrite Es. cbn [pbind].
  now apply after_filter.
Qed.

Theorem filter_spec bs cfg sh m rest :
  dlt_message bs None sh = POk (Item m) rest ->
  dlt_message bs (Some (process_filter cfg)) sh =
    if spec_dropped cfg m
    then POk (FilteredOut (h_payload_length (m_header m))) rest
    else POk (Item m) rest.
Proof. intros H. rewrite (filter_relative _ (process_filter cfg) _ _ _ H). now rewrite filtered_out_spec. Qed.

Theorem filter_only_drops bs pf sh m rest :
  dlt_message bs (Some pf) sh = POk (Item m) rest -> dlt_message bs None sh = POk (Item m) rest.
Proof.
  unfold dlt_message. intros H.
  apply pbind_ok_inv in H as (shs & after & Es & H). rewrite Es. cbn [pbind].
  now apply (after_filter_only_drops _ _ pf).
Qed.

(* a kept message is kept under the filter with the same value; a dropped one yields no Item *)
Corollary filter_kept_iff bs cfg sh m rest :
  dlt_message bs None sh = POk (Item m) rest ->
  (dlt_message bs (Some (process_filter cfg)) sh = POk (Item m) rest <-> spec_dropped cfg m = false).
Proof.
  intros H. rewrite (filter_spec _ cfg _ _ _ H). destruct (spec_dropped cfg m); split; try reflexivity; discriminate.
Qed.

(* ---------- message for message over a whole buffer ---------- *)
Lemma unfiltered_is_item bs sh pm rest : dlt_message bs None sh = POk pm rest -> exists m, pm = Item m.
Proof.
  unfold dlt_message. intros H. apply pbind_ok_inv in H as (shs & a & _ & H).
  unfold dlt_message_after in H.
  apply pbind_ok_inv in H as (h & after_std & Eh & H).
  destruct (dlt_standard_header_ok _ _ _ Eh) as (htyp & mcnt & overall & tail & F).
  apply pbind_ok_inv in H as (ext & after_headers & Ee & H).
  destruct (validated_payload_length h (len a)) as [pl|n|] eqn:V; try discriminate.
  - change (filtered_out ext None (h_ecu h)) with false in H. cbn iota in H.
    apply pbind_ok_inv in H as (p & r & _ & H). injection H as <- _. eexists. reflexivity.
  - exfalso. destruct (std_facts_overall _ _ _ _ _ _ _ F) as [Ov _].
    unfold validated_payload_length in V. rewrite Ov, (sf_type_byte _ _ _ _ _ _ _ F) in V.
    pose proof (sf_headers_le _ _ _ _ _ _ _ F) as Hle.
    destruct (N.ltb_spec overall (calculate_all_headers_length htyp)) as [|_]; [lia|].
    destruct (len a <? overall); discriminate.
Qed.

(* what the filter makes of one delivered message *)
Definition apply_filter (cfg : filter_config) (pm : parsed_message) : parsed_message :=
  match pm with
  | Item m => if spec_dropped cfg m then FilteredOut (h_payload_length (m_header m)) else Item m
  | other => other
  end.

(* Repeated parsing: as long as the unfiltered parser delivers messages, the filtered parser delivers the
   same messages or their markers, in the same order, from the same positions.  Where the unfiltered parser
   stops, the filtered one stops too PROVIDED it does not succeed there (it can: a dropped message's payload
   is skipped unparsed, see c09_hyp_needed); e.g. when the rest is empty or incomplete. *)
Theorem filter_stream cfg fuel bs sh l r :
  parse_all fuel bs None sh = (l, r) ->
  is_ok (dlt_message r (Some (process_filter cfg)) sh) = false ->
  parse_all fuel bs (Some (process_filter cfg)) sh = (map (apply_filter cfg) l, r) /\
  Forall (fun pm => exists m, pm = Item m) l.
Proof.
  revert bs l r. induction fuel as [|fuel IH]; intros bs l r H Hstop.
  - cbn [parse_all] in *. injection H as <- <-. split; [reflexivity | constructor].
  - cbn [parse_all] in *.
    destruct (dlt_message bs None sh) as [pm rest| | | |] eqn:E.
    2-5: (injection H as Hl Hr; subst l r;
          destruct (dlt_message bs (Some (process_filter cfg)) sh);
          [cbn [is_ok] in Hstop; discriminate Hstop| | | |]; (split; [reflexivity | constructor])).
    destruct (parse_all fuel rest None sh) as [l0 r0] eqn:P. injection H as <- <-.
    destruct (unfiltered_is_item _ _ _ _ E) as (m & ->).
    rewrite (filter_spec _ cfg _ _ _ E).
    destruct (IH rest l0 r0 P Hstop) as [IH1 IH2].
    split; [|constructor; [now exists m | exact IH2]].
    cbn [map apply_filter]. destruct (spec_dropped cfg m); now rewrite IH1.
Qed.

(* ---------- example inputs for Properties/C09.v ---------- *)
(* verbose log message, level INFO (4), APID "A", CTID "C", one bool argument + 4 spare payload bytes *)
Definition ex_info : list byte :=
  [x21; x00; x00; x17; x41; x01; x41; x00; x00; x00; x43; x00; x00; x00;
   x10; x00; x00; x00; x01; x02; x03; x04; x05; xee; xee].
(* the same with MTIN = 9: LogLevel::Invalid(9) *)
Definition ex_invalid_level : list byte :=
  [x21; x00; x00; x17; x91; x01; x41; x00; x00; x00; x43; x00; x00; x00;
   x10; x00; x00; x00; x01; x02; x03; x04; x05; xee; xee].
(* with header ECU id "E1" *)
Definition ex_ecu : list byte :=
  [x25; x00; x00; x1b; x45; x31; x00; x00; x41; x01; x41; x00; x00; x00; x43; x00; x00; x00;
   x10; x00; x00; x00; x01; x02; x03; x04; x05; xee; xee].
(* no extended header, 4 payload bytes *)
Definition ex_noext : list byte := [x20; x00; x00; x08; x01; x02; x03; x04; xee].

Definition cfg_level (v : N) := mkFC (Some v) None None None 0 0.

