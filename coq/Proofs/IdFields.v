(* Proofs/IdFields.v — the id fields (ECU id of the storage header, ECU id of the standard header,
   application and context id of the extended header) of every parsed header ARE results of the
   fixed-size string extraction [zstring 4] at the field's offset.  With Properties/C19.v (c19_enough)
   this says: each id is the longest valid-UTF-8 prefix of the bytes before the first NUL among the
   4 bytes of its field. *)
From Coq Require Import Lia ZifyBool ZifyN ZifyNat.
From DltV.Model Require Import Bytes RustInt Utf8 Nom Dlt Parse.
From DltV.Proofs Require Import BytesBasics Fields Utf8Lemmas ZString Codes ParseLemmas Search Consumption.
Open Scope N_scope.

Lemma u8_rest i v rest : u8 i = POk v rest -> rest = skipn 1 i.
Proof. intros H. now apply uint_ok_inv in H as (_ & _ & _ & ->). Qed.
Lemma uint_rest e k i v rest : uint e k i = POk v rest -> rest = skipn k i.
Proof. intros H. now apply uint_ok_inv in H as (_ & _ & _ & ->). Qed.
Lemma zstring_rest i v rest : zstring 4 i = POk v rest -> rest = skipn 4 i.
Proof. intros H. now apply zstring_ok_inv in H as (_ & _ & ->). Qed.
Lemma u8_htyp_of i v rest : u8 i = POk v rest -> htyp_of i = v.
Proof.
  intros H. pose proof (u8_value _ _ _ H) as Hv. apply u8_head in H. subst i.
  unfold htyp_of. cbn [hd]. now apply n2b_small.
Qed.

(* ---------- standard header: ECU id at offset 4, present iff WEID (bit 2 of HTYP) ---------- *)
Lemma std_header_ecu_field i h rest : dlt_standard_header i = POk h rest ->
  match h_ecu h with
  | Some id => flag (htyp_of i) 4 = true /\ exists r, zstring 4 (skipn 4 i) = POk id r
  | None => flag (htyp_of i) 4 = false
  end.
Proof.
  unfold dlt_standard_header. intros H.
  apply pbind_ok_inv in H as (htyp & i0 & E0 & H).
  apply pbind_ok_inv in H as (mcnt & i1 & E1 & H).
  apply pbind_ok_inv in H as (overall & i2 & E2 & H).
  apply pbind_ok_inv in H as (ecu & i3 & E3 & H).
  apply pbind_ok_inv in H as (session & i4 & E4 & H).
  apply pbind_ok_inv in H as (tms & i5 & E5 & H).
  destruct (overall <? calculate_all_headers_length htyp); [discriminate|].
  injection H as <- <-. cbn [h_ecu].
  rewrite (u8_htyp_of _ _ _ E0).
  assert (Ei2 : i2 = skipn 4 i).
  { rewrite (uint_rest _ _ _ _ _ E2), (u8_rest _ _ _ E1), (u8_rest _ _ _ E0).
    rewrite !skipn_skipn_add. reflexivity. }
  destruct (flag htyp 4).
  - apply pmap_ok_inv in E3 as (id & Ez & ->). split; [reflexivity|].
    exists i3. rewrite <- Ei2. exact Ez.
  - injection E3 as <- _. reflexivity.
Qed.

Theorem ecu_is_field i h rest id :
  dlt_standard_header i = POk h rest -> h_ecu h = Some id -> exists r, zstring 4 (skipn 4 i) = POk id r.
Proof.
  intros H He. pose proof (std_header_ecu_field i h rest H) as F. rewrite He in F. exact (proj2 F).
Qed.

(* ---------- extended header: application id at offset 2, context id at offset 6 ---------- *)
Theorem ext_ids_are_fields i x rest :
  dlt_extended_header i = POk x rest ->
  exists r1 r2, zstring 4 (skipn 2 i) = POk (e_apid x) r1 /\ zstring 4 (skipn 6 i) = POk (e_ctid x) r2.
Proof.
  unfold dlt_extended_header, parse_ecu_id. intros H.
  apply pbind_ok_inv in H as (msin & i0 & E0 & H).
  apply pbind_ok_inv in H as (noar & i1 & E1 & H).
  apply pbind_ok_inv in H as (apid & i2 & E2 & H).
  apply pbind_ok_inv in H as (ctid & i3 & E3 & H).
  injection H as <- <-. cbn [e_apid e_ctid].
  assert (Ei1 : i1 = skipn 2 i).
  { rewrite (u8_rest _ _ _ E1), (u8_rest _ _ _ E0), skipn_skipn_add. reflexivity. }
  assert (Ei2 : i2 = skipn 6 i).
  { rewrite (zstring_rest _ _ _ E2), Ei1, skipn_skipn_add. reflexivity. }
  exists i2, i3. rewrite <- Ei1, <- Ei2. split; assumption.
Qed.

(* ---------- storage header: ECU id at offset 12 behind the k skipped bytes ---------- *)
Lemma tag_rest t i v rest : tag t i = POk v rest -> rest = skipn (length t) i.
Proof.
  unfold tag. destruct (compare_tag t i) as [[|]|]; try discriminate. intros H. now injection H as _ <-.
Qed.

Theorem storage_ecu_is_field i sh k rest :
  dlt_storage_header i = POk (Some (sh, k)) rest ->
  exists r, zstring 4 (skipn (N.to_nat k + 12) i) = POk (sh_ecu sh) r.
Proof.
  unfold dlt_storage_header, forward_to_next_storage_header.
  destruct (len i <? 16); [discriminate|].
  destruct (find_pattern i) as [n|]; [|discriminate]. intros H.
  apply pbind_ok_inv in H as (t1 & i1 & E1 & H). apply pbind_ok_inv in H as (t2 & i2 & E2 & H).
  apply pbind_ok_inv in H as (secs & i3 & E3 & H). apply pbind_ok_inv in H as (mic & i4 & E4 & H).
  apply pbind_ok_inv in H as (ecu & i5 & E5 & H). injection H as <- <- <-. cbn [sh_ecu].
  rewrite Nat2N.id.
  assert (Ei4 : i4 = skipn (n + 12) i).
  { rewrite (uint_rest _ _ _ _ _ E4), (uint_rest _ _ _ _ _ E3), (tag_rest _ _ _ _ E2), (tag_rest _ _ _ _ E1).
    cbn [length]. rewrite !skipn_skipn_add. f_equal; lia. }
  exists i5. rewrite <- Ei4. exact E5.
Qed.

(* ---------- the message parser: the ids of the returned message are these fields ----------
   [located sh bs skip after] (Proofs/Consumption.v): with storage headers the first pattern stands at
   offset [skip] of [bs] and [after] = the input behind the 16-byte storage header found there; without,
   skip = 0 and after = bs.  [htyp_of after] = the header-type byte.  Which ids exist is decided by the
   mode (storage header) and by bits WEID (4) and UEH (1) of the header-type byte. *)
Definition ids_are_fields (sh : bool) (bs : list byte) (m : message) (skip : N) (after : list byte) : Prop :=
  let std_len := N.to_nat (calculate_standard_header_length (htyp_of after)) in
  match m_storage m with
  | Some s => sh = true /\ exists r, zstring 4 (skipn (N.to_nat skip + 12) bs) = POk (sh_ecu s) r
  | None => sh = false
  end /\
  match h_ecu (m_header m) with
  | Some id => flag (htyp_of after) 4 = true /\ exists r, zstring 4 (skipn 4 after) = POk id r
  | None => flag (htyp_of after) 4 = false
  end /\
  match m_ext m with
  | Some x => flag (htyp_of after) 1 = true /\
              exists r1 r2, zstring 4 (skipn (std_len + 2) after) = POk (e_apid x) r1 /\
                            zstring 4 (skipn (std_len + 6) after) = POk (e_ctid x) r2
  | None => flag (htyp_of after) 1 = false
  end.

Lemma dlt_message_after_ids shs after f m rest :
  dlt_message_after shs after f = POk (Item m) rest ->
  m_storage m = option_map fst shs /\
  let std_len := N.to_nat (calculate_standard_header_length (htyp_of after)) in
  match h_ecu (m_header m) with
  | Some id => flag (htyp_of after) 4 = true /\ exists r, zstring 4 (skipn 4 after) = POk id r
  | None => flag (htyp_of after) 4 = false
  end /\
  match m_ext m with
  | Some x => flag (htyp_of after) 1 = true /\
              exists r1 r2, zstring 4 (skipn (std_len + 2) after) = POk (e_apid x) r1 /\
                            zstring 4 (skipn (std_len + 6) after) = POk (e_ctid x) r2
  | None => flag (htyp_of after) 1 = false
  end.
Proof.
  unfold dlt_message_after. intros H.
  apply pbind_ok_inv in H as (h & after_std & Eh & H).
  apply pbind_ok_inv in H as (ext & after_headers & Ex & H).
  pose proof (std_header_ecu_field _ _ _ Eh) as Fe.
  destruct (dlt_standard_header_ok _ _ _ Eh) as (htyp & mcnt & overall & tail & F).
  assert (Hh : htyp_of after = htyp).
  { rewrite (sf_input _ _ _ _ _ _ _ F). unfold htyp_of. cbn [hd].
    apply n2b_small, (sf_htyp_lt _ _ _ _ _ _ _ F). }
  assert (Hrest : after_std = skipn (N.to_nat (calculate_standard_header_length (htyp_of after))) after).
  { rewrite Hh. apply (splits_firstn _ _ _ (sf_splits _ _ _ _ _ _ _ F)). }
  pose proof (sf_has_ext _ _ _ _ _ _ _ F) as Hx. rewrite <- Hh in Hx.
  assert (Hm : m = mkMsg (option_map fst shs) h ext (m_payload m)).
  { destruct (validated_payload_length h (len after)) as [pl| |]; try discriminate.
    - destruct (filtered_out ext f (h_ecu h)).
      + apply pbind_ok_inv in H as (? & ? & _ & H). discriminate.
      + apply pbind_ok_inv in H as (p & r & _ & H). injection H as <- _. reflexivity. }
  rewrite Hm. cbn [m_storage m_header m_ext]. split; [reflexivity|]. cbv zeta. split; [exact Fe|].
  rewrite Hx in Ex. destruct (flag (htyp_of after) 1).
  - apply pmap_ok_inv in Ex as (x & Ex & ->). split; [reflexivity|].
    destruct (ext_ids_are_fields _ _ _ Ex) as (r1 & r2 & A & C).
    exists r1, r2. rewrite Hrest in A, C. rewrite !skipn_skipn_add in A, C. split; assumption.
  - injection Ex as <- _. reflexivity.
Qed.

Theorem message_ids_are_fields bs f sh m rest :
  dlt_message bs f sh = POk (Item m) rest ->
  exists skip after, located sh bs skip after /\ ids_are_fields sh bs m skip after.
Proof.
  intros H. destruct (dlt_message_consumes _ _ _ _ _ H) as (skip & after & L & _).
  exists skip, after. split; [exact L|].
  unfold dlt_message in H. apply pbind_ok_inv in H as (shs & after' & Es & H).
  destruct sh.
  - destruct (dlt_storage_header_ok _ _ _ Es) as [(-> & -> & _)|(s & k & -> & Fp & S16)].
    + exfalso. unfold dlt_message_after, dlt_standard_header in H. discriminate.
    + destruct L as (Fp' & _ & Ea). rewrite Fp in Fp'. injection Fp' as Hk.
      apply N2Nat.inj in Hk. subst k.
      assert (after' = after).
      { rewrite Ea. destruct (splits_firstn _ _ _ S16) as [_ E]. rewrite E.
        change (N.to_nat 16) with 16%nat. apply skipn_skipn_add. }
      subst after'.
      destruct (dlt_message_after_ids _ _ _ _ _ H) as (Hs & He & Hx).
      unfold ids_are_fields. rewrite Hs. cbn [option_map fst]. split; [|split; assumption].
      split; [reflexivity|]. exact (storage_ecu_is_field _ _ _ _ Es).
  - injection Es as <- <-. destruct L as (_ & ->).
    destruct (dlt_message_after_ids _ _ _ _ _ H) as (Hs & He & Hx).
    unfold ids_are_fields. rewrite Hs. cbn [option_map]. split; [reflexivity|]. split; assumption.
Qed.
