(* Proofs/RealValue.v — C18: Argument::to_real_value (Model/Float.v). *)
From Coq Require Import ZArith NArith Bool Lia ZifyBool ZifyN Floats.SpecFloat.
From DltV.Model Require Import Bytes RustInt Dlt Float.
Open Scope N_scope.

(* ---------- when a value is produced ---------- *)

Lemma value_as_f64_some v :
  (match v with
   | VI8 _ | VI16 _ | VI32 _ | VI64 _ | VU8 _ | VU16 _ | VU32 _ | VU64 _ => true
   | _ => false
   end) = true -> exists f, value_as_f64 v = Some f.
Proof. destruct v; intros H; try discriminate H; eexists; reflexivity. Qed.

Lemma value_as_f64_none v :
  (match v with
   | VI8 _ | VI16 _ | VI32 _ | VI64 _ | VU8 _ | VU16 _ | VU32 _ | VU64 _ => true
   | _ => false
   end) = false -> value_as_f64 v = None.
Proof. destruct v; intros H; try discriminate H; reflexivity. Qed.

Lemma to_real_value_none a :
  real_applicable a = false -> to_real_value a = Val None.
Proof.
  unfold real_applicable, to_real_value, log_v. intros H.
  destruct (ti_kind_of (a_ti a)) eqn:Ek; try reflexivity;
    destruct (a_fp a) as [fp|] eqn:Efp; try reflexivity;
    cbn [is_fixed_point andb] in H; rewrite (value_as_f64_none _ H); reflexivity.
Qed.

Lemma to_real_value_some a :
  real_applicable a = true -> exists n, to_real_value a = Val (Some n) /\ n < 2 ^ 64.
Proof.
  unfold real_applicable, to_real_value, log_v, wrap. intros H.
  apply andb_true_iff in H. destruct H as [H Hv].
  apply andb_true_iff in H. destruct H as [Hk Hf].
  destruct (a_fp a) as [fp|] eqn:Efp; [|discriminate Hf].
  destruct (value_as_f64_some _ Hv) as [f Ef].
  destruct (ti_kind_of (a_ti a)) eqn:Ek; try discriminate Hk;
    rewrite Ef; eexists; (split; [reflexivity|]); apply N.mod_lt; discriminate.
Qed.

Lemma to_real_value_none_iff a :
  to_real_value a = Val None <-> real_applicable a = false.
Proof.
  split; [|apply to_real_value_none].
  destruct (real_applicable a) eqn:E; [|reflexivity].
  destruct (to_real_value_some a E) as [n [Hn _]]. rewrite Hn. discriminate.
Qed.

Lemma to_real_value_no_panic a : to_real_value a <> Panic.
Proof.
  destruct (real_applicable a) eqn:E.
  - destruct (to_real_value_some a E) as [n [Hn _]]. rewrite Hn. discriminate.
  - rewrite (to_real_value_none a E). discriminate.
Qed.

(* the result is reduced to the fixed-point data, the value and the kind only through
   [real_applicable]: on applicable arguments it is the wrapped sum *)
Lemma to_real_value_applicable a fp v :
  is_fixed_point (ti_kind_of (a_ti a)) = true -> a_fp a = Some fp ->
  value_as_f64 (a_value a) = Some v ->
  to_real_value a = Val (Some (wrap 64 (scaled_u64 fp v + off_u64 fp))).
Proof.
  intros Hk Hf Hv. unfold to_real_value, log_v.
  destruct (ti_kind_of (a_ti a)); try discriminate Hk; rewrite Hf, Hv; reflexivity.
Qed.

Lemma to_real_value_pinned_applicable a fp v :
  is_fixed_point (ti_kind_of (a_ti a)) = true -> a_fp a = Some fp ->
  value_as_f64 (a_value a) = Some v ->
  to_real_value_pinned a =
  chk_bind (add_chk 64 (scaled_u64 fp v) (off_u64 fp)) (fun r => Val (Some r)).
Proof.
  intros Hk Hf Hv. unfold to_real_value_pinned, log_v_pinned.
  destruct (ti_kind_of (a_ti a)); try discriminate Hk; rewrite Hf, Hv; reflexivity.
Qed.

(* ---------- the integer part: saturating cast, sign extension, wrapping add ---------- *)

Lemma pow64_N : 2 ^ 64 = 18446744073709551616.
Proof. reflexivity. Qed.

Lemma f64_to_u64_trunc p t :
  sf_trunc p = Some t -> (0 <= t < 2 ^ 64)%Z -> f64_to_u64 p = Z.to_N t.
Proof.
  intros Ht Hr. unfold f64_to_u64. rewrite Ht. unfold u64_max.
  destruct (Z.ltb_spec t 0) as [Hneg|_]; [lia|].
  destruct (Z.ltb_spec (Z.of_N 18446744073709551615) t) as [Hbig|_]; [lia|].
  reflexivity.
Qed.

Lemma f64_to_u64_bound p : f64_to_u64 p < 2 ^ 64.
Proof.
  rewrite pow64_N. unfold f64_to_u64, u64_max.
  destruct (sf_trunc p) as [t|].
  - destruct (Z.ltb_spec t 0) as [Hneg|Hpos]; [lia|].
    destruct (Z.ltb_spec (Z.of_N 18446744073709551615) t) as [Hbig|Hsm]; lia.
  - destruct p as [s|[|]| |s m e]; lia.
Qed.

Lemma of_signed64 z : of_signed 64 z = Z.to_N (z mod 18446744073709551616).
Proof. reflexivity. Qed.

Lemma of_signed64_nonneg z : (0 <= z < 2 ^ 64)%Z -> of_signed 64 z = Z.to_N z.
Proof. intros H. rewrite of_signed64. rewrite Z.mod_small by lia. reflexivity. Qed.

Lemma of_signed64_neg z : (- 2 ^ 64 <= z < 0)%Z -> of_signed 64 z = Z.to_N (z + 2 ^ 64).
Proof.
  intros H. rewrite of_signed64. f_equal.
  symmetry. apply (Z.mod_unique z 18446744073709551616 (-1)); lia.
Qed.

Lemma wrap_sum t off :
  (0 <= t)%Z -> (- 2 ^ 63 <= off)%Z -> (0 <= t + off < 2 ^ 63)%Z ->
  wrap 64 (Z.to_N t + of_signed 64 off) = Z.to_N (t + off).
Proof.
  intros Ht Hlo Hs. unfold wrap. rewrite pow64_N.
  destruct (Z.ltb_spec off 0) as [Hneg|Hpos].
  - rewrite of_signed64_neg by lia.
    rewrite <- Z2N.inj_add by lia.
    replace (t + (off + 2 ^ 64))%Z with (t + off + 18446744073709551616)%Z by lia.
    rewrite Z2N.inj_add by lia.
    change (Z.to_N 18446744073709551616) with (1 * 18446744073709551616).
    rewrite N.mod_add by discriminate.
    apply N.mod_small. lia.
  - rewrite of_signed64_nonneg by lia.
    rewrite <- Z2N.inj_add by lia.
    apply N.mod_small. lia.
Qed.

Lemma to_real_value_value a fp v t :
  is_fixed_point (ti_kind_of (a_ti a)) = true -> a_fp a = Some fp ->
  value_as_f64 (a_value a) = Some v ->
  sf_trunc (f64_mul v (fp_quant_f64 fp)) = Some t ->
  (- 2 ^ 63 <= fp_off (fp_offset fp))%Z ->
  (0 <= t)%Z -> (0 <= t + fp_off (fp_offset fp) < 2 ^ 63)%Z ->
  to_real_value a = Val (Some (Z.to_N (t + fp_off (fp_offset fp)))).
Proof.
  intros Hk Hf Hv Ht Hlo Ht0 Hs.
  rewrite (to_real_value_applicable a fp v Hk Hf Hv).
  unfold scaled_u64, off_u64.
  rewrite (f64_to_u64_trunc _ t Ht) by lia.
  rewrite wrap_sum by assumption. reflexivity.
Qed.

(* the offsets the wire format can carry satisfy the lower bound *)
Lemma in_signed_off_lo o :
  (match o with FI32 z => in_signed 32 z | FI64 z => in_signed 64 z end) = true ->
  (- 2 ^ 63 <= fp_off o)%Z.
Proof.
  unfold in_signed. destruct o as [z|z]; cbn [fp_off]; intros H;
    apply andb_true_iff in H; destruct H as [H _]; apply Z.leb_le in H.
  - change (Z.of_N (2 ^ (32 - 1))) with 2147483648%Z in H. lia.
  - change (Z.of_N (2 ^ (64 - 1))) with 9223372036854775808%Z in H. lia.
Qed.

(* ---------- the code as it stands: exactly when the checked `+` overflows ---------- *)

Lemma to_real_value_pinned_panic_iff a fp v :
  is_fixed_point (ti_kind_of (a_ti a)) = true -> a_fp a = Some fp ->
  value_as_f64 (a_value a) = Some v ->
  (to_real_value_pinned a = Panic <-> 2 ^ 64 <= scaled_u64 fp v + off_u64 fp).
Proof.
  intros Hk Hf Hv. rewrite (to_real_value_pinned_applicable a fp v Hk Hf Hv).
  unfold add_chk, chk_bind. rewrite pow64_N.
  destruct (N.ltb_spec (scaled_u64 fp v + off_u64 fp) 18446744073709551616) as [Hlt|Hge].
  - split; [discriminate|lia].
  - split; [intros _; exact Hge|reflexivity].
Qed.

(* for a negative offset the checked sum overflows as soon as the scaled value reaches
   |offset|, i.e. whenever the intended result  scaled + offset  is non-negative *)
Lemma to_real_value_pinned_panic_neg a fp v :
  is_fixed_point (ti_kind_of (a_ti a)) = true -> a_fp a = Some fp ->
  value_as_f64 (a_value a) = Some v ->
  (- 2 ^ 63 <= fp_off (fp_offset fp) < 0)%Z ->
  (to_real_value_pinned a = Panic <-> (0 <= Z.of_N (scaled_u64 fp v) + fp_off (fp_offset fp))%Z).
Proof.
  intros Hk Hf Hv Ho. rewrite (to_real_value_pinned_panic_iff a fp v Hk Hf Hv).
  unfold off_u64. rewrite of_signed64_neg by lia. rewrite pow64_N. lia.
Qed.

(* where the code as it stands does not panic it agrees with the repaired code *)
Lemma to_real_value_pinned_agrees a :
  to_real_value_pinned a <> Panic -> to_real_value_pinned a = to_real_value a.
Proof.
  unfold to_real_value_pinned, to_real_value, log_v_pinned, log_v, add_chk, chk_bind, wrap.
  rewrite pow64_N.
  destruct (ti_kind_of (a_ti a)); try reflexivity;
    destruct (a_fp a) as [fp|]; try reflexivity;
    destruct (value_as_f64 (a_value a)) as [v|]; try reflexivity;
    (destruct (N.ltb_spec (scaled_u64 fp v + off_u64 fp) 18446744073709551616) as [Hlt|Hge];
     [intros _; rewrite N.mod_small by exact Hlt; reflexivity|intros H; contradiction H; reflexivity]).
Qed.

(* ---------- what [sf_trunc] is: truncation toward zero of (-1)^s * m * 2^e ---------- *)

Lemma sf_trunc_finite s m e :
  exists n, sf_trunc (S754_finite s m e) = Some (cond_Zopp s n) /\ (0 <= n)%Z /\
    ((0 <= e)%Z -> n = (Zpos m * 2 ^ e)%Z) /\
    ((e < 0)%Z -> (n * 2 ^ (- e) <= Zpos m < (n + 1) * 2 ^ (- e))%Z).
Proof.
  exists (Z.shiftl (Zpos m) e). cbn [sf_trunc]. split; [reflexivity|]. split; [|split].
  - apply Z.shiftl_nonneg. lia.
  - intros He. apply Z.shiftl_mul_pow2. exact He.
  - intros He. rewrite Z.shiftl_div_pow2 by lia.
    assert (Hp : (0 < 2 ^ (- e))%Z) by (apply Z.pow_pos_nonneg; lia).
    pose proof (Z.div_mod (Zpos m) (2 ^ (- e))) as Hdm.
    pose proof (Z.mod_pos_bound (Zpos m) (2 ^ (- e)) Hp) as Hmb.
    nia.
Qed.

Lemma sf_trunc_none p :
  sf_trunc p = None <-> (p = S754_nan \/ exists s, p = S754_infinity s).
Proof.
  destruct p as [s|s| |s m e]; cbn [sf_trunc]; split; intros H;
    try discriminate H; try reflexivity; try (right; eexists; reflexivity);
    try (left; reflexivity); destruct H as [H|[s' H]]; discriminate H.
Qed.

(* the cast saturates and sends NaN to 0 *)
Lemma f64_to_u64_cases p :
  match sf_trunc p with
  | Some t => f64_to_u64 p = Z.to_N (Z.max 0 (Z.min t (2 ^ 64 - 1)))
  | None => f64_to_u64 p = match p with S754_infinity false => 2 ^ 64 - 1 | _ => 0 end
  end.
Proof.
  unfold f64_to_u64, u64_max. destruct (sf_trunc p) as [t|]; [|reflexivity].
  destruct (Z.ltb_spec t 0) as [Hneg|Hpos].
  - rewrite Z.max_l by lia. reflexivity.
  - destruct (Z.ltb_spec (Z.of_N 18446744073709551615) t) as [Hbig|Hsm].
    + rewrite Z.min_r by lia. reflexivity.
    + rewrite Z.min_l by lia. rewrite Z.max_r by lia. reflexivity.
Qed.

(* ---------- the conversions that must be exact are exact ---------- *)

Lemma shift_pos_shiftl k m : Zpos (shift_pos k m) = Z.shiftl (Zpos m) (Zpos k).
Proof.
  unfold shift_pos. cbn [Z.shiftl]. revert m.
  induction k as [|k IH] using Pos.peano_ind; intros m.
  - reflexivity.
  - rewrite !Pos.iter_succ. rewrite <- IH. reflexivity.
Qed.

Lemma digits2_shift_pos k m : digits2_pos (shift_pos k m) = (digits2_pos m + k)%positive.
Proof.
  unfold shift_pos. induction k as [|k IH] using Pos.peano_ind.
  - cbn [Pos.iter digits2_pos]. lia.
  - rewrite Pos.iter_succ. cbn [digits2_pos]. rewrite IH. lia.
Qed.

Lemma digits2_bounds m :
  (2 ^ (Zpos (digits2_pos m) - 1) <= Zpos m < 2 ^ Zpos (digits2_pos m))%Z.
Proof.
  induction m as [m IH|m IH|]; cbn [digits2_pos].
  - rewrite Pos2Z.inj_succ.
    replace (Z.succ (Zpos (digits2_pos m)) - 1)%Z with (Z.succ (Zpos (digits2_pos m) - 1))%Z by lia.
    rewrite !Z.pow_succ_r by lia. lia.
  - rewrite Pos2Z.inj_succ.
    replace (Z.succ (Zpos (digits2_pos m)) - 1)%Z with (Z.succ (Zpos (digits2_pos m) - 1))%Z by lia.
    rewrite !Z.pow_succ_r by lia. lia.
  - cbn. lia.
Qed.

Lemma digits2_le m k : (0 <= k)%Z -> (Zpos m < 2 ^ k)%Z -> (Zpos (digits2_pos m) <= k)%Z.
Proof.
  intros Hk Hm. destruct (Z.le_gt_cases (Zpos (digits2_pos m)) k) as [H|H]; [exact H|].
  pose proof (digits2_bounds m) as [Hlo _].
  assert (Hle : (2 ^ k <= 2 ^ (Zpos (digits2_pos m) - 1))%Z) by (apply Z.pow_le_mono_r; lia).
  lia.
Qed.

Lemma shr_fexp_noop m e l :
  (fexp 53 1024 (Zdigits2 m + e) - e = 0)%Z ->
  shr_fexp 53 1024 m e l = (shr_record_of_loc m l, e).
Proof. intros H. unfold shr_fexp. rewrite H. reflexivity. Qed.

Lemma binary_round_aux_canonical s m e :
  fexp 53 1024 (Zpos (digits2_pos m) + e) = e -> (e <= 971)%Z ->
  binary_round_aux 53 1024 s (Zpos m) e loc_Exact = S754_finite s m e.
Proof.
  intros Hf He. unfold binary_round_aux.
  rewrite shr_fexp_noop by (cbn [Zdigits2]; lia).
  cbv beta iota. cbn [shr_record_of_loc shr_m loc_of_shr_record round_nearest_even].
  rewrite shr_fexp_noop by (cbn [Zdigits2]; lia).
  cbv beta iota. cbn [shr_record_of_loc shr_m].
  destruct (Zle_bool e (1024 - 53)) eqn:Hb; [reflexivity|]. apply Z.leb_gt in Hb. lia.
Qed.

Lemma bounded_canonical m e :
  fexp 53 1024 (Zpos (digits2_pos m) + e) = e -> (e <= 971)%Z -> bounded 53 1024 m e = true.
Proof.
  intros Hf He. unfold bounded, canonical_mantissa. rewrite Hf.
  unfold Zeq_bool. rewrite Z.compare_refl.
  destruct (Zle_bool e (1024 - 53)) eqn:Hb; [reflexivity|]. apply Z.leb_gt in Hb. lia.
Qed.

(* [binary_round] to binary64 of a number that fits: no rounding, only the mantissa is
   shifted left; the result is the canonical binary64 representation of the same number *)
Lemma binary_round_exact s m e :
  (Zpos (digits2_pos m) <= 53)%Z -> (-1074 <= e)%Z -> (Zpos (digits2_pos m) + e <= 1024)%Z ->
  exists m' e', binary_round prec64 emax64 s m e = S754_finite s m' e' /\
    (e' <= e)%Z /\ Zpos m' = Z.shiftl (Zpos m) (e - e') /\
    bounded prec64 emax64 m' e' = true.
Proof.
  intros Hd He Hde. unfold prec64, emax64.
  unfold binary_round, shl_align.
  set (d := digits2_pos m) in *.
  set (e1 := fexp 53 1024 (Zpos d + e)).
  assert (He1 : e1 = Z.max (Zpos d + e - 53) (-1074)) by reflexivity.
  destruct (e1 - e)%Z as [|k|k] eqn:Ek.
  - (* already canonical *)
    assert (Ee : e1 = e) by lia.
    exists m, e. cbv beta iota. rewrite binary_round_aux_canonical by (fold d; fold e1; lia).
    split; [reflexivity|]. split; [lia|]. split.
    + rewrite Z.sub_diag. reflexivity.
    + apply bounded_canonical; fold d; fold e1; lia.
  - lia.
  - (* shift left by k = e - e1 *)
    assert (Ee : e = (e1 + Zpos k)%Z) by lia.
    assert (Hdk : digits2_pos (shift_pos k m) = (d + k)%positive) by apply digits2_shift_pos.
    assert (Hf : fexp 53 1024 (Zpos (digits2_pos (shift_pos k m)) + e1) = e1).
    { rewrite Hdk, Pos2Z.inj_add.
      replace (Zpos d + Zpos k + e1)%Z with (Zpos d + e)%Z by lia. reflexivity. }
    exists (shift_pos k m), e1. cbv beta iota. rewrite binary_round_aux_canonical by (assumption || lia).
    split; [reflexivity|]. split; [lia|]. split.
    + rewrite shift_pos_shiftl. f_equal. lia.
    + apply bounded_canonical; [assumption|lia].
Qed.

Lemma sf_trunc_shift s m e m' e' :
  (e' <= e)%Z -> Zpos m' = Z.shiftl (Zpos m) (e - e') ->
  sf_trunc (S754_finite s m' e') = sf_trunc (S754_finite s m e).
Proof.
  intros He Hm. cbn [sf_trunc]. rewrite Hm. rewrite Z.shiftl_shiftl by lia.
  do 3 f_equal. lia.
Qed.

(* `n as f64` is exact for |n| < 2^53 (so for every 8/16/32-bit value) *)
Lemma int_to_f64_exact z :
  (Z.abs z < 2 ^ 53)%Z -> sf_trunc (int_to_f64 z) = Some z.
Proof.
  intros Hz. unfold int_to_f64, binary_normalize. destruct z as [|m|m].
  - reflexivity.
  - assert (Hd : (Zpos (digits2_pos m) <= 53)%Z) by (apply digits2_le; lia).
    destruct (binary_round_exact false m 0 Hd) as [m' [e' [Hr [He [Hm _]]]]]; [lia|lia|].
    rewrite Hr. rewrite (sf_trunc_shift false m 0 m' e' He Hm). reflexivity.
  - assert (Hd : (Zpos (digits2_pos m) <= 53)%Z) by (apply digits2_le; lia).
    destruct (binary_round_exact true m 0 Hd) as [m' [e' [Hr [He [Hm _]]]]]; [lia|lia|].
    rewrite Hr. rewrite (sf_trunc_shift true m 0 m' e' He Hm). reflexivity.
Qed.

(* decoding an f32 bit pattern gives at most 24 mantissa bits and a binary32 exponent *)
Lemma f32_of_bits_finite b s m e :
  f32_of_bits b = S754_finite s m e -> (Zpos m < 2 ^ 24)%Z /\ (-149 <= e <= 104)%Z.
Proof.
  unfold f32_of_bits.
  assert (Hf : b mod 2 ^ 23 < 2 ^ 23) by (apply N.mod_lt; discriminate).
  assert (He : (b / 2 ^ 23) mod 2 ^ 8 < 2 ^ 8) by (apply N.mod_lt; discriminate).
  set (f := b mod 2 ^ 23) in *. set (ex := (b / 2 ^ 23) mod 2 ^ 8) in *.
  change (2 ^ 23) with 8388608 in Hf. change (2 ^ 8) with 256 in He.
  destruct (N.eqb_spec ex 0) as [E0|E0].
  - destruct f as [|p] eqn:Ef; intros H; inversion H; subst. lia.
  - destruct (N.eqb_spec ex 255) as [E1|E1].
    + destruct (f =? 0); discriminate.
    + intros H; inversion H; subst. pose proof (N.succ_pos_spec (f + 8388607)) as Hs. lia.
Qed.

(* `q as f64` for q : f32 is the same number in canonical binary64 form *)
Lemma f32_to_f64_exact b s m e :
  f32_of_bits b = S754_finite s m e ->
  exists m' e', f32_to_f64 (f32_of_bits b) = S754_finite s m' e' /\
    (e' <= e)%Z /\ Zpos m' = (Zpos m * 2 ^ (e - e'))%Z /\ bounded prec64 emax64 m' e' = true.
Proof.
  intros Hb. destruct (f32_of_bits_finite b s m e Hb) as [Hm He].
  rewrite Hb. cbn [f32_to_f64].
  assert (Hd : (Zpos (digits2_pos m) <= 24)%Z) by (apply digits2_le; lia).
  destruct (binary_round_exact s m e) as [m' [e' [Hr [He' [Hm' Hbd]]]]]; [lia|lia|lia|].
  exists m', e'. split; [exact Hr|]. split; [exact He'|]. split; [|exact Hbd].
  rewrite Hm'. apply Z.shiftl_mul_pow2. lia.
Qed.

Lemma f32_to_f64_nonfinite b :
  (forall s m e, f32_of_bits b <> S754_finite s m e) -> f32_to_f64 (f32_of_bits b) = f32_of_bits b.
Proof. intros H. destruct (f32_of_bits b) as [s|s| |s m e]; try reflexivity. exfalso. eapply H. reflexivity. Qed.
