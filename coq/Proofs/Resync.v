(* Proofs/Resync.v — C06: parsing with storage headers skips pattern-free junk in front of a
   storage header; a stream of messages separated by junk is recovered completely and in order. *)
From Coq Require Import Lia ZifyBool ZifyN ZifyNat.
From DltV.Model Require Import Bytes Nom Dlt Parse.
From DltV.Proofs Require Import BytesBasics Fields ZString ParseLemmas Search.
Open Scope N_scope.

(* ---------- the search ---------- *)
Lemma forward_some_of_pattern bs j :
  pattern_at bs j ->
  exists k r, forward_to_next_storage_header bs = Some (k, r) /\ (N.to_nat k <= j)%nat.
Proof.
  intros Hp. unfold forward_to_next_storage_header.
  destruct (find_pattern bs) as [k|] eqn:E.
  - exists (N.of_nat k), (skipn k bs). split; [reflexivity|]. rewrite Nat2N.id.
    apply find_pattern_some in E as [_ Hmin].
    destruct (Nat.le_gt_cases k j) as [|Hlt]; [assumption|]. exfalso. exact (Hmin j Hlt Hp).
  - exfalso. exact (proj1 (find_pattern_none bs) E j Hp).
Qed.

Lemma forward_iff bs k r :
  forward_to_next_storage_header bs = Some (k, r) <->
  r = skipn (N.to_nat k) bs /\ pattern_at bs (N.to_nat k) /\
  forall j, (j < N.to_nat k)%nat -> ~ pattern_at bs j.
Proof.
  split.
  - intros H. pose proof (forward_spec bs) as S. rewrite H in S. exact S.
  - intros (-> & Hp & Hmin). unfold forward_to_next_storage_header.
    rewrite (proj2 (find_pattern_some bs (N.to_nat k)) (conj Hp Hmin)). now rewrite N2Nat.id.
Qed.

Lemma forward_none_iff bs :
  forward_to_next_storage_header bs = None <-> forall j, ~ pattern_at bs j.
Proof.
  unfold forward_to_next_storage_header. rewrite <- find_pattern_none.
  destruct (find_pattern bs); split; intros H; try reflexivity; discriminate.
Qed.

(* ---------- junk in front of a storage header ---------- *)
(* the shift reported by dlt_storage_header is dropped by dlt_message *)
Lemma dlt_message_after_shift s k k' a f :
  dlt_message_after (Some (s, k)) a f = dlt_message_after (Some (s, k')) a f.
Proof. reflexivity. Qed.

(* the parse of the 16 bytes found by the search *)
Definition storage_header_at (consumed : N) (rest : list byte) : pres (option (storage_header * N)) :=
  let* (_, i1) := tag [x44; x4c; x54] rest in
  let* (_, i2) := tag [x01] i1 in
  let* (secs, i3) := uint LE 4 i2 in
  let* (micros, i4) := uint LE 4 i3 in
  let* (ecu, after) := zstring 4 i4 in
  POk (Some (mkSH (mkTS secs micros) ecu, consumed)) after.

Lemma dlt_storage_header_eq input :
  dlt_storage_header input =
  if len input <? 16 then PIncomplete None
  else match forward_to_next_storage_header input with
       | Some (consumed, rest) => storage_header_at consumed rest
       | None => POk None []
       end.
Proof. reflexivity. Qed.

Lemma message_at_shift k k' x f :
  pbind (storage_header_at k x) (fun shs after => dlt_message_after shs after f) =
  pbind (storage_header_at k' x) (fun shs after => dlt_message_after shs after f).
Proof.
  unfold storage_header_at.
  destruct (tag [x44; x4c; x54] x) as [t1 i1| | | |]; cbn [pbind]; try reflexivity.
  destruct (tag [x01] i1) as [t2 i2| | | |]; cbn [pbind]; try reflexivity.
  destruct (uint LE 4 i2) as [secs i3| | | |]; cbn [pbind]; try reflexivity.
  destruct (uint LE 4 i3) as [mic i4| | | |]; cbn [pbind]; try reflexivity.
  destruct (zstring 4 i4) as [ecu after| | | |]; cbn [pbind]; try reflexivity.
Qed.

Theorem junk_skipped junk x f :
  (forall j, ~ pattern_at junk j) -> (exists r, x = pat_DLT1 ++ r) -> 16 <= len x ->
  dlt_message (junk ++ x) f true = dlt_message x f true.
Proof.
  intros Hj (r & ->) Hlen. apply find_pattern_none in Hj.
  unfold dlt_message. rewrite !dlt_storage_header_eq.
  rewrite (forward_junk junk r Hj).
  pose proof (forward_junk [] r eq_refl) as F0. cbn [app] in F0. rewrite F0.
  destruct (N.ltb_spec (len (junk ++ pat_DLT1 ++ r)) 16) as [H|_]; [rewrite len_app in H; lia|].
  destruct (N.ltb_spec (len (pat_DLT1 ++ r)) 16) as [H|_]; [lia|].
  apply message_at_shift.
Qed.

(* pattern-free leftover: nothing is found; the parser asks for more *)
Theorem junk_only junk f :
  (forall j, ~ pattern_at junk j) ->
  dlt_message junk f true = if len junk <? 16 then PIncomplete None else PIncomplete (Some 1).
Proof.
  intros Hj. apply forward_none_iff in Hj.
  unfold dlt_message. rewrite dlt_storage_header_eq, Hj.
  destruct (len junk <? 16); reflexivity.
Qed.

(* ---------- a stream with junk between the messages ---------- *)
Definition piece := (list byte * list byte * parsed_message)%type.   (* junk, message bytes, its parse *)

Fixpoint stream_bytes (l : list piece) (tail : list byte) : list byte :=
  match l with
  | [] => tail
  | (j, x, _) :: r => j ++ x ++ stream_bytes r tail
  end.

Definition good_piece (f : option processed_filter) (p : piece) : Prop :=
  let '(j, x, pm) := p in
  (forall k, ~ pattern_at j k) /\ (exists r, x = pat_DLT1 ++ r) /\
  (forall tail, dlt_message (x ++ tail) f true = POk pm tail).

(* a successful parse with storage header had at least 16 bytes of input *)
Lemma dlt_message_ok_len16 x f pm rest : dlt_message x f true = POk pm rest -> 16 <= len x.
Proof.
  unfold dlt_message. rewrite dlt_storage_header_eq.
  destruct (N.ltb_spec (len x) 16) as [|H]; [discriminate | intros _; exact H].
Qed.

Theorem stream_recovered f l jn fuel :
  Forall (good_piece f) l -> (forall k, ~ pattern_at jn k) -> (length l < fuel)%nat ->
  parse_all fuel (stream_bytes l jn) f true = (map snd l, jn).
Proof.
  intros Hl Hjn. revert fuel. induction Hl as [|[[j x] pm] l (Hj & (r & Hx) & Hparse) Hl IH]; intros fuel Hf.
  - destruct fuel as [|fuel]; [cbn in Hf; lia|]. cbn [stream_bytes parse_all map].
    rewrite (junk_only jn f Hjn). now destruct (len jn <? 16).
  - destruct fuel as [|fuel]; [cbn in Hf; lia|]. cbn [stream_bytes parse_all map snd].
    rewrite junk_skipped; [|exact Hj| |].
    + rewrite Hparse. rewrite IH by (cbn [length] in Hf; lia). reflexivity.
    + exists (r ++ stream_bytes l jn). rewrite Hx. now rewrite <- app_assoc.
    + pose proof (dlt_message_ok_len16 _ _ _ _ (Hparse [])) as H16. rewrite app_nil_r in H16.
      rewrite len_app. lia.
Qed.

(* ---------- the same for serialised messages, given the round trip (C01, and C09 for a filter) as a
   hypothesis: [res m] is what the parser returns for the bytes of m ---------- *)
Fixpoint messages_bytes (l : list (list byte * message)) (tail : list byte) : list byte :=
  match l with
  | [] => tail
  | (j, m) :: r => j ++ message_bytes m ++ messages_bytes r tail
  end.

Lemma messages_bytes_stream res l tail :
  messages_bytes l tail = stream_bytes (map (fun p => (fst p, message_bytes (snd p), res (snd p))) l) tail.
Proof. induction l as [|[j m] l IH]; [reflexivity|]. cbn [messages_bytes map stream_bytes fst snd]. now rewrite IH. Qed.

Theorem messages_recovered f (res : message -> parsed_message) l jn fuel :
  (forall j m, In (j, m) l ->
     (forall k, ~ pattern_at j k) /\ m_storage m <> None /\
     (forall tail, dlt_message (message_bytes m ++ tail) f true = POk (res m) tail)) ->
  (forall k, ~ pattern_at jn k) -> (length l < fuel)%nat ->
  parse_all fuel (messages_bytes l jn) f true = (map (fun p => res (snd p)) l, jn).
Proof.
  intros Hl Hjn Hf. rewrite (messages_bytes_stream res).
  rewrite stream_recovered; [| |exact Hjn|now rewrite map_length].
  - now rewrite map_map.
  - apply Forall_forall. intros p Hp. apply in_map_iff in Hp as ([j m] & <- & Hin).
    cbn [fst snd good_piece]. destruct (Hl j m Hin) as (Hj & Hs & Hparse).
    split; [exact Hj|]. split; [|exact Hparse].
    unfold message_bytes. destruct (m_storage m) as [s|]; [|congruence].
    unfold storage_header_bytes. rewrite <- !app_assoc. eexists. reflexivity.
Qed.

(* ---------- a concrete piece satisfying [good_piece] (for the Examples of Properties/C06.v) ----------
   storage header (1 s, 2 us, "ECU") + standard header without optional fields, no extended header,
   non-verbose payload with message id 0x04030201 and no data *)
Definition ex_msg : message :=
  mkMsg (Some (mkSH (mkTS 1 2) [x45; x43; x55])) (mkStd 1 LE false 0 None None None 4) None
        (PNonVerbose 67305985 []).
Definition ex_bytes : list byte :=
  [x44; x4c; x54; x01; x01; x00; x00; x00; x02; x00; x00; x00; x45; x43; x55; x00;
   x20; x00; x00; x08; x01; x02; x03; x04].

Lemma ex_bytes_eq : ex_bytes = message_bytes ex_msg.
Proof. vm_compute. reflexivity. Qed.

Lemma ex_parses tail : dlt_message (ex_bytes ++ tail) None true = POk (Item ex_msg) tail.
Proof.
  change (ex_bytes ++ tail) with
    (pat_DLT1 ++ put_uint LE 4 1 ++ put_uint LE 4 2 ++ [x45; x43; x55] ++ x00 ::
     put_uint BE 1 32 ++ put_uint BE 1 0 ++ put_uint BE 2 8 ++ put_uint LE 4 67305985 ++ tail).
  unfold dlt_message. rewrite dlt_storage_header_eq.
  match goal with |- context [pat_DLT1 ++ ?x] => set (r := x) end.
  pose proof (forward_junk [] r eq_refl) as F0. cbn [app] in F0. rewrite F0. clear F0.
  destruct (N.ltb_spec (len (pat_DLT1 ++ r)) 16) as [H|_].
  { exfalso. subst r. rewrite ?len_app, ?len_cons, ?len_app, ?len_put_uint in H.
    change (len pat_DLT1) with 4 in H. lia. }
  unfold storage_header_at.
  change pat_DLT1 with ([x44; x4c; x54] ++ [x01]). rewrite <- app_assoc, tag_app. cbn [pbind].
  rewrite tag_app. cbn [pbind]. subst r.
  rewrite uint_put by (vm_compute; reflexivity). cbn [pbind].
  rewrite uint_put by (vm_compute; reflexivity). cbn [pbind].
  match goal with |- context [zstring 4 ([x45; x43; x55] ++ x00 :: ?x)] =>
    pose proof (zstring_put_terminated [x45; x43; x55] x eq_refl eq_refl) as Z end.
  change (len [x45; x43; x55] + 1) with 4 in Z. rewrite Z. clear Z. cbn [pbind].
  unfold dlt_message_after, dlt_standard_header, u8.
  rewrite uint_put by (vm_compute; reflexivity). cbn [pbind].
  rewrite uint_put by (vm_compute; reflexivity). cbn [pbind].
  rewrite uint_put by (vm_compute; reflexivity). cbn [pbind].
  change (flag 32 4) with false. change (flag 32 8) with false. change (flag 32 16) with false.
  cbn [pbind].
  change (8 <? calculate_all_headers_length 32) with false. cbn iota. cbn [pbind].
  change (flag 32 1) with false. cbn [h_has_ext pbind].
  match goal with |- context [validated_payload_length ?h ?n] =>
    assert (V : validated_payload_length h n = VplOk 4) end.
  { unfold validated_payload_length.
    match goal with |- context [if ?a <? ?b then VplError else _] => change (a <? b) with false end.
    cbn iota.
    match goal with |- context [if ?a <? ?b then VplIncomplete _ else _] =>
      change b with 8; destruct (N.ltb_spec a 8) as [H|_] end.
    - exfalso. rewrite ?len_app, ?len_put_uint in H. lia.
    - reflexivity. }
  rewrite V. clear V. cbn [filtered_out h_ecu h_endian option_map].
  change (flag 32 2) with false. cbn iota.
  unfold dlt_payload. change (4 <? 4) with false. cbn iota.
  rewrite uint_put by (vm_compute; reflexivity). cbn [pbind].
  change (4 - 4) with 0. pose proof (take_app 0 [] tail eq_refl) as T. cbn [app] in T. rewrite T. cbn [pbind].
  reflexivity.
Qed.

Lemma ex_good_piece junk :
  (forall k, ~ pattern_at junk k) -> good_piece None (junk, ex_bytes, Item ex_msg).
Proof.
  intros Hj. split; [exact Hj|]. split; [|exact ex_parses].
  eexists. unfold ex_bytes, pat_DLT1. cbn [app]. reflexivity.
Qed.

(* a decidable way to show that a concrete junk is pattern-free *)
Lemma no_pattern (junk : list byte) : find_pattern junk = None -> forall j, ~ pattern_at junk j.
Proof. exact (proj1 (find_pattern_none junk)). Qed.

