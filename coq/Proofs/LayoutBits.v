(* Proofs/LayoutBits.v — C02: the bit layouts of Spec/Layout.v (testbit / div / mod / sums of bit
   weights) against the model's land/shiftr/lor code: HTYP, MSIN, type-info word, both directions. *)
From Coq Require Import Lia ZifyBool ZifyN ZifyNat.
From DltV.Model Require Import Bytes Dlt.
From DltV.Spec Require Import WellFormed Layout.
From DltV.Proofs Require Import BytesBasics Codes.
Open Scope N_scope.

(* ---------- HTYP, decoding ---------- *)
Record htyp_facts (b : N) : Prop := {
  hf_ueh : flag b 1 = htyp_ueh b;
  hf_msbf : flag b 2 = htyp_msbf b;
  hf_weid : flag b 4 = htyp_weid b;
  hf_wsid : flag b 8 = htyp_wsid b;
  hf_wtms : flag b 16 = htyp_wtms b;
  hf_vers : N.land (N.shiftr b 5) 7 = htyp_vers b;
  hf_std : calculate_standard_header_length b = std_len b;
  hf_all : calculate_all_headers_length b = hdr_len b }.

Definition htyp_dec_check (b : N) : bool :=
  Bool.eqb (flag b 1) (htyp_ueh b) && Bool.eqb (flag b 2) (htyp_msbf b)
  && Bool.eqb (flag b 4) (htyp_weid b) && Bool.eqb (flag b 8) (htyp_wsid b)
  && Bool.eqb (flag b 16) (htyp_wtms b) && (N.land (N.shiftr b 5) 7 =? htyp_vers b)
  && (calculate_standard_header_length b =? std_len b)
  && (calculate_all_headers_length b =? hdr_len b).
Lemma htyp_dec_sweep : forallb htyp_dec_check (range 256) = true.
Proof. vm_compute. reflexivity. Qed.
Lemma htyp_dec b : b < 256 -> htyp_facts b.
Proof.
  intros H. pose proof htyp_dec_sweep as S. rewrite forallb_forall in S.
  specialize (S b (in_range_N 256 b H)). unfold htyp_dec_check in S.
  repeat (apply andb_true_iff in S; destruct S as [S ?]).
  split; try (now apply Bool.eqb_prop); now apply N.eqb_eq.
Qed.

(* ---------- MSIN, decoding ---------- *)
Lemma mtype_of_eq a b : mtype_of a b = spec_mtype a b.
Proof. reflexivity. Qed.

Definition msin_dec_check (b : N) : bool :=
  Bool.eqb (msin_verbose b) (bit b 0)
  && mtype_eqb (message_type_decode b) (mtype_of (bits b 1 3) (bits b 4 4)).
Lemma msin_dec_sweep : forallb msin_dec_check (range 256) = true.
Proof. vm_compute. reflexivity. Qed.
Lemma msin_dec b : b < 256 ->
  msin_verbose b = bit b 0 /\ message_type_decode b = mtype_of (bits b 1 3) (bits b 4 4).
Proof.
  intros H. pose proof msin_dec_sweep as S. rewrite forallb_forall in S.
  specialize (S b (in_range_N 256 b H)). unfold msin_dec_check in S.
  apply andb_true_iff in S as [S1 S2]. split; [now apply Bool.eqb_prop | now apply mtype_eqb_eq].
Qed.

(* ---------- type info, decoding ---------- *)
Definition opt_ti_eqb (a b : option type_info) : bool :=
  match a, b with
  | Some x, Some y => ti_eqb x y
  | None, None => true
  | _, _ => false
  end.
Lemma opt_ti_eqb_eq a b : opt_ti_eqb a b = true -> a = b.
Proof.
  destruct a as [x|], b as [y|]; cbn [opt_ti_eqb]; intros H; try discriminate; [|reflexivity].
  f_equal. now apply ti_eqb_eq.
Qed.

Lemma bits_low_0_4 w : bits (w mod 2 ^ 18) 0 4 = bits w 0 4.
Proof.
  unfold bits. change (2 ^ 18) with 262144. change (2 ^ 0) with 1. change (2 ^ 4) with 16. lia.
Qed.
Lemma bits_low_15_3 w : bits (w mod 2 ^ 18) 15 3 = bits w 15 3.
Proof.
  unfold bits. change (2 ^ 18) with 262144. change (2 ^ 15) with 32768. change (2 ^ 3) with 8. lia.
Qed.

Lemma only_type_bit_low w i : only_type_bit (w mod 2 ^ 18) i = only_type_bit w i.
Proof.
  unfold only_type_bit, bit. cbn [forallb]. now rewrite !testbit_low by lia.
Qed.

Lemma ti_of_word_low w : ti_of_word w = ti_of_word (w mod 2 ^ 18).
Proof.
  unfold ti_of_word. rewrite !only_type_bit_low, bits_low_0_4, bits_low_15_3.
  unfold bit. rewrite !testbit_low by lia. reflexivity.
Qed.

Definition ti_dec_check (w : N) : bool := opt_ti_eqb (ti_of_word w) (ti_decode w).
Lemma ti_dec_sweep : forallb ti_dec_check low_words = true.
Proof. vm_compute. reflexivity. Qed.

Theorem ti_of_word_decode w : ti_of_word w = ti_decode w.
Proof.
  rewrite (ti_of_word_low w), (ti_decode_low w).
  assert (Hlo : w mod 2 ^ 18 < 2 ^ 18) by (apply N.mod_lt; discriminate).
  pose proof ti_dec_sweep as S. rewrite forallb_forall in S.
  apply opt_ti_eqb_eq, (S _ (in_low_words _ Hlo)).
Qed.

(* ---------- HTYP, encoding ---------- *)
Definition all_bools : list bool := [true; false].
Definition htyp_enc_check (v : N) : bool :=
  forallb (fun ueh : bool => forallb (fun msbf : bool => forallb (fun weid : bool => forallb (fun wsid : bool => forallb (fun wtms : bool =>
    htyp_encode ueh (if msbf then BE else LE) weid wsid wtms v =? htyp_word ueh msbf weid wsid wtms v)
    all_bools) all_bools) all_bools) all_bools) all_bools.
Lemma htyp_enc_sweep : forallb htyp_enc_check (range 8) = true.
Proof. vm_compute. reflexivity. Qed.
Lemma in_all_bools b : In b all_bools.
Proof. destruct b; cbn; auto. Qed.
Lemma htyp_enc (ueh msbf weid wsid wtms : bool) v : v < 8 ->
  htyp_encode ueh (if msbf then BE else LE) weid wsid wtms v = htyp_word ueh msbf weid wsid wtms v.
Proof.
  intros H. pose proof htyp_enc_sweep as S. rewrite forallb_forall in S.
  specialize (S v (in_range_N 8 v H)). unfold htyp_enc_check in S.
  rewrite forallb_forall in S. specialize (S ueh (in_all_bools _)).
  rewrite forallb_forall in S. specialize (S msbf (in_all_bools _)).
  rewrite forallb_forall in S. specialize (S weid (in_all_bools _)).
  rewrite forallb_forall in S. specialize (S wsid (in_all_bools _)).
  rewrite forallb_forall in S. specialize (S wtms (in_all_bools _)).
  now apply N.eqb_eq.
Qed.

(* ---------- MSIN, encoding ---------- *)
Definition msin_enc_ok (t : message_type) : bool :=
  forallb (fun v : bool => msin_encode t v =? msin_word v t) all_bools.
Definition msin_enc_check (n : N) : bool :=
  forallb (fun t => negb (wf_mtype t) || msin_enc_ok t)
    [MLog (LInvalid n); MAppTrace (AInvalid n); MNwTrace (NUserDefined n); MControl (CUnknown n)]
  && forallb (fun m => negb (wf_mtype (MUnknown m n)) || msin_enc_ok (MUnknown m n)) (range 8).
Lemma msin_enc_sweep : forallb msin_enc_check (range 16) = true.
Proof. vm_compute. reflexivity. Qed.
Lemma msin_enc_fixed :
  forallb msin_enc_ok
    [MLog Fatal; MLog LError; MLog Warn; MLog Info; MLog Debug; MLog Verbose;
     MAppTrace AVariable; MAppTrace AFunctionIn; MAppTrace AFunctionOut; MAppTrace AState; MAppTrace AVfb;
     MNwTrace NIpc; MNwTrace NCan; MNwTrace NFlexray; MNwTrace NMost; MNwTrace NEthernet; MNwTrace NSomeip;
     MNwTrace NInvalid; MControl CRequest; MControl CResponse] = true.
Proof. vm_compute. reflexivity. Qed.

Lemma msin_enc t (v : bool) : wf_mtype t = true -> msin_encode t v = msin_word v t.
Proof.
  intros W.
  assert (G : msin_enc_ok t = true).
  { pose proof msin_enc_sweep as S. rewrite forallb_forall in S.
    assert (P : forall n, n < 16 -> forall t', wf_mtype t' = true ->
              In t' [MLog (LInvalid n); MAppTrace (AInvalid n); MNwTrace (NUserDefined n); MControl (CUnknown n)] ->
              msin_enc_ok t' = true).
    { intros n Hn t' W' I. specialize (S n (in_range_N 16 n Hn)). unfold msin_enc_check in S.
      apply andb_true_iff in S as [S _]. rewrite forallb_forall in S. specialize (S t' I).
      rewrite W' in S. exact S. }
    destruct t as [[| | | | | |n]|[| | | | |n]|[| | | | | | |n]|[| |n]|m n];
      try (vm_compute; reflexivity).
    - apply (P n); [cbn in W; lia | exact W | cbn; auto].
    - apply (P n); [cbn in W; lia | exact W | cbn; auto].
    - apply (P n); [cbn in W; lia | exact W | cbn; auto].
    - apply (P n); [cbn in W; lia | exact W | cbn; auto].
    - assert (Hn : n < 16) by (cbn in W; lia). assert (Hm : m < 8) by (cbn in W; lia).
      specialize (S n (in_range_N 16 n Hn)). unfold msin_enc_check in S.
      apply andb_true_iff in S as [_ S]. rewrite forallb_forall in S.
      specialize (S m (in_range_N 8 m Hm)). rewrite W in S. exact S. }
  unfold msin_enc_ok in G. rewrite forallb_forall in G. apply N.eqb_eq, G, in_all_bools.
Qed.

(* ---------- type info, encoding ---------- *)
Definition all_kinds : list ti_kind :=
  [KBool; KString; KRaw]
  ++ map KSigned [BL8; BL16; BL32; BL64; BL128] ++ map KUnsigned [BL8; BL16; BL32; BL64; BL128]
  ++ map KSignedFixed [W32; W64] ++ map KUnsignedFixed [W32; W64] ++ map KFloat [W32; W64].
Lemma in_all_kinds k : In k all_kinds.
Proof. destruct k as [|[]|[]|[]|[]|[]| |]; cbn; tauto. Qed.
Definition ti_enc_check (c : string_coding) : bool :=
  forallb (fun k => forallb (fun v : bool => forallb (fun tr : bool =>
    ti_encode (mkTI k c v tr) =? word_of_ti (mkTI k c v tr)) all_bools) all_bools) all_kinds.
Lemma ti_enc_sweep :
  forallb ti_enc_check ([SAscii; SUtf8] ++ map SReserved (range 8)) = true.
Proof. vm_compute. reflexivity. Qed.

Lemma ti_enc t : wf_coding (ti_coding t) = true -> ti_encode t = word_of_ti t.
Proof.
  destruct t as [k c v tr]. cbn [ti_coding]. intros W.
  pose proof ti_enc_sweep as S. rewrite forallb_forall in S.
  assert (I : In c ([SAscii; SUtf8] ++ map SReserved (range 8))).
  { destruct c as [| |n]; [cbn; auto | cbn; auto |].
    apply in_or_app. right. apply in_map, in_range_N. cbn in W. lia. }
  specialize (S c I). unfold ti_enc_check in S.
  rewrite forallb_forall in S. specialize (S k (in_all_kinds k)).
  rewrite forallb_forall in S. specialize (S v (in_all_bools v)).
  rewrite forallb_forall in S. specialize (S tr (in_all_bools tr)).
  now apply N.eqb_eq.
Qed.
