(* Proofs/ParsedWfArgs.v — what the parser returns is representable, part 1: strings, ids, enum
   codes, type info and verbose arguments.  Every argument [dlt_argument] returns is [wf_arg]
   (given that it was cut out of at most 65535 bytes), and it consumed at least [arg_min a]
   bytes of input. *)
From Coq Require Import Lia ZifyBool ZifyN ZifyNat.
From DltV.Model Require Import Bytes RustInt Utf8 Nom Dlt Parse.
From DltV.Proofs Require Import BytesBasics Fields Utf8Lemmas ZString Codes ParseLemmas.
From DltV.Spec Require Import WellFormed.
Open Scope N_scope.

Notation is_some := WellFormed.is_some.

(* ---------- strings ---------- *)
Definition text_ok (s : list byte) (k : N) : Prop :=
  valid_utf8 s = true /\ no_nul s = true /\ len s <= k.
Definition opt_text_ok (o : option (list byte)) (k : N) : Prop :=
  match o with Some s => text_ok s k | None => True end.

Lemma text_ok_mono s k k' : text_ok s k -> k <= k' -> text_ok s k'.
Proof. intros (A & B & C) H. repeat split; trivial. lia. Qed.
Lemma opt_text_ok_mono o k k' : opt_text_ok o k -> k <= k' -> opt_text_ok o k'.
Proof. destruct o; [apply text_ok_mono | trivial]. Qed.

Lemma text_ok_wf_text s k : text_ok s k -> k <= 65534 -> wf_text s = true.
Proof.
  intros (A & B & C) H. unfold wf_text. rewrite A, B.
  destruct (N.leb_spec (len s) 65534); [reflexivity | lia].
Qed.
Lemma text_ok_wf_id s : text_ok s 4 -> wf_id s = true.
Proof.
  intros (A & B & C). unfold wf_id. rewrite A, B.
  destruct (N.leb_spec (len s) 4); [reflexivity | lia].
Qed.
Lemma opt_text_ok_wf o k : opt_text_ok o k -> k <= 65534 -> wf_opt wf_text o = true.
Proof. destruct o; cbn [opt_text_ok wf_opt]; [apply text_ok_wf_text | trivial]. Qed.

Lemma zstring_text_ok size i r rest : zstring size i = POk r rest -> text_ok r size.
Proof. intros H. apply zstring_result_clean in H. exact H. Qed.
Lemma zstring_wf_id i r rest : zstring 4 i = POk r rest -> wf_id r = true.
Proof. intros H. eapply text_ok_wf_id, zstring_text_ok, H. Qed.

(* ---------- message type: the decoder only yields canonical values ---------- *)
Lemma mtype_sweep : forallb (fun b => wf_mtype (message_type_decode b)) (range 256) = true.
Proof. vm_compute. reflexivity. Qed.
Lemma message_type_decode_wf b : b < 256 -> wf_mtype (message_type_decode b) = true.
Proof.
  intros H. pose proof mtype_sweep as S. rewrite forallb_forall in S.
  exact (S b (in_range_N 256 b H)).
Qed.

Lemma control_sweep : forallb (fun b => wf_control_id (control_from_value b)) (range 256) = true.
Proof. vm_compute. reflexivity. Qed.
Lemma control_from_value_wf b : b < 256 -> wf_control_id (control_from_value b) = true.
Proof.
  intros H. pose proof control_sweep as S. rewrite forallb_forall in S.
  exact (S b (in_range_N 256 b H)).
Qed.

(* ---------- type info ---------- *)
Definition coding_of (c : N) : string_coding :=
  match c with 0 => SAscii | 1 => SUtf8 | v => SReserved v end.
Lemma coding_sweep : forallb (fun c => wf_coding (coding_of c)) (range 8) = true.
Proof. vm_compute. reflexivity. Qed.

Lemma ti_decode_coding info t :
  ti_decode info = Some t -> ti_coding t = coding_of (N.land (N.shiftr info 15) 7).
Proof.
  unfold ti_decode. cbv zeta.
  match goal with |- option_map _ ?k = _ -> _ => destruct k as [kd|] end; cbn [option_map];
    [|discriminate].
  intros H.
  change (ti_coding t) with (match Some t with Some x => ti_coding x | None => SAscii end).
  rewrite <- H. cbn [ti_coding]. unfold coding_of.
  destruct (N.land (N.shiftr info 15) 7) as [|[p|p|]]; reflexivity.
Qed.
Lemma ti_decode_wf_coding info t : ti_decode info = Some t -> wf_coding (ti_coding t) = true.
Proof.
  intros H. rewrite (ti_decode_coding _ _ H), land7.
  pose proof coding_sweep as S. rewrite forallb_forall in S.
  apply S, (in_range_N 8). apply N.mod_lt. discriminate.
Qed.

Lemma dlt_type_info_ok e i t rest :
  dlt_type_info e i = POk t rest -> splits i rest 4 /\ wf_coding (ti_coding t) = true.
Proof.
  unfold dlt_type_info. intros H. apply pbind_ok_inv in H as (info & r & E & H).
  destruct (ti_decode info) as [t'|] eqn:D; [|discriminate]. injection H as <- <-.
  split; [apply (uint_splits _ _ _ _ _ E) | eapply ti_decode_wf_coding, D].
Qed.

(* ---------- values ---------- *)
Definition val_min (v : value) : N := match v with VRaw bs => 6 + len bs | _ => 1 end.
Definition arg_min (a : argument) : N := val_min (a_value a).

Lemma uint_pow2 e k i v rest : uint e k i = POk v rest -> v < 2 ^ (8 * N.of_nat k).
Proof. intros H. rewrite <- pow256. eapply uint_value_bound, H. Qed.
Lemma uint_ltb e k i v rest : uint e k i = POk v rest -> (v <? 2 ^ (8 * N.of_nat k)) = true.
Proof. intros H. apply N.ltb_lt. eapply uint_pow2, H. Qed.

Lemma sint_in_range e k i z rest : (0 < k)%nat ->
  sint e k i = POk z rest -> in_signed (8 * N.of_nat k) z = true.
Proof.
  intros Hk H. unfold sint in H. apply pmap_ok_inv in H as (n & E & ->).
  apply to_signed_in_range; [lia | eapply uint_pow2, E].
Qed.

Lemma dlt_sint_ok e w i v rest : dlt_sint e w i = POk v rest ->
  splits i rest (N.of_nat (type_length_bytes w)) /\ wf_signed_value w v = true /\ val_min v = 1.
Proof.
  destruct w; cbn [dlt_sint type_length_bytes]; intros H; apply pmap_ok_inv in H as (z & E & ->);
    (split; [eapply sint_splits, E|]); (split; [|reflexivity]); cbn [wf_signed_value];
    refine (sint_in_range _ _ _ _ _ _ E); lia.
Qed.
Lemma dlt_uint_ok e w i v rest : dlt_uint e w i = POk v rest ->
  splits i rest (N.of_nat (type_length_bytes w)) /\ wf_unsigned_value w v = true /\ val_min v = 1.
Proof.
  destruct w; cbn [dlt_uint type_length_bytes]; intros H; apply pmap_ok_inv in H as (z & E & ->);
    (split; [eapply uint_splits, E|]); (split; [|reflexivity]); cbn [wf_unsigned_value];
    exact (uint_ltb _ _ _ _ _ E).
Qed.
Lemma dlt_fint_ok e w i v rest : dlt_fint e w i = POk v rest ->
  splits i rest (N.of_nat (float_width_bytes w)) /\ val_min v = 1 /\
  match w with
  | W32 => match v with VF32 b => b <? 2 ^ 32 | _ => false end
  | W64 => match v with VF64 b => b <? 2 ^ 64 | _ => false end
  end = true.
Proof.
  destruct w; cbn [dlt_fint float_width_bytes]; intros H; apply pmap_ok_inv in H as (z & E & ->);
    (split; [eapply uint_splits, E|]); (split; [reflexivity|]);
    exact (uint_ltb _ _ _ _ _ E).
Qed.

Lemma dlt_fixed_point_ok e w i fp rest : dlt_fixed_point e w i = POk fp rest ->
  (exists k, splits i rest k) /\ wf_fp w (Some fp) = true.
Proof.
  unfold dlt_fixed_point. intros H. apply pbind_ok_inv in H as (q & r & Eq & H).
  pose proof (uint_ltb _ _ _ _ _ Eq) as Hq.
  destruct w; apply pbind_ok_inv in H as (o & r' & Eo & H); injection H as <- <-;
    (split; [eexists; exact (splits_trans _ _ _ _ _ (uint_splits _ _ _ _ _ Eq) (sint_splits _ _ _ _ _ Eo))|]);
    unfold wf_fp; cbn [fp_quant fp_offset];
    apply andb_true_iff; (split; [exact Hq|]);
    refine (sint_in_range _ _ _ _ _ _ Eo); lia.
Qed.

(* ---------- names and units ---------- *)
Lemma dlt_variable_name_ok e i r rest : dlt_variable_name e i = POk r rest ->
  exists k, splits i rest (2 + k) /\ text_ok r k.
Proof.
  unfold dlt_variable_name. intros H. apply pbind_ok_inv in H as (size & i1 & E & H).
  exists size. split.
  - exact (splits_trans _ _ _ _ _ (uint_splits _ _ _ _ _ E) (zstring_splits _ _ _ _ H)).
  - eapply zstring_text_ok, H.
Qed.

Lemma opt_name_ok e (c : bool) i (o : option (list byte)) rest :
  (if c then pmap Some (dlt_variable_name e i) else POk None i) = POk o rest ->
  exists k, splits i rest k /\ is_some o = c /\ opt_text_ok o k.
Proof.
  destruct c; intros H.
  - apply pmap_ok_inv in H as (s & Es & ->). apply dlt_variable_name_ok in Es as (k & S & T).
    exists (2 + k). split; [exact S|]. split; [reflexivity|]. cbn [opt_text_ok].
    eapply text_ok_mono; [exact T | lia].
  - injection H as <- <-. exists 0. split; [apply splits_refl|]. split; [reflexivity | exact I].
Qed.

Lemma name_unit_ok e t i nu rest : dlt_variable_name_and_unit e t i = POk nu rest ->
  exists k, splits i rest k /\ is_some (fst nu) = ti_var_info t /\ is_some (snd nu) = ti_var_info t
    /\ opt_text_ok (fst nu) k /\ opt_text_ok (snd nu) k.
Proof.
  unfold dlt_variable_name_and_unit. destruct (ti_var_info t); intros H.
  - apply pbind_ok_inv in H as (ns & i1 & E1 & H). apply pbind_ok_inv in H as (us & i2 & E2 & H).
    apply pbind_ok_inv in H as (name & i3 & E3 & H). apply pbind_ok_inv in H as (unit & i4 & E4 & H).
    injection H as <- <-. cbn [fst snd is_some opt_text_ok].
    eexists. split.
    + exact (splits_trans _ _ _ _ _ (uint_splits _ _ _ _ _ E1) (splits_trans _ _ _ _ _ (uint_splits _ _ _ _ _ E2)
        (splits_trans _ _ _ _ _ (zstring_splits _ _ _ _ E3) (zstring_splits _ _ _ _ E4)))).
    + split; [reflexivity|]. split; [reflexivity|]. split.
      * eapply text_ok_mono; [eapply zstring_text_ok, E3 | lia].
      * eapply text_ok_mono; [eapply zstring_text_ok, E4 | lia].
  - injection H as <- <-. exists 0. cbn [fst snd is_some opt_text_ok].
    split; [apply splits_refl|]. repeat split.
Qed.

Lemma name_unit_wf (vari : bool) n u k :
  is_some n = vari -> is_some u = vari -> opt_text_ok n k -> opt_text_ok u k -> k <= 65534 ->
  Bool.eqb (is_some n) vari && Bool.eqb (is_some u) vari && wf_opt wf_text n && wf_opt wf_text u = true.
Proof.
  intros -> Hu Tn Tu Hk. rewrite Hu, !Bool.eqb_reflx.
  rewrite (opt_text_ok_wf _ _ Tn Hk), (opt_text_ok_wf _ _ Tu Hk). reflexivity.
Qed.
Lemma name_only_wf (vari : bool) n k :
  is_some n = vari -> opt_text_ok n k -> k <= 65534 ->
  Bool.eqb (is_some n) vari && is_none (@None (list byte)) && wf_opt wf_text n = true.
Proof.
  intros -> Tn Hk. rewrite Bool.eqb_reflx, (opt_text_ok_wf _ _ Tn Hk). reflexivity.
Qed.

(* ---------- dlt_argument ---------- *)
Definition arg_res (i rest : list byte) (a : argument) : Prop :=
  exists n, splits i rest n /\ arg_min a <= n /\ (n <= 65535 -> wf_arg a = true).

Lemma wf_arg_unfold t n u fp v :
  wf_arg (mkArg t n u fp v) =
  wf_coding (ti_coding t) &&
  match ti_kind_of t with
  | KBool => (Bool.eqb (is_some n) (ti_var_info t) && is_none u && wf_opt wf_text n)
             && is_none fp && match v with VBool n => n <? 256 | _ => false end
  | KSigned l => (Bool.eqb (is_some n) (ti_var_info t) && Bool.eqb (is_some u) (ti_var_info t)
                  && wf_opt wf_text n && wf_opt wf_text u) && is_none fp && wf_signed_value l v
  | KUnsigned l => (Bool.eqb (is_some n) (ti_var_info t) && Bool.eqb (is_some u) (ti_var_info t)
                  && wf_opt wf_text n && wf_opt wf_text u) && is_none fp && wf_unsigned_value l v
  | KSignedFixed w => (Bool.eqb (is_some n) (ti_var_info t) && Bool.eqb (is_some u) (ti_var_info t)
                  && wf_opt wf_text n && wf_opt wf_text u) && wf_fp w fp
                  && wf_signed_value (float_width_to_type_length w) v
  | KUnsignedFixed w => (Bool.eqb (is_some n) (ti_var_info t) && Bool.eqb (is_some u) (ti_var_info t)
                  && wf_opt wf_text n && wf_opt wf_text u) && wf_fp w fp
                  && wf_unsigned_value (float_width_to_type_length w) v
  | KFloat W32 => (Bool.eqb (is_some n) (ti_var_info t) && Bool.eqb (is_some u) (ti_var_info t)
                  && wf_opt wf_text n && wf_opt wf_text u) && is_none fp
                  && match v with VF32 b => b <? 2 ^ 32 | _ => false end
  | KFloat W64 => (Bool.eqb (is_some n) (ti_var_info t) && Bool.eqb (is_some u) (ti_var_info t)
                  && wf_opt wf_text n && wf_opt wf_text u) && is_none fp
                  && match v with VF64 b => b <? 2 ^ 64 | _ => false end
  | KString => (Bool.eqb (is_some n) (ti_var_info t) && is_none u && wf_opt wf_text n)
             && is_none fp && match v with VString s => wf_text s | _ => false end
  | KRaw => (Bool.eqb (is_some n) (ti_var_info t) && is_none u && wf_opt wf_text n)
             && is_none fp && match v with VRaw bs => len bs <=? 65535 | _ => false end
  end.
Proof. reflexivity. Qed.

Lemma dlt_argument_ok e i a rest : dlt_argument e i = POk a rest -> arg_res i rest a.
Proof.
  unfold dlt_argument, arg_res. intros H. apply pbind_ok_inv in H as (t & i0 & Et & H).
  apply dlt_type_info_ok in Et as [St Hc].
  destruct (ti_kind_of t) as [|l|w|l|w|w| |] eqn:Ek.
  - (* bool *)
    apply pbind_ok_inv in H as (name & i2 & En & H). apply pbind_ok_inv in H as (b & r & Eb & H).
    injection H as <- <-. apply opt_name_ok in En as (k & Sn & In & Tn).
    pose proof (u8_value _ _ _ Eb) as Hb.
    pose proof (splits_trans _ _ _ _ _ St (splits_trans _ _ _ _ _ Sn (u8_splits _ _ _ Eb))) as S.
    eexists. split; [exact S|]. split; [unfold arg_min; cbn [a_value val_min]; lia|]. intros Hn.
    rewrite wf_arg_unfold, Ek, Hc. rewrite (name_only_wf _ _ k In Tn) by lia.
    cbn [is_none andb]. apply N.ltb_lt. exact Hb.
  - (* signed *)
    apply pbind_ok_inv in H as (nu & bv & En & H). apply pbind_ok_inv in H as (v & r & Ev & H).
    injection H as <- <-. apply name_unit_ok in En as (k & Sn & In & Iu & Tn & Tu).
    apply dlt_sint_ok in Ev as (Sv & Wv & Mv).
    pose proof (splits_trans _ _ _ _ _ St (splits_trans _ _ _ _ _ Sn Sv)) as S.
    eexists. split; [exact S|]. split; [unfold arg_min; cbn [a_value]; rewrite Mv; lia|]. intros Hn.
    rewrite wf_arg_unfold, Ek, Hc, Wv. rewrite (name_unit_wf _ _ _ k In Iu Tn Tu) by lia. reflexivity.
  - (* signed fixed *)
    apply pbind_ok_inv in H as (nu & bv & En & H). apply pbind_ok_inv in H as (fp & af & Ef & H).
    apply pbind_ok_inv in H as (v & r & Ev & H).
    injection H as <- <-. apply name_unit_ok in En as (k & Sn & In & Iu & Tn & Tu).
    apply dlt_fixed_point_ok in Ef as ((kf & Sf) & Wf).
    apply dlt_sint_ok in Ev as (Sv & Wv & Mv).
    pose proof (splits_trans _ _ _ _ _ St (splits_trans _ _ _ _ _ Sn (splits_trans _ _ _ _ _ Sf Sv))) as S.
    eexists. split; [exact S|]. split; [unfold arg_min; cbn [a_value]; rewrite Mv; lia|]. intros Hn.
    rewrite wf_arg_unfold, Ek, Hc, Wv, Wf. rewrite (name_unit_wf _ _ _ k In Iu Tn Tu) by lia. reflexivity.
  - (* unsigned *)
    apply pbind_ok_inv in H as (nu & bv & En & H). apply pbind_ok_inv in H as (v & r & Ev & H).
    injection H as <- <-. apply name_unit_ok in En as (k & Sn & In & Iu & Tn & Tu).
    apply dlt_uint_ok in Ev as (Sv & Wv & Mv).
    pose proof (splits_trans _ _ _ _ _ St (splits_trans _ _ _ _ _ Sn Sv)) as S.
    eexists. split; [exact S|]. split; [unfold arg_min; cbn [a_value]; rewrite Mv; lia|]. intros Hn.
    rewrite wf_arg_unfold, Ek, Hc, Wv. rewrite (name_unit_wf _ _ _ k In Iu Tn Tu) by lia. reflexivity.
  - (* unsigned fixed *)
    apply pbind_ok_inv in H as (nu & bv & En & H). apply pbind_ok_inv in H as (fp & af & Ef & H).
    apply pbind_ok_inv in H as (v & r & Ev & H).
    injection H as <- <-. apply name_unit_ok in En as (k & Sn & In & Iu & Tn & Tu).
    apply dlt_fixed_point_ok in Ef as ((kf & Sf) & Wf).
    apply dlt_uint_ok in Ev as (Sv & Wv & Mv).
    pose proof (splits_trans _ _ _ _ _ St (splits_trans _ _ _ _ _ Sn (splits_trans _ _ _ _ _ Sf Sv))) as S.
    eexists. split; [exact S|]. split; [unfold arg_min; cbn [a_value]; rewrite Mv; lia|]. intros Hn.
    rewrite wf_arg_unfold, Ek, Hc, Wv, Wf. rewrite (name_unit_wf _ _ _ k In Iu Tn Tu) by lia. reflexivity.
  - (* float *)
    apply pbind_ok_inv in H as (nu & bv & En & H). apply pbind_ok_inv in H as (v & r & Ev & H).
    injection H as <- <-. apply name_unit_ok in En as (k & Sn & In & Iu & Tn & Tu).
    apply dlt_fint_ok in Ev as (Sv & Mv & Wv).
    pose proof (splits_trans _ _ _ _ _ St (splits_trans _ _ _ _ _ Sn Sv)) as S.
    eexists. split; [exact S|]. split; [unfold arg_min; cbn [a_value]; rewrite Mv; lia|]. intros Hn.
    rewrite wf_arg_unfold, Ek, Hc. rewrite (name_unit_wf _ _ _ k In Iu Tn Tu) by lia.
    destruct w; rewrite Wv; reflexivity.
  - (* string *)
    apply pbind_ok_inv in H as (size & i2 & Es & H). apply pbind_ok_inv in H as (name & i3 & En & H).
    apply pbind_ok_inv in H as (s & r & Ez & H). injection H as <- <-.
    apply opt_name_ok in En as (k & Sn & In & Tn).
    pose proof (zstring_text_ok _ _ _ _ Ez) as Ts.
    pose proof (splits_trans _ _ _ _ _ St (splits_trans _ _ _ _ _ (uint_splits _ _ _ _ _ Es)
      (splits_trans _ _ _ _ _ Sn (zstring_splits _ _ _ _ Ez)))) as S.
    eexists. split; [exact S|]. split; [unfold arg_min; cbn [a_value val_min]; lia|]. intros Hn.
    rewrite wf_arg_unfold, Ek, Hc. rewrite (name_only_wf _ _ k In Tn) by lia.
    cbn [is_none andb]. apply (text_ok_wf_text _ _ Ts). lia.
  - (* raw *)
    apply pbind_ok_inv in H as (cnt & i2 & Es & H). apply pbind_ok_inv in H as (name & i3 & En & H).
    apply pbind_ok_inv in H as (bs & r & Eb & H). injection H as <- <-.
    apply opt_name_ok in En as (k & Sn & In & Tn).
    apply take_ok_inv in Eb as [Sb ->].
    pose proof (splits_len _ _ _ Sb) as Lb.
    assert (Lf : len (firstn (N.to_nat cnt) i3) = cnt) by (apply len_firstn_N; lia).
    pose proof (splits_trans _ _ _ _ _ St (splits_trans _ _ _ _ _ (uint_splits _ _ _ _ _ Es)
      (splits_trans _ _ _ _ _ Sn Sb))) as S.
    eexists. split; [exact S|]. split; [unfold arg_min; cbn [a_value val_min]; lia|]. intros Hn.
    rewrite wf_arg_unfold, Ek, Hc. rewrite (name_only_wf _ _ k In Tn) by lia.
    cbn [is_none andb]. apply N.leb_le. lia.
Qed.

(* ---------- count ---------- *)
Fixpoint args_min (l : list argument) : N :=
  match l with [] => 0 | a :: r => arg_min a + args_min r end.

Lemma count_arguments_ok e n i args rest :
  count (dlt_argument e) n i = POk args rest ->
  length args = n /\
  exists k, splits i rest k /\ args_min args <= k /\ (len i <= 65535 -> forallb wf_arg args = true).
Proof.
  revert i args rest. induction n as [|n IH]; intros i args rest H; cbn [count] in H.
  - injection H as <- <-. split; [reflexivity|]. exists 0. split; [apply splits_refl|].
    split; [cbn [args_min]; lia | reflexivity].
  - apply pbind_ok_inv in H as (a & r & Ea & H). apply pbind_ok_inv in H as (l & r' & El & H).
    injection H as <- <-. apply dlt_argument_ok in Ea as (k1 & S1 & M1 & W1).
    apply IH in El as (Hl & k2 & S2 & M2 & W2).
    split; [cbn [length]; now rewrite Hl|]. exists (k1 + k2).
    split; [exact (splits_trans _ _ _ _ _ S1 S2)|]. split; [cbn [args_min]; lia|].
    intros Hi. pose proof (splits_len _ _ _ S1) as L1. cbn [forallb].
    rewrite W1 by lia. rewrite W2 by lia. reflexivity.
Qed.
