(* Proofs/NonVerboseProofs.v — C13: construct_arguments (Model/Parse.v) refines the field-by-field
   decoder of Spec/NonVerbose.v; consequences (shape, trailing bytes, truncation, UTF-8, fixed
   point, characterisation by the packed encoding) and panic freedom of the instrumented
   transcription. *)
From Coq Require Import Lia ZifyBool ZifyN ZifyNat.
From DltV.Model Require Import Bytes RustInt Utf8 Nom Dlt Parse.
From DltV.Spec Require Import NonVerbose.
From DltV.Proofs Require Import BytesBasics Fields Utf8Lemmas ParseLemmas Consumption.
Open Scope N_scope.

Local Arguments N.add : simpl never.
Local Arguments N.sub : simpl never.
Local Arguments N.mul : simpl never.
Local Arguments N.pow : simpl never.
Local Arguments N.ltb : simpl never.
Local Arguments N.leb : simpl never.
Local Arguments N.of_nat : simpl never.
Local Arguments N.to_nat : simpl never.

(* ---------- lists ---------- *)
Lemma skipn_skipn {A} (a b : nat) (l : list A) : skipn a (skipn b l) = skipn (b + a) l.
Proof.
  revert l; induction b as [|b IH]; intros l; [reflexivity|].
  destruct l as [|x l]; [now rewrite !skipn_nil|]. cbn [skipn Nat.add]. apply IH.
Qed.

Lemma skipn_N_add {A} (data : list A) a n :
  skipn (N.to_nat n) (skipn (N.to_nat a) data) = skipn (N.to_nat (a + n)) data.
Proof. rewrite skipn_skipn. f_equal. lia. Qed.

Lemma slice_eq data a n : slice data a (a + n) = firstn (N.to_nat n) (skipn (N.to_nat a) data).
Proof. unfold slice. f_equal. lia. Qed.

Lemma nth_skipn_hd {A} k (l : list A) b r d : skipn k l = b :: r -> nth k l d = b.
Proof.
  revert l; induction k as [|k IH]; intros [|x l]; cbn [skipn nth]; try discriminate.
  - intros H. now injection H.
  - apply IH.
Qed.

Lemma len_0_nil {A} (l : list A) : len l = 0 -> l = [].
Proof. apply len_0_iff. Qed.

(* ---------- [next] ---------- *)
Lemma next_some n d f r : next n d = Some (f, r) ->
  d = f ++ r /\ len f = n /\ f = firstn (N.to_nat n) d /\ r = skipn (N.to_nat n) d.
Proof.
  unfold next. destruct (N.ltb_spec (len d) n) as [|Hge]; [discriminate|].
  intros H. injection H as <- <-. repeat split.
  - symmetry. apply firstn_skipn.
  - now apply len_firstn_N.
Qed.
Lemma next_none n d : next n d = None -> len d < n.
Proof. unfold next. destruct (N.ltb_spec (len d) n); [trivial|discriminate]. Qed.
Lemma next_app n c r : len c = n -> next n (c ++ r) = Some (c, r).
Proof.
  intros H. unfold next. rewrite len_app.
  destruct (N.ltb_spec (len c + len r) n); [lia|].
  rewrite <- H. now rewrite firstn_len_app, skipn_len_app.
Qed.
Lemma next_short n d : len d < n -> next n d = None.
Proof. intros H. unfold next. destruct (N.ltb_spec (len d) n); [reflexivity|lia]. Qed.

(* ---------- widths ---------- *)
Lemma int_width_bytes l : N.of_nat (type_length_bytes l) = int_width l.
Proof. now destruct l. Qed.
Lemma int_width_nat l : N.to_nat (int_width l) = type_length_bytes l.
Proof. now destruct l. Qed.
Lemma flt_width_bytes w : N.of_nat (float_width_bytes w) = flt_width w.
Proof. now destruct w. Qed.
Lemma flt_width_nat w : N.to_nat (flt_width w) = float_width_bytes w.
Proof. now destruct w. Qed.
Lemma field_size_unsigned l n : field_size (unsigned_value l n) = int_width l.
Proof. now destruct l. Qed.
Lemma field_size_signed l z : field_size (signed_value l z) = int_width l.
Proof. now destruct l. Qed.
Lemma field_size_float w b : field_size (float_value w b) = flt_width w.
Proof. now destruct w. Qed.
Lemma field_size_pos v : 0 < field_size v.
Proof. destruct v; cbn [field_size]; lia. Qed.

(* ---------- the nom primitives on enough input ---------- *)
Lemma uint_enough e k i : N.of_nat k <= len i ->
  uint e k i = POk (get_uint e (firstn k i)) (skipn k i).
Proof. intros H. unfold uint. destruct (N.ltb_spec (len i) (N.of_nat k)); [lia|reflexivity]. Qed.
Lemma sint_enough e k i : N.of_nat k <= len i ->
  sint e k i = POk (get_sint e (firstn k i)) (skipn k i).
Proof.
  intros H. unfold sint. rewrite uint_enough by exact H. unfold pmap, pbind, get_sint.
  rewrite firstn_length, Nat.min_l by (unfold len in H; lia). reflexivity.
Qed.
Lemma get_uint_firstn1 e e' i : get_uint e (firstn 1 i) = get_uint e' (firstn 1 i).
Proof. destruct i as [|b i]; destruct e, e'; reflexivity. Qed.
Lemma get_sint_firstn1 e e' i : get_sint e (firstn 1 i) = get_sint e' (firstn 1 i).
Proof. unfold get_sint. now rewrite (get_uint_firstn1 e e'). Qed.

(* the width dispatchers of parse.rs:444-477; the 8-bit cases use be_u8/be_i8 whatever the byte
   order is, which for a single byte is the same number *)
Lemma dlt_uint_enough e l i : int_width l <= len i ->
  pres_value (dlt_uint e l i) =
  Some (unsigned_value l (get_uint e (firstn (N.to_nat (int_width l)) i))).
Proof.
  intros H. rewrite int_width_nat. rewrite <- int_width_bytes in H.
  destruct l; cbn [dlt_uint type_length_bytes unsigned_value] in *; unfold u8;
    rewrite uint_enough by exact H; cbn [pmap pbind pres_value]; try reflexivity.
  now rewrite (get_uint_firstn1 BE e).
Qed.
Lemma dlt_sint_enough e l i : int_width l <= len i ->
  pres_value (dlt_sint e l i) =
  Some (signed_value l (get_sint e (firstn (N.to_nat (int_width l)) i))).
Proof.
  intros H. rewrite int_width_nat. rewrite <- int_width_bytes in H.
  destruct l; cbn [dlt_sint type_length_bytes signed_value] in *;
    rewrite sint_enough by exact H; cbn [pmap pbind pres_value]; try reflexivity.
  now rewrite (get_sint_firstn1 BE e).
Qed.
Lemma dlt_fint_exact e w s : len s = flt_width w ->
  pres_value (dlt_fint e w s) = Some (float_value w (get_uint e s)).
Proof.
  intros H. rewrite <- flt_width_bytes in H.
  destruct w; cbn [dlt_fint float_width_bytes float_value] in *;
    (rewrite uint_enough by lia); cbn [pmap pbind pres_value];
    (rewrite firstn_all2 by (unfold len in H; lia)); reflexivity.
Qed.

(* Fixed point: construct_arguments hands dlt_fixed_point a slice of exactly 4 resp. 8 bytes
   (the width of the value field), but dlt_fixed_point needs 4 bytes of quantization plus a 4 resp.
   8 byte offset — it can never succeed on that slice. *)
Lemma dlt_fixed_point_short e w s : len s <= flt_width w ->
  forall fp r, dlt_fixed_point e w s <> POk fp r.
Proof.
  intros H fp r. unfold dlt_fixed_point, uint at 1.
  destruct (N.ltb_spec (len s) (N.of_nat 4)) as [|H4]; [discriminate|].
  cbn [pbind]. pose proof (len_skipn 4 s) as Hs.
  destruct w; cbn [flt_width] in H; unfold sint, uint, pmap;
    match goal with |- context [len ?x <? ?y] => destruct (N.ltb_spec (len x) y) as [|Hge] end;
    cbn [pbind]; try discriminate; lia.
Qed.

(* ---------- one field of the spec: it is the inverse of the packed encoding ---------- *)
Lemma put_uint_1 e n : put_uint e 1 n = [n2b n].
Proof. now destruct e. Qed.
Lemma field_bytes_unsigned e l n :
  field_bytes e (unsigned_value l n) = put_uint e (type_length_bytes l) n.
Proof. now destruct l. Qed.
Lemma field_bytes_signed e l z :
  field_bytes e (signed_value l z) = put_sint e (type_length_bytes l) z.
Proof. now destruct l. Qed.
Lemma field_bytes_float e w b :
  field_bytes e (float_value w b) = put_uint e (float_width_bytes w) b.
Proof. now destruct w. Qed.
Lemma kind_unsigned l n :
  value_of_kind (KUnsigned l) (unsigned_value l n) = (n <? 256 ^ int_width l).
Proof. now destruct l. Qed.
Lemma kind_signed l z :
  value_of_kind (KSigned l) (signed_value l z) = in_signed (8 * int_width l) z.
Proof. now destruct l. Qed.
Lemma kind_float w b :
  value_of_kind (KFloat w) (float_value w b) = (b <? 256 ^ flt_width w).
Proof. now destruct w. Qed.

Lemma len_put_sint e k z : len (put_sint e k z) = N.of_nat k.
Proof. unfold put_sint. apply len_put_uint. Qed.
Lemma len_field_bytes e v : len (field_bytes e v) = field_size v.
Proof.
  destruct v; cbn [field_bytes field_size];
    rewrite ?len_app, ?len_put_uint, ?len_put_sint; reflexivity.
Qed.

Lemma put_get_uint_len e f k : length f = k -> put_uint e k (get_uint e f) = f.
Proof. intros <-. apply put_get_uint. Qed.
Lemma put_get_sint_len e f k : length f = k -> (0 < k)%nat -> put_sint e k (get_sint e f) = f.
Proof.
  intros <- Hk. unfold put_sint, get_sint.
  rewrite of_signed_to_signed; [apply put_get_uint|lia|].
  rewrite <- pow256. apply get_uint_bound.
Qed.
Lemma get_sint_in_range e f : (0 < length f)%nat ->
  in_signed (8 * len f) (get_sint e f) = true.
Proof.
  intros H. unfold get_sint, len. apply to_signed_in_range; [lia|].
  rewrite <- pow256. apply get_uint_bound.
Qed.

Lemma pow_2_8 : 2 ^ 8 = 256. Proof. now vm_compute. Qed.
Lemma pow_2_16 : 2 ^ 16 = 65536. Proof. now vm_compute. Qed.
Lemma pow_256_2 : 256 ^ N.of_nat 2 = 65536. Proof. now vm_compute. Qed.
Lemma pow_256_2' : 256 ^ 2 = 65536. Proof. now vm_compute. Qed.

Lemma spec_field_sound e k d v r : spec_field e k d = Some (v, r) ->
  d = field_bytes e v ++ r /\ value_of_kind k v = true.
Proof.
  destruct k as [|l|w|l|w|w| |]; cbn [spec_field]; try discriminate.
  - (* bool *)
    destruct d as [|b d']; [discriminate|]. intros H. injection H as <- <-.
    cbn [field_bytes value_of_kind]. rewrite put_uint_1, n2b_b2n. split; [reflexivity|].
    pose proof (b2n_lt b). rewrite pow_2_8. lia.
  - (* signed *)
    destruct (next (int_width l) d) as [[f r0]|] eqn:Hn; [|discriminate].
    intros H. injection H as <- <-. apply next_some in Hn as (-> & Hl & _ & _).
    rewrite field_bytes_signed, kind_signed, <- Hl.
    assert (Hlen : length f = type_length_bytes l)
      by (rewrite <- int_width_nat, <- Hl; unfold len; lia).
    rewrite put_get_sint_len by (trivial; destruct l; cbn; lia).
    split; [reflexivity|]. apply get_sint_in_range. rewrite Hlen. destruct l; cbn; lia.
  - (* unsigned *)
    destruct (next (int_width l) d) as [[f r0]|] eqn:Hn; [|discriminate].
    intros H. injection H as <- <-. apply next_some in Hn as (-> & Hl & _ & _).
    rewrite field_bytes_unsigned, kind_unsigned, <- Hl.
    rewrite put_get_uint_len by (rewrite <- int_width_nat, <- Hl; unfold len; lia).
    split; [reflexivity|]. pose proof (get_uint_bound e f). lia.
  - (* float *)
    destruct (next (flt_width w) d) as [[f r0]|] eqn:Hn; [|discriminate].
    intros H. injection H as <- <-. apply next_some in Hn as (-> & Hl & _ & _).
    rewrite field_bytes_float, kind_float, <- Hl.
    rewrite put_get_uint_len by (rewrite <- flt_width_nat, <- Hl; unfold len; lia).
    split; [reflexivity|]. pose proof (get_uint_bound e f). lia.
  - (* string *)
    destruct (next 2 d) as [[lf r0]|] eqn:Hn; [|discriminate].
    destruct (next (get_uint e lf) r0) as [[s r1]|] eqn:Hs; [|discriminate].
    destruct (valid_utf8 s) eqn:Hv; [|discriminate].
    intros H. injection H as <- <-.
    apply next_some in Hn as (-> & Hl & _ & _). apply next_some in Hs as (-> & Hls & _ & _).
    cbn [field_bytes value_of_kind]. rewrite Hls, Hv.
    rewrite put_get_uint_len by (unfold len in Hl; lia).
    split; [now rewrite <- app_assoc|].
    pose proof (get_uint_bound e lf) as Hb. rewrite Hl in Hb.
    rewrite pow_256_2' in Hb. rewrite pow_2_16. cbn [andb]. lia.
  - (* raw *)
    destruct (next 2 d) as [[lf r0]|] eqn:Hn; [|discriminate].
    destruct (next (get_uint e lf) r0) as [[s r1]|] eqn:Hs; [|discriminate].
    intros H. injection H as <- <-.
    apply next_some in Hn as (-> & Hl & _ & _). apply next_some in Hs as (-> & Hls & _ & _).
    cbn [field_bytes value_of_kind]. rewrite Hls.
    rewrite put_get_uint_len by (unfold len in Hl; lia).
    split; [now rewrite <- app_assoc|].
    pose proof (get_uint_bound e lf) as Hb. rewrite Hl in Hb.
    rewrite pow_256_2' in Hb. rewrite pow_2_16. lia.
Qed.

Lemma next_put_uint e k n r : next (N.of_nat k) (put_uint e k n ++ r) = Some (put_uint e k n, r).
Proof. apply next_app, len_put_uint. Qed.
Lemma next_put_sint e k z r : next (N.of_nat k) (put_sint e k z ++ r) = Some (put_sint e k z, r).
Proof. apply next_app, len_put_sint. Qed.

Lemma spec_unsigned_complete e l n r : value_of_kind (KUnsigned l) (unsigned_value l n) = true ->
  spec_field e (KUnsigned l) (put_uint e (type_length_bytes l) n ++ r) = Some (unsigned_value l n, r).
Proof.
  intros H. rewrite kind_unsigned in H. apply N.ltb_lt in H.
  cbn [spec_field]. rewrite <- int_width_bytes in *. rewrite next_put_uint.
  now rewrite get_put_uint.
Qed.
Lemma spec_signed_complete e l z r : value_of_kind (KSigned l) (signed_value l z) = true ->
  spec_field e (KSigned l) (put_sint e (type_length_bytes l) z ++ r) = Some (signed_value l z, r).
Proof.
  intros H. rewrite kind_signed in H.
  cbn [spec_field]. rewrite <- int_width_bytes in *. rewrite next_put_sint.
  rewrite get_put_sint; [reflexivity| destruct l; cbn; lia | exact H].
Qed.
Lemma spec_float_complete e w b r : value_of_kind (KFloat w) (float_value w b) = true ->
  spec_field e (KFloat w) (put_uint e (float_width_bytes w) b ++ r) = Some (float_value w b, r).
Proof.
  intros H. rewrite kind_float in H. apply N.ltb_lt in H.
  cbn [spec_field]. rewrite <- flt_width_bytes in *. rewrite next_put_uint.
  now rewrite get_put_uint.
Qed.


Lemma spec_field_complete e k v r : value_of_kind k v = true ->
  spec_field e k (field_bytes e v ++ r) = Some (v, r).
Proof.
  destruct k as [|l|w|l|w|w| |].
  - (* bool *)
    destruct v; try discriminate. cbn [value_of_kind field_bytes]. rewrite pow_2_8.
    intros H. rewrite put_uint_1. cbn [app spec_field]. rewrite n2b_small by lia. reflexivity.
  - (* signed *)
    intros H.
    destruct l, v; try discriminate H;
      [ apply (spec_signed_complete e BL8) | apply (spec_signed_complete e BL16)
      | apply (spec_signed_complete e BL32) | apply (spec_signed_complete e BL64)
      | apply (spec_signed_complete e BL128) ]; exact H.
  - destruct w, v; discriminate.
  - (* unsigned *)
    intros H.
    destruct l, v; try discriminate H;
      [ apply (spec_unsigned_complete e BL8) | apply (spec_unsigned_complete e BL16)
      | apply (spec_unsigned_complete e BL32) | apply (spec_unsigned_complete e BL64)
      | apply (spec_unsigned_complete e BL128) ]; exact H.
  - destruct w, v; discriminate.
  - (* float *)
    intros H.
    destruct w, v; try discriminate H;
      [ apply (spec_float_complete e W32) | apply (spec_float_complete e W64) ]; exact H.
  - (* string *)
    destruct v; try discriminate. cbn [value_of_kind field_bytes]. rewrite pow_2_16.
    intros H. apply andb_true_iff in H as [Hv Hl]. rewrite <- app_assoc. cbn [spec_field].
    rewrite (next_put_uint e 2), get_put_uint by (rewrite pow_256_2; lia).
    rewrite next_app by reflexivity. now rewrite Hv.
  - (* raw *)
    destruct v; try discriminate. cbn [value_of_kind field_bytes]. rewrite pow_2_16.
    intros Hl. rewrite <- app_assoc. cbn [spec_field].
    rewrite (next_put_uint e 2), get_put_uint by (rewrite pow_256_2; lia).
    now rewrite next_app by reflexivity.
Qed.

Lemma spec_field_rest e k d v r : spec_field e k d = Some (v, r) ->
  field_size v <= len d /\ r = skipn (N.to_nat (field_size v)) d.
Proof.
  intros H. apply spec_field_sound in H as (-> & _).
  rewrite len_app, <- (len_field_bytes e v), skipn_len_app. split; [lia|reflexivity].
Qed.

(* ---------- one step of the implementation = one field of the spec ---------- *)
Lemma construct_one_refines e t data off : off <= len data ->
  construct_one e t data off =
  match spec_field e (ti_kind_of t) (skipn (N.to_nat off) data) with
  | Some (v, r) => Some (v, None, off + field_size v)
  | None => None
  end.
Proof.
  intros Hoff. unfold construct_one.
  pose proof (len_skipn_N off data) as Hsk.
  destruct (ti_kind_of t) as [|l|w|l|w|w| |] eqn:K; cbn [spec_field]; cbv zeta.
  - (* bool *)
    destruct (skipn (N.to_nat off) data) as [|b r] eqn:S.
    + change (len (@nil byte)) with 0 in Hsk.
      destruct (N.ltb_spec (len data) (off + 1)); [reflexivity|lia].
    + rewrite len_cons in Hsk.
      destruct (N.ltb_spec (len data) (off + 1)); [lia|].
      replace (N.to_nat (off + 1 - 1)) with (N.to_nat off) by lia.
      now rewrite (nth_skipn_hd _ _ _ _ x00 S).
  - (* signed *)
    rewrite int_width_bytes. unfold next. rewrite Hsk.
    destruct (N.ltb_spec (len data) (off + int_width l));
      destruct (N.ltb_spec (len data - off) (int_width l)); try lia; [reflexivity|].
    rewrite dlt_sint_enough by lia. now rewrite field_size_signed.
  - (* signed fixed point *)
    rewrite flt_width_bytes.
    destruct (N.ltb_spec (len data) (off + flt_width w)); [reflexivity|].
    rewrite slice_eq.
    destruct (dlt_fixed_point e w _) as [fp vo| | | |] eqn:F; try reflexivity.
    exfalso. revert F. apply dlt_fixed_point_short. rewrite len_firstn. lia.
  - (* unsigned *)
    rewrite int_width_bytes. unfold next. rewrite Hsk.
    destruct (N.ltb_spec (len data) (off + int_width l));
      destruct (N.ltb_spec (len data - off) (int_width l)); try lia; [reflexivity|].
    rewrite dlt_uint_enough by lia. now rewrite field_size_unsigned.
  - (* unsigned fixed point *)
    rewrite flt_width_bytes.
    destruct (N.ltb_spec (len data) (off + flt_width w)); [reflexivity|].
    rewrite slice_eq.
    destruct (dlt_fixed_point e w _) as [fp vo| | | |] eqn:F; try reflexivity.
    exfalso. revert F. apply dlt_fixed_point_short. rewrite len_firstn. lia.
  - (* float *)
    rewrite flt_width_bytes. unfold next. rewrite Hsk.
    destruct (N.ltb_spec (len data) (off + flt_width w));
      destruct (N.ltb_spec (len data - off) (flt_width w)); try lia; [reflexivity|].
    rewrite slice_eq, dlt_fint_exact by (rewrite len_firstn; lia).
    now rewrite field_size_float.
  - (* string *)
    unfold next. rewrite Hsk.
    destruct (N.ltb_spec (len data) (off + 2));
      destruct (N.ltb_spec (len data - off) 2); try lia; [reflexivity|].
    rewrite !slice_eq, skipn_N_add, len_skipn_N.
    set (n := get_uint e (firstn (N.to_nat 2) (skipn (N.to_nat off) data))).
    destruct (N.ltb_spec (len data) (off + 2 + n));
      destruct (N.ltb_spec (len data - (off + 2)) n); try lia; [reflexivity|].
    destruct (valid_utf8 _); [|reflexivity].
    cbn [field_size]. rewrite len_firstn_N by (rewrite len_skipn_N; lia).
    now rewrite N.add_assoc.
  - (* raw *)
    unfold next. rewrite Hsk.
    destruct (N.ltb_spec (len data) (off + 2));
      destruct (N.ltb_spec (len data - off) 2); try lia; [reflexivity|].
    rewrite !slice_eq, skipn_N_add, len_skipn_N.
    set (n := get_uint e (firstn (N.to_nat 2) (skipn (N.to_nat off) data))).
    destruct (N.ltb_spec (len data) (off + 2 + n));
      destruct (N.ltb_spec (len data - (off + 2)) n); try lia; [reflexivity|].
    cbn [field_size]. rewrite len_firstn_N by (rewrite len_skipn_N; lia).
    now rewrite N.add_assoc.
Qed.

(* ---------- the refinement ---------- *)
Lemma construct_from_refines e tys : forall data off, off <= len data ->
  construct_from e tys data off = spec_construct e tys (skipn (N.to_nat off) data).
Proof.
  unfold spec_construct.
  induction tys as [|t tys IH]; intros data off Hoff; cbn [construct_from spec_decode]; [reflexivity|].
  rewrite construct_one_refines by exact Hoff.
  destruct (spec_field e (ti_kind_of t) (skipn (N.to_nat off) data)) as [[v r]|] eqn:F; [|reflexivity].
  apply spec_field_rest in F as (Hle & ->). rewrite len_skipn_N in Hle.
  rewrite IH by lia. rewrite skipn_N_add.
  now destruct (spec_decode e tys _) as [[args r']|].
Qed.

Theorem construct_refines : forall bo tys data,
  construct_arguments bo tys data = spec_construct bo tys data.
Proof.
  intros bo tys data. unfold construct_arguments.
  rewrite construct_from_refines by lia. reflexivity.
Qed.

(* ---------- the spec decoder is the inverse of the packed encoding ---------- *)
Lemma len_args_bytes e args : len (args_bytes e args) = args_size args.
Proof.
  unfold args_bytes. induction args as [|a args IH]; [reflexivity|].
  cbn [flat_map args_size]. now rewrite len_app, len_field_bytes, IH.
Qed.

Lemma spec_decode_sound e tys : forall d args r, spec_decode e tys d = Some (args, r) ->
  d = args_bytes e args ++ r /\ map a_ti args = tys /\ Forall plain_argument args.
Proof.
  induction tys as [|t tys IH]; intros d args r; cbn [spec_decode].
  - intros H. injection H as <- <-. repeat split. constructor.
  - destruct (spec_field e (ti_kind_of t) d) as [[v r0]|] eqn:F; [|discriminate].
    destruct (spec_decode e tys r0) as [[args' r']|] eqn:D; [|discriminate].
    intros H. injection H as <- <-.
    apply spec_field_sound in F as (-> & Hk). apply IH in D as (-> & Hm & Hf).
    unfold args_bytes. cbn [flat_map map a_ti a_value]. fold (args_bytes e args').
    split; [now rewrite app_assoc|]. split; [now rewrite Hm|].
    constructor; [|exact Hf]. unfold plain_argument. cbn. auto.
Qed.

Lemma spec_decode_complete e args : forall r, Forall plain_argument args ->
  spec_decode e (map a_ti args) (args_bytes e args ++ r) = Some (args, r).
Proof.
  induction args as [|a args IH]; intros r Hf; [reflexivity|].
  inversion Hf as [|? ? Ha Hf']; subst.
  destruct a as [t nm un fp v]. destruct Ha as (Hn & Hu & Hp & Hk). cbn in Hn, Hu, Hp, Hk. subst.
  unfold args_bytes. cbn [flat_map map a_ti a_value spec_decode]. fold (args_bytes e args).
  rewrite <- app_assoc, spec_field_complete by exact Hk.
  now rewrite IH.
Qed.

(* construct_arguments succeeds exactly on the payloads that start with the packed encoding
   of plain arguments of the requested types *)
Theorem construct_characterised : forall bo tys d args,
  construct_arguments bo tys d = Some args <->
  (exists rest, d = args_bytes bo args ++ rest) /\ map a_ti args = tys /\ Forall plain_argument args.
Proof.
  intros bo tys d args. rewrite construct_refines. unfold spec_construct. split.
  - destruct (spec_decode bo tys d) as [[args' r]|] eqn:D; [|discriminate].
    intros H. injection H as ->. apply spec_decode_sound in D as (Hd & Hm & Hf).
    split; [now exists r|]. now split.
  - intros ((r & ->) & <- & Hf). now rewrite spec_decode_complete.
Qed.

Theorem construct_shape : forall bo tys d args,
  construct_arguments bo tys d = Some args ->
  length args = length tys /\ map a_ti args = tys /\ Forall plain_argument args.
Proof.
  intros bo tys d args H. apply construct_characterised in H as (_ & Hm & Hf).
  split; [|now split]. rewrite <- Hm. now rewrite map_length.
Qed.

Theorem construct_trailing : forall bo tys d args,
  construct_arguments bo tys d = Some args ->
  forall extra, construct_arguments bo tys (d ++ extra) = Some args.
Proof.
  intros bo tys d args H extra. apply construct_characterised in H as ((r & ->) & Hm & Hf).
  apply construct_characterised. split; [|now split]. exists (r ++ extra). now rewrite app_assoc.
Qed.

(* the bytes used: exactly the first args_size args bytes *)
Theorem construct_consumed : forall bo tys d args,
  construct_arguments bo tys d = Some args ->
  args_size args <= len d /\
  firstn (N.to_nat (args_size args)) d = args_bytes bo args /\
  construct_arguments bo tys (firstn (N.to_nat (args_size args)) d) = Some args.
Proof.
  intros bo tys d args H. apply construct_characterised in H as ((r & ->) & Hm & Hf).
  rewrite <- (len_args_bytes bo args), len_app, firstn_len_app.
  split; [lia|]. split; [reflexivity|].
  apply construct_characterised. split; [|now split]. exists []. now rewrite app_nil_r.
Qed.

Theorem construct_short : forall bo tys d args,
  construct_arguments bo tys d = Some args ->
  forall k, k < args_size args -> construct_arguments bo tys (firstn (N.to_nat k) d) = None.
Proof.
  intros bo tys d args H k Hk.
  destruct (construct_arguments bo tys (firstn (N.to_nat k) d)) as [args'|] eqn:E; [exfalso|reflexivity].
  pose proof (construct_trailing _ _ _ _ E (skipn (N.to_nat k) d)) as E'.
  rewrite firstn_skipn, H in E'. injection E' as ->.
  apply construct_consumed in E as (Hle & _). rewrite len_firstn in Hle. lia.
Qed.

(* ---------- a string field that is not well-formed UTF-8 ---------- *)
Lemma spec_decode_app e tys1 : forall tys2 d,
  spec_decode e (tys1 ++ tys2) d =
  match spec_decode e tys1 d with
  | Some (a1, r) =>
    match spec_decode e tys2 r with
    | Some (a2, r') => Some (a1 ++ a2, r')
    | None => None
    end
  | None => None
  end.
Proof.
  induction tys1 as [|t tys1 IH]; intros tys2 d; cbn [app spec_decode].
  - now destruct (spec_decode e tys2 d) as [[a2 r']|].
  - destruct (spec_field e (ti_kind_of t) d) as [[v r]|]; [|reflexivity].
    rewrite IH. destruct (spec_decode e tys1 r) as [[a1 r1]|]; [|reflexivity].
    now destruct (spec_decode e tys2 r1) as [[a2 r']|].
Qed.

Lemma spec_string_invalid e s rest : len s < 65536 -> valid_utf8 s = false ->
  spec_field e KString (put_uint e 2 (len s) ++ s ++ rest) = None.
Proof.
  intros Hl Hv. cbn [spec_field].
  rewrite (next_put_uint e 2), get_put_uint by (rewrite pow_256_2; lia).
  rewrite next_app by reflexivity. now rewrite Hv.
Qed.

(* types tys1 decode d1 completely; behind it comes a string field whose declared length is that
   of s and whose content s is not valid UTF-8: the whole construction is refused, whatever
   types and bytes follow *)
Theorem construct_invalid_utf8 : forall bo tys1 t tys2 d1 args1 s rest,
  construct_arguments bo tys1 d1 = Some args1 -> args_size args1 = len d1 ->
  ti_kind_of t = KString -> len s < 65536 -> valid_utf8 s = false ->
  construct_arguments bo (tys1 ++ t :: tys2) (d1 ++ put_uint bo 2 (len s) ++ s ++ rest) = None.
Proof.
  intros bo tys1 t tys2 d1 args1 s rest H1 Hsz Kt Hl Hv.
  apply construct_characterised in H1 as ((r & Hd) & Hm & Hf).
  assert (Hr : r = []).
  { apply len_0_nil. apply (f_equal len) in Hd. rewrite len_app, len_args_bytes in Hd. lia. }
  subst r. rewrite app_nil_r in Hd. subst d1 tys1.
  rewrite construct_refines. unfold spec_construct.
  rewrite spec_decode_app, spec_decode_complete by exact Hf.
  cbn [spec_decode]. rewrite Kt, spec_string_invalid by assumption. reflexivity.
Qed.

(* ---------- fixed-point signal types are always refused ---------- *)
Lemma construct_one_fixed_point e t data off :
  is_fixed_point (ti_kind_of t) = true -> construct_one e t data off = None.
Proof.
  unfold construct_one.
  destruct (ti_kind_of t) as [|l|w|l|w|w| |]; try discriminate; intros _; cbv zeta;
    rewrite flt_width_bytes;
    (destruct (N.ltb_spec (len data) (off + flt_width w)); [reflexivity|]);
    rewrite slice_eq;
    (destruct (dlt_fixed_point e w _) as [fp vo| | | |] eqn:F; try reflexivity);
    exfalso; revert F; apply dlt_fixed_point_short; rewrite len_firstn; lia.
Qed.

Lemma spec_decode_fixed_point e tys : forall d t,
  In t tys -> is_fixed_point (ti_kind_of t) = true -> spec_decode e tys d = None.
Proof.
  induction tys as [|t0 tys IH]; intros d t Hin Hfp; [destruct Hin|].
  cbn [spec_decode]. destruct Hin as [->|Hin].
  - destruct (ti_kind_of t); try discriminate; reflexivity.
  - destruct (spec_field e (ti_kind_of t0) d) as [[v r]|]; [|reflexivity].
    now rewrite (IH r t Hin Hfp).
Qed.

Theorem construct_fixed_point_refused : forall bo tys d t,
  In t tys -> is_fixed_point (ti_kind_of t) = true -> construct_arguments bo tys d = None.
Proof.
  intros bo tys d t Hin Hfp. rewrite construct_refines. unfold spec_construct.
  now rewrite (spec_decode_fixed_point bo tys d t Hin Hfp).
Qed.

(* ---------- offsets stay inside the data ---------- *)
Lemma construct_one_offset e t data off v fp off' :
  off <= len data -> construct_one e t data off = Some (v, fp, off') ->
  off < off' <= len data /\ off' = off + field_size v /\ fp = None.
Proof.
  intros Hoff H. rewrite construct_one_refines in H by exact Hoff.
  destruct (spec_field e (ti_kind_of t) _) as [[v0 r]|] eqn:F; [|discriminate].
  injection H as <- <- <-. apply spec_field_rest in F as (Hle & _).
  rewrite len_skipn_N in Hle. pose proof (field_size_pos v0).
  split; [lia|]. split; reflexivity.
Qed.

(* ---------- no panic: every run-time check of the instrumented transcription passes ---------- *)
Lemma uadd_ok bits a b : a + b < 2 ^ bits -> uadd bits a b = Val (a + b).
Proof. intros H. unfold uadd, add_chk. destruct (N.ltb_spec (a + b) (2 ^ bits)); [reflexivity|lia]. Qed.
Lemma cslice_ok data a b : a <= b -> b <= len data -> cslice data a b = Val (slice data a b).
Proof.
  intros H1 H2. unfold cslice.
  destruct (N.leb_spec a b); [|lia]. destruct (N.leb_spec b (len data)); [reflexivity|lia].
Qed.
Lemma cslice_from_ok data a : a <= len data -> cslice_from data a = Val (skipn (N.to_nat a) data).
Proof. intros H. unfold cslice_from. destruct (N.leb_spec a (len data)); [reflexivity|lia]. Qed.
Lemma cindex_ok data i : i < len data -> cindex data i = Val (nth (N.to_nat i) data x00).
Proof. intros H. unfold cindex. destruct (N.ltb_spec i (len data)); [reflexivity|lia]. Qed.
Lemma sub_chk_ok a b : b <= a -> sub_chk a b = Val (a - b).
Proof. intros H. unfold sub_chk. destruct (N.leb_spec b a); [reflexivity|lia]. Qed.

Lemma int_width_le l : int_width l <= 16.
Proof. destruct l; cbn [int_width]; lia. Qed.
Lemma flt_width_le w : flt_width w <= 8.
Proof. destruct w; cbn [flt_width]; lia. Qed.
Lemma u16_field_bound e data a : get_uint e (slice data a (a + 2)) < 65536.
Proof.
  pose proof (get_uint_bound e (slice data a (a + 2))) as Hb.
  assert (Hl : len (slice data a (a + 2)) <= 2) by (rewrite slice_eq, len_firstn; lia).
  assert (Hp : 256 ^ len (slice data a (a + 2)) <= 256 ^ 2) by (apply N.pow_le_mono_r; lia).
  rewrite pow_256_2' in Hp. lia.
Qed.

Lemma construct_one_checked_eq bits e t data off :
  off <= len data -> len data + 65537 <= 2 ^ bits ->
  construct_one_checked bits e t data off = Val (construct_one e t data off).
Proof.
  intros Hoff Hbits. unfold construct_one_checked, construct_one.
  pose proof (int_width_le) as Hiw. pose proof (flt_width_le) as Hfw.
  destruct (ti_kind_of t) as [|l|w|l|w|w| |] eqn:K; cbv zeta;
    rewrite ?int_width_bytes, ?flt_width_bytes.
  - (* bool *)
    rewrite uadd_ok by lia. cbn [chk_bind].
    destruct (N.ltb_spec (len data) (off + 1)); [reflexivity|].
    rewrite sub_chk_ok by lia. cbn [chk_bind]. rewrite cindex_ok by lia. reflexivity.
  - (* signed *)
    specialize (Hiw l). rewrite uadd_ok by lia. cbn [chk_bind].
    destruct (N.ltb_spec (len data) (off + int_width l)); [reflexivity|].
    rewrite cslice_from_ok by lia. cbn [chk_bind].
    destruct (dlt_sint e l _) eqn:F; try reflexivity. exfalso. revert F. apply dlt_sint_no_panic.
  - (* signed fixed point *)
    specialize (Hfw w). rewrite uadd_ok by lia. cbn [chk_bind].
    destruct (N.ltb_spec (len data) (off + flt_width w)); [reflexivity|].
    rewrite cslice_ok by lia. cbn [chk_bind].
    destruct (dlt_fixed_point e w _) as [fp vo| | | |] eqn:F; try reflexivity.
    + cbn [chk_bind of_pres].
      destruct (dlt_sint e _ vo) eqn:G; try reflexivity. exfalso. revert G. apply dlt_sint_no_panic.
    + exfalso. revert F. apply dlt_fixed_point_no_panic.
  - (* unsigned *)
    specialize (Hiw l). rewrite uadd_ok by lia. cbn [chk_bind].
    destruct (N.ltb_spec (len data) (off + int_width l)); [reflexivity|].
    rewrite cslice_from_ok by lia. cbn [chk_bind].
    destruct (dlt_uint e l _) eqn:F; try reflexivity. exfalso. revert F. apply dlt_uint_no_panic.
  - (* unsigned fixed point *)
    specialize (Hfw w). rewrite uadd_ok by lia. cbn [chk_bind].
    destruct (N.ltb_spec (len data) (off + flt_width w)); [reflexivity|].
    rewrite cslice_ok by lia. cbn [chk_bind].
    destruct (dlt_fixed_point e w _) as [fp vo| | | |] eqn:F; try reflexivity.
    + cbn [chk_bind of_pres].
      destruct (dlt_uint e _ vo) eqn:G; try reflexivity. exfalso. revert G. apply dlt_uint_no_panic.
    + exfalso. revert F. apply dlt_fixed_point_no_panic.
  - (* float *)
    specialize (Hfw w). rewrite uadd_ok by lia. cbn [chk_bind].
    destruct (N.ltb_spec (len data) (off + flt_width w)); [reflexivity|].
    rewrite cslice_ok by lia. cbn [chk_bind].
    destruct (dlt_fint e w _) eqn:F; try reflexivity. exfalso. revert F. apply dlt_fint_no_panic.
  - (* string *)
    rewrite uadd_ok by lia. cbn [chk_bind].
    destruct (N.ltb_spec (len data) (off + 2)); [reflexivity|].
    rewrite cslice_ok by lia. cbn [chk_bind].
    pose proof (u16_field_bound e data off) as Hn.
    rewrite uadd_ok by lia. cbn [chk_bind].
    destruct (N.ltb_spec (len data) (off + 2 + get_uint e (slice data off (off + 2)))); [reflexivity|].
    rewrite cslice_ok by lia. cbn [chk_bind].
    now destruct (valid_utf8 _).
  - (* raw *)
    rewrite uadd_ok by lia. cbn [chk_bind].
    destruct (N.ltb_spec (len data) (off + 2)); [reflexivity|].
    rewrite cslice_ok by lia. cbn [chk_bind].
    pose proof (u16_field_bound e data off) as Hn.
    rewrite uadd_ok by lia. cbn [chk_bind].
    destruct (N.ltb_spec (len data) (off + 2 + get_uint e (slice data off (off + 2)))); [reflexivity|].
    rewrite cslice_ok by lia. reflexivity.
Qed.

Lemma construct_from_checked_eq bits e tys : forall data off,
  off <= len data -> len data + 65537 <= 2 ^ bits ->
  construct_from_checked bits e tys data off = Val (construct_from e tys data off).
Proof.
  induction tys as [|t tys IH]; intros data off Hoff Hbits;
    cbn [construct_from_checked construct_from]; [reflexivity|].
  rewrite construct_one_checked_eq by assumption. cbn [chk_bind].
  destruct (construct_one e t data off) as [[[v fp] off']|] eqn:C; [|reflexivity].
  apply construct_one_offset in C as (Ho & _); [|exact Hoff].
  rewrite IH by (trivial; lia). cbn [chk_bind].
  now destruct (construct_from e tys data off').
Qed.

Theorem construct_no_panic : forall bits bo tys data,
  len data + 65537 <= 2 ^ bits ->
  construct_checked bits bo tys data = Val (construct_arguments bo tys data).
Proof.
  intros bits bo tys data H. unfold construct_checked, construct_arguments.
  apply construct_from_checked_eq; [lia|exact H].
Qed.
