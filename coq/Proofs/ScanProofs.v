(* Proofs/ScanProofs.v — the statistics scan (Model/Scan.v):
   A. for every stream and every read schedule it equals the reader-free scan of Spec/ScanSpec.v
      (cut at the declared lengths, decode the headers of each piece); no panic, no fuel exhaustion;
   B. on the concatenation of serialised well-formed messages the pieces are the messages and the decoded
      headers are the messages' headers: each message is visited exactly once, in order;
   C. the standard collector fed by the scan = [collect_all] of the messages' statistics = the tally. *)
From Coq Require Import Lia ZifyBool ZifyN ZifyNat.
From DltV.Model Require Import Bytes RustInt Utf8 Nom Dlt Parse Stats Reader Scan.
From DltV.Spec Require Import WellFormed StatsSpec ReaderSpec ScanSpec.
From DltV.Proofs Require Import BytesBasics Fields ParseLemmas Consumption Stable Headers Roundtrip
  StatsProofs ReaderProofs.
Open Scope N_scope.

(* ================= A. the scan = the cuts, for every schedule ================= *)
Section GenericScan.
  Variable St : Type.
  Variable read_exact : N -> St -> xres * list byte * St.
  Variable view : St -> list byte.
  Hypothesis rx_spec : forall want st, exists st',
    read_exact want st = ((if want <=? len (view st) then XOk else XEof), takeN want (view st), st')
    /\ view st' = dropN want (view st).

  Lemma scan_fuel_with_spec : forall fuel sh (r : reader St),
    len (rd_scratch r) = message_max_len ->
    (length (view (rd_src r)) < fuel)%nat ->
    scan_fuel_with read_exact fuel sh r = spec_scan_fuel fuel (view (rd_src r)) sh.
  Proof.
    induction fuel as [|fuel IH]; intros sh r Hbuf Hfuel; [lia|].
    cbn [scan_fuel_with spec_scan_fuel]. unfold scan_step_with.
    destruct (next_message_slice_spec St read_exact view rx_spec sh r Hbuf) as (r' & Hbuf' & H).
    cbv zeta in H. set (v := view (rd_src r)) in *.
    rewrite length_len in Hfuel.
    destruct (spec_cut sh v) as [| | |n] eqn:Ecut.
    - rewrite H. reflexivity.
    - destruct H as (E & V). rewrite E. reflexivity.
    - destruct H as (E & V). rewrite E. reflexivity.
    - destruct H as (E & V). rewrite E.
      destruct (spec_cut_piece sh v n Ecut) as (Hn & Hn1 & Hn2).
      rewrite is_nil_len, len_takeN.
      replace (N.min n (len v) =? 0) with false by (unfold hdr_len in *; lia).
      rewrite <- takeN_firstn, <- dropN_skipn.
      destruct (statistic_of_slice sh (takeN n v)) as [st rest|nd| | |]; try reflexivity.
      rewrite IH; [rewrite V; reflexivity|exact Hbuf'|].
      rewrite V, length_len, len_dropN. unfold hdr_len in *. lia.
  Qed.

  (* a collector that never fails sees exactly the list of the scan, folded from the left *)
  Lemma scan_collect_with_total : forall (C : Type) (g : C -> statistic_full -> C) fuel sh (r : reader St) c,
    scan_collect_with read_exact (fun c s => inl (g c s)) fuel sh r c
    = (fold_left g (fst (scan_fuel_with read_exact fuel sh r)) c, snd (scan_fuel_with read_exact fuel sh r)).
  Proof.
    intros C g. induction fuel as [|fuel IH]; intros sh r c; [reflexivity|].
    cbn [scan_collect_with scan_fuel_with].
    destruct (scan_step_with read_exact sh r) as [[s r']|e]; [|reflexivity].
    rewrite IH. destruct (scan_fuel_with read_exact fuel sh r') as [l e]. reflexivity.
  Qed.
End GenericScan.

Lemma scan_cap_spec : forall cap sigma s sh, scan_cap cap sigma s sh = spec_scan s sh.
Proof.
  intros. unfold scan_cap, scan_fuel, spec_scan.
  rewrite (scan_fuel_with_spec bufreader (br_read_exact cap) br_view (br_read_exact_spec cap)).
  - reflexivity.
  - apply len_new_scratch.
  - cbn [new_reader rd_src br_view br_buf br_src src_rest app]. lia.
Qed.

Lemma scan_spec : forall sigma s sh, scan sigma s sh = spec_scan s sh.
Proof. intros. apply (scan_cap_spec default_cap). Qed.

(* ----- no panic, and the fuel of [scan] suffices ----- *)
Lemma statistic_of_slice_no_panic sh bs : statistic_of_slice sh bs <> PPanic.
Proof.
  unfold statistic_of_slice. apply pbind_no_panic.
  - destruct sh; [apply pmap_no_panic, dlt_storage_header_no_panic | discriminate].
  - intros s0 r0. apply pbind_no_panic; [apply dlt_standard_header_no_panic|]. intros h r1.
    apply pbind_no_panic.
    + destruct (h_has_ext h); [apply pmap_no_panic, dlt_extended_header_no_panic | discriminate].
    + intros x r2. discriminate.
Qed.

Lemma spec_scan_fuel_end : forall fuel s sh, (length s < fuel)%nat ->
  snd (spec_scan_fuel fuel s sh) <> ScanFuel /\ snd (spec_scan_fuel fuel s sh) <> ScanPanic.
Proof.
  induction fuel as [|fuel IH]; intros s sh Hf; [lia|].
  cbn [spec_scan_fuel]. destruct (spec_cut sh s) as [| | |n] eqn:Ecut; try (cbn [snd]; split; discriminate).
  destruct (spec_cut_piece sh s n Ecut) as (Hn & Hn1 & Hn2).
  pose proof (statistic_of_slice_no_panic sh (firstn (N.to_nat n) s)) as Hp.
  destruct (statistic_of_slice sh (firstn (N.to_nat n) s)) as [st rest|nd| | |];
    try (cbn [snd pres_end]; split; discriminate); [|congruence].
  specialize (IH (skipn (N.to_nat n) s) sh).
  destruct (spec_scan_fuel fuel (skipn (N.to_nat n) s) sh) as [l e]. cbn [snd] in *. apply IH.
  rewrite skipn_length. rewrite length_len in Hf |- *. unfold hdr_len in *. lia.
Qed.

Lemma scan_end_cases : forall sigma s sh,
  snd (scan sigma s sh) = ScanOk \/ exists e, snd (scan sigma s sh) = ScanErr e.
Proof.
  intros. rewrite scan_spec. unfold spec_scan.
  destruct (spec_scan_fuel_end (length s + 1) s sh) as [H1 H2]; [lia|].
  destruct (snd (spec_scan_fuel (length s + 1) s sh)) as [|e| |]; [now left|right; now exists e|congruence|congruence].
Qed.

(* ================= B. a stream of serialised well-formed messages ================= *)

Lemma storage_len_has_storage m : wf_message m = true ->
  len (match m_storage m with Some s => storage_header_bytes s | None => [] end) = storage_len (has_storage m).
Proof.
  intros Hwf. apply wf_message_inv in Hwf as [Hs _]. unfold has_storage.
  destruct (m_storage m) as [s|]; [|reflexivity]. cbn [wf_opt] in Hs.
  apply (len_storage_header_bytes s Hs).
Qed.

Lemma overall_length_ge4 h x p : wf_body h x p -> 4 <= overall_length h /\ overall_length h < 65536.
Proof.
  intros W. rewrite (overall_length_small h (wb_len _ _ _ W)). pose proof (wb_len _ _ _ W).
  unfold overall_length_raw in *. lia.
Qed.

(* B1: the length of the serialised message is storage header + declared length *)
Lemma len_message_bytes m : wf_message m = true ->
  len (message_bytes m) = storage_len (has_storage m) + overall_length (m_header m).
Proof.
  intros Hwf. pose proof (storage_len_has_storage m Hwf) as Hs.
  apply wf_message_inv in Hwf as [_ W].
  rewrite Roundtrip.message_bytes_eq, BytesBasics.len_app, Hs, (len_body_bytes _ _ _ W). reflexivity.
Qed.

(* B2: the LEN field of the serialised message *)
Lemma declared_len_body h x p rest : wf_body h x p ->
  match skipn 2 (body_bytes h x p ++ rest) with
  | a :: b :: _ => 256 * b2n a + b2n b
  | _ => 0
  end = overall_length h.
Proof.
  intros W. destruct (overall_length_ge4 h x p W) as [_ Hlt].
  unfold body_bytes, std_header_bytes. rewrite <- !app_assoc. cbn [app skipn].
  unfold put_uint. cbn [le_put rev app]. rewrite !b2n_n2b.
  set (ov := overall_length h) in *.
  rewrite (N.mod_small (ov / 256) 256) by (apply N.div_lt_upper_bound; lia).
  pose proof (N.div_mod ov 256). lia.
Qed.

Lemma declared_len_message_bytes m rest : wf_message m = true ->
  ReaderSpec.declared_len (has_storage m) (message_bytes m ++ rest) = overall_length (m_header m).
Proof.
  intros Hwf. pose proof (storage_len_has_storage m Hwf) as Hs.
  apply wf_message_inv in Hwf as [_ W].
  unfold ReaderSpec.declared_len. rewrite Roundtrip.message_bytes_eq, <- app_assoc.
  set (shb := match m_storage m with Some s => storage_header_bytes s | None => [] end) in *.
  replace (N.to_nat (storage_len (has_storage m) + 2)) with (N.to_nat (len shb) + 2)%nat by lia.
  rewrite <- skipn_skipn_plus, skipn_len_app.
  apply (declared_len_body _ _ _ rest W).
Qed.

(* B4: the first cut of message_bytes m ++ rest is the message *)
Lemma spec_cut_message_bytes m rest : wf_message m = true ->
  spec_cut (has_storage m) (message_bytes m ++ rest) = CPiece (len (message_bytes m)).
Proof.
  intros Hwf. unfold spec_cut. rewrite (declared_len_message_bytes m rest Hwf).
  pose proof (len_message_bytes m Hwf) as L.
  destruct (wf_message_inv m Hwf) as [_ W]. destruct (overall_length_ge4 _ _ _ W) as [H4 _].
  rewrite BytesBasics.len_app. unfold hdr_len.
  destruct (N.ltb_spec (len (message_bytes m) + len rest) (storage_len (has_storage m) + 4)) as [Hbad|_]; [lia|].
  destruct (N.ltb_spec (overall_length (m_header m)) 4) as [Hbad|_]; [lia|].
  destruct (N.ltb_spec (len (message_bytes m) + len rest)
              (storage_len (has_storage m) + overall_length (m_header m))) as [Hbad|_]; [lia|].
  now rewrite L.
Qed.

(* B5: the three header parsers return the message's headers, the rest is its payload *)
Lemma statistic_of_slice_message_bytes m : wf_message m = true ->
  statistic_of_slice (has_storage m) (message_bytes m)
  = POk (statistic_full_of_message m) (payload_bytes (h_endian (m_header m)) (m_payload m)).
Proof.
  intros Hwf. destruct (wf_message_inv m Hwf) as [Hs W].
  destruct (std_header_stable _ (wb_std _ _ _ W) (wb_len _ _ _ W)) as [S1 _].
  destruct (stable_opt_ext _ _ _ W) as [X1 _].
  unfold statistic_of_slice, statistic_full_of_message, has_storage.
  rewrite Roundtrip.message_bytes_eq. unfold body_bytes.
  destruct m as [st h x p]. cbn [m_storage m_header m_ext m_payload] in *.
  destruct st as [s|]; cbn [wf_opt] in Hs.
  - rewrite (storage_header_roundtrip s _ Hs). unfold pmap in X1 |- *. cbn [pbind fst].
    rewrite S1. cbn [pbind]. rewrite X1. reflexivity.
  - cbn [app pbind]. rewrite S1. cbn [pbind]. rewrite X1. reflexivity.
Qed.

Lemma statistic_of_full_of_message m :
  statistic_of_full (statistic_full_of_message m) = statistic_of_message m.
Proof.
  unfold statistic_of_full, statistic_full_of_message, statistic_of_message.
  cbn [fs_level fs_std fs_ext fs_verbose]. destruct (m_ext m); reflexivity.
Qed.

Definition wf_in_mode (sh : bool) (m : message) : Prop := wf_message m = true /\ has_storage m = sh.

Lemma spec_scan_messages : forall sh ms fuel,
  Forall (wf_in_mode sh) ms -> (length ms < fuel)%nat ->
  spec_scan_fuel fuel (flat_map message_bytes ms) sh = (map statistic_full_of_message ms, ScanOk).
Proof.
  intros sh ms. induction ms as [|m ms IH]; intros fuel Hall Hf.
  - destruct fuel as [|fuel]; [cbn in Hf; lia|]. cbn [flat_map map spec_scan_fuel].
    unfold spec_cut. destruct sh; reflexivity.
  - destruct fuel as [|fuel]; [cbn in Hf; lia|].
    inversion Hall as [|m' ms' [Hwf Hs] Hall' E1]; subst m' ms'.
    cbn [flat_map map spec_scan_fuel]. rewrite <- Hs.
    rewrite (spec_cut_message_bytes m _ Hwf), firstn_len_app, skipn_len_app.
    rewrite (statistic_of_slice_message_bytes m Hwf), Hs.
    rewrite IH; [reflexivity|exact Hall'|cbn [length] in Hf; lia].
Qed.

Lemma length_flat_map_message_bytes : forall sh ms, Forall (wf_in_mode sh) ms ->
  (length ms <= length (flat_map message_bytes ms))%nat.
Proof.
  intros sh ms Hall. induction Hall as [|m ms [Hwf Hs] Hall IH]; [reflexivity|].
  cbn [flat_map length]. rewrite app_length.
  pose proof (len_message_bytes m Hwf) as L. destruct (wf_message_inv m Hwf) as [_ W].
  destruct (overall_length_ge4 _ _ _ W) as [H4 _]. unfold len in L. lia.
Qed.

(* C10 "visits each message exactly once with its decoded headers" *)
Theorem scan_cap_visits : forall cap sigma ms sh,
  Forall (fun m => wf_message m = true /\ has_storage m = sh) ms ->
  scan_cap cap sigma (flat_map message_bytes ms) sh = (map statistic_full_of_message ms, ScanOk).
Proof.
  intros cap sigma ms sh Hall. rewrite scan_cap_spec. unfold spec_scan.
  apply spec_scan_messages; [exact Hall|].
  pose proof (length_flat_map_message_bytes sh ms Hall). lia.
Qed.

Theorem scan_visits : forall sigma ms sh,
  Forall (fun m => wf_message m = true /\ has_storage m = sh) ms ->
  scan sigma (flat_map message_bytes ms) sh = (map statistic_full_of_message ms, ScanOk).
Proof. intros. now apply scan_cap_visits. Qed.

(* ================= C. the standard collector ================= *)
Lemma fold_left_map {A B C} (g : C -> B -> C) (f : A -> B) l c :
  fold_left g (map f l) c = fold_left (fun c a => g c (f a)) l c.
Proof. revert c; induction l as [|a l IH]; intros c; [reflexivity|]. cbn [map fold_left]. apply IH. Qed.

(* for every stream: the collector is run over the Statistics of the scan, in order *)
Theorem collect_statistics_scan : forall sigma s sh,
  collect_statistics sigma s sh
  = (collect_all (map statistic_of_full (fst (scan sigma s sh))), snd (scan sigma s sh)).
Proof.
  intros. unfold collect_statistics, std_collect_one.
  rewrite (scan_collect_with_total bufreader (br_read_exact default_cap) collector
             (fun c s => collect_statistic c (statistic_of_full s))).
  unfold scan, scan_cap, scan_fuel, collect_all. rewrite fold_left_map. reflexivity.
Qed.

Theorem collect_statistics_messages : forall sigma ms sh,
  Forall (fun m => wf_message m = true /\ has_storage m = sh) ms ->
  collect_statistics sigma (flat_map message_bytes ms) sh = (collect_messages ms, ScanOk).
Proof.
  intros sigma ms sh Hall. rewrite collect_statistics_scan, (scan_visits sigma ms sh Hall). cbn [fst snd].
  unfold collect_messages. rewrite map_map.
  rewrite (map_ext _ _ statistic_of_full_of_message). reflexivity.
Qed.

(* ... which is the independent tally (StatsProofs.collect_all_tally = c10_tally) *)
Theorem collect_statistics_tally : forall sigma ms sh,
  Forall (fun m => wf_message m = true /\ has_storage m = sh) ms ->
  let l := map statistic_of_message ms in
  let r := collect_statistics sigma (flat_map message_bytes ms) sh in
  snd r = ScanOk /\
  (forall k, NoDup (keys (map_of k (fst r)))) /\
  (forall k id,
     match lookup (map_of k (fst r)) id with
     | Some d => key_present k id l = true /\ forall b, ld_get b d = tally_lookup k id b l
     | None => key_present k id l = false
     end) /\
  si_non_verbose (fst r) = non_verbose_spec l.
Proof.
  intros sigma ms sh Hall. cbv zeta. rewrite (collect_statistics_messages sigma ms sh Hall). cbn [fst snd].
  split; [reflexivity|]. apply collect_all_tally.
Qed.
