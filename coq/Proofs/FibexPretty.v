(* FibexPretty.v — the FIBEX loader is insensitive to the padding of Spec/FibexPretty.v (C11b). *)
From Coq Require Import Lia ZifyBool ZifyN ZifyNat.
From Coq.Strings Require Import Ascii String.
From DltV.Model Require Import Bytes RustInt Dlt Fibex.
From DltV.Spec Require Import FibexSpec FibexPretty.
From Coq Require Import Sorting.Permutation.
From DltV.Proofs Require Import BytesBasics FibexTerm FibexLookup FibexDenote FibexLoad FibexOrder.
Open Scope N_scope.

(* ========================================================================================== *)
(* layer 1: inert events and attribute enrichment, arbitrary event lists                        *)
(* ========================================================================================== *)

(* the step result with the pending events replaced *)
Definition retarget (l : list xevent) (s : step) : step :=
  match s with
  | SCont r => SCont (set_events l r)
  | SRet e r => SRet e (set_events l r)
  | SErr => SErr
  | SPanic => SPanic
  end.

Definition step_events (s : step) : option (list xevent) :=
  match s with
  | SCont r => Some (r_events r)
  | SRet _ r => Some (r_events r)
  | _ => None
  end.

Lemma inert_step e l r :
  inert e = true -> r_events r = e :: l -> read_event_step r = SCont (set_events l r).
Proof.
  intros Hi He. unfold read_event_step. rewrite He.
  destruct e as [n a|n a|n|t| |]; cbn [inert] in Hi; try reflexivity; try discriminate.
  - unfold start_arm. destruct (classify n); try discriminate; reflexivity.
  - unfold empty_arm. destruct (classify n); try discriminate; reflexivity.
  - unfold end_arm. destruct (classify n); try discriminate; reflexivity.
Qed.

Lemma same_attrs_id a a' : same_attrs a a' -> id_attr a = id_attr a'.
Proof. intros (H & _ & _). unfold id_attr, attr. rewrite H. reflexivity. Qed.
Lemma same_attrs_id_ref a a' : same_attrs a a' -> id_ref_attr a = id_ref_attr a'.
Proof. intros (_ & H & _). unfold id_ref_attr, attr. rewrite H. reflexivity. Qed.
Lemma same_attrs_base a a' : same_attrs a a' -> attr a B_BASE_DATA_TYPE = attr a' B_BASE_DATA_TYPE.
Proof. intros (_ & _ & H). unfold attr. rewrite H. reflexivity. Qed.

Lemma same_attrs_refl a : same_attrs a a.
Proof. repeat split. Qed.

Ltac open_r r := destruct r as [evs f1 f2 f3 f4 f5 f6 f7 f8 f9 f10 f11 f12].

(* a Start event that does not read ahead *)
Lemma start_arm_retarget n a a' l l' x r :
  same_attrs a a' -> reads_next_tag (classify n) = false ->
  start_arm n a' l' (set_events x r) = retarget l' (start_arm n a l r) /\
  (forall evs, step_events (start_arm n a l r) = Some evs -> evs = l).
Proof.
  intros Hs Hr. unfold start_arm.
  rewrite <- (same_attrs_id a a' Hs), <- (same_attrs_id_ref a a' Hs), <- (same_attrs_base a a' Hs).
  open_r r.
  destruct (classify n); try discriminate Hr;
    try (destruct (id_attr a); (split; [reflexivity|cbn; intros ? [=]; congruence]));
    try (destruct (id_ref_attr a); (split; [reflexivity|cbn; intros ? [=]; congruence]));
    try (destruct (attr a B_BASE_DATA_TYPE); (split; [reflexivity|cbn; intros ? [=]; congruence]));
    (split; [reflexivity|cbn; intros ? [=]; congruence]).
Qed.

Lemma empty_arm_retarget n a a' l l' x r :
  same_attrs a a' ->
  empty_arm n a' l' (set_events x r) = retarget l' (empty_arm n a l r) /\
  (forall evs, step_events (empty_arm n a l r) = Some evs -> evs = l).
Proof.
  intros Hs. unfold empty_arm.
  rewrite <- (same_attrs_id_ref a a' Hs), <- (same_attrs_base a a' Hs).
  open_r r.
  destruct (classify n);
    try (destruct (id_ref_attr a); (split; [reflexivity|cbn; intros ? [=]; congruence]));
    try (destruct (attr a B_BASE_DATA_TYPE); (split; [reflexivity|cbn; intros ? [=]; congruence]));
    (split; [reflexivity|cbn; intros ? [=]; congruence]).
Qed.

Lemma end_arm_retarget n l l' x r :
  end_arm n l' (set_events x r) = retarget l' (end_arm n l r) /\
  (forall evs, step_events (end_arm n l r) = Some evs -> evs = l).
Proof.
  unfold end_arm. open_r r. cbn [set_events r_events r_short_name r_description r_byte_length r_type r_id
    r_sequence_number r_ref r_application_id r_context_id r_message_type r_message_info r_base_data_type].
  destruct (classify n);
    repeat match goal with
           | |- context [need ?o _] => destruct o; cbn [need]
           end;
    (split; [reflexivity|cbn; intros ? [=]; congruence]).
Qed.

(* a Start event whose arm consumes the next XML event [x] *)
Lemma start_arm_text_retarget n a a' x l l' y r :
  reads_next_tag (classify n) = true ->
  start_arm n a' (x :: l') (set_events y r) = retarget l' (start_arm n a (x :: l) r) /\
  (forall evs, step_events (start_arm n a (x :: l) r) = Some evs -> evs = l).
Proof.
  intros Hr. unfold start_arm, text_into, usize_into, read_usize. open_r r.
  destruct (classify n); try discriminate Hr;
    destruct x as [xn xa|xn xa|xn|[t|]| |]; cbn [read_text];
    try (destruct (usize_from_str t));
    (split; [reflexivity|cbn; intros ? [=]; congruence]).
Qed.

Lemma start_arm_text_end_retarget n a a' y r :
  reads_next_tag (classify n) = true ->
  start_arm n a' [] (set_events y r) = retarget [] (start_arm n a [] r) /\
  (forall evs, step_events (start_arm n a [] r) = Some evs -> evs = []).
Proof.
  intros Hr. unfold start_arm, text_into, usize_into, read_usize. open_r r.
  destruct (classify n); try discriminate Hr; cbn [read_text];
    (split; [reflexivity|cbn; intros ? [=]; congruence]).
Qed.

(* ---------- readers that differ only in the pending events ---------- *)
Definition fields_eq (r r' : reader) : Prop := set_events [] r = set_events [] r'.

Lemma fields_eq_set r r' : fields_eq r r' -> r' = set_events (r_events r') r.
Proof.
  unfold fields_eq. open_r r. destruct r' as [evs' g1 g2 g3 g4 g5 g6 g7 g8 g9 g10 g11 g12].
  cbn. intros [=]. subst. reflexivity.
Qed.
Lemma fields_eq_set_events l r : fields_eq r (set_events l r).
Proof. open_r r. reflexivity. Qed.
Lemma fields_eq_refl r : fields_eq r r.
Proof. reflexivity. Qed.
Lemma set_events_events l r : r_events (set_events l r) = l.
Proof. reflexivity. Qed.

Lemma ev_sim_reads_next e e' : ev_sim e e' -> reads_next e' = reads_next e.
Proof. intros H. destruct H; reflexivity. Qed.

Lemma keep_step e e' l l' r r' :
  ev_sim e e' -> reads_next e = false ->
  r_events r = e :: l -> r_events r' = e' :: l' -> fields_eq r r' ->
  read_event_step r' = retarget l' (read_event_step r) /\
  (forall evs, step_events (read_event_step r) = Some evs -> evs = l).
Proof.
  intros Hs Hr He He' Hf. rewrite (fields_eq_set r r' Hf), He'.
  unfold read_event_step. cbn [set_events r_events]. rewrite He.
  destruct Hs as [e|n a a' Ha|n a a' Ha].
  - destruct e as [n a|n a|n|t| |].
    + apply start_arm_retarget; [apply same_attrs_refl|exact Hr].
    + apply empty_arm_retarget. apply same_attrs_refl.
    + apply end_arm_retarget.
    + split; [reflexivity|cbn; intros ? [=]; congruence].
    + split; [reflexivity|cbn; intros ? [=]; congruence].
    + split; [reflexivity|cbn; intros ? [=]].
  - apply start_arm_retarget; [exact Ha|exact Hr].
  - apply empty_arm_retarget. exact Ha.
Qed.

Lemma text_step e e' x l l' r r' :
  ev_sim e e' -> reads_next e = true ->
  r_events r = e :: x :: l -> r_events r' = e' :: x :: l' -> fields_eq r r' ->
  read_event_step r' = retarget l' (read_event_step r) /\
  (forall evs, step_events (read_event_step r) = Some evs -> evs = l).
Proof.
  intros Hs Hr He He' Hf. rewrite (fields_eq_set r r' Hf), He'.
  unfold read_event_step. cbn [set_events r_events]. rewrite He.
  destruct Hs as [e|n a a' Ha|n a a' Ha]; [destruct e as [n a|n a|n|t| |]; try discriminate Hr| |discriminate Hr];
    apply start_arm_text_retarget; exact Hr.
Qed.

Lemma text_end_step e e' r r' :
  ev_sim e e' -> reads_next e = true ->
  r_events r = [e] -> r_events r' = [e'] -> fields_eq r r' ->
  read_event_step r' = retarget [] (read_event_step r) /\
  (forall evs, step_events (read_event_step r) = Some evs -> evs = []).
Proof.
  intros Hs Hr He He' Hf. rewrite (fields_eq_set r r' Hf), He'.
  unfold read_event_step. cbn [set_events r_events]. rewrite He.
  destruct Hs as [e|n a a' Ha|n a a' Ha]; [destruct e as [n a|n a|n|t| |]; try discriminate Hr| |discriminate Hr];
    apply start_arm_text_end_retarget; exact Hr.
Qed.

(* ---------- read_event ---------- *)
Definition rsim (r r' : reader) : Prop := fields_eq r r' /\ pad0 (r_events r) (r_events r').

Definition ev_res_sim (a b : res (event * reader)) : Prop :=
  match a, b with
  | ROk (e, r1), ROk (e', r1') => e = e' /\ rsim r1 r1'
  | RErr, RErr => True
  | _, _ => False
  end.

(* one simulated step, given the two step lemmas' conclusion *)
Lemma read_event_sim_step l l' r r' ef ef' :
  (forall r1 r1' ef1 ef1', r_events r1 = l -> r_events r1' = l' -> fields_eq r1 r1' ->
     (length l < ef1)%nat -> (length l' < ef1')%nat ->
     ev_res_sim (read_event ef1 r1) (read_event ef1' r1')) ->
  pad0 l l' ->
  r_events r <> [] ->
  read_event_step r' = retarget l' (read_event_step r) ->
  (forall evs, step_events (read_event_step r) = Some evs -> evs = l) ->
  (length l < ef)%nat -> (length l' < ef')%nat ->
  ev_res_sim (read_event (S ef) r) (read_event (S ef') r').
Proof.
  intros IH Hp Hne Hst Hev Hef Hef'. cbn [read_event]. rewrite Hst.
  pose proof (read_event_step_ok r) as Hok.
  destruct (r_events r) as [|e0 l0] eqn:E0; [contradiction|].
  destruct (read_event_step r) as [r1|e1 r1| |]; cbn [retarget].
  - specialize (Hev _ eq_refl).
    apply IH; [exact Hev|reflexivity|apply fields_eq_set_events|exact Hef|exact Hef'].
  - specialize (Hev _ eq_refl). cbn [ev_res_sim]. split; [reflexivity|].
    split; [apply fields_eq_set_events|]. cbn [set_events r_events]. rewrite Hev. exact Hp.
  - exact I.
  - exact Hok.
Qed.

Lemma read_event_sim : forall l l', pad0 l l' ->
  forall r r' ef ef', r_events r = l -> r_events r' = l' -> fields_eq r r' ->
  (length l < ef)%nat -> (length l' < ef')%nat ->
  ev_res_sim (read_event ef r) (read_event ef' r').
Proof.
  induction 1 as [|e l l' Hi Hp IH|e e' l l' Hs Hr Hp IH|e e' x l l' Hs Hr Hp IH|e e' Hs Hr];
    intros r r' ef ef' He He' Hf Hef Hef'.
  - destruct ef as [|ef]; [cbn in Hef; lia|]. destruct ef' as [|ef']; [cbn in Hef'; lia|].
    rewrite (read_event_eof ef r He), (read_event_eof ef' r' He').
    cbn. split; [reflexivity|]. split; [exact Hf|]. rewrite He, He'. constructor.
  - rewrite (read_event_cont ef' r' (set_events l' r') (inert_step e l' r' Hi He')) by (rewrite He'; exact Hef').
    apply IH; [exact He|reflexivity| |exact Hef|cbn [length] in Hef'; lia].
    unfold fields_eq in *. rewrite Hf. open_r r'. reflexivity.
  - destruct ef as [|ef]; [cbn in Hef; lia|]. destruct ef' as [|ef']; [cbn in Hef'; lia|].
    destruct (keep_step e e' l l' r r' Hs Hr He He' Hf) as [Hst Hev].
    apply (read_event_sim_step l l'); try assumption; cbn [length] in *; try lia.
    rewrite He. discriminate.
  - destruct ef as [|ef]; [cbn in Hef; lia|]. destruct ef' as [|ef']; [cbn in Hef'; lia|].
    destruct (text_step e e' x l l' r r' Hs Hr He He' Hf) as [Hst Hev].
    apply (read_event_sim_step l l'); try assumption; cbn [length] in *; try lia.
    rewrite He. discriminate.
  - destruct ef as [|ef]; [cbn in Hef; lia|]. destruct ef' as [|ef']; [cbn in Hef'; lia|].
    destruct (text_end_step e e' r r' Hs Hr He He' Hf) as [Hst Hev].
    apply (read_event_sim_step [] []); try assumption; cbn [length] in *; try lia.
    + intros r1 r1' [|ef1] [|ef1'] H1 H1' Hf1 Hl Hl'; try (cbn in Hl, Hl'; lia).
      rewrite (read_event_eof ef1 r1 H1), (read_event_eof ef1' r1' H1').
      cbn. split; [reflexivity|]. split; [exact Hf1|]. rewrite H1, H1'. constructor.
    + constructor.
    + rewrite He. discriminate.
Qed.

Lemma read_event_rsim r r' ef ef' :
  rsim r r' -> (length (r_events r) < ef)%nat -> (length (r_events r') < ef')%nat ->
  ev_res_sim (read_event ef r) (read_event ef' r').
Proof. intros [Hf Hp] H1 H2. eapply read_event_sim; eauto. Qed.

Lemma read_event_sim_cases r r' ef ef' :
  rsim r r' -> (length (r_events r) < ef)%nat -> (length (r_events r') < ef')%nat ->
  (read_event ef r = RErr /\ read_event ef' r' = RErr) \/
  (exists e r1 r1', read_event ef r = ROk (e, r1) /\ read_event ef' r' = ROk (e, r1') /\ rsim r1 r1' /\
     (e <> EEof -> (length (r_events r1) < length (r_events r))%nat /\
                   (length (r_events r1') < length (r_events r'))%nat)).
Proof.
  intros Hs H1 H2. pose proof (read_event_rsim r r' ef ef' Hs H1 H2) as H.
  destruct (read_event ef r) as [[e r1]| | |] eqn:E; destruct (read_event ef' r') as [[e' r1']| | |] eqn:E';
    cbn in H; try contradiction.
  - destruct H as [<- Hs1]. right. exists e, r1, r1'.
    split; [reflexivity|]. split; [reflexivity|]. split; [exact Hs1|]. intros Hne. split.
    + apply read_event_ok_len in E. apply E. exact Hne.
    + apply read_event_ok_len in E'. apply E'. exact Hne.
  - left. split; reflexivity.
Qed.

(* ---------- the three loops ---------- *)
Definition loop_res_sim {A} (a b : res (A * reader)) : Prop :=
  match a, b with
  | ROk (p, r1), ROk (p', r1') => p = p' /\ rsim r1 r1'
  | RErr, RErr => True
  | _, _ => False
  end.

Lemma read_pdu_loop_sim : forall fuel fuel' ef ef' r r' acc,
  rsim r r' ->
  (length (r_events r) < ef)%nat -> (length (r_events r') < ef')%nat ->
  (length (r_events r) < fuel)%nat -> (length (r_events r') < fuel')%nat ->
  loop_res_sim (read_pdu_loop ef fuel r acc) (read_pdu_loop ef' fuel' r' acc).
Proof.
  induction fuel as [|f IH]; intros fuel' ef ef' r r' acc Hs He He' Hf Hf'; [lia|].
  destruct fuel' as [|f']; [lia|]. cbn [read_pdu_loop].
  destruct (read_event_sim_cases r r' ef ef' Hs He He') as [[E E']|(e & r1 & r1' & E & E' & Hs1 & Hl)];
    rewrite E, E'; [exact I|].
  destruct e; try (destruct (Hl ltac:(discriminate)) as [Hl1 Hl2]; apply IH; [exact Hs1|lia..]).
  - cbn. split; [reflexivity|exact Hs1].
  - exact I.
Qed.

Lemma read_frame_loop_sim : forall fuel fuel' ef ef' r r' acc ext,
  rsim r r' ->
  (length (r_events r) < ef)%nat -> (length (r_events r') < ef')%nat ->
  (length (r_events r) < fuel)%nat -> (length (r_events r') < fuel')%nat ->
  loop_res_sim (read_frame_loop ef fuel r acc ext) (read_frame_loop ef' fuel' r' acc ext).
Proof.
  induction fuel as [|f IH]; intros fuel' ef ef' r r' acc ext Hs He He' Hf Hf'; [lia|].
  destruct fuel' as [|f']; [lia|]. cbn [read_frame_loop].
  destruct (read_event_sim_cases r r' ef ef' Hs He He') as [[E E']|(e & r1 & r1' & E & E' & Hs1 & Hl)];
    rewrite E, E'; [exact I|].
  destruct e; try (destruct (Hl ltac:(discriminate)) as [Hl1 Hl2]; apply IH; [exact Hs1|lia..]).
  - destruct ext as [[[c a] t] i]. cbn. split; [reflexivity|exact Hs1].
  - exact I.
Qed.

Lemma read_file_loop_sim : forall fuel fuel' ef ef' r r' g,
  rsim r r' ->
  (length (r_events r) < ef)%nat -> (length (r_events r') < ef')%nat ->
  (length (r_events r) < fuel)%nat -> (length (r_events r') < fuel')%nat ->
  read_file_loop ef' fuel' r' g = read_file_loop ef fuel r g.
Proof.
  induction fuel as [|f IH]; intros fuel' ef ef' r r' g Hs He He' Hf Hf'; [lia|].
  destruct fuel' as [|f']; [lia|]. cbn [read_file_loop].
  destruct (read_event_sim_cases r r' ef ef' Hs He He') as [[E E']|(e & r1 & r1' & E & E' & Hs1 & Hl)];
    rewrite E, E'; [reflexivity|].
  destruct e; try reflexivity;
    try (destruct (Hl ltac:(discriminate)) as [Hl1 Hl2]; apply IH; [exact Hs1|lia..]).
  - (* PDU *)
    destruct (Hl ltac:(discriminate)) as [Hl1 Hl2]. unfold read_pdu.
    pose proof (read_pdu_loop_sim ef ef' ef ef' r1 r1' [] Hs1 ltac:(lia) ltac:(lia) ltac:(lia) ltac:(lia)) as Hp.
    destruct (read_pdu_loop ef ef r1 []) as [[p r2]| | |] eqn:P;
      destruct (read_pdu_loop ef' ef' r1' []) as [[p' r2']| | |] eqn:P'; cbn in Hp; try contradiction;
      [|reflexivity].
    destruct Hp as [<- Hs2].
    apply read_pdu_loop_ok_len in P. apply read_pdu_loop_ok_len in P'.
    apply IH; [exact Hs2|lia..].
  - (* FRAME *)
    destruct (Hl ltac:(discriminate)) as [Hl1 Hl2]. unfold read_frame.
    pose proof (read_frame_loop_sim ef ef' ef ef' r1 r1' [] (None, None, None, None) Hs1
                  ltac:(lia) ltac:(lia) ltac:(lia) ltac:(lia)) as Hp.
    destruct (read_frame_loop ef ef r1 [] (None, None, None, None)) as [[p r2]| | |] eqn:P;
      destruct (read_frame_loop ef' ef' r1' [] (None, None, None, None)) as [[p' r2']| | |] eqn:P';
      cbn in Hp; try contradiction; [|reflexivity].
    destruct Hp as [<- Hs2].
    apply read_frame_loop_ok_len in P. apply read_frame_loop_ok_len in P'.
    apply IH; [exact Hs2|lia..].
Qed.

(* ---------- files, loader ---------- *)
Lemma read_files_sim : forall files files', Forall2 xfile_pad0 files files' ->
  forall ef ef' g, (max_events files < ef)%nat -> (max_events files' < ef')%nat ->
  read_files ef' files' g = read_files ef files g.
Proof.
  induction 1 as [|f f' t t' Hf Ht IH]; intros ef ef' g He He'; [reflexivity|].
  cbn [max_events] in He, He'. cbn [read_files].
  destruct Hf as [|l l' Hp]; [reflexivity|]. cbn [file_events] in He, He'.
  rewrite (read_file_loop_sim ef ef' ef ef' (reader_from_events l) (reader_from_events l') g);
    cbn [reader_from_events r_events]; try lia.
  - destruct (read_file_loop ef ef _ g); try reflexivity. apply IH; lia.
  - split; [reflexivity|exact Hp].
Qed.

Theorem pad0_load files files' : Forall2 xfile_pad0 files files' -> load files' = load files.
Proof.
  intros H. unfold load, load_fuel, read_fibexes.
  destruct H as [|f f' t t' Hf Ht]; [reflexivity|].
  rewrite (read_files_sim (f :: t) (f' :: t') (Forall2_cons _ _ Hf Ht)
             (fuel_bound (f :: t)) (fuel_bound (f' :: t')) gathered_empty).
  - reflexivity.
  - pose proof (max_events_le_total (f :: t)). unfold fuel_bound. lia.
  - pose proof (max_events_le_total (f' :: t')). unfold fuel_bound. lia.
Qed.

(* ---------- layer 1: derived forms ---------- *)
Lemma pad0_refl : forall l, pad0 l l.
Proof.
  fix IH 1. intros [|e l]; [constructor|].
  destruct (reads_next e) eqn:Hr.
  - destruct l as [|x l]; [apply pad0_text_end; [constructor|exact Hr]|].
    apply pad0_text; [constructor|exact Hr|apply IH].
  - apply pad0_keep; [constructor|exact Hr|apply IH].
Qed.

Lemma pad0_ins_list j l l' : Forall (fun e => inert e = true) j -> pad0 l l' -> pad0 l (j ++ l').
Proof. induction 1 as [|e j He _ IH]; intros Hp; [exact Hp|]. cbn [app]. apply pad0_ins; auto. Qed.

Lemma inert_forest_inert l : inert_forest l -> Forall (fun e => inert e = true) l.
Proof.
  induction 1 as [|t l _ IH|l _ IH|n a l Hn _ IH|n a body l Hn _ IHb _ IH].
  - constructor.
  - constructor; [reflexivity|exact IH].
  - constructor; [reflexivity|exact IH].
  - constructor; [cbn [inert]; rewrite Hn; reflexivity|exact IH].
  - constructor; [cbn [inert]; rewrite Hn; reflexivity|].
    apply Forall_app. split; [exact IHb|].
    constructor; [cbn [inert]; rewrite Hn; reflexivity|exact IH].
Qed.

(* balanced unrecognised elements, text and comments may go wherever an inert event may *)
Lemma pad0_ins_forest j l l' : inert_forest j -> pad0 l l' -> pad0 l (j ++ l').
Proof. intros Hj. apply pad0_ins_list, inert_forest_inert, Hj. Qed.

(* ========================================================================================== *)
(* layer 2: noise between top-level elements and inside SIGNAL / CODING                          *)
(* ========================================================================================== *)
Definition keeps3 (r r' : reader) : Prop :=
  r_id r' = r_id r /\ r_ref r' = r_ref r /\ r_base_data_type r' = r_base_data_type r.

Lemma keeps3_refl r : keeps3 r r.
Proof. repeat split. Qed.
Lemma keeps3_trans r1 r2 r3 : keeps3 r1 r2 -> keeps3 r2 r3 -> keeps3 r1 r3.
Proof. unfold keeps3. intros (A & B & C) (D & E & F). repeat split; congruence. Qed.

Ltac open_ev r He :=
  destruct r as [evs f1 f2 f3 f4 f5 f6 f7 f8 f9 f10 f11 f12]; cbn [r_events] in He; subst evs.

Lemma noise_text_step n a t l r :
  text_tag (classify n) = true -> r_events r = XStart n a :: XText (Some t) :: l ->
  exists r1, read_event_step r = SCont r1 /\ r_events r1 = l /\ keeps3 r r1.
Proof.
  intros Ht He. open_ev r He. unfold read_event_step, start_arm. cbn [r_events].
  destruct (classify n); try discriminate Ht; eexists; (split; [reflexivity|]); repeat split.
Qed.

Lemma noise_num_step n a t v l r :
  num_tag (classify n) = true -> usize_from_str t = Some v ->
  r_events r = XStart n a :: XText (Some t) :: l ->
  exists r1, read_event_step r = SCont r1 /\ r_events r1 = l /\ keeps3 r r1.
Proof.
  intros Ht Hv He. open_ev r He. unfold read_event_step, start_arm, usize_into, read_usize.
  cbn [r_events read_text]. rewrite Hv.
  destruct (classify n); try discriminate Ht; eexists; (split; [reflexivity|]); repeat split.
Qed.

Lemma noise_desc_step n a x l r :
  classify n = T_DESC -> r_events r = XStart n a :: x :: l ->
  exists r1, read_event_step r = SCont r1 /\ r_events r1 = l /\ keeps3 r r1.
Proof.
  intros Ht He. open_ev r He. unfold read_event_step, start_arm. cbn [r_events]. rewrite Ht.
  destruct x as [xn xa|xn xa|xn|[t|]| |]; cbn [read_text];
    eexists; (split; [reflexivity|]); repeat split.
Qed.

Lemma noise_ext_start_step n a l r :
  classify n = T_MANUFACTURER_EXTENSION -> r_events r = XStart n a :: l ->
  exists r1, read_event_step r = SCont r1 /\ r_events r1 = l /\ keeps3 r r1.
Proof.
  intros Ht He. open_ev r He. unfold read_event_step, start_arm. cbn [r_events]. rewrite Ht.
  eexists; (split; [reflexivity|]); repeat split.
Qed.

Lemma noise_ext_end_step n l r :
  classify n = T_MANUFACTURER_EXTENSION -> r_events r = XEnd n :: l ->
  exists mt mi ap cx r1, read_event_step r = SRet (EManufacturerExtension mt mi ap cx) r1 /\
                         r_events r1 = l /\ keeps3 r r1.
Proof.
  intros Ht He. open_ev r He. unfold read_event_step, end_arm. cbn [r_events]. rewrite Ht.
  do 5 eexists; (split; [reflexivity|]); repeat split.
Qed.

Lemma read_file_loop_silent ef fuel r r' g :
  silent r r' -> (length (r_events r) < ef)%nat ->
  read_file_loop ef fuel r g = read_file_loop ef fuel r' g.
Proof.
  intros Hs Hlen. destruct fuel as [|f]; [reflexivity|].
  cbn [read_file_loop]. rewrite (silent_read_event ef r r' Hs Hlen). reflexivity.
Qed.

Lemma read_file_loop_cont ef fuel r r' g :
  read_event_step r = SCont r' -> (length (r_events r) < ef)%nat ->
  read_file_loop ef fuel r g = read_file_loop ef fuel r' g.
Proof.
  intros H. apply read_file_loop_silent. eapply silent_step; [exact H|apply silent_refl].
Qed.

Lemma read_file_loop_ext ef fuel r r' mt mi ap cx g :
  read_event_step r = SRet (EManufacturerExtension mt mi ap cx) r' ->
  (length (r_events r) < ef)%nat -> (length (r_events r) < fuel)%nat ->
  read_file_loop ef fuel r g = read_file_loop ef fuel r' g.
Proof.
  intros H Hef Hf. pose proof (step_ret_len r _ r' H ltac:(discriminate)) as Hl.
  destruct fuel as [|f]; [lia|].
  assert (E : read_file_loop ef (S f) r g = read_file_loop ef f r' g).
  { cbn [read_file_loop]. rewrite (read_event_ret ef r _ r' H ltac:(lia)). reflexivity. }
  rewrite E. apply read_file_loop_fuel; lia.
Qed.

Lemma noise_run : forall n, noise n ->
  forall r rest g ef fuel,
  r_events r = n ++ rest ->
  (length (r_events r) < ef)%nat -> (length (r_events r) < fuel)%nat ->
  exists r', r_events r' = rest /\ keeps3 r r' /\
             read_file_loop ef fuel r g = read_file_loop ef fuel r' g.
Proof.
  induction 1 as [|e l Hi _ IH|n a t l Ht _ IH|n a t v l Ht Hv _ IH|n a x l Ht _ IH|n a l Ht _ IH|n l Ht _ IH];
    intros r rest g ef fuel He Hef Hf.
  - exists r. split; [exact He|]. split; [apply keeps3_refl|reflexivity].
  - pose proof (inert_step e (l ++ rest) r Hi He) as Hst.
    pose proof (step_cont_len r _ Hst) as Hl.
    destruct (IH (set_events (l ++ rest) r) rest g ef fuel eq_refl ltac:(lia) ltac:(lia))
      as (r' & He' & Hk & Hrun).
    exists r'. split; [exact He'|]. split; [|rewrite <- Hrun; apply read_file_loop_cont; assumption].
    eapply keeps3_trans; [|exact Hk]. open_r r. repeat split.
  - destruct (noise_text_step n a t (l ++ rest) r Ht He) as (r1 & Hst & He1 & Hk1).
    pose proof (step_cont_len r r1 Hst) as Hl.
    destruct (IH r1 rest g ef fuel He1 ltac:(lia) ltac:(lia)) as (r' & He' & Hk & Hrun).
    exists r'. split; [exact He'|]. split; [eapply keeps3_trans; eassumption|].
    rewrite <- Hrun. apply read_file_loop_cont; assumption.
  - destruct (noise_num_step n a t v (l ++ rest) r Ht Hv He) as (r1 & Hst & He1 & Hk1).
    pose proof (step_cont_len r r1 Hst) as Hl.
    destruct (IH r1 rest g ef fuel He1 ltac:(lia) ltac:(lia)) as (r' & He' & Hk & Hrun).
    exists r'. split; [exact He'|]. split; [eapply keeps3_trans; eassumption|].
    rewrite <- Hrun. apply read_file_loop_cont; assumption.
  - destruct (noise_desc_step n a x (l ++ rest) r Ht He) as (r1 & Hst & He1 & Hk1).
    pose proof (step_cont_len r r1 Hst) as Hl.
    destruct (IH r1 rest g ef fuel He1 ltac:(lia) ltac:(lia)) as (r' & He' & Hk & Hrun).
    exists r'. split; [exact He'|]. split; [eapply keeps3_trans; eassumption|].
    rewrite <- Hrun. apply read_file_loop_cont; assumption.
  - destruct (noise_ext_start_step n a (l ++ rest) r Ht He) as (r1 & Hst & He1 & Hk1).
    pose proof (step_cont_len r r1 Hst) as Hl.
    destruct (IH r1 rest g ef fuel He1 ltac:(lia) ltac:(lia)) as (r' & He' & Hk & Hrun).
    exists r'. split; [exact He'|]. split; [eapply keeps3_trans; eassumption|].
    rewrite <- Hrun. apply read_file_loop_cont; assumption.
  - destruct (noise_ext_end_step n (l ++ rest) r Ht He) as (mt & mi & ap & cx & r1 & Hst & He1 & Hk1).
    pose proof (step_ret_len r _ r1 Hst ltac:(discriminate)) as Hl.
    destruct (IH r1 rest g ef fuel He1 ltac:(lia) ltac:(lia)) as (r' & He' & Hk & Hrun).
    exists r'. split; [exact He'|]. split; [eapply keeps3_trans; eassumption|].
    rewrite <- Hrun. eapply read_file_loop_ext; eassumption.
Qed.

Lemma noise_app a b : noise a -> noise b -> noise (a ++ b).
Proof. induction 1; intros Hb; cbn [app]; try (econstructor; eauto; fail). exact Hb. Qed.

(* ---------- single steps of the padded SIGNAL / CODING elements ---------- *)
Lemma signal_start_step id l r :
  r_events r = XStart (bs "SIGNAL") [id_attr_of id] :: l ->
  exists r1, read_event_step r = SCont r1 /\ r_events r1 = l /\ r_id r1 = Some id.
Proof. intros He. open_ev r He. eexists. split; [step_compute|]. split; reflexivity. Qed.

Lemma coding_ref_step cr l r :
  r_events r = XEmpty (bs "CODING-REF") [id_ref_attr_of cr] :: l ->
  exists r1, read_event_step r = SCont r1 /\ r_events r1 = l /\ r_id r1 = r_id r /\ r_ref r1 = Some cr.
Proof. intros He. open_ev r He. eexists. split; [step_compute|]. repeat split. Qed.

Lemma signal_end_step id cr l r :
  r_events r = XEnd (bs "SIGNAL") :: l -> r_id r = Some id -> r_ref r = Some cr ->
  exists r1, read_event_step r = SRet (ESignal id cr) r1 /\ r_events r1 = l.
Proof.
  intros He Hi Hr. open_ev r He. cbn [r_id r_ref] in Hi, Hr. subst.
  eexists. split; [step_compute|reflexivity].
Qed.

Lemma coding_start_step id l r :
  r_events r = XStart (bs "CODING") [id_attr_of id] :: l ->
  exists r1, read_event_step r = SCont r1 /\ r_events r1 = l /\ r_id r1 = Some id.
Proof. intros He. open_ev r He. eexists. split; [step_compute|]. split; reflexivity. Qed.

Lemma coded_type_step b l r :
  r_events r = XStart (bs "CODED-TYPE") [Attr (bs "ho:BASE-DATA-TYPE") (Some b)] :: l ->
  exists r1, read_event_step r = SCont r1 /\ r_events r1 = l /\ r_id r1 = r_id r /\
             r_base_data_type r1 = Some b.
Proof. intros He. open_ev r He. eexists. split; [step_compute|]. repeat split. Qed.

Lemma coding_end_step id b l r :
  r_events r = XEnd (bs "CODING") :: l -> r_id r = Some id -> r_base_data_type r = Some b ->
  exists r1, read_event_step r = SRet (ECoding id b) r1 /\ r_events r1 = l.
Proof.
  intros He Hi Hr. open_ev r He. cbn [r_id r_base_data_type] in Hi, Hr. subst.
  eexists. split; [step_compute|reflexivity].
Qed.

Lemma read_file_loop_signal ef fuel r r' id cr g :
  read_event_step r = SRet (ESignal id cr) r' ->
  (length (r_events r) < ef)%nat -> (length (r_events r) < fuel)%nat ->
  read_file_loop ef fuel r g = read_file_loop ef fuel r' (gather_step g (ElSignal id cr)).
Proof.
  intros H Hef Hf. pose proof (step_ret_len r _ r' H ltac:(discriminate)) as Hl.
  destruct fuel as [|f]; [lia|].
  assert (E : read_file_loop ef (S f) r g = read_file_loop ef f r' (gather_step g (ElSignal id cr))).
  { cbn [read_file_loop]. rewrite (read_event_ret ef r _ r' H ltac:(lia)). reflexivity. }
  rewrite E. apply read_file_loop_fuel; lia.
Qed.

Lemma read_file_loop_coding ef fuel r r' id b g :
  read_event_step r = SRet (ECoding id b) r' ->
  (length (r_events r) < ef)%nat -> (length (r_events r) < fuel)%nat ->
  read_file_loop ef fuel r g = read_file_loop ef fuel r' (gather_step g (ElCoding id b)).
Proof.
  intros H Hef Hf. pose proof (step_ret_len r _ r' H ltac:(discriminate)) as Hl.
  destruct fuel as [|f]; [lia|].
  assert (E : read_file_loop ef (S f) r g = read_file_loop ef f r' (gather_step g (ElCoding id b))).
  { cbn [read_file_loop]. rewrite (read_event_ret ef r _ r' H ltac:(lia)). reflexivity. }
  rewrite E. apply read_file_loop_fuel; lia.
Qed.

Lemma file_loop_signal_padded id cr n1 n2 r rest g ef fuel :
  noise n1 -> noise n2 ->
  r_events r = [XStart (bs "SIGNAL") [id_attr_of id]] ++ n1
               ++ [XEmpty (bs "CODING-REF") [id_ref_attr_of cr]] ++ n2
               ++ [XEnd (bs "SIGNAL")] ++ rest ->
  (length (r_events r) < ef)%nat -> (length (r_events r) < fuel)%nat ->
  exists r', r_events r' = rest /\
             read_file_loop ef fuel r g = read_file_loop ef fuel r' (gather_step g (ElSignal id cr)).
Proof.
  intros Hn1 Hn2 He Hef Hf. cbn [app] in He.
  destruct (signal_start_step id _ r He) as (r1 & S1 & E1 & I1).
  pose proof (step_cont_len r r1 S1) as L1.
  destruct (noise_run n1 Hn1 r1 _ g ef fuel E1 ltac:(lia) ltac:(lia)) as (r2 & E2 & (K2i & _ & _) & R2).
  assert (L2 : (length (r_events r2) <= length (r_events r1))%nat) by (rewrite E1, E2, !app_length; lia).
  destruct (coding_ref_step cr _ r2 E2) as (r3 & S3 & E3 & I3 & F3).
  pose proof (step_cont_len r2 r3 S3) as L3.
  destruct (noise_run n2 Hn2 r3 _ g ef fuel E3 ltac:(lia) ltac:(lia)) as (r4 & E4 & (K4i & K4r & _) & R4).
  assert (L4 : (length (r_events r4) <= length (r_events r3))%nat) by (rewrite E3, E4, !app_length; lia).
  destruct (signal_end_step id cr rest r4 E4 ltac:(congruence) ltac:(congruence)) as (r5 & S5 & E5).
  exists r5. split; [exact E5|].
  rewrite (read_file_loop_cont ef fuel r r1 g S1 Hef), R2,
          (read_file_loop_cont ef fuel r2 r3 g S3 ltac:(lia)), R4.
  apply read_file_loop_signal; [exact S5|lia|lia].
Qed.

Lemma file_loop_coding_padded id b n1 n2 n3 r rest g ef fuel :
  noise n1 -> noise n2 -> noise n3 ->
  r_events r = [XStart (bs "CODING") [id_attr_of id]] ++ n1
               ++ [XStart (bs "CODED-TYPE") [Attr (bs "ho:BASE-DATA-TYPE") (Some b)]] ++ n2
               ++ [XEnd (bs "CODED-TYPE")] ++ n3
               ++ [XEnd (bs "CODING")] ++ rest ->
  (length (r_events r) < ef)%nat -> (length (r_events r) < fuel)%nat ->
  exists r', r_events r' = rest /\
             read_file_loop ef fuel r g = read_file_loop ef fuel r' (gather_step g (ElCoding id b)).
Proof.
  intros Hn1 Hn2 Hn3 He Hef Hf.
  assert (Hn : noise (n2 ++ [XEnd (bs "CODED-TYPE")] ++ n3)).
  { apply noise_app; [exact Hn2|]. cbn [app]. apply noise_inert; [reflexivity|exact Hn3]. }
  assert (He0 : r_events r = XStart (bs "CODING") [id_attr_of id]
                 :: n1 ++ XStart (bs "CODED-TYPE") [Attr (bs "ho:BASE-DATA-TYPE") (Some b)]
                 :: (n2 ++ [XEnd (bs "CODED-TYPE")] ++ n3) ++ XEnd (bs "CODING") :: rest).
  { rewrite He. cbn [app]. rewrite <- !app_assoc. reflexivity. }
  clear He.
  destruct (coding_start_step id _ r He0) as (r1 & S1 & E1 & I1).
  pose proof (step_cont_len r r1 S1) as L1.
  destruct (noise_run n1 Hn1 r1 _ g ef fuel E1 ltac:(lia) ltac:(lia)) as (r2 & E2 & (K2i & _ & _) & R2).
  assert (L2 : (length (r_events r2) <= length (r_events r1))%nat) by (rewrite E1, E2, !app_length; lia).
  destruct (coded_type_step b _ r2 E2) as (r3 & S3 & E3 & I3 & F3).
  pose proof (step_cont_len r2 r3 S3) as L3.
  destruct (noise_run _ Hn r3 _ g ef fuel E3 ltac:(lia) ltac:(lia)) as (r4 & E4 & (K4i & _ & K4b) & R4).
  assert (L4 : (length (r_events r4) <= length (r_events r3))%nat) by (rewrite E3, E4, !app_length; lia).
  destruct (coding_end_step id b rest r4 E4 ltac:(congruence) ltac:(congruence)) as (r5 & S5 & E5).
  exists r5. split; [exact E5|].
  rewrite (read_file_loop_cont ef fuel r r1 g S1 Hef), R2,
          (read_file_loop_cont ef fuel r2 r3 g S3 ltac:(lia)), R4.
  apply read_file_loop_coding; [exact S5|lia|lia].
Qed.

(* ---------- a whole padded file ---------- *)
Lemma pad_element_run e evs r rest g ef fuel :
  pad_element e evs -> element_ok e = true ->
  r_events r = evs ++ rest ->
  (length (r_events r) < ef)%nat -> (length (r_events r) < fuel)%nat ->
  exists r', r_events r' = rest /\
             read_file_loop ef fuel r g = read_file_loop ef fuel r' (gather_step g e).
Proof.
  intros Hp Hok He Hef Hf.
  destruct Hp as [p|f|id cr n1 n2 Hn1 Hn2|id b n1 n2 n3 Hn1 Hn2 Hn3].
  - apply file_loop_pdu; assumption.
  - apply file_loop_frame; assumption.
  - apply file_loop_signal_padded with (n1 := n1) (n2 := n2); try assumption.
    rewrite He, <- !app_assoc. reflexivity.
  - apply file_loop_coding_padded with (n1 := n1) (n2 := n2) (n3 := n3); try assumption.
    rewrite He, <- !app_assoc. reflexivity.
Qed.

Lemma pad_elements_run : forall els mid, pad_elements els mid ->
  forall r g ef fuel, elements_ok els = true ->
  r_events r = mid ->
  (length (r_events r) < ef)%nat -> (length (r_events r) < fuel)%nat ->
  exists r', r_events r' = [] /\
             read_file_loop ef fuel r g = read_file_loop ef fuel r' (gathered_of els g).
Proof.
  induction 1 as [n Hn|n e evs t rest Hn He Ht IH]; intros r g ef fuel Hok Hev Hef Hf.
  - rewrite <- (app_nil_r n) in Hev.
    destruct (noise_run n Hn r [] g ef fuel Hev Hef Hf) as (r' & He' & _ & Hrun).
    exists r'. split; [exact He'|exact Hrun].
  - unfold elements_ok in Hok. cbn [forallb] in Hok. apply andb_true_iff in Hok. destruct Hok as [Hoke Hokt].
    destruct (noise_run n Hn r (evs ++ rest) g ef fuel Hev Hef Hf) as (r1 & E1 & _ & R1).
    assert (L1 : (length (r_events r1) <= length (r_events r))%nat) by (rewrite Hev, E1, !app_length; lia).
    destruct (pad_element_run e evs r1 rest g ef fuel He Hoke E1 ltac:(lia) ltac:(lia)) as (r2 & E2 & R2).
    assert (L2 : (length (r_events r2) <= length (r_events r1))%nat) by (rewrite E1, E2, !app_length; lia).
    destruct (IH r2 (gather_step g e) ef fuel Hokt E2 ltac:(lia) ltac:(lia)) as (r' & E' & R').
    exists r'. split; [exact E'|]. rewrite R1, R2, R'. reflexivity.
Qed.

Lemma file_loop_padded els mid g ef :
  pad_elements els mid -> elements_ok els = true -> (length mid < ef)%nat ->
  read_file_loop ef ef (reader_from_events mid) g = ROk (gathered_of els g).
Proof.
  intros Hp Hok Hef.
  destruct (pad_elements_run els mid Hp (reader_from_events mid) g ef ef Hok eq_refl Hef Hef)
    as (r' & He' & Hrun).
  rewrite Hrun. destruct ef as [|f]; [lia|].
  cbn [read_file_loop]. rewrite (read_event_eof f r' He'). reflexivity.
Qed.

(* ---------- all files ---------- *)
Definition mid_file (els : list element) (f : xfile) : Prop :=
  exists mid, f = FileEvents mid /\ pad_elements els mid.

Lemma read_files_padded : forall (l : layout) mids, Forall2 mid_file l mids ->
  forall g ef, elements_ok (concat l) = true -> (max_events mids < ef)%nat ->
  read_files ef mids g = ROk (gathered_of (concat l) g).
Proof.
  induction 1 as [|els f t mids (mid & -> & Hp) _ IH]; intros g ef Hok Hef; [reflexivity|].
  cbn [concat] in Hok. rewrite elements_ok_app in Hok. apply andb_true_iff in Hok.
  destruct Hok as [Hok1 Hok2].
  cbn [max_events file_events] in Hef. cbn [read_files concat].
  rewrite (file_loop_padded els mid g ef Hp Hok1 ltac:(lia)).
  rewrite gathered_of_app. apply IH; [exact Hok2|lia].
Qed.

Lemma load_mid (l : layout) mids :
  l <> [] -> Forall2 mid_file l mids -> elements_ok (concat l) = true ->
  load mids = match assemble (gathered_of (concat l) gathered_empty) with
              | Some m => Loaded m
              | None => Refused
              end.
Proof.
  intros Hne H Hok. unfold load, load_fuel, read_fibexes.
  destruct H as [|els f t mids' Hf Ht]; [contradiction|].
  rewrite (read_files_padded (els :: t) (f :: mids') (Forall2_cons _ _ Hf Ht) gathered_empty _ Hok).
  - destruct (assemble _); reflexivity.
  - pose proof (max_events_le_total (f :: mids')). unfold fuel_bound. lia.
Qed.

(* the canonical rendering is a (trivial) padding of itself *)
Lemma pad_element_render e : pad_element e (render_element e).
Proof.
  destruct e as [p|f|id cr|id b].
  - constructor.
  - constructor.
  - exact (pe_signal id cr [] [] noise_nil noise_nil).
  - exact (pe_coding id b [] [] [] noise_nil noise_nil noise_nil).
Qed.

Lemma pad_elements_render els : pad_elements els (flat_map render_element els).
Proof.
  induction els as [|e t IH]; [exact (pes_nil [] noise_nil)|].
  exact (pes_cons [] e _ t _ noise_nil (pad_element_render e) IH).
Qed.

Lemma pad_rendering_render els : pad_rendering els (flat_map render_element els).
Proof.
  exists (flat_map render_element els), (flat_map render_element els).
  split; [apply pad_elements_render|]. split; apply pad0_refl.
Qed.

Lemma file_pad_render (l : layout) : Forall2 file_pad l (files_of l).
Proof.
  induction l as [|els t IH]; [constructor|].
  cbn [files_of map]. constructor; [|exact IH]. constructor. apply pad_rendering_render.
Qed.

Lemma file_pad_split : forall (l : layout) files', Forall2 file_pad l files' ->
  exists mids cores, Forall2 mid_file l mids /\ Forall2 xfile_pad0 cores mids /\
                     Forall2 xfile_pad0 cores files'.
Proof.
  induction 1 as [|els f t files' Hf _ (mids & cores & H1 & H2 & H3)];
    [exists [], []; repeat split; constructor|].
  destruct Hf as [els evs' (mid & core & Hp & Hp1 & Hp2)].
  exists (FileEvents mid :: mids), (FileEvents core :: cores).
  split; [|split]; constructor; try assumption.
  - exists mid. split; [reflexivity|exact Hp].
  - constructor. exact Hp1.
  - constructor. exact Hp2.
Qed.

Lemma load_padded_gathered (l : layout) files' :
  l <> [] -> elements_ok (concat l) = true -> Forall2 file_pad l files' ->
  load files' = match assemble (gathered_of (concat l) gathered_empty) with
                | Some m => Loaded m
                | None => Refused
                end.
Proof.
  intros Hne Hok H. destruct (file_pad_split l files' H) as (mids & cores & H1 & H2 & H3).
  rewrite (pad0_load cores files' H3), <- (pad0_load cores mids H2). apply load_mid; assumption.
Qed.

(* ---------- C11b ---------- *)
Theorem padding_irrelevant (l : layout) (files' : list xfile) :
  elements_ok (concat l) = true -> Forall2 file_pad l files' ->
  load files' = load (files_of l) /\ gather_fibex_data files' = gather_fibex_data (files_of l).
Proof.
  intros Hok H.
  assert (E : load files' = load (files_of l)).
  { destruct l as [|els t]; [inversion H; reflexivity|].
    rewrite (load_padded_gathered (els :: t) files' ltac:(discriminate) Hok H).
    rewrite (load_padded_gathered (els :: t) (files_of (els :: t)) ltac:(discriminate) Hok
               (file_pad_render (els :: t))).
    reflexivity. }
  split; [exact E|]. unfold gather_fibex_data. rewrite E. reflexivity.
Qed.

Theorem load_padded_elements (l : layout) (files' : list xfile) :
  l <> [] -> elements_ok (concat l) = true -> Forall2 file_pad l files' ->
  match denote (concat l) with
  | Some d => exists m, gather_fibex_data files' = Some m /\ meta_equiv m d
  | None => load files' = Refused /\ gather_fibex_data files' = None
  end.
Proof.
  intros Hne Hok H. destruct (padding_irrelevant l files' Hok H) as [E1 E2].
  rewrite E1, E2. apply load_rendered; assumption.
Qed.

Theorem load_padded (a : afibex) (l : layout) (files' : list xfile) :
  is_layout_of a l -> model_ok a = true -> Forall2 file_pad l files' ->
  exists m d, gather_fibex_data files' = Some m /\ denote (concat l) = Some d /\ meta_equiv m d.
Proof.
  intros Hl Hm H.
  assert (Hok : elements_ok (concat l) = true).
  { destruct Hl as [_ Hp]. unfold model_ok in Hm. apply andb_true_iff in Hm. destruct Hm as [Hm _].
    eapply elements_ok_perm; [apply Permutation_sym; exact Hp|exact Hm]. }
  destruct (padding_irrelevant l files' Hok H) as [_ E2]. rewrite E2.
  apply (load_layout a); assumption.
Qed.

Theorem load_padded_canonical (a : afibex) (l : layout) (files' : list xfile) :
  is_layout_of a l -> model_ok a = true -> unique_ids (render_elements a) ->
  Forall2 file_pad l files' ->
  exists m d, gather_fibex_data files' = Some m /\ denote (render_elements a) = Some d /\
              meta_equiv m d.
Proof.
  intros Hl Hm Hu H.
  assert (Hok : elements_ok (concat l) = true).
  { destruct Hl as [_ Hp]. unfold model_ok in Hm. apply andb_true_iff in Hm. destruct Hm as [Hm _].
    eapply elements_ok_perm; [apply Permutation_sym; exact Hp|exact Hm]. }
  destruct (padding_irrelevant l files' Hok H) as [_ E2]. rewrite E2.
  apply (load_layout_canonical a); assumption.
Qed.
