(* FibexTerm.v — termination, fuel monotonicity and panic freedom of the FIBEX loader model (C12),
   and the refutation of C12 for the pre-repair loops. *)
From Coq Require Import Lia ZifyBool ZifyN ZifyNat.
From Coq.Strings Require Import Ascii String.
From DltV.Model Require Import Bytes RustInt Dlt Fibex.
Open Scope N_scope.

(* ---------- attr_opt cannot panic ---------- *)
Lemma attr_matches_no_panic (key name : bstr) : attr_matches key name <> Panic.
Proof.
  unfold attr_matches.
  destruct (bytes_eqb key name) eqn:Heq; [discriminate|].
  destruct (len name <? len key) eqn:Hlt; [|discriminate].
  unfold sub_chk.
  destruct (len name <=? len key) eqn:H1; [|lia].
  cbn [chk_bind].
  destruct (1 <=? len key - len name) eqn:H2; [|lia].
  cbn [chk_bind].
  destruct (nth_error key (N.to_nat (len key - len name - 1))) as [b|] eqn:Hn.
  - destruct (b2n b =? 58); [|discriminate].
    destruct (len key - len name <=? len key) eqn:H3; [discriminate|lia].
  - exfalso. apply nth_error_None in Hn. unfold len in *. lia.
Qed.

Lemma attr_opt_no_panic (attrs : list xattr) (name : bstr) : attr_opt attrs name <> APanic.
Proof.
  induction attrs as [|a attrs IH]; cbn [attr_opt]; [discriminate|].
  destruct a as [|key value]; [discriminate|].
  destruct (attr_matches key name) as [[|]|] eqn:Hm.
  - destruct value; discriminate.
  - exact IH.
  - exfalso. exact (attr_matches_no_panic _ _ Hm).
Qed.

Lemma attr_no_panic (attrs : list xattr) (name : bstr) : attr attrs name <> APanic.
Proof.
  unfold attr. pose proof (attr_opt_no_panic attrs name) as H.
  destruct (attr_opt attrs name) as [[v|]| |]; try discriminate. contradiction.
Qed.

(* ---------- one step of read_event ---------- *)
(* [n] = number of pending XML events before the step *)
Definition step_ok (n : nat) (s : step) : Prop :=
  match s with
  | SCont r' => (length (r_events r') < n)%nat
  | SRet e r' => e <> EEof /\ (length (r_events r') < n)%nat
  | SErr => True
  | SPanic => False
  end.

Lemma read_text_len (evs : list xevent) : (length (snd (read_text evs)) <= length evs)%nat.
Proof.
  destruct evs as [|e rest]; cbn; [lia|].
  destruct e as [| | |[t|]| |]; cbn; lia.
Qed.

Lemma read_usize_len (evs : list xevent) : (length (snd (read_usize evs)) <= length evs)%nat.
Proof.
  unfold read_usize. pose proof (read_text_len evs) as H.
  destruct (read_text evs) as [[t|] rest]; cbn in *; lia.
Qed.

Lemma text_into_ok n setter rest r :
  (forall v r0, r_events (setter v r0) = r_events r0) ->
  (length rest < n)%nat -> step_ok n (text_into setter rest r).
Proof.
  intros Hs Hn. unfold text_into. pose proof (read_text_len rest) as H.
  destruct (read_text rest) as [[t|] rest']; cbn in *; [|exact I].
  rewrite Hs. cbn. lia.
Qed.

Lemma usize_into_ok n setter rest r :
  (forall v r0, r_events (setter v r0) = r_events r0) ->
  (length rest < n)%nat -> step_ok n (usize_into setter rest r).
Proof.
  intros Hs Hn. unfold usize_into. pose proof (read_usize_len rest) as H.
  destruct (read_usize rest) as [[t|] rest']; cbn in *; [|exact I].
  rewrite Hs. cbn. lia.
Qed.

Lemma attr_into_ok n a k :
  a <> APanic -> (forall v, step_ok n (k v)) -> step_ok n (attr_into a k).
Proof. intros Ha Hk. destruct a; cbn; [apply Hk|exact I|contradiction]. Qed.

Lemma attr_ok_ok n a k :
  a <> APanic -> (forall v, step_ok n (k v)) -> step_ok n (attr_ok a k).
Proof. intros Ha Hk. destruct a; cbn; [apply Hk|apply Hk|contradiction]. Qed.

Lemma need_ok {A} n (o : option A) k :
  (forall v, step_ok n (k v)) -> step_ok n (need o k).
Proof. intros Hk. destruct o; cbn; [apply Hk|exact I]. Qed.

Ltac setter_ev := intros; reflexivity.
Ltac step_leaf := cbn; first [lia | split; [discriminate|lia]].

Lemma start_arm_ok n name attrs rest r :
  (length rest < n)%nat -> step_ok n (start_arm name attrs rest r).
Proof.
  intros Hn. unfold start_arm, id_attr, id_ref_attr.
  destruct (classify name);
    try (apply text_into_ok; [setter_ev|exact Hn]);
    try (apply usize_into_ok; [setter_ev|exact Hn]);
    try (apply attr_into_ok; [apply attr_no_panic|intros v; step_leaf]);
    try (apply attr_ok_ok; [apply attr_no_panic|intros v; step_leaf]);
    try step_leaf.
  (* T_DESC *)
  pose proof (read_text_len rest) as H.
  destruct (read_text rest) as [t rest']. cbn in *. lia.
Qed.

Lemma empty_arm_ok n name attrs rest r :
  (length rest < n)%nat -> step_ok n (empty_arm name attrs rest r).
Proof.
  intros Hn. unfold empty_arm, id_attr, id_ref_attr.
  destruct (classify name);
    try (apply attr_into_ok; [apply attr_no_panic|intros v; step_leaf]);
    try (apply attr_ok_ok; [apply attr_no_panic|intros v; step_leaf]);
    try step_leaf.
Qed.

Lemma end_arm_ok n name rest r :
  (length rest < n)%nat -> step_ok n (end_arm name rest r).
Proof.
  intros Hn. unfold end_arm.
  destruct (classify name); repeat (apply need_ok; intros ?); step_leaf.
Qed.

Lemma read_event_step_ok (r : reader) :
  match r_events r with
  | [] => read_event_step r = SRet EEof r
  | _ :: _ => step_ok (length (r_events r)) (read_event_step r)
  end.
Proof.
  unfold read_event_step.
  destruct (r_events r) as [|e rest] eqn:He; [reflexivity|].
  destruct e as [name attrs|name attrs|name|t| |].
  - apply start_arm_ok. cbn. lia.
  - apply empty_arm_ok. cbn. lia.
  - apply end_arm_ok. cbn. lia.
  - cbn. lia.
  - cbn. lia.
  - exact I.
Qed.

(* ---------- read_event ---------- *)
Lemma read_event_not_fuel : forall fuel r,
  (length (r_events r) < fuel)%nat -> read_event fuel r <> RFuel.
Proof.
  induction fuel as [|f IH]; intros r Hlen; [lia|].
  cbn [read_event]. pose proof (read_event_step_ok r) as Hs.
  destruct (r_events r) as [|e rest] eqn:He.
  - rewrite Hs. discriminate.
  - destruct (read_event_step r) as [r'|e' r'| |]; cbn in Hs; try discriminate.
    apply IH. cbn in Hlen. lia.
Qed.

Lemma read_event_no_panic : forall fuel r, read_event fuel r <> RPanic.
Proof.
  induction fuel as [|f IH]; intros r; [discriminate|].
  cbn [read_event]. pose proof (read_event_step_ok r) as Hs.
  destruct (r_events r) as [|e rest] eqn:He.
  - rewrite Hs. discriminate.
  - destruct (read_event_step r) as [r'|e' r'| |]; cbn in Hs; try discriminate; [apply IH|contradiction].
Qed.

(* an event other than Eof costs at least one XML event; Eof means the input is exhausted *)
Lemma read_event_ok_len : forall fuel r e r',
  read_event fuel r = ROk (e, r') ->
  (length (r_events r') <= length (r_events r))%nat /\
  (e <> EEof -> (length (r_events r') < length (r_events r))%nat) /\
  (e = EEof -> r_events r' = []).
Proof.
  induction fuel as [|f IH]; intros r e r' H; [discriminate|].
  cbn [read_event] in H. pose proof (read_event_step_ok r) as Hs.
  destruct (r_events r) as [|x rest] eqn:He.
  - rewrite Hs in H. injection H as <- <-. rewrite He. cbn. repeat split; auto; congruence.
  - destruct (read_event_step r) as [r1|e1 r1| |]; cbn in Hs; try discriminate.
    + apply IH in H. destruct H as (H1 & H2 & H3). cbn.
      repeat split; [lia| intros Hne; specialize (H2 Hne); lia | exact H3].
    + injection H as <- <-. destruct Hs as [Hne Hl]. cbn.
      repeat split; [lia | intros _; lia | intros Heq; contradiction].
Qed.

Lemma read_event_mono : forall f1 f2 r,
  read_event f1 r <> RFuel -> (f1 <= f2)%nat -> read_event f2 r = read_event f1 r.
Proof.
  induction f1 as [|f1 IH]; intros f2 r H Hle; [exfalso; apply H; reflexivity|].
  destruct f2 as [|f2]; [lia|].
  cbn [read_event] in *.
  destruct (read_event_step r) as [r1|e1 r1| |]; try reflexivity.
  apply IH; [exact H|lia].
Qed.

(* ---------- read_pdu / read_frame (repaired) ---------- *)
Ltac ev_cases E :=
  match goal with
  | |- context [read_event ?ef ?r] =>
    let e := fresh "e" in let r1 := fresh "r1" in
    destruct (read_event ef r) as [[e r1]| | |] eqn:E; [destruct e| | |]
  end.

Lemma read_pdu_loop_not_fuel : forall fuel ef r acc,
  (length (r_events r) < ef)%nat -> (length (r_events r) < fuel)%nat ->
  read_pdu_loop ef fuel r acc <> RFuel.
Proof.
  induction fuel as [|f IH]; intros ef r acc Hef Hf; [lia|].
  cbn [read_pdu_loop]. pose proof (read_event_not_fuel ef r Hef) as Hnf.
  ev_cases E; try discriminate; try contradiction;
    apply read_event_ok_len in E; destruct E as (E1 & E2 & E3);
    (apply IH; [lia | assert (length (r_events r1) < length (r_events r))%nat by (apply E2; discriminate); lia]).
Qed.

Lemma read_pdu_loop_no_panic : forall fuel ef r acc, read_pdu_loop ef fuel r acc <> RPanic.
Proof.
  induction fuel as [|f IH]; intros ef r acc; [discriminate|].
  cbn [read_pdu_loop]. pose proof (read_event_no_panic ef r) as Hnp.
  ev_cases E; try discriminate; try contradiction; apply IH.
Qed.

Lemma read_pdu_loop_ok_len : forall fuel ef r acc p r',
  read_pdu_loop ef fuel r acc = ROk (p, r') -> (length (r_events r') <= length (r_events r))%nat.
Proof.
  induction fuel as [|f IH]; intros ef r acc p r' H; [discriminate|].
  cbn [read_pdu_loop] in H.
  destruct (read_event ef r) as [[e r1]| | |] eqn:E; try discriminate.
  apply read_event_ok_len in E. destruct E as (E1 & _).
  destruct e; try discriminate; try (apply IH in H; lia).
  injection H as _ <-. exact E1.
Qed.

Lemma read_pdu_loop_mono : forall f1 f2 ef1 ef2 r acc,
  read_pdu_loop ef1 f1 r acc <> RFuel -> (ef1 <= ef2)%nat -> (f1 <= f2)%nat ->
  read_pdu_loop ef2 f2 r acc = read_pdu_loop ef1 f1 r acc.
Proof.
  induction f1 as [|f1 IH]; intros f2 ef1 ef2 r acc H He Hf; [exfalso; apply H; reflexivity|].
  destruct f2 as [|f2]; [lia|].
  cbn [read_pdu_loop] in *.
  assert (Hnf : read_event ef1 r <> RFuel) by (intros C; rewrite C in H; apply H; reflexivity).
  rewrite (read_event_mono ef1 ef2 r Hnf He).
  destruct (read_event ef1 r) as [[e r1]| | |]; try reflexivity.
  destruct e; try reflexivity; (apply IH; [exact H|exact He|lia]).
Qed.

Lemma read_frame_loop_not_fuel : forall fuel ef r acc ext,
  (length (r_events r) < ef)%nat -> (length (r_events r) < fuel)%nat ->
  read_frame_loop ef fuel r acc ext <> RFuel.
Proof.
  induction fuel as [|f IH]; intros ef r acc ext Hef Hf; [lia|].
  cbn [read_frame_loop]. pose proof (read_event_not_fuel ef r Hef) as Hnf.
  ev_cases E; try discriminate; try contradiction;
    try (destruct ext as [[[c a] t] i]; discriminate);
    apply read_event_ok_len in E; destruct E as (E1 & E2 & E3);
    (apply IH; [lia | assert (length (r_events r1) < length (r_events r))%nat by (apply E2; discriminate); lia]).
Qed.

Lemma read_frame_loop_no_panic : forall fuel ef r acc ext, read_frame_loop ef fuel r acc ext <> RPanic.
Proof.
  induction fuel as [|f IH]; intros ef r acc ext; [discriminate|].
  cbn [read_frame_loop]. pose proof (read_event_no_panic ef r) as Hnp.
  ev_cases E; try discriminate; try contradiction;
    try (destruct ext as [[[c a] t] i]; discriminate); apply IH.
Qed.

Lemma read_frame_loop_ok_len : forall fuel ef r acc ext p r',
  read_frame_loop ef fuel r acc ext = ROk (p, r') -> (length (r_events r') <= length (r_events r))%nat.
Proof.
  induction fuel as [|f IH]; intros ef r acc ext p r' H; [discriminate|].
  cbn [read_frame_loop] in H.
  destruct (read_event ef r) as [[e r1]| | |] eqn:E; try discriminate.
  apply read_event_ok_len in E. destruct E as (E1 & _).
  destruct e; try discriminate; try (apply IH in H; lia).
  destruct ext as [[[c a] t] i]. injection H as _ <-. exact E1.
Qed.

Lemma read_frame_loop_mono : forall f1 f2 ef1 ef2 r acc ext,
  read_frame_loop ef1 f1 r acc ext <> RFuel -> (ef1 <= ef2)%nat -> (f1 <= f2)%nat ->
  read_frame_loop ef2 f2 r acc ext = read_frame_loop ef1 f1 r acc ext.
Proof.
  induction f1 as [|f1 IH]; intros f2 ef1 ef2 r acc ext H He Hf; [exfalso; apply H; reflexivity|].
  destruct f2 as [|f2]; [lia|].
  cbn [read_frame_loop] in *.
  assert (Hnf : read_event ef1 r <> RFuel) by (intros C; rewrite C in H; apply H; reflexivity).
  rewrite (read_event_mono ef1 ef2 r Hnf He).
  destruct (read_event ef1 r) as [[e r1]| | |]; try reflexivity.
  destruct e; try reflexivity; (apply IH; [exact H|exact He|lia]).
Qed.

(* ---------- the per-file loop ---------- *)
Lemma read_file_loop_not_fuel : forall fuel ef r g,
  (length (r_events r) < ef)%nat -> (length (r_events r) < fuel)%nat ->
  read_file_loop ef fuel r g <> RFuel.
Proof.
  induction fuel as [|f IH]; intros ef r g Hef Hf; [lia|].
  cbn [read_file_loop]. pose proof (read_event_not_fuel ef r Hef) as Hnf.
  ev_cases E; try discriminate; try contradiction;
    apply read_event_ok_len in E; destruct E as (E1 & E2 & E3);
    assert (Hlt : (length (r_events r1) < length (r_events r))%nat) by (apply E2; discriminate);
    try (apply IH; lia).
  - (* PduStart *)
    unfold read_pdu.
    pose proof (read_pdu_loop_not_fuel ef ef r1 [] ltac:(lia) ltac:(lia)) as Hp.
    destruct (read_pdu_loop ef ef r1 []) as [[p r2]| | |] eqn:Ep; try discriminate; try contradiction.
    apply read_pdu_loop_ok_len in Ep. apply IH; lia.
  - (* FrameStart *)
    unfold read_frame.
    pose proof (read_frame_loop_not_fuel ef ef r1 [] (None, None, None, None) ltac:(lia) ltac:(lia)) as Hp.
    destruct (read_frame_loop ef ef r1 [] (None, None, None, None)) as [[p r2]| | |] eqn:Ep;
      try discriminate; try contradiction.
    apply read_frame_loop_ok_len in Ep. apply IH; lia.
Qed.

Lemma read_file_loop_no_panic : forall fuel ef r g, read_file_loop ef fuel r g <> RPanic.
Proof.
  induction fuel as [|f IH]; intros ef r g; [discriminate|].
  cbn [read_file_loop]. pose proof (read_event_no_panic ef r) as Hnp.
  ev_cases E; try discriminate; try contradiction; try apply IH.
  - unfold read_pdu. pose proof (read_pdu_loop_no_panic ef ef r1 []) as Hp.
    destruct (read_pdu_loop ef ef r1 []) as [[p r2]| | |]; try discriminate; try contradiction. apply IH.
  - unfold read_frame. pose proof (read_frame_loop_no_panic ef ef r1 [] (None, None, None, None)) as Hp.
    destruct (read_frame_loop ef ef r1 [] (None, None, None, None)) as [[p r2]| | |];
      try discriminate; try contradiction. apply IH.
Qed.

Lemma read_file_loop_mono : forall f1 f2 ef1 ef2 r g,
  read_file_loop ef1 f1 r g <> RFuel -> (ef1 <= ef2)%nat -> (f1 <= f2)%nat ->
  read_file_loop ef2 f2 r g = read_file_loop ef1 f1 r g.
Proof.
  induction f1 as [|f1 IH]; intros f2 ef1 ef2 r g H He Hf; [exfalso; apply H; reflexivity|].
  destruct f2 as [|f2]; [lia|].
  cbn [read_file_loop] in *.
  assert (Hnf : read_event ef1 r <> RFuel) by (intros C; rewrite C in H; apply H; reflexivity).
  rewrite (read_event_mono ef1 ef2 r Hnf He).
  destruct (read_event ef1 r) as [[e r1]| | |]; try reflexivity.
  destruct e; try reflexivity; try (apply IH; [exact H|exact He|lia]).
  - unfold read_pdu in *.
    assert (Hp : read_pdu_loop ef1 ef1 r1 [] <> RFuel) by (intros C; rewrite C in H; apply H; reflexivity).
    rewrite (read_pdu_loop_mono ef1 ef2 ef1 ef2 r1 [] Hp He He).
    destruct (read_pdu_loop ef1 ef1 r1 []) as [[p r2]| | |]; try reflexivity.
    apply IH; [exact H|exact He|lia].
  - unfold read_frame in *.
    assert (Hp : read_frame_loop ef1 ef1 r1 [] (None, None, None, None) <> RFuel)
      by (intros C; rewrite C in H; apply H; reflexivity).
    rewrite (read_frame_loop_mono ef1 ef2 ef1 ef2 r1 [] _ Hp He He).
    destruct (read_frame_loop ef1 ef1 r1 [] (None, None, None, None)) as [[p r2]| | |]; try reflexivity.
    apply IH; [exact H|exact He|lia].
Qed.

(* ---------- all files ---------- *)
Fixpoint max_events (files : list xfile) : nat :=
  match files with
  | [] => O
  | f :: t => Nat.max (file_events f) (max_events t)
  end.

Lemma max_events_le_total files : (max_events files <= total_events files)%nat.
Proof. induction files as [|f t IH]; cbn [max_events total_events]; lia. Qed.

Lemma read_files_not_fuel : forall files ef g,
  (max_events files < ef)%nat -> read_files ef files g <> RFuel.
Proof.
  induction files as [|f t IH]; intros ef g Hm; cbn [read_files]; [discriminate|].
  cbn [max_events] in Hm.
  destruct f as [|evs]; [discriminate|]. cbn [file_events] in Hm.
  pose proof (read_file_loop_not_fuel ef ef (reader_from_events evs) g) as Hl.
  cbn [reader_from_events r_events] in Hl.
  specialize (Hl ltac:(lia) ltac:(lia)).
  destruct (read_file_loop ef ef (reader_from_events evs) g) as [g'| | |]; try discriminate; try contradiction.
  apply IH. lia.
Qed.

Lemma read_files_no_panic : forall files ef g, read_files ef files g <> RPanic.
Proof.
  induction files as [|f t IH]; intros ef g; cbn [read_files]; [discriminate|].
  destruct f as [|evs]; [discriminate|].
  pose proof (read_file_loop_no_panic ef ef (reader_from_events evs) g) as Hl.
  destruct (read_file_loop ef ef (reader_from_events evs) g) as [g'| | |]; try discriminate; try contradiction.
  apply IH.
Qed.

Lemma read_files_mono : forall files ef1 ef2 g,
  read_files ef1 files g <> RFuel -> (ef1 <= ef2)%nat ->
  read_files ef2 files g = read_files ef1 files g.
Proof.
  induction files as [|f t IH]; intros ef1 ef2 g H He; cbn [read_files] in *; [reflexivity|].
  destruct f as [|evs]; [reflexivity|].
  assert (Hl : read_file_loop ef1 ef1 (reader_from_events evs) g <> RFuel)
    by (intros C; rewrite C in H; apply H; reflexivity).
  rewrite (read_file_loop_mono ef1 ef2 ef1 ef2 _ g Hl He He).
  destruct (read_file_loop ef1 ef1 (reader_from_events evs) g) as [g'| | |]; try reflexivity.
  apply IH; [exact H|exact He].
Qed.

(* ---------- the loader ---------- *)
Theorem load_terminates : forall files, load_fuel (fuel_bound files) files <> OutOfFuel.
Proof.
  intros files. unfold load_fuel, read_fibexes.
  destruct files as [|f t]; [discriminate|].
  pose proof (read_files_not_fuel (f :: t) (fuel_bound (f :: t)) gathered_empty) as H.
  pose proof (max_events_le_total (f :: t)) as Hm. unfold fuel_bound in *.
  specialize (H ltac:(lia)).
  destruct (read_files _ (f :: t) gathered_empty) as [g| | |]; try discriminate; try contradiction.
  destruct (assemble g); discriminate.
Qed.

Theorem load_fuel_mono : forall n files r,
  load_fuel n files = r -> r <> OutOfFuel -> forall m, (n <= m)%nat -> load_fuel m files = r.
Proof.
  intros n files r H Hr m Hle. subst r. unfold load_fuel, read_fibexes in *.
  destruct files as [|f t]; [reflexivity|].
  assert (Hnf : read_files n (f :: t) gathered_empty <> RFuel)
    by (intros C; rewrite C in Hr; apply Hr; reflexivity).
  rewrite (read_files_mono (f :: t) n m gathered_empty Hnf Hle). reflexivity.
Qed.

Theorem load_no_panic : forall n files, load_fuel n files <> LoadPanic.
Proof.
  intros n files. unfold load_fuel, read_fibexes.
  destruct files as [|f t]; [discriminate|].
  pose proof (read_files_no_panic (f :: t) n gathered_empty) as H.
  destruct (read_files n (f :: t) gathered_empty) as [g| | |]; try discriminate; try contradiction.
  destruct (assemble g); discriminate.
Qed.

Lemma fuel_bound_linear : forall files, fuel_bound files = S (S (total_events files)).
Proof. intros files. reflexivity. Qed.

(* "returns either a model or nothing" *)
Corollary load_model_or_nothing : forall files,
  (exists m, load files = Loaded m /\ gather_fibex_data files = Some m) \/
  (load files = Refused /\ gather_fibex_data files = None).
Proof.
  intros files. unfold gather_fibex_data.
  pose proof (load_terminates files) as Ht. pose proof (load_no_panic (fuel_bound files) files) as Hp.
  fold (load files) in Ht, Hp.
  destruct (load files) as [m| | |]; try contradiction.
  - left. exists m. auto.
  - right. auto.
Qed.

(* ---------- the pre-repair loops never leave a PDU opened at end of input ---------- *)
Lemma read_event_eof : forall fuel r, r_events r = [] -> read_event (S fuel) r = ROk (EEof, r).
Proof. intros fuel r H. cbn [read_event]. unfold read_event_step. rewrite H. reflexivity. Qed.

Lemma read_pdu_loop_pinned_eof : forall fuel ef r acc,
  r_events r = [] -> read_pdu_loop_pinned ef fuel r acc = RFuel.
Proof.
  induction fuel as [|f IH]; intros ef r acc H; [reflexivity|].
  cbn [read_pdu_loop_pinned].
  destruct ef as [|ef]; [reflexivity|].
  rewrite (read_event_eof ef r H). apply IH. exact H.
Qed.

Definition pinned_witness : list xfile :=
  [FileEvents [XStart (bs "PDU") [Attr (bs "ID") (Some (bs "x"))]]].

Theorem load_pinned_refuted : exists files, forall fuel, load_pinned fuel files = OutOfFuel.
Proof.
  exists pinned_witness. intros fuel. unfold load_pinned, pinned_witness.
  cbn [read_files_pinned].
  destruct fuel as [|f]; [reflexivity|].
  cbn [read_file_loop_pinned].
  replace (read_event (S f) _) with
    (ROk (EPduStart (bs "x"),
          set_description None (set_type None (set_byte_length None (set_short_name None
            (set_events [] (reader_from_events [XStart (bs "PDU") [Attr (bs "ID") (Some (bs "x"))]])))))))
    by reflexivity.
  unfold read_pdu_pinned. rewrite read_pdu_loop_pinned_eof; reflexivity.
Qed.
