(* Proofs/Lengths.v — C15: Argument::len equals the serialised length, Message::new builds
   well-formed, self-consistent messages, add_storage_header prepends exactly the storage header,
   Argument::valid rejects bool/f32/f64 arguments carrying another value variant. *)
From Coq Require Import Lia ZifyBool ZifyN ZifyNat.
From DltV.Model Require Import Bytes Utf8 Nom Dlt Parse.
From DltV.Spec Require Import WellFormed WellFormedConfig.
From DltV.Proofs Require Import BytesBasics Fields.
Open Scope N_scope.

(* ---------- lengths of the elementary writers ---------- *)
Lemma len_put_sint e k z : len (put_sint e k z) = N.of_nat k.
Proof. unfold put_sint. apply len_put_uint. Qed.

Lemma len_zeros k : len (zeros k) = N.of_nat k.
Proof. unfold zeros. apply len_repeat. Qed.

Lemma len_put_zstring_gen s k : len s <= N.of_nat k -> len (put_zstring s k) = N.of_nat k.
Proof.
  intros H. unfold put_zstring. rewrite len_app, len_zeros. unfold len in *. lia.
Qed.

Lemma len_put_zstring4 s : len s <= 4 -> len (put_zstring s 4) = 4.
Proof. intros H. apply (len_put_zstring_gen s 4). exact H. Qed.

Lemma wf_id_len s : wf_id s = true -> len s <= 4.
Proof.
  unfold wf_id. intros H. apply andb_true_iff in H as [H _]. apply andb_true_iff in H as [H _].
  apply N.leb_le in H. exact H.
Qed.

Lemma len_ti_bytes e t : len (ti_bytes e t) = 4.
Proof. unfold ti_bytes. apply (len_put_uint e 4). Qed.

Lemma len_one {A} (x : A) : len [x] = 1.
Proof. reflexivity. Qed.

(* ---------- Argument::len ---------- *)
Lemma len_buf_ti_name e t name : len (buf_ti_name e t name) = 4 + name_space name.
Proof.
  unfold buf_ti_name, name_space. rewrite len_app, len_ti_bytes.
  destruct name as [n|].
  - rewrite !len_app, len_put_uint, len_one. lia.
  - rewrite len_nil. lia.
Qed.

Lemma len_buf_ti_name_unit e t name unit fp :
  Bool.eqb (is_some name) (ti_var_info t) = true ->
  Bool.eqb (is_some unit) (ti_var_info t) = true ->
  len (buf_ti_name_unit e t name unit fp) = 4 + name_space name + name_space unit + len (fp_bytes e fp).
Proof.
  intros Hn Hu. unfold buf_ti_name_unit, name_space.
  rewrite !len_app, len_ti_bytes.
  destruct (ti_var_info t); destruct name as [n|]; try discriminate Hn;
    destruct unit as [u|]; try discriminate Hu.
  - rewrite !len_app, !len_put_uint, !len_one. lia.
  - rewrite len_nil. lia.
Qed.

Lemma len_signed_value e l v :
  wf_signed_value l v = true -> len (signed_value_bytes e v) = N.of_nat (type_length_bytes l).
Proof.
  destruct l, v; cbn [wf_signed_value]; intros H; try discriminate H;
    cbn [signed_value_bytes type_length_bytes]; apply len_put_sint.
Qed.

Lemma len_unsigned_value e l v :
  wf_unsigned_value l v = true -> len (unsigned_value_bytes e v) = N.of_nat (type_length_bytes l).
Proof.
  destruct l, v; cbn [wf_unsigned_value]; intros H; try discriminate H;
    cbn [unsigned_value_bytes type_length_bytes]; apply len_put_uint.
Qed.

Lemma type_length_of_width w :
  type_length_bytes (float_width_to_type_length w) = float_width_bytes w.
Proof. destruct w; reflexivity. Qed.

Lemma len_fp_none e fp : is_none fp = true -> len (fp_bytes e fp) = 0.
Proof. destruct fp; [discriminate|reflexivity]. Qed.

(* the fixed-point data Argument::len counts through fixed_point_capacity *)
Lemma len_fp_some e w fp a :
  a_fp a = fp -> wf_fp w fp = true ->
  fixed_point_capacity a w = N.of_nat (float_width_bytes w) + len (fp_bytes e fp).
Proof.
  intros Ha H. unfold fixed_point_capacity. rewrite Ha. f_equal.
  destruct fp as [[q o]|]; [|discriminate H].
  cbn [fp_bytes fp_quant fp_offset]. rewrite len_app, len_put_uint.
  destruct o; cbn [fp_value_width fp_offset_bytes]; rewrite len_put_sint; reflexivity.
Qed.

Ltac split_andb H :=
  repeat match type of H with
         | (_ && _) = true => let H' := fresh H in apply andb_true_iff in H as [H H']
         end.

Lemma arg_len_bytes : forall a e, wf_arg a = true -> arg_len a = len (arg_bytes e a).
Proof.
  intros a e W. unfold wf_arg in W. apply andb_true_iff in W as [_ W].
  unfold arg_len, arg_bytes.
  destruct (ti_kind_of (a_ti a)) as [|l|w|l|w|w| |] eqn:K.
  - (* bool *)
    rewrite len_app, len_buf_ti_name, len_one. lia.
  - (* signed *)
    apply andb_true_iff in W as [W Hv]. apply andb_true_iff in W as [W Hf].
    apply andb_true_iff in W as [W _]. apply andb_true_iff in W as [W _].
    apply andb_true_iff in W as [Hn Hu].
    rewrite len_app, (len_buf_ti_name_unit _ _ _ _ _ Hn Hu), (len_signed_value _ _ _ Hv),
      (len_fp_none _ _ Hf). lia.
  - (* signed fixed point *)
    apply andb_true_iff in W as [W Hv]. apply andb_true_iff in W as [W Hf].
    apply andb_true_iff in W as [W _]. apply andb_true_iff in W as [W _].
    apply andb_true_iff in W as [Hn Hu].
    rewrite len_app, (len_buf_ti_name_unit _ _ _ _ _ Hn Hu), (len_signed_value _ _ _ Hv),
      (len_fp_some e w (a_fp a) a eq_refl Hf), type_length_of_width. lia.
  - (* unsigned *)
    apply andb_true_iff in W as [W Hv]. apply andb_true_iff in W as [W Hf].
    apply andb_true_iff in W as [W _]. apply andb_true_iff in W as [W _].
    apply andb_true_iff in W as [Hn Hu].
    rewrite len_app, (len_buf_ti_name_unit _ _ _ _ _ Hn Hu), (len_unsigned_value _ _ _ Hv),
      (len_fp_none _ _ Hf). lia.
  - (* unsigned fixed point *)
    apply andb_true_iff in W as [W Hv]. apply andb_true_iff in W as [W Hf].
    apply andb_true_iff in W as [W _]. apply andb_true_iff in W as [W _].
    apply andb_true_iff in W as [Hn Hu].
    rewrite len_app, (len_buf_ti_name_unit _ _ _ _ _ Hn Hu), (len_unsigned_value _ _ _ Hv),
      (len_fp_some e w (a_fp a) a eq_refl Hf), type_length_of_width. lia.
  - (* float *)
    assert (H : (Bool.eqb (is_some (a_name a)) (ti_var_info (a_ti a)) = true /\
                 Bool.eqb (is_some (a_unit a)) (ti_var_info (a_ti a)) = true /\
                 is_none (a_fp a) = true) /\
                len (float_value_bytes e (a_value a)) = N.of_nat (float_width_bytes w)).
    { destruct w.
      - apply andb_true_iff in W as [W Hv]. apply andb_true_iff in W as [W Hf].
        apply andb_true_iff in W as [W _]. apply andb_true_iff in W as [W _].
        apply andb_true_iff in W as [Hn Hu]. split; [auto|].
        destruct (a_value a); try discriminate Hv. apply (len_put_uint e 4).
      - apply andb_true_iff in W as [W Hv]. apply andb_true_iff in W as [W Hf].
        apply andb_true_iff in W as [W _]. apply andb_true_iff in W as [W _].
        apply andb_true_iff in W as [Hn Hu]. split; [auto|].
        destruct (a_value a); try discriminate Hv. apply (len_put_uint e 8). }
    destruct H as [(Hn & Hu & Hf) Hv].
    rewrite len_app, (len_buf_ti_name_unit _ _ _ _ _ Hn Hu), Hv, (len_fp_none _ _ Hf). lia.
  - (* string *)
    apply andb_true_iff in W as [W Hv]. apply andb_true_iff in W as [W _].
    apply andb_true_iff in W as [W _]. apply andb_true_iff in W as [Hn Hu].
    destruct (a_value a) as [| | | | | | | | | | | | |s|]; try discriminate Hv.
    unfold name_space.
    destruct (ti_var_info (a_ti a)); destruct (a_name a) as [n|]; try discriminate Hn.
    + rewrite !len_app, len_ti_bytes, !len_put_uint, !len_one. lia.
    + rewrite !len_app, len_ti_bytes, !len_put_uint, !len_one. lia.
  - (* raw *)
    apply andb_true_iff in W as [W Hv]. apply andb_true_iff in W as [W _].
    apply andb_true_iff in W as [W _]. apply andb_true_iff in W as [Hn Hu].
    destruct (a_value a) as [| | | | | | | | | | | | | |bs]; try discriminate Hv.
    unfold name_space.
    destruct (ti_var_info (a_ti a)); destruct (a_name a) as [n|]; try discriminate Hn.
    + rewrite !len_app, len_ti_bytes, !len_put_uint, !len_one. lia.
    + rewrite !len_app, len_ti_bytes, !len_put_uint. lia.
Qed.

(* a well-formed argument passes Argument::valid *)
Lemma wf_arg_valid a : wf_arg a = true -> arg_valid a = true.
Proof.
  unfold wf_arg, arg_valid. intros W. apply andb_true_iff in W as [_ W].
  destruct (ti_kind_of (a_ti a)) as [|l|w|l|w|w| |]; try reflexivity.
  - apply andb_true_iff in W as [_ Hv]. destruct (a_value a); try discriminate Hv; reflexivity.
  - destruct w; apply andb_true_iff in W as [_ Hv];
      destruct (a_value a); try discriminate Hv; reflexivity.
Qed.

(* ---------- Argument::valid ---------- *)
Lemma arg_valid_spec a :
  (ti_kind_of (a_ti a) = KBool -> arg_valid a = value_is_bool (a_value a)) /\
  (ti_kind_of (a_ti a) = KFloat W32 -> arg_valid a = value_is_f32 (a_value a)) /\
  (ti_kind_of (a_ti a) = KFloat W64 -> arg_valid a = value_is_f64 (a_value a)).
Proof.
  unfold arg_valid. repeat split; intros ->; destruct (a_value a); reflexivity.
Qed.

(* ---------- lengths of the headers ---------- *)
Lemma len_pat_DLT1 : len pat_DLT1 = 4.
Proof. reflexivity. Qed.

Lemma len_storage_header_bytes s : len (sh_ecu s) <= 4 -> len (storage_header_bytes s) = 16.
Proof.
  intros H. unfold storage_header_bytes.
  rewrite !len_app, len_pat_DLT1, !len_put_uint, (len_put_zstring4 _ H). reflexivity.
Qed.

Definition std_header_length (h : std_header) : N :=
  4 + (if is_some (h_ecu h) then 4 else 0) + (if is_some (h_session h) then 4 else 0)
    + (if is_some (h_timestamp h) then 4 else 0).

Lemma len_std_header_bytes h :
  wf_opt (fun s => len s <=? 4) (h_ecu h) = true -> len (std_header_bytes h) = std_header_length h.
Proof.
  intros H. unfold std_header_bytes, std_header_length.
  rewrite !len_app, len_put_uint, len_cons, len_one.
  destruct (h_ecu h) as [id|]; cbn [wf_opt is_some] in *.
  - apply N.leb_le in H. rewrite (len_put_zstring4 _ H).
    destruct (h_session h), (h_timestamp h); cbn [is_some]; rewrite ?len_put_uint; unfold len; cbn [length]; lia.
  - destruct (h_session h), (h_timestamp h); cbn [is_some]; rewrite ?len_put_uint; unfold len; cbn [length]; lia.
Qed.

Lemma len_ext_header_bytes x :
  len (e_apid x) <= 4 -> len (e_ctid x) <= 4 -> len (ext_header_bytes x) = 10.
Proof.
  intros Ha Hc. unfold ext_header_bytes.
  rewrite !len_app, len_cons, len_one, (len_put_zstring4 _ Ha), (len_put_zstring4 _ Hc). reflexivity.
Qed.

Lemma overall_length_raw_eq h :
  overall_length_raw h = std_header_length h + (if h_has_ext h then 10 else 0) + h_payload_length h.
Proof.
  unfold overall_length_raw, std_header_length.
  destruct (h_ecu h), (h_session h), (h_timestamp h); reflexivity.
Qed.

(* ---------- Message::new ---------- *)
Definition new_ext (p : payload) (x : option ext_config) : option ext_header :=
  match x with
  | Some x => Some (mkExt (payload_is_verbose p) (payload_arg_count p) (c_mtype x) (c_apid x) (c_ctid x))
  | None => None
  end.

Lemma required_verbose_eq p : payload_is_verbose p = required_verbose p.
Proof. destruct p; reflexivity. Qed.

Lemma payload_arg_count_lt p : payload_arg_count p < 256.
Proof.
  destruct p; cbn [payload_arg_count]; try lia; apply N.mod_lt; lia.
Qed.

Lemma mod_eqb_le n : (n mod 256 =? n) && (n <=? 255) = (n <=? 255).
Proof.
  destruct (n <=? 255) eqn:E; [|apply andb_false_r].
  apply N.leb_le in E. rewrite N.mod_small by lia. rewrite N.eqb_refl. reflexivity.
Qed.

Lemma new_kind p x : wf_kind (new_ext p x) p = wf_cfg_kind x p.
Proof.
  destruct p as [args|id bs|ct bs|sl], x as [x|];
    cbn [new_ext wf_kind wf_cfg_kind e_verbose e_noar e_mtype payload_is_verbose payload_arg_count
         negb andb]; try reflexivity.
  - rewrite mod_eqb_le. reflexivity.
  - rewrite mod_eqb_le. reflexivity.
Qed.

Lemma new_wf_ext p x : wf_opt wf_ext (new_ext p x) = wf_opt wf_ext_config x.
Proof.
  destruct x as [x|]; [|reflexivity].
  cbn [new_ext wf_opt]. unfold wf_ext, wf_ext_config. cbn [e_noar e_mtype e_apid e_ctid].
  pose proof (payload_arg_count_lt p) as H. apply N.ltb_lt in H. rewrite H. reflexivity.
Qed.

Lemma new_has_ext p x : Bool.eqb (is_some x) (is_some (new_ext p x)) = true.
Proof. destruct x; reflexivity. Qed.

Lemma message_new_eq c sh :
  message_new c sh =
  mkMsg sh
    (mkStd (c_version c) (c_endian c) (is_some (c_ext c)) (c_counter c) (c_ecu c) (c_session c)
       (c_timestamp c) (len (payload_bytes (c_endian c) (c_payload c)) mod 65536))
    (new_ext (c_payload c) (c_ext c)) (c_payload c).
Proof. reflexivity. Qed.

Lemma new_len_ok c sh :
  len_ok (message_new c sh) = (cfg_total_length c <=? 65535).
Proof.
  unfold len_ok. rewrite overall_length_raw_eq, message_new_eq.
  cbn [m_header m_payload h_payload_length h_endian h_has_ext].
  unfold std_header_length, cfg_total_length. cbn [h_ecu h_session h_timestamp].
  set (P := len (payload_bytes (c_endian c) (c_payload c))).
  set (a := if is_some (c_ecu c) then 4 else 0).
  set (b := if is_some (c_session c) then 4 else 0).
  set (d := if is_some (c_timestamp c) then 4 else 0).
  set (x := if is_some (c_ext c) then 10 else 0).
  destruct (N.lt_ge_cases P 65536) as [L|G].
  - rewrite N.mod_small by exact L. rewrite N.eqb_refl. reflexivity.
  - assert (Hm : P mod 65536 < 65536) by (apply N.mod_lt; lia).
    assert (E1 : (P mod 65536 =? P) = false) by (apply N.eqb_neq; lia).
    rewrite E1. symmetry. apply N.leb_gt. lia.
Qed.

Lemma new_wf_eq c sh :
  wf_message (message_new c sh) = wf_opt wf_storage sh && wf_config c.
Proof.
  unfold wf_message. rewrite new_len_ok. rewrite message_new_eq.
  cbn [m_storage m_header m_ext m_payload h_has_ext].
  rewrite new_has_ext, new_kind, new_wf_ext, andb_true_r.
  unfold wf_std, wf_config. cbn [h_version h_mcnt h_ecu h_session h_timestamp].
  rewrite <- !andb_assoc. reflexivity.
Qed.

Lemma new_wf c sh :
  wf_config c = true -> wf_opt wf_storage sh = true -> wf_message (message_new c sh) = true.
Proof. intros Hc Hs. rewrite new_wf_eq, Hc, Hs. reflexivity. Qed.

(* the predicate excludes nothing it need not: it is exactly "Message::new yields a well-formed message" *)
Lemma config_exact c : wf_config c = wf_message (message_new c None).
Proof. rewrite new_wf_eq. reflexivity. Qed.

Lemma wf_config_parts c : wf_config c = true ->
  wf_opt wf_id (c_ecu c) = true /\ wf_opt wf_ext_config (c_ext c) = true /\
  wf_cfg_kind (c_ext c) (c_payload c) = true /\ cfg_total_length c <= 65535.
Proof.
  unfold wf_config. intros W.
  apply andb_true_iff in W as [W Ht]. apply andb_true_iff in W as [W Hk].
  apply andb_true_iff in W as [W Hx]. apply andb_true_iff in W as [W _].
  apply andb_true_iff in W as [W _]. apply andb_true_iff in W as [_ He].
  apply N.leb_le in Ht. auto.
Qed.

Lemma wf_opt_id_len o : wf_opt wf_id o = true -> wf_opt (fun s : list byte => len s <=? 4) o = true.
Proof.
  destruct o as [s|]; cbn [wf_opt]; [|reflexivity]. intros H. apply N.leb_le. now apply wf_id_len.
Qed.

Lemma len_message_bytes m :
  wf_opt (fun s => len (sh_ecu s) <=? 4) (m_storage m) = true ->
  wf_opt (fun s => len s <=? 4) (h_ecu (m_header m)) = true ->
  wf_opt (fun x => (len (e_apid x) <=? 4) && (len (e_ctid x) <=? 4)) (m_ext m) = true ->
  len (message_bytes m) =
  (if is_some (m_storage m) then 16 else 0) + std_header_length (m_header m)
  + (if is_some (m_ext m) then 10 else 0) + len (payload_bytes (h_endian (m_header m)) (m_payload m)).
Proof.
  intros Hs He Hx. unfold message_bytes. rewrite !len_app, (len_std_header_bytes _ He).
  assert (E1 : len (match m_storage m with Some s => storage_header_bytes s | None => [] end)
               = if is_some (m_storage m) then 16 else 0).
  { destruct (m_storage m) as [s|]; cbn [wf_opt is_some] in *; [|reflexivity].
    apply N.leb_le in Hs. now apply len_storage_header_bytes. }
  assert (E2 : len (match m_ext m with Some x => ext_header_bytes x | None => [] end)
               = if is_some (m_ext m) then 10 else 0).
  { destruct (m_ext m) as [x|]; cbn [wf_opt is_some] in *; [|reflexivity].
    apply andb_true_iff in Hx as [Ha Hc]. apply N.leb_le in Ha, Hc. now apply len_ext_header_bytes. }
  rewrite E1, E2. lia.
Qed.

Lemma new_len c sh : wf_config c = true -> wf_opt wf_storage sh = true ->
  len (message_bytes (message_new c sh)) = (if is_some sh then 16 else 0) + cfg_total_length c.
Proof.
  intros Hc Hs. destruct (wf_config_parts c Hc) as (He & Hx & Hk & Ht).
  rewrite len_message_bytes.
  - rewrite message_new_eq.
    cbn [m_storage m_header m_ext m_payload h_endian]. unfold std_header_length, cfg_total_length.
    cbn [h_ecu h_session h_timestamp].
    assert (Ex : is_some (new_ext (c_payload c) (c_ext c)) = is_some (c_ext c))
      by (destruct (c_ext c); reflexivity).
    rewrite Ex. lia.
  - rewrite message_new_eq. cbn [m_storage].
    destruct sh as [s|]; cbn [wf_opt] in *; [|reflexivity].
    unfold wf_storage in Hs. apply andb_true_iff in Hs as [_ Hs]. apply N.leb_le. now apply wf_id_len.
  - rewrite message_new_eq. cbn [m_header h_ecu]. now apply wf_opt_id_len.
  - rewrite message_new_eq. cbn [m_ext].
    destruct (c_ext c) as [x|]; cbn [new_ext wf_opt e_apid e_ctid] in *; [|reflexivity].
    unfold wf_ext_config in Hx. apply andb_true_iff in Hx as [Hx Hct]. apply andb_true_iff in Hx as [_ Hap].
    apply wf_id_len in Hct, Hap. apply andb_true_iff. split; apply N.leb_le; assumption.
Qed.

Lemma new_consistent : forall c sh, wf_config c = true -> wf_opt wf_storage sh = true ->
  let m := message_new c sh in
  h_payload_length (m_header m) = len (payload_bytes (c_endian c) (c_payload c)) /\
  byte_len m = len (message_bytes (strip_storage m)) /\
  len (message_bytes m) = (if is_some sh then 16 else 0) + byte_len m /\
  (forall x, m_ext m = Some x ->
     e_verbose x = required_verbose (c_payload c) /\ e_noar x = required_noar (c_payload c)) /\
  wf_message m = true.
Proof.
  intros c sh Hc Hs m.
  pose proof (new_wf c sh Hc Hs) as Hwf. fold m in Hwf.
  destruct (wf_config_parts c Hc) as (He & Hx & Hk & Ht).
  assert (HP : len (payload_bytes (c_endian c) (c_payload c)) <= 65535).
  { unfold cfg_total_length in Ht. lia. }
  assert (E0 : h_payload_length (m_header m) = len (payload_bytes (c_endian c) (c_payload c))).
  { subst m. rewrite message_new_eq. cbn [m_header h_payload_length]. apply N.mod_small. lia. }
  assert (Eraw : overall_length_raw (m_header m) = cfg_total_length c).
  { rewrite overall_length_raw_eq, E0. subst m. rewrite message_new_eq.
    cbn [m_header h_has_ext]. unfold std_header_length, cfg_total_length.
    cbn [h_ecu h_session h_timestamp]. lia. }
  assert (Ebl : byte_len m = cfg_total_length c).
  { unfold byte_len, overall_length. rewrite Eraw. apply N.mod_small. lia. }
  split; [exact E0|]. split; [|split; [|split; [|exact Hwf]]].
  - change (strip_storage m) with (message_new c None).
    rewrite (new_len c None Hc eq_refl), Ebl. cbn [is_some]. lia.
  - subst m. rewrite (new_len c sh Hc Hs). fold (message_new c sh) in Ebl. rewrite Ebl. reflexivity.
  - intros x Hx'. subst m. rewrite message_new_eq in Hx'. cbn [m_ext] in Hx'.
    destruct (c_ext c) as [xc|]; cbn [new_ext] in Hx'; [|discriminate Hx'].
    injection Hx' as <-. cbn [e_verbose e_noar]. split; [apply required_verbose_eq|].
    destruct (c_payload c) as [args|id bs|ct bs|sl];
      cbn [wf_cfg_kind payload_arg_count required_noar] in *; try reflexivity.
    + apply andb_true_iff in Hk as [Hk _]. apply andb_true_iff in Hk as [Hk _].
      apply N.leb_le in Hk. apply N.mod_small. lia.
    + apply andb_true_iff in Hk as [Hk _]. apply andb_true_iff in Hk as [Hk _].
      apply N.leb_le in Hk. apply N.mod_small. lia.
Qed.

(* the constructor copies every configuration field *)
Lemma new_fields : forall c sh, let m := message_new c sh in
  m_storage m = sh /\ m_payload m = c_payload c /\
  h_version (m_header m) = c_version c /\ h_endian (m_header m) = c_endian c /\
  h_mcnt (m_header m) = c_counter c /\ h_ecu (m_header m) = c_ecu c /\
  h_session (m_header m) = c_session c /\ h_timestamp (m_header m) = c_timestamp c /\
  h_has_ext (m_header m) = is_some (c_ext c) /\
  option_map (fun x => mkExtCfg (e_mtype x) (e_apid x) (e_ctid x)) (m_ext m)
  = option_map (fun x => mkExtCfg (c_mtype x) (c_apid x) (c_ctid x)) (c_ext c).
Proof.
  intros c sh m. subst m. rewrite message_new_eq.
  cbn [m_storage m_payload m_header m_ext h_version h_endian h_mcnt h_ecu h_session h_timestamp h_has_ext].
  repeat split. destruct (c_ext c); reflexivity.
Qed.

(* ---------- add_storage_header ---------- *)
Lemma storage_bytes : forall m ts,
  message_bytes (add_storage_header m ts) =
  pat_DLT1 ++ put_uint LE 4 (ts_secs ts) ++ put_uint LE 4 (ts_micros ts)
  ++ put_zstring (storage_ecu m) 4 ++ message_bytes (strip_storage m).
Proof.
  intros m ts. unfold message_bytes, add_storage_header, strip_storage, storage_header_bytes, storage_ecu.
  cbn [m_storage m_header m_ext m_payload sh_ts sh_ecu app].
  rewrite <- !app_assoc. reflexivity.
Qed.

Lemma storage_ecu_len m :
  wf_opt (fun s => len s <=? 4) (h_ecu (m_header m)) = true -> len (storage_ecu m) <= 4.
Proof.
  unfold storage_ecu. destruct (h_ecu (m_header m)) as [e|]; cbn [wf_opt]; intros H.
  - now apply N.leb_le.
  - cbn. lia.
Qed.

Lemma storage_prepends_16 : forall m ts,
  wf_opt (fun s => len s <=? 4) (h_ecu (m_header m)) = true ->
  exists pre, message_bytes (add_storage_header m ts) = pre ++ message_bytes (strip_storage m) /\
              len pre = 16 /\
              pre = pat_DLT1 ++ put_uint LE 4 (ts_secs ts) ++ put_uint LE 4 (ts_micros ts)
                    ++ put_zstring (storage_ecu m) 4.
Proof.
  intros m ts H. eexists. split; [|split; [|reflexivity]].
  - rewrite storage_bytes, <- !app_assoc. reflexivity.
  - rewrite !len_app, len_pat_DLT1, !len_put_uint, (len_put_zstring4 _ (storage_ecu_len m H)). reflexivity.
Qed.

Lemma strip_storage_id m : m_storage m = None -> strip_storage m = m.
Proof. destruct m as [s h x p]. cbn [m_storage]. intros ->. reflexivity. Qed.

Lemma wf_id_default : wf_id DEFAULT_ECU_ID = true.
Proof. vm_compute. reflexivity. Qed.

Lemma storage_wf : forall m ts,
  wf_message m = true -> ts_secs ts < 2 ^ 32 -> ts_micros ts < 2 ^ 32 ->
  wf_message (add_storage_header m ts) = true.
Proof.
  intros m ts W Hs Hu. unfold wf_message in *.
  apply andb_true_iff in W as [W Hl]. apply andb_true_iff in W as [W Hk].
  apply andb_true_iff in W as [W Hx]. apply andb_true_iff in W as [W Hb].
  apply andb_true_iff in W as [_ Hstd].
  unfold add_storage_header, len_ok in *. cbn [m_storage m_header m_ext m_payload wf_opt] in *.
  rewrite Hstd, Hb, Hx, Hk, Hl, !andb_true_r.
  unfold wf_storage. cbn [sh_ts sh_ecu].
  apply N.ltb_lt in Hs, Hu. rewrite Hs, Hu. cbn [andb].
  unfold wf_std in Hstd.
  apply andb_true_iff in Hstd as [Hstd _]. apply andb_true_iff in Hstd as [Hstd _].
  apply andb_true_iff in Hstd as [_ He].
  destruct (h_ecu (m_header m)) as [e|]; cbn [wf_opt] in He; [exact He|exact wf_id_default].
Qed.

Lemma storage_spec : forall m ts,
  let pre := pat_DLT1 ++ put_uint LE 4 (ts_secs ts) ++ put_uint LE 4 (ts_micros ts)
             ++ put_zstring (storage_ecu m) 4 in
  message_bytes (add_storage_header m ts) = pre ++ message_bytes (strip_storage m) /\
  (wf_opt wf_id (h_ecu (m_header m)) = true -> len pre = 16) /\
  (m_storage m = None -> strip_storage m = m) /\
  byte_len (add_storage_header m ts) = byte_len m.
Proof.
  intros m ts pre. subst pre. split; [|split; [|split]].
  - rewrite storage_bytes, <- !app_assoc. reflexivity.
  - intros H. apply wf_opt_id_len in H.
    rewrite !len_app, len_pat_DLT1, !len_put_uint, (len_put_zstring4 _ (storage_ecu_len m H)). reflexivity.
  - apply strip_storage_id.
  - reflexivity.
Qed.

(* the storage header does not change what Message::byte_len reports *)
Lemma storage_byte_len m ts : byte_len (add_storage_header m ts) = byte_len m.
Proof. reflexivity. Qed.

(* ---------- composition with the round-trip theorem (C01) ---------- *)
Section Compose.
  Hypothesis RT : forall m rest, wf_message m = true ->
    dlt_message (message_bytes m ++ rest) None (is_some (m_storage m)) = POk (Item m) rest.

  Lemma new_parses : forall c sh, wf_config c = true -> wf_opt wf_storage sh = true ->
    dlt_message (message_bytes (message_new c sh)) None (is_some sh) = POk (Item (message_new c sh)) [].
  Proof.
    intros c sh Hc Hs. pose proof (RT (message_new c sh) [] (new_wf c sh Hc Hs)) as H.
    rewrite app_nil_r in H. exact H.
  Qed.

  Lemma storage_parses : forall m ts,
    wf_message m = true -> ts_secs ts < 2 ^ 32 -> ts_micros ts < 2 ^ 32 ->
    dlt_message (message_bytes (add_storage_header m ts)) None true
    = POk (Item (add_storage_header m ts)) [].
  Proof.
    intros m ts W Hs Hu. pose proof (RT (add_storage_header m ts) [] (storage_wf m ts W Hs Hu)) as H.
    rewrite app_nil_r in H. exact H.
  Qed.
End Compose.
