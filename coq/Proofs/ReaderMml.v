(* ReaderMml.v — the readers with a caller-chosen scratch length (message_max_len):
   they deliver Spec/ReaderMmlSpec.spec_run_mml for every schedule and every BufReader capacity;
   when every need fits this is spec_run (C07/C08 are the instance mml = 16 + 65535);
   otherwise the run ends with a panic at the first call whose need exceeds the scratch. *)
From Coq Require Import Lia ZifyBool ZifyN ZifyNat.
From DltV.Model Require Import Bytes Nom Dlt Parse Reader Stream ReaderMml.
From DltV.Model Require Run.
From DltV.Spec Require Import ReaderSpec ReaderMmlSpec.
From DltV.Proofs Require Import ReaderProofs StreamProofs.
Open Scope N_scope.

(* ================= one call / the loop, over an abstract read_exact and ANY scratch ================= *)
Section GenericMml.
  Variable St : Type.
  Variable read_exact : N -> St -> xres * list byte * St.
  Variable view : St -> list byte.
  Hypothesis rx_spec : forall want st, exists st',
    read_exact want st = ((if want <=? len (view st) then XOk else XEof), takeN want (view st), st')
    /\ view st' = dropN want (view st).

  (* one call of the repaired next_message_slice with a scratch of m bytes (content irrelevant) *)
  Lemma next_message_slice_mml_spec : forall sh (r : reader St),
    let m := len (rd_scratch r) in
    let v := view (rd_src r) in
    exists r', len (rd_scratch r') = m /\
      if m <? hdr_len sh then next_message_slice_with read_exact true sh r = (NPanic, r')
      else
        match spec_cut sh v with
        | CEnd => next_message_slice_with read_exact true sh r = (NEmpty, r')
        | CShort => next_message_slice_with read_exact true sh r = (NErr EHickup, r')
                    /\ view (rd_src r') = dropN (hdr_len sh) v
        | CTrunc =>
          if m <? storage_len sh + declared_len sh v
          then next_message_slice_with read_exact true sh r = (NPanic, r')
          else next_message_slice_with read_exact true sh r = (NErr EUnrecoverable, r')
               /\ view (rd_src r') = []
        | CPiece n =>
          if m <? n
          then next_message_slice_with read_exact true sh r = (NPanic, r')
          else next_message_slice_with read_exact true sh r = (NSlice (takeN n v), r')
               /\ view (rd_src r') = dropN n v
        end.
  Proof.
    intros sh [st buf]. cbn [rd_scratch rd_src]. cbv zeta.
    unfold next_message_slice_with, spec_cut. cbn [rd_scratch rd_src].
    change (if sh then 16 else 0) with (storage_len sh).
    change (storage_len sh + 4) with (hdr_len sh).
    assert (Hsl : storage_len sh <= 16) by (destruct sh; cbn [storage_len]; lia).
    assert (Hhdr : hdr_len sh = storage_len sh + 4) by reflexivity.
    unfold range_ok. rewrite fits_spec.
    destruct (len buf <? hdr_len sh) eqn:Em.
    - (* the scratch cannot even hold the header *)
      replace ((0 <=? hdr_len sh) && (hdr_len sh <=? len buf)) with false by lia. cbn [negb].
      exists (mkReader st buf). split; reflexivity.
    - replace ((0 <=? hdr_len sh) && (hdr_len sh <=? len buf)) with true by lia. cbn [negb].
      destruct (rx_spec (hdr_len sh) st) as (st1 & E1 & V1). rewrite E1.
      set (v := view st) in *. set (h := takeN (hdr_len sh) v).
      destruct (len v <? hdr_len sh) eqn:Ehdr.
      + (* end of stream *)
        replace (hdr_len sh <=? len v) with false by lia.
        eexists. split; [|reflexivity]. cbn [rd_scratch].
        rewrite len_blit; [reflexivity|]. unfold h. rewrite len_takeN. lia.
      + replace (hdr_len sh <=? len v) with true by lia.
        assert (Hh : len h = hdr_len sh) by (unfold h; rewrite len_takeN; lia).
        assert (Hb1 : len (blit 0 h buf) = len buf) by (apply len_blit; lia).
        rewrite (sub_blit_0 (storage_len sh) (hdr_len sh) h buf Hh) by lia.
        destruct (parse_length_declared sh v) as (EL & HL); [lia|]. fold h in EL. rewrite EL.
        set (L := declared_len sh v) in *.
        destruct (L <? 4) eqn:EL4; cbn [andb].
        * (* declared length below the header length: the second slice is never taken *)
          eexists. split; [|split; [reflexivity|exact V1]]. cbn [rd_scratch]. exact Hb1.
        * rewrite fits_spec, Hb1.
          set (t := storage_len sh + L) in *.
          destruct (len buf <? t) eqn:Efit.
          -- (* total_len exceeds the scratch: panic, whether or not the body is there *)
             replace ((hdr_len sh <=? t) && (t <=? len buf)) with false by lia. cbn [negb].
             exists (mkReader st1 (blit 0 h buf)).
             destruct (len v <? t); cbv iota; rewrite ?Efit; (split; [exact Hb1|reflexivity]).
          -- replace ((hdr_len sh <=? t) && (t <=? len buf)) with true by lia. cbn [negb].
             destruct (rx_spec (t - hdr_len sh) st1) as (st2 & E2 & V2).
             rewrite V1 in E2, V2. rewrite len_dropN in E2. rewrite E2.
             set (b := takeN (t - hdr_len sh) (dropN (hdr_len sh) v)) in *.
             assert (Hb : len b = N.min (t - hdr_len sh) (len v - hdr_len sh))
               by (unfold b; rewrite len_takeN, len_dropN; reflexivity).
             assert (Hb2 : len (blit (hdr_len sh) b (blit 0 h buf)) = len buf)
               by (rewrite len_blit; lia).
             destruct (len v <? t) eqn:Et; cbv iota; rewrite ?Efit.
             ++ (* truncated message *)
                replace (t - hdr_len sh <=? len v - hdr_len sh) with false by lia.
                eexists. split; [|split; [reflexivity|]]; cbn [rd_scratch rd_src]; [exact Hb2|].
                rewrite V2, dropN_dropN. apply dropN_all. lia.
             ++ replace (t - hdr_len sh <=? len v - hdr_len sh) with true by lia.
                exists (mkReader st2 (blit (hdr_len sh) b (blit 0 h buf))).
                split; [|split; [|]]; cbn [rd_scratch rd_src]; [exact Hb2| |].
                ** do 2 f_equal.
                   rewrite (takeN_blit_blit (hdr_len sh) t h b buf) by lia.
                   transitivity (takeN (hdr_len sh + (t - hdr_len sh)) v);
                     [rewrite takeN_add; reflexivity|f_equal; lia].
                ** rewrite V2, dropN_dropN. f_equal. lia.
  Qed.

  (* the caller's loop = the run of the specification with a scratch of that length *)
  Lemma run_mml_spec : forall fuel f sh (r : reader St),
    (length (view (rd_src r)) < fuel)%nat ->
    run_with read_exact true fuel f sh r
    = (spec_run_mml_fuel fuel (len (rd_scratch r)) (view (rd_src r)) f sh, true).
  Proof.
    induction fuel as [|fuel IH]; intros f sh r Hfuel; [lia|].
    cbn [run_with spec_run_mml_fuel]. unfold read_message_with.
    destruct (next_message_slice_mml_spec sh r) as (r' & Hbuf' & H).
    cbv zeta in H, Hbuf'. set (v := view (rd_src r)) in *. set (m := len (rd_scratch r)) in *.
    rewrite length_len in Hfuel.
    destruct (m <? hdr_len sh) eqn:Em; [rewrite H; reflexivity|].
    destruct (spec_cut sh v) as [| | |n] eqn:Ecut.
    - rewrite H. reflexivity.
    - destruct H as (E & V). rewrite E.
      assert (Hc : hdr_len sh <= len v).
      { unfold spec_cut in Ecut. destruct (len v <? hdr_len sh) eqn:E1; [discriminate|lia]. }
      rewrite IH.
      + rewrite V, Hbuf', dropN_skipn. reflexivity.
      + rewrite V, length_len, len_dropN. unfold hdr_len in *. lia.
    - destruct (m <? storage_len sh + declared_len sh v) eqn:Efit; [rewrite H; reflexivity|].
      destruct H as (E & V). rewrite E.
      assert (Hc : hdr_len sh <= len v).
      { unfold spec_cut in Ecut. destruct (len v <? hdr_len sh) eqn:E1; [discriminate|lia]. }
      rewrite IH.
      + rewrite V, Hbuf'. destruct fuel as [|fuel']; [unfold hdr_len in *; lia|].
        cbn [spec_run_mml_fuel]. rewrite Em. unfold spec_cut. rewrite len_nil.
        replace (0 <? hdr_len sh) with true by (unfold hdr_len; lia). reflexivity.
      + rewrite V. cbn [length]. unfold hdr_len in *. lia.
    - destruct (m <? n) eqn:Efit; [rewrite H; reflexivity|].
      destruct H as (E & V). rewrite E.
      destruct (spec_cut_piece sh v n Ecut) as (Hn & Hn1 & Hn2).
      rewrite is_nil_len, len_takeN.
      replace (N.min n (len v) =? 0) with false by (unfold hdr_len in *; lia).
      replace (firstn (N.to_nat n) v) with (takeN n v) by apply takeN_firstn.
      replace (skipn (N.to_nat n) v) with (dropN n v) by apply dropN_skipn.
      change spec_outcome with pres_outcome.
      assert (Hrec : run_with read_exact true fuel f sh r'
                     = (spec_run_mml_fuel fuel m (dropN n v) f sh, true)).
      { rewrite IH; [rewrite V, Hbuf'; reflexivity|].
        rewrite V, length_len, len_dropN. unfold hdr_len in *. lia. }
      destruct (pres_outcome (dlt_message (takeN n v) f sh)) as [pm|e|]; rewrite ?Hrec; reflexivity.
  Qed.
End GenericMml.

(* ================= the two readers ================= *)
Lemma len_scratch_of : forall mml, len (scratch_of mml) = mml.
Proof. intros. unfold scratch_of, len. rewrite repeat_length. apply N2Nat.id. Qed.

(* MASTER: whatever mml, cap, schedule: the run of the specification with a scratch of mml bytes *)
Lemma reader_run_mml_spec : forall mml cap sigma s f sh,
  reader_run_mml mml cap sigma s f sh = (spec_run_mml mml s f sh, true).
Proof.
  intros. unfold reader_run_mml, spec_run_mml.
  rewrite (run_mml_spec bufreader (br_read_exact cap) br_view (br_read_exact_spec cap)).
  - cbn [reader_mml rd_scratch rd_src br_view br_buf br_src src_rest app].
    rewrite len_scratch_of. reflexivity.
  - cbn [reader_mml rd_src br_view br_buf br_src src_rest app]. lia.
Qed.

Lemma async_run_mml_spec : forall mml cap pi s f sh,
  async_run_mml mml cap pi s f sh = (spec_run_mml mml s f sh, true).
Proof.
  intros. unfold async_run_mml, spec_run_mml.
  rewrite (run_mml_spec bufreader (abr_read_exact cap) br_view (abr_read_exact_spec cap)).
  - cbn [reader_mml rd_scratch rd_src br_view br_buf br_src src_rest app].
    rewrite len_scratch_of. reflexivity.
  - cbn [reader_mml rd_src br_view br_buf br_src src_rest app]. lia.
Qed.

(* ================= the specification side: needs, fits, first_over ================= *)

Lemma spec_cut_trunc : forall sh v, spec_cut sh v = CTrunc ->
  hdr_len sh <= len v /\ 4 <= declared_len sh v /\ len v < storage_len sh + declared_len sh v.
Proof.
  intros sh v. unfold spec_cut, hdr_len.
  destruct (len v <? storage_len sh + 4) eqn:E1; [discriminate|].
  destruct (declared_len sh v <? 4) eqn:E2; [discriminate|].
  destruct (len v <? storage_len sh + declared_len sh v) eqn:E3; [|discriminate].
  intros _. lia.
Qed.

(* every need is at least a header *)
Lemma spec_needs_fuel_ge_hdr : forall sh fuel s,
  Forall (fun t => hdr_len sh <= t) (spec_needs_fuel fuel s sh).
Proof.
  intros sh. induction fuel as [|fuel IH]; intros s; cbn [spec_needs_fuel]; [constructor|].
  pose proof (spec_cut_consumes sh s) as Hc.
  destruct (spec_cut sh s) as [| | |n] eqn:Ecut.
  - constructor; [lia|constructor].
  - constructor; [lia|apply IH].
  - destruct (spec_cut_trunc sh s Ecut) as (_ & H4 & _).
    constructor; [unfold hdr_len; lia|constructor].
  - constructor; [lia|apply IH].
Qed.

(* ----- FITS ----- *)
Lemma spec_run_mml_fuel_fits : forall f sh m fuel s,
  forallb (fun t => t <=? m) (spec_needs_fuel fuel s sh) = true ->
  spec_run_mml_fuel fuel m s f sh = spec_run_fuel fuel s f sh.
Proof.
  intros f sh m. induction fuel as [|fuel IH]; intros s Hfit; [reflexivity|].
  cbn [spec_run_mml_fuel spec_run_fuel]. cbn [spec_needs_fuel] in Hfit.
  pose proof (spec_cut_consumes sh s) as Hc.
  destruct (spec_cut sh s) as [| | |n] eqn:Ecut; cbn [forallb] in Hfit;
    apply andb_prop in Hfit; destruct Hfit as (Hhd & Htl).
  - replace (m <? hdr_len sh) with false by lia. reflexivity.
  - replace (m <? hdr_len sh) with false by lia. f_equal. apply IH. exact Htl.
  - destruct (spec_cut_trunc sh s Ecut) as (_ & H4 & _).
    replace (m <? hdr_len sh) with false by (unfold hdr_len; lia).
    replace (m <? storage_len sh + declared_len sh s) with false by lia. reflexivity.
  - replace (m <? hdr_len sh) with false by lia.
    replace (m <? n) with false by lia.
    rewrite (IH _ Htl). reflexivity.
Qed.

Lemma spec_run_mml_fits : forall mml s f sh, fits_mml mml s sh = true ->
  spec_run_mml mml s f sh = spec_run s f sh.
Proof. intros mml s f sh H. apply spec_run_mml_fuel_fits. exact H. Qed.

Lemma reader_run_mml_fits : forall mml cap sigma s f sh,
  fits_mml mml s sh = true ->
  reader_run_mml mml cap sigma s f sh = (spec_run s f sh, true).
Proof. intros. rewrite reader_run_mml_spec, spec_run_mml_fits by assumption. reflexivity. Qed.

Lemma async_run_mml_fits : forall mml cap pi s f sh,
  fits_mml mml s sh = true ->
  async_run_mml mml cap pi s f sh = (spec_run s f sh, true).
Proof. intros. rewrite async_run_mml_spec, spec_run_mml_fits by assumption. reflexivity. Qed.

(* ----- TOO LONG ----- *)
Lemma spec_run_mml_fuel_over : forall f sh m fuel s i,
  first_over m (spec_needs_fuel fuel s sh) = Some i ->
  spec_run_mml_fuel fuel m s f sh = until_panic (firstn i (spec_run_fuel fuel s f sh) ++ [OPanic]).
Proof.
  intros f sh m. induction fuel as [|fuel IH]; intros s i Hov; [discriminate|].
  cbn [spec_run_mml_fuel spec_run_fuel]. cbn [spec_needs_fuel] in Hov.
  pose proof (spec_cut_consumes sh s) as Hc.
  (* a tail step: head need fits, the first excess is further on *)
  assert (Hstep : forall t l, (m <? t) = false -> first_over m (t :: l) = Some i ->
            exists i', i = S i' /\ first_over m l = Some i').
  { intros t l Ht Hf. cbn [first_over] in Hf. rewrite Ht in Hf.
    destruct (first_over m l) as [i'|]; [|discriminate]. cbn [option_map] in Hf.
    injection Hf as <-. exists i'. split; reflexivity. }
  destruct (m <? hdr_len sh) eqn:Em.
  - (* every need is >= hdr_len > m: the first call panics *)
    assert (Hi : i = O).
    { pose proof (spec_needs_fuel_ge_hdr sh (S fuel) s) as Hge. cbn [spec_needs_fuel] in Hge.
      destruct (spec_cut sh s) as [| | |n];
        inversion Hge as [|t l Ht _ Heq]; subst; cbn [first_over] in Hov;
        (replace (m <? _) with true in Hov by lia); congruence. }
    subst i. reflexivity.
  - destruct (spec_cut sh s) as [| | |n] eqn:Ecut.
    + cbn [first_over] in Hov. rewrite Em in Hov. discriminate.
    + destruct (Hstep _ _ Em Hov) as (i' & -> & Hov').
      cbn [firstn app until_panic]. f_equal. apply IH. exact Hov'.
    + cbn [first_over] in Hov.
      destruct (m <? storage_len sh + declared_len sh s) eqn:Efit; [|discriminate].
      injection Hov as <-. reflexivity.
    + destruct (m <? n) eqn:Efit.
      * cbn [first_over] in Hov. rewrite Efit in Hov. injection Hov as <-. reflexivity.
      * destruct (Hstep _ _ Efit Hov) as (i' & -> & Hov').
        destruct (spec_outcome (dlt_message (firstn (N.to_nat n) s) f sh)) as [pm|e|];
          cbn [firstn app until_panic]; [f_equal; apply IH; exact Hov'..|reflexivity].
Qed.

Lemma spec_run_mml_over : forall mml s f sh i,
  first_over mml (spec_needs s sh) = Some i ->
  spec_run_mml mml s f sh = until_panic (firstn i (spec_run s f sh) ++ [OPanic]).
Proof. intros mml s f sh i H. apply spec_run_mml_fuel_over. exact H. Qed.

Lemma until_panic_clean : forall l, ~ In OPanic l -> until_panic (l ++ [OPanic]) = l ++ [OPanic].
Proof.
  induction l as [|o l IH]; intros Hn; [reflexivity|].
  cbn [app until_panic].
  destruct o as [pm|e|]; [f_equal; apply IH; intros H; apply Hn; right; exact H..|].
  exfalso. apply Hn. left. reflexivity.
Qed.

(* the general form: the outcomes before the offending record, then the panic (a panic of dlt_message
   among them ends the run there, as it does in spec_run) *)
Lemma reader_run_mml_over : forall mml cap sigma s f sh i,
  first_over mml (spec_needs s sh) = Some i ->
  reader_run_mml mml cap sigma s f sh = (until_panic (firstn i (spec_run s f sh) ++ [OPanic]), true).
Proof. intros. rewrite reader_run_mml_spec, (spec_run_mml_over _ _ _ _ i) by assumption. reflexivity. Qed.

Lemma async_run_mml_over : forall mml cap pi s f sh i,
  first_over mml (spec_needs s sh) = Some i ->
  async_run_mml mml cap pi s f sh = (until_panic (firstn i (spec_run s f sh) ++ [OPanic]), true).
Proof. intros. rewrite async_run_mml_spec, (spec_run_mml_over _ _ _ _ i) by assumption. reflexivity. Qed.

Lemma reader_run_mml_too_long : forall mml cap sigma s f sh i,
  first_over mml (spec_needs s sh) = Some i ->
  ~ In OPanic (firstn i (spec_run s f sh)) ->
  reader_run_mml mml cap sigma s f sh = (firstn i (spec_run s f sh) ++ [OPanic], true).
Proof.
  intros mml cap sigma s f sh i H Hn.
  rewrite (reader_run_mml_over _ _ _ _ _ _ i H), until_panic_clean by exact Hn. reflexivity.
Qed.

Lemma async_run_mml_too_long : forall mml cap pi s f sh i,
  first_over mml (spec_needs s sh) = Some i ->
  ~ In OPanic (firstn i (spec_run s f sh)) ->
  async_run_mml mml cap pi s f sh = (firstn i (spec_run s f sh) ++ [OPanic], true).
Proof.
  intros mml cap pi s f sh i H Hn.
  rewrite (async_run_mml_over _ _ _ _ _ _ i H), until_panic_clean by exact Hn. reflexivity.
Qed.

(* the two cases are exhaustive and exclusive *)
Lemma first_over_none : forall m l, first_over m l = None <-> forallb (fun t => t <=? m) l = true.
Proof.
  intros m. induction l as [|t l IH]; cbn [first_over forallb]; [split; reflexivity|].
  destruct (m <? t) eqn:E.
  - replace (t <=? m) with false by lia. cbn [andb]. split; discriminate.
  - replace (t <=? m) with true by lia. cbn [andb].
    destruct (first_over m l) as [i|]; cbn [option_map].
    + split; [discriminate|]. intros H. apply IH in H. discriminate.
    + split; [intros _; apply IH; reflexivity|reflexivity].
Qed.

Lemma fits_mml_first_over : forall mml s sh,
  fits_mml mml s sh = true <-> first_over mml (spec_needs s sh) = None.
Proof. intros. unfold fits_mml. symmetry. apply first_over_none. Qed.

(* a scratch shorter than a header: the very first call panics, even on an empty stream *)
Lemma spec_needs_nonempty : forall s sh, exists t l, spec_needs s sh = t :: l /\ hdr_len sh <= t.
Proof.
  intros s sh. unfold spec_needs.
  pose proof (spec_needs_fuel_ge_hdr sh (length s + 1) s) as Hge.
  replace (length s + 1)%nat with (S (length s)) in * by lia. cbn [spec_needs_fuel] in *.
  destruct (spec_cut sh s) as [| | |n]; inversion Hge as [|t l Ht _ Heq]; subst; eauto.
Qed.

Lemma reader_run_mml_no_header : forall mml cap sigma s f sh,
  mml < hdr_len sh -> reader_run_mml mml cap sigma s f sh = ([OPanic], true).
Proof.
  intros mml cap sigma s f sh Hm.
  destruct (spec_needs_nonempty s sh) as (t & l & E & Ht).
  rewrite (reader_run_mml_over _ _ _ _ _ _ O); [reflexivity|].
  rewrite E. cbn [first_over]. replace (mml <? t) with true by lia. reflexivity.
Qed.

Lemma async_run_mml_no_header : forall mml cap pi s f sh,
  mml < hdr_len sh -> async_run_mml mml cap pi s f sh = ([OPanic], true).
Proof.
  intros mml cap pi s f sh Hm.
  destruct (spec_needs_nonempty s sh) as (t & l & E & Ht).
  rewrite (async_run_mml_over _ _ _ _ _ _ O); [reflexivity|].
  rewrite E. cbn [first_over]. replace (mml <? t) with true by lia. reflexivity.
Qed.

(* ================= the needs, read off spec_cuts ================= *)
Lemma spec_needs_fuel_by_cuts : forall sh fuel off s, (length s < fuel)%nat ->
  let cuts := spec_cuts_fuel fuel off s sh in
  let r := dropN (cuts_total cuts) s in
  (spec_cut sh r = CEnd \/ spec_cut sh r = CTrunc)
  /\ spec_needs_fuel fuel s sh
     = map snd cuts ++ [match spec_cut sh r with
                        | CTrunc => storage_len sh + declared_len sh r
                        | _ => hdr_len sh
                        end].
Proof.
  intros sh. induction fuel as [|fuel IH]; intros off s Hf; [lia|].
  cbv zeta. cbn [spec_needs_fuel spec_cuts_fuel].
  pose proof (spec_cut_consumes sh s) as Hc. rewrite length_len in Hf.
  assert (H4 : hdr_len sh = storage_len sh + 4) by reflexivity.
  destruct (spec_cut sh s) as [| | |n] eqn:Ecut.
  - cbn [cuts_total fold_right map app]. rewrite dropN_0, Ecut. split; [left|]; reflexivity.
  - destruct (IH (off + hdr_len sh) (dropN (hdr_len sh) s)) as (I1 & I2).
    { rewrite length_len, len_dropN. lia. }
    cbv zeta in I1, I2. rewrite <- dropN_skipn.
    cbn [cuts_total fold_right map app snd]. fold (cuts_total (spec_cuts_fuel fuel (off + hdr_len sh) (dropN (hdr_len sh) s) sh)).
    rewrite <- dropN_dropN. split; [exact I1|]. f_equal. exact I2.
  - cbn [cuts_total fold_right map app]. rewrite dropN_0, Ecut. split; [right|]; reflexivity.
  - destruct (IH (off + n) (dropN n s)) as (I1 & I2).
    { rewrite length_len, len_dropN. lia. }
    cbv zeta in I1, I2. rewrite <- dropN_skipn.
    cbn [cuts_total fold_right map app snd]. fold (cuts_total (spec_cuts_fuel fuel (off + n) (dropN n s) sh)).
    rewrite <- dropN_dropN. split; [exact I1|]. f_equal. exact I2.
Qed.

(* needs = the lengths of the complete pieces, then the need of the last call: a header, or the
   declared total of a trailing record cut off by the end of the stream *)
Lemma spec_needs_by_cuts : forall s sh,
  spec_needs s sh = map snd (spec_cuts s sh) ++ [last_need s sh].
Proof.
  intros s sh. unfold spec_needs, last_need, trailing_total, spec_rest, spec_cuts.
  destruct (spec_needs_fuel_by_cuts sh (length s + 1) 0 s ltac:(lia)) as (_ & E).
  cbv zeta in E. rewrite E. rewrite <- dropN_skipn.
  destruct (spec_cut sh (dropN (cuts_total (spec_cuts_fuel (length s + 1) 0 s sh)) s)); reflexivity.
Qed.

(* what is left behind the last complete piece is the end of the stream or a cut-off record *)
Lemma spec_rest_cut : forall s sh,
  spec_cut sh (spec_rest s sh) = CEnd \/ spec_cut sh (spec_rest s sh) = CTrunc.
Proof.
  intros s sh. unfold spec_rest, spec_cuts. rewrite <- dropN_skipn.
  destruct (spec_needs_fuel_by_cuts sh (length s + 1) 0 s ltac:(lia)) as (H & _). exact H.
Qed.

Lemma trailing_total_ge_hdr : forall s sh t, trailing_total s sh = Some t -> hdr_len sh <= t.
Proof.
  intros s sh t. unfold trailing_total.
  destruct (spec_cut sh (spec_rest s sh)) eqn:E; try discriminate.
  intros [= <-]. destruct (spec_cut_trunc sh _ E) as (_ & H4 & _). unfold hdr_len. lia.
Qed.

(* the side condition in words: header, complete pieces, trailing record *)
Lemma fits_mml_iff : forall mml s sh,
  fits_mml mml s sh = true
  <-> hdr_len sh <= mml
      /\ Forall (fun c => snd c <= mml) (spec_cuts s sh)
      /\ (forall t, trailing_total s sh = Some t -> t <= mml).
Proof.
  intros mml s sh. unfold fits_mml. rewrite spec_needs_by_cuts, forallb_app.
  cbn [forallb]. rewrite andb_true_r, Bool.andb_true_iff, forallb_forall, Forall_forall.
  unfold last_need. split.
  - intros (Hc & Hl). split; [|split].
    + destruct (trailing_total s sh) as [t|] eqn:Et; [|lia].
      pose proof (trailing_total_ge_hdr s sh t Et). lia.
    + intros c Hin. assert (K : (snd c <=? mml) = true) by (apply Hc, in_map, Hin). lia.
    + intros t Et. rewrite Et in Hl. lia.
  - intros (Hh & Hc & Ht). split.
    + intros t Hin. apply in_map_iff in Hin. destruct Hin as (c & <- & Hin).
      pose proof (Hc c Hin). lia.
    + destruct (trailing_total s sh) as [t|]; [pose proof (Ht t eq_refl)|]; lia.
Qed.

Lemma reader_run_mml_fits_cuts : forall mml cap sigma s f sh,
  hdr_len sh <= mml ->
  Forall (fun c => snd c <= mml) (spec_cuts s sh) ->
  (forall t, trailing_total s sh = Some t -> t <= mml) ->
  reader_run_mml mml cap sigma s f sh = (spec_run s f sh, true).
Proof. intros. apply reader_run_mml_fits, fits_mml_iff. auto. Qed.

Lemma async_run_mml_fits_cuts : forall mml cap pi s f sh,
  hdr_len sh <= mml ->
  Forall (fun c => snd c <= mml) (spec_cuts s sh) ->
  (forall t, trailing_total s sh = Some t -> t <= mml) ->
  async_run_mml mml cap pi s f sh = (spec_run s f sh, true).
Proof. intros. apply async_run_mml_fits, fits_mml_iff. auto. Qed.

(* ================= the default is an instance ================= *)
Lemma reader_run_mml_default : forall cap sigma s f sh,
  reader_run_mml message_max_len cap sigma s f sh = reader_run_cap cap sigma s f sh.
Proof. reflexivity. Qed.

Lemma async_run_mml_default : forall cap pi s f sh,
  async_run_mml message_max_len cap pi s f sh = async_run_cap cap pi s f sh.
Proof. reflexivity. Qed.

(* every need of every stream is within 16 + 65535 (declared lengths are u16) *)
Lemma spec_needs_fuel_u16 : forall sh fuel s,
  Forall (fun t => t <= message_max_len) (spec_needs_fuel fuel s sh).
Proof.
  intros sh. assert (Hmax : message_max_len = 65551) by reflexivity.
  assert (Hsl : storage_len sh <= 16) by (destruct sh; cbn [storage_len]; lia).
  induction fuel as [|fuel IH]; intros s; cbn [spec_needs_fuel]; [constructor|].
  destruct (spec_cut sh s) as [| | |n] eqn:Ecut.
  - constructor; [unfold hdr_len; lia|constructor].
  - constructor; [unfold hdr_len; lia|apply IH].
  - destruct (spec_cut_trunc sh s Ecut) as (Hh & _ & _).
    destruct (parse_length_declared sh s Hh) as (_ & HL).
    constructor; [lia|constructor].
  - destruct (spec_cut_piece sh s n Ecut) as (-> & Hh & Hn).
    destruct (parse_length_declared sh s) as (_ & HL); [lia|].
    constructor; [lia|apply IH].
Qed.

Lemma fits_mml_default : forall s sh, fits_mml message_max_len s sh = true.
Proof.
  intros s sh. unfold fits_mml. apply forallb_forall. intros t Hin.
  pose proof (spec_needs_fuel_u16 sh (length s + 1) s) as H.
  rewrite Forall_forall in H. specialize (H t Hin). lia.
Qed.

(* ... and any larger scratch *)
Lemma fits_mml_mono : forall m m' s sh, m <= m' -> fits_mml m s sh = true -> fits_mml m' s sh = true.
Proof.
  intros m m' s sh Hm. unfold fits_mml. rewrite !forallb_forall.
  intros H t Hin. specialize (H t Hin). lia.
Qed.

Lemma fits_mml_ge_default : forall mml s sh, message_max_len <= mml -> fits_mml mml s sh = true.
Proof. intros mml s sh H. apply (fits_mml_mono message_max_len); [exact H|apply fits_mml_default]. Qed.

(* C07's / C08's main theorems as corollaries of FITS *)
Lemma reader_run_cap_spec_again : forall cap sigma s f sh,
  reader_run_cap cap sigma s f sh = (spec_run s f sh, true).
Proof.
  intros. rewrite <- reader_run_mml_default. apply reader_run_mml_fits, fits_mml_default.
Qed.

Lemma async_run_cap_spec_again : forall cap pi s f sh,
  async_run_cap cap pi s f sh = (spec_run s f sh, true).
Proof.
  intros. rewrite <- async_run_mml_default. apply async_run_mml_fits, fits_mml_default.
Qed.

(* async = blocking for every scratch length, fitting or not *)
Lemma async_mml_eq_blocking : forall mml cap cap' pi sigma s f sh,
  async_run_mml mml cap pi s f sh = reader_run_mml mml cap' sigma s f sh.
Proof. intros. now rewrite async_run_mml_spec, reader_run_mml_spec. Qed.

(* ================= the tie to the function the differential test evaluates ================= *)
Lemma run_reader_of_mml : forall mml sigma s, mml <> 0 ->
  Run.reader_of mml sigma s = mkReader (mkBR [] (mkSrc sigma s)) (scratch_of mml).
Proof.
  intros mml sigma s H. unfold Run.reader_of.
  destruct (mml =? 0) eqn:E; [lia|reflexivity].
Qed.

Lemma run_reader_of_0 : forall sigma s,
  Run.reader_of 0 sigma s = mkReader (mkBR [] (mkSrc sigma s)) (scratch_of message_max_len).
Proof. reflexivity. Qed.

(* the runs inside Run.op_read / Run.op_async *)
Lemma run_op_read_mml : forall c mml sigma s f sh, mml <> 0 ->
  run_with (br_read_exact (Run.cap_mml c mml)) true (length s + 1) f sh (Run.reader_of mml sigma s)
  = reader_run_mml mml (Run.cap_mml c mml) sigma s f sh.
Proof. intros. rewrite run_reader_of_mml by assumption. reflexivity. Qed.

Lemma run_op_async_mml : forall c mml pi s f sh, mml <> 0 ->
  run_with (abr_read_exact (Run.cap_mml c mml)) true (length s + 1) f sh (Run.reader_of mml pi s)
  = async_run_mml mml (Run.cap_mml c mml) pi s f sh.
Proof. intros. rewrite run_reader_of_mml by assumption. reflexivity. Qed.
