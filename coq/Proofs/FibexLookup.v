(* FibexLookup.v — extract_metadata is a plain map lookup under the key "ID_<decimal id>", and the
   decimal rendering of ids is injective (it is inverted by the digit parser), so distinct message
   ids never collide.  Also: `usize_from_str` reads back what `decimal` prints. *)
From Coq Require Import Lia ZifyBool ZifyN ZifyNat.
From Coq.Strings Require Import Ascii String.
From DltV.Model Require Import Bytes RustInt Dlt Fibex.
From DltV.Proofs Require Import BytesBasics.
Open Scope N_scope.

Lemma digit_val_digit (d : N) : d < 10 -> digit_val (n2b (48 + d)) = Some d.
Proof.
  intros Hd. unfold digit_val. rewrite b2n_n2b.
  rewrite N.mod_small by lia.
  destruct ((48 <=? 48 + d) && (48 + d <=? 57)) eqn:E; [f_equal; lia|lia].
Qed.

Lemma decimal_aux_value : forall fuel n acc,
  n < 2 ^ N.of_nat fuel ->
  digits_val 0 (decimal_aux fuel n acc) = digits_val n acc.
Proof.
  induction fuel as [|f IH]; intros n acc Hn.
  - cbn [decimal_aux]. change (2 ^ N.of_nat 0) with 1 in Hn. replace n with 0 by lia. reflexivity.
  - cbn [decimal_aux].
    assert (Hm : n mod 10 < 10) by (apply N.mod_lt; lia).
    destruct (n <? 10) eqn:Hlt.
    + cbn [digits_val]. rewrite digit_val_digit by exact Hm.
      rewrite N.mod_small by lia. reflexivity.
    + rewrite IH.
      * cbn [digits_val]. rewrite digit_val_digit by exact Hm.
        f_equal. pose proof (N.div_mod n 10 ltac:(lia)). lia.
      * rewrite Nat2N.inj_succ, N.pow_succ_r' in Hn.
        apply N.div_lt_upper_bound; lia.
Qed.

Lemma lt_pow2_log2 (n : N) : n < 2 ^ N.of_nat (S (N.to_nat (N.log2 n))).
Proof.
  rewrite Nat2N.inj_succ, N2Nat.id.
  destruct (N.eq_dec n 0) as [->|Hn]; [reflexivity|].
  apply N.log2_spec. lia.
Qed.

Lemma decimal_value (n : N) : digits_val 0 (decimal n) = Some n.
Proof. unfold decimal. rewrite decimal_aux_value; [reflexivity|apply lt_pow2_log2]. Qed.

Theorem decimal_inj (a b : N) : decimal a = decimal b -> a = b.
Proof.
  intros H. pose proof (decimal_value a) as Ha. rewrite H, decimal_value in Ha. congruence.
Qed.

Theorem id_text_inj (a b : N) : id_text a = id_text b -> a = b.
Proof. unfold id_text. intros H. apply app_inv_head in H. apply decimal_inj. exact H. Qed.

(* the first byte printed is a digit, so the leading-'+' rule of the parser does not interfere *)
Lemma decimal_aux_head : forall fuel n acc,
  exists d rest, d < 10 /\ decimal_aux (S fuel) n acc = n2b (48 + d) :: rest.
Proof.
  induction fuel as [|f IH]; intros n acc.
  - cbn [decimal_aux]. exists (n mod 10), acc. split; [apply N.mod_lt; lia|].
    destruct (n <? 10); reflexivity.
  - cbn [decimal_aux]. destruct (n <? 10).
    + exists (n mod 10), acc. split; [apply N.mod_lt; lia|reflexivity].
    + destruct (IH (n / 10) (n2b (48 + n mod 10) :: acc)) as (d & rest & Hd & E).
      exists d, rest. split; [exact Hd|]. exact E.
Qed.

Theorem usize_from_str_decimal (n : N) : n < 2 ^ 64 -> usize_from_str (decimal n) = Some n.
Proof.
  intros Hn. pose proof (decimal_value n) as Hv. unfold decimal in *.
  destruct (decimal_aux_head (N.to_nat (N.log2 n)) n []) as (d & rest & Hd & E).
  rewrite E in *. unfold usize_from_str.
  rewrite b2n_n2b, N.mod_small by lia.
  destruct (48 + d =? 43) eqn:E43; [lia|].
  rewrite Hv. destruct (n <? 2 ^ 64) eqn:E64; [reflexivity|lia].
Qed.

(* ---------- extract_metadata ---------- *)
Theorem extract_metadata_spec : forall m id,
  (forall eh, extract_metadata m id (Some eh)
              = key_get (e_ctid eh, e_apid eh, bs "ID_" ++ decimal id) (frame_map_with_key m)) /\
  extract_metadata m id None = assoc_get (bs "ID_" ++ decimal id) (frame_map m).
Proof. intros m id. split; [intros eh|]; reflexivity. Qed.

(* what a lookup returns is stored under exactly the key that was asked for *)
Lemma assoc_get_in {V} (k : bstr) (m : list (bstr * V)) v : assoc_get k m = Some v -> In (k, v) m.
Proof.
  induction m as [|[k' v'] t IH]; cbn [assoc_get]; [discriminate|].
  destruct (bytes_eqb k k') eqn:E.
  - intros H. injection H as ->. apply bytes_eqb_eq in E. subst k'. left. reflexivity.
  - intros H. right. apply IH. exact H.
Qed.

Lemma frame_key_eqb_eq (a b : frame_key) : frame_key_eqb a b = true <-> a = b.
Proof.
  destruct a as [[c1 a1] f1], b as [[c2 a2] f2]. cbn [frame_key_eqb].
  rewrite !andb_true_iff, !bytes_eqb_eq. split.
  - intros [[-> ->] ->]. reflexivity.
  - intros H. injection H as -> -> ->. auto.
Qed.

Lemma key_get_in {V} (k : frame_key) (m : list (frame_key * V)) v : key_get k m = Some v -> In (k, v) m.
Proof.
  induction m as [|[k' v'] t IH]; cbn [key_get]; [discriminate|].
  destruct (frame_key_eqb k k') eqn:E.
  - intros H. injection H as ->. apply frame_key_eqb_eq in E. subst k'. left. reflexivity.
  - intros H. right. apply IH. exact H.
Qed.

Theorem extract_metadata_sound : forall m id eh f,
  (extract_metadata m id (Some eh) = Some f ->
     In ((e_ctid eh, e_apid eh, id_text id), f) (frame_map_with_key m)) /\
  (extract_metadata m id None = Some f -> In (id_text id, f) (frame_map m)).
Proof.
  intros m id eh f. split; cbn [extract_metadata]; intros H.
  - apply key_get_in. exact H.
  - apply assoc_get_in. exact H.
Qed.
