(* Proofs/Compose.v — C06 (resync) and C09 (filtering) composed with the round trip C01: the relative
   statements of Resync.v / FilterProofs.v instantiated at the bytes of a well-formed message. *)
From Coq Require Import Lia ZifyBool ZifyN ZifyNat.
From DltV.Model Require Import Bytes Nom Dlt Parse.
From DltV.Spec Require Import WellFormed FilterSpec.
From DltV.Proofs Require Import BytesBasics Search Resync FilterProofs Headers Roundtrip.
Open Scope N_scope.

(* the bytes of a message with storage header start with the pattern and are at least 16 long *)
Lemma message_bytes_starts_with_pattern m rest :
  wf_message m = true -> has_storage m = true ->
  (exists r, message_bytes m ++ rest = pat_DLT1 ++ r) /\ 16 <= len (message_bytes m ++ rest).
Proof.
  intros Hwf Hs. apply wf_message_inv in Hwf as [Hst _]. unfold has_storage in Hs.
  rewrite Roundtrip.message_bytes_eq. destruct (m_storage m) as [s|]; [|discriminate Hs].
  cbn [wf_opt] in Hst. split.
  - unfold storage_header_bytes. rewrite <- !app_assoc. eexists. reflexivity.
  - rewrite !len_app, (len_storage_header_bytes s Hst). lia.
Qed.

Theorem junk_message junk m rest f :
  wf_message m = true -> has_storage m = true -> (forall j, ~ pattern_at junk j) ->
  dlt_message (junk ++ message_bytes m ++ rest) f true = dlt_message (message_bytes m ++ rest) f true
  /\ dlt_message (message_bytes m ++ rest) None true = POk (Item m) rest.
Proof.
  intros Hwf Hs Hj. destruct (message_bytes_starts_with_pattern m rest Hwf Hs) as [Hp H16]. split.
  - apply junk_skipped; assumption.
  - rewrite <- Hs. apply message_roundtrip, Hwf.
Qed.

Theorem stream_messages_recovered l jn fuel :
  (forall j m, In (j, m) l ->
     (forall k, ~ pattern_at j k) /\ wf_message m = true /\ has_storage m = true) ->
  (forall k, ~ pattern_at jn k) -> (length l < fuel)%nat ->
  parse_all fuel (messages_bytes l jn) None true = (map (fun p => Item (snd p)) l, jn).
Proof.
  intros Hl Hjn Hf. apply (messages_recovered None Item l jn fuel); [|exact Hjn|exact Hf].
  intros j m Hin. destruct (Hl j m Hin) as (Hj & Hwf & Hs). split; [exact Hj|]. split.
  - unfold has_storage in Hs. destruct (m_storage m); [discriminate|discriminate Hs].
  - intros tail. rewrite <- Hs. apply message_roundtrip, Hwf.
Qed.

(* the same with a filter configuration: every message is replaced by what the drop rule says *)
Theorem filter_message m cfg rest :
  wf_message m = true ->
  dlt_message (message_bytes m ++ rest) (Some (process_filter cfg)) (has_storage m) =
  if spec_dropped cfg m then POk (FilteredOut (h_payload_length (m_header m))) rest else POk (Item m) rest.
Proof. intros Hwf. apply filter_spec, message_roundtrip, Hwf. Qed.

Theorem stream_messages_filtered cfg l jn fuel :
  (forall j m, In (j, m) l ->
     (forall k, ~ pattern_at j k) /\ wf_message m = true /\ has_storage m = true) ->
  (forall k, ~ pattern_at jn k) -> (length l < fuel)%nat ->
  parse_all fuel (messages_bytes l jn) (Some (process_filter cfg)) true
  = (map (fun p => if spec_dropped cfg (snd p) then FilteredOut (h_payload_length (m_header (snd p)))
                   else Item (snd p)) l, jn).
Proof.
  intros Hl Hjn Hf.
  apply (messages_recovered (Some (process_filter cfg))
           (fun m => if spec_dropped cfg m then FilteredOut (h_payload_length (m_header m)) else Item m)
           l jn fuel); [|exact Hjn|exact Hf].
  intros j m Hin. destruct (Hl j m Hin) as (Hj & Hwf & Hs). split; [exact Hj|]. split.
  - unfold has_storage in Hs. destruct (m_storage m); [discriminate|discriminate Hs].
  - intros tail. rewrite <- Hs, (filter_message m cfg tail Hwf). now destruct (spec_dropped cfg m).
Qed.
