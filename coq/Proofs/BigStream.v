(* Proofs/BigStream.v — the shortcut of the differential run for streams longer than 10 MiB (Model/Run.v, op 43
   READ_BIG) is sound: on [Run.big_stream sh nrec l tail] the specification [ReaderSpec.spec_run] yields what
   [Run.big_spec_run] computes from ONE record and the tail. *)
From Coq Require Import Lia ZifyBool ZifyN ZifyNat.
From DltV.Model Require Import Bytes Nom Dlt Parse Reader.
From DltV.Model Require Run.
From DltV.Spec Require Import ReaderSpec.
From DltV.Proofs Require Import BytesBasics ReaderProofs.
Open Scope N_scope.

(* ---------- one complete piece at the front of a stream ---------- *)

(* what the run does with a stream whose first cut is the piece r *)
Definition piece_then (o : outcome) (rest : list outcome) : list outcome :=
  match o with
  | OPanic => [OPanic]
  | _ => o :: rest
  end.

Lemma spec_run_piece : forall sh f r rest,
  spec_cut sh (r ++ rest) = CPiece (len r) ->
  spec_run (r ++ rest) f sh
  = piece_then (spec_outcome (dlt_message r f sh)) (spec_run rest f sh).
Proof.
  intros sh f r rest Hcut.
  pose proof (spec_cut_consumes sh (r ++ rest)) as Hc. rewrite Hcut in Hc.
  destruct Hc as [Hlo _].
  assert (H4 : hdr_len sh = storage_len sh + 4) by reflexivity.
  assert (Hpos : 0 < len r) by lia.
  unfold spec_run.
  replace (length (r ++ rest) + 1)%nat with (S (length (r ++ rest))) by lia.
  cbn [spec_run_fuel]. rewrite Hcut.
  rewrite firstn_len_app, skipn_len_app.
  assert (Hirr : spec_run_fuel (length (r ++ rest)) rest f sh
                 = spec_run_fuel (length rest + 1) rest f sh).
  { apply spec_run_fuel_irrel.
    - rewrite app_length. rewrite (length_len r). lia.
    - lia. }
  rewrite Hirr. unfold piece_then.
  destruct (spec_outcome (dlt_message r f sh)); reflexivity.
Qed.

(* ---------- the records of the big stream ---------- *)

Definition big_sh : list byte :=
  [n2b 0x44; n2b 0x4c; n2b 0x54; n2b 0x01] ++ repeat x00 12.

Lemma big_record_eq : forall sh l,
  Run.big_record sh l
  = (if sh then big_sh else @nil byte)
    ++ [n2b 0x20; x00; n2b (l / 256); n2b (l mod 256)] ++ repeat x00 (N.to_nat (l - 4)).
Proof. reflexivity. Qed.

Lemma len_big_sh : forall sh : bool, len (if sh then big_sh else @nil byte) = storage_len sh.
Proof. intros [|]; reflexivity. Qed.

Lemma len_big_record : forall sh l, 4 <= l ->
  len (Run.big_record sh l) = storage_len sh + l.
Proof.
  intros sh l Hl. rewrite big_record_eq.
  rewrite !len_app, len_big_sh, len_repeat.
  replace (len [n2b 32; x00; n2b (l / 256); n2b (l mod 256)]) with 4 by reflexivity.
  lia.
Qed.

Lemma skipn_big_record : forall sh l rest,
  skipn (N.to_nat (storage_len sh + 2)) (Run.big_record sh l ++ rest)
  = n2b (l / 256) :: n2b (l mod 256) :: repeat x00 (N.to_nat (l - 4)) ++ rest.
Proof.
  intros sh l rest. rewrite big_record_eq.
  rewrite <- (len_big_sh sh).
  replace (N.to_nat (len (if sh then big_sh else @nil byte) + 2))
    with (N.to_nat (len (if sh then big_sh else @nil byte)) + 2)%nat by lia.
  rewrite <- skipn_skipn'. rewrite <- app_assoc.
  rewrite skipn_len_app. reflexivity.
Qed.

Lemma declared_len_big_record : forall sh l rest, l <= 65535 ->
  declared_len sh (Run.big_record sh l ++ rest) = l.
Proof.
  intros sh l rest Hl. unfold declared_len. rewrite skipn_big_record.
  assert (Hq : l / 256 < 256) by (apply N.div_lt_upper_bound; lia).
  assert (Hr : l mod 256 < 256) by (apply N.mod_lt; lia).
  rewrite (n2b_small _ Hq), (n2b_small _ Hr).
  pose proof (N.div_mod l 256 ltac:(lia)) as Hdm. lia.
Qed.

Lemma spec_cut_big_record : forall sh l rest, 4 <= l -> l <= 65535 ->
  spec_cut sh (Run.big_record sh l ++ rest) = CPiece (len (Run.big_record sh l)).
Proof.
  intros sh l rest Hlo Hhi. unfold spec_cut.
  rewrite (declared_len_big_record sh l rest Hhi).
  rewrite len_app, (len_big_record sh l Hlo).
  assert (H4 : hdr_len sh = storage_len sh + 4) by reflexivity.
  destruct (storage_len sh + l + len rest <? hdr_len sh) eqn:E1; [lia|].
  destruct (l <? 4) eqn:E2; [lia|].
  destruct (storage_len sh + l + len rest <? storage_len sh + l) eqn:E3; [lia|].
  reflexivity.
Qed.

(* one record in front of anything *)
Lemma spec_run_big_record : forall sh l rest f, 4 <= l -> l <= 65535 ->
  spec_run (Run.big_record sh l ++ rest) f sh
  = piece_then (spec_outcome (dlt_message (Run.big_record sh l) f sh)) (spec_run rest f sh).
Proof.
  intros sh l rest f Hlo Hhi. apply spec_run_piece. apply spec_cut_big_record; assumption.
Qed.

(* ---------- nrec records, by induction on the count ---------- *)

Definition big_stream_nat (sh : bool) (k : nat) (l : N) (tail : list byte) : list byte :=
  concat (repeat (Run.big_record sh l) k) ++ tail.

Lemma big_stream_nat_S : forall sh k l tail,
  big_stream_nat sh (S k) l tail = Run.big_record sh l ++ big_stream_nat sh k l tail.
Proof.
  intros. unfold big_stream_nat. cbn [repeat concat]. rewrite <- app_assoc. reflexivity.
Qed.

(* the record's outcome is not a panic: the outcome k times, then the run of the tail *)
Lemma spec_run_big_nat_ok : forall sh l tail f k, 4 <= l -> l <= 65535 ->
  spec_outcome (dlt_message (Run.big_record sh l) f sh) <> OPanic ->
  spec_run (big_stream_nat sh k l tail) f sh
  = repeat (spec_outcome (dlt_message (Run.big_record sh l) f sh)) k ++ spec_run tail f sh.
Proof.
  intros sh l tail f k Hlo Hhi Hnp. induction k as [|k IH].
  - reflexivity.
  - rewrite big_stream_nat_S, (spec_run_big_record sh l _ f Hlo Hhi), IH.
    cbn [repeat app]. unfold piece_then.
    destruct (spec_outcome (dlt_message (Run.big_record sh l) f sh)) eqn:E;
      [reflexivity|reflexivity|exfalso; apply Hnp; reflexivity].
Qed.

(* the record's outcome is a panic: the first record ends everything *)
Lemma spec_run_big_nat_panic : forall sh l tail f k, 4 <= l -> l <= 65535 ->
  spec_outcome (dlt_message (Run.big_record sh l) f sh) = OPanic ->
  spec_run (big_stream_nat sh (S k) l tail) f sh = [OPanic].
Proof.
  intros sh l tail f k Hlo Hhi Hp.
  rewrite big_stream_nat_S, (spec_run_big_record sh l _ f Hlo Hhi), Hp. reflexivity.
Qed.

Theorem big_stream_sound : forall sh nrec l tail f,
  4 <= l -> l <= 65535 ->
  spec_run (Run.big_stream sh nrec l tail) f sh = Run.big_spec_run sh nrec l tail f.
Proof.
  intros sh nrec l tail f Hlo Hhi.
  unfold Run.big_spec_run, Run.big_stream.
  change (concat (repeat (Run.big_record sh l) (N.to_nat nrec)) ++ tail)
    with (big_stream_nat sh (N.to_nat nrec) l tail).
  destruct (nrec =? 0) eqn:E0.
  - assert (Hn : N.to_nat nrec = 0%nat) by lia. rewrite Hn. reflexivity.
  - destruct (spec_outcome (dlt_message (Run.big_record sh l) f sh)) eqn:Eo.
    + rewrite <- Eo. apply spec_run_big_nat_ok; try assumption. rewrite Eo. discriminate.
    + rewrite <- Eo. apply spec_run_big_nat_ok; try assumption. rewrite Eo. discriminate.
    + assert (Hn : exists k, N.to_nat nrec = S k) by (exists (Nat.pred (N.to_nat nrec)); lia).
      destruct Hn as [k Hk]. rewrite Hk.
      apply spec_run_big_nat_panic; assumption.
Qed.

(* ---------- corollaries used to read the result ---------- *)

(* the length of the stream that is NOT walked *)
Lemma len_big_stream : forall sh nrec l tail, 4 <= l ->
  len (Run.big_stream sh nrec l tail) = nrec * (storage_len sh + l) + len tail.
Proof.
  intros sh nrec l tail Hlo. unfold Run.big_stream. rewrite len_app.
  assert (H : forall k, len (concat (repeat (Run.big_record sh l) k)) = N.of_nat k * (storage_len sh + l)).
  { induction k as [|k IH].
    - reflexivity.
    - cbn [repeat concat]. rewrite len_app, IH, (len_big_record sh l Hlo). lia. }
  rewrite H. lia.
Qed.
