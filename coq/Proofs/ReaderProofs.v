(* ReaderProofs.v — the blocking reader delivers exactly the cuts of Spec/ReaderSpec.v, for every
   fragmentation / interruption schedule; truncation behaviour of the cuts. *)
From Coq Require Import Lia ZifyBool ZifyN ZifyNat.
From DltV.Model Require Import Bytes Nom Dlt Parse Reader.
From DltV.Spec Require Import ReaderSpec.
Open Scope N_scope.

(* ================= lists indexed by N ================= *)
Section ListN.
  Context {A : Type}.
  Implicit Types l a b : list A.

  Lemma takeN_firstn : forall n l, takeN n l = firstn (N.to_nat n) l.
  Proof.
    intros n l; revert n; induction l as [|x l IH]; intros n; cbn [takeN].
    - now rewrite firstn_nil.
    - destruct (n =? 0) eqn:E.
      + assert (Hn : n = 0) by lia. subst n. reflexivity.
      + assert (Hn : N.to_nat n = S (N.to_nat (N.pred n))) by lia.
        rewrite Hn. cbn [firstn]. now rewrite IH.
  Qed.

  Lemma dropN_skipn : forall n l, dropN n l = skipn (N.to_nat n) l.
  Proof.
    intros n l; revert n; induction l as [|x l IH]; intros n; cbn [dropN].
    - now rewrite skipn_nil.
    - destruct (n =? 0) eqn:E.
      + assert (Hn : n = 0) by lia. subst n. reflexivity.
      + assert (Hn : N.to_nat n = S (N.to_nat (N.pred n))) by lia.
        rewrite Hn. cbn [skipn]. now rewrite IH.
  Qed.

  Lemma len_nil : len (@nil A) = 0.
  Proof. reflexivity. Qed.
  Lemma len_cons : forall x l, len (x :: l) = 1 + len l.
  Proof. intros; unfold len; cbn [length]; lia. Qed.
  Lemma len_app : forall a b, len (a ++ b) = len a + len b.
  Proof. intros; unfold len; rewrite app_length; lia. Qed.
  Lemma len_0_nil : forall l, len l = 0 -> l = [].
  Proof. intros [|x l] H; [reflexivity|rewrite len_cons in H; lia]. Qed.
  Lemma len_takeN : forall n l, len (takeN n l) = N.min n (len l).
  Proof. intros; unfold len; rewrite takeN_firstn, firstn_length; lia. Qed.
  Lemma len_dropN : forall n l, len (dropN n l) = len l - n.
  Proof. intros; unfold len; rewrite dropN_skipn, skipn_length; lia. Qed.
  Lemma length_len : forall l, length l = N.to_nat (len l).
  Proof. intros; unfold len; lia. Qed.

  Lemma takeN_0 : forall l, takeN 0 l = [].
  Proof. intros; now rewrite takeN_firstn. Qed.
  Lemma dropN_0 : forall l, dropN 0 l = l.
  Proof. intros; now rewrite dropN_skipn. Qed.
  Lemma takeN_dropN : forall n l, takeN n l ++ dropN n l = l.
  Proof. intros; rewrite takeN_firstn, dropN_skipn; apply firstn_skipn. Qed.
  Lemma takeN_all : forall n l, len l <= n -> takeN n l = l.
  Proof. intros n l H; rewrite takeN_firstn; apply firstn_all2; unfold len in H; lia. Qed.
  Lemma dropN_all : forall n l, len l <= n -> dropN n l = [].
  Proof. intros n l H; rewrite dropN_skipn; apply skipn_all2; unfold len in H; lia. Qed.

  Lemma skipn_skipn' : forall (x y : nat) l, skipn x (skipn y l) = skipn (y + x) l.
  Proof.
    intros x y; induction y as [|y IH]; intros l; [reflexivity|].
    destruct l as [|h l]; [now rewrite !skipn_nil|]. cbn [skipn Nat.add]. apply IH.
  Qed.
  Lemma firstn_add : forall (x y : nat) l, firstn (x + y) l = firstn x l ++ firstn y (skipn x l).
  Proof.
    intros x y; induction x as [|x IH]; intros l; [reflexivity|].
    destruct l as [|h l]; [now rewrite !firstn_nil|]. cbn [firstn skipn Nat.add app]. now rewrite IH.
  Qed.
  Lemma skipn_firstn_min : forall (x y : nat) l, skipn x (firstn y l) ++ skipn y l = skipn (Nat.min x y) l.
  Proof.
    intros x y l; revert x y; induction l as [|h l IH]; intros x y.
    - now rewrite firstn_nil, !skipn_nil.
    - destruct x as [|x]; [cbn [Nat.min skipn]; apply firstn_skipn|].
      destruct y as [|y]; [reflexivity|]. cbn [firstn skipn Nat.min]. apply IH.
  Qed.

  Lemma dropN_dropN : forall x y l, dropN x (dropN y l) = dropN (y + x) l.
  Proof.
    intros; rewrite !dropN_skipn, skipn_skipn'. f_equal; lia.
  Qed.
  Lemma takeN_add : forall x y l, takeN (x + y) l = takeN x l ++ takeN y (dropN x l).
  Proof.
    intros; rewrite !takeN_firstn, dropN_skipn, <- firstn_add. f_equal; lia.
  Qed.
  Lemma takeN_takeN : forall x y l, takeN x (takeN y l) = takeN (N.min x y) l.
  Proof.
    intros; rewrite !takeN_firstn, firstn_firstn. f_equal; lia.
  Qed.
  Lemma dropN_takeN_min : forall x y l, dropN x (takeN y l) ++ dropN y l = dropN (N.min x y) l.
  Proof.
    intros; rewrite !dropN_skipn, takeN_firstn, skipn_firstn_min. f_equal; lia.
  Qed.
  Lemma takeN_min_len : forall n l, takeN n l = takeN (N.min n (len l)) l.
  Proof.
    intros n l. destruct (N.le_gt_cases n (len l)) as [H|H].
    - now replace (N.min n (len l)) with n by lia.
    - rewrite !takeN_all by lia. reflexivity.
  Qed.
  Lemma dropN_min_len : forall n l, dropN n l = dropN (N.min n (len l)) l.
  Proof.
    intros n l. destruct (N.le_gt_cases n (len l)) as [H|H].
    - now replace (N.min n (len l)) with n by lia.
    - rewrite !dropN_all by lia. reflexivity.
  Qed.

  Lemma takeN_app_le : forall n a b, n <= len a -> takeN n (a ++ b) = takeN n a.
  Proof.
    intros n a b H; rewrite !takeN_firstn, firstn_app.
    replace (N.to_nat n - length a)%nat with 0%nat by (unfold len in H; lia).
    cbn [firstn]. apply app_nil_r.
  Qed.
  Lemma takeN_app_ge : forall n a b, len a <= n -> takeN n (a ++ b) = a ++ takeN (n - len a) b.
  Proof.
    intros n a b H; rewrite !takeN_firstn, firstn_app.
    rewrite firstn_all2 by (unfold len in H; lia). f_equal. f_equal. unfold len; lia.
  Qed.
  Lemma dropN_app_le : forall n a b, n <= len a -> dropN n (a ++ b) = dropN n a ++ b.
  Proof.
    intros n a b H; rewrite !dropN_skipn, skipn_app.
    replace (N.to_nat n - length a)%nat with 0%nat by (unfold len in H; lia). reflexivity.
  Qed.
  Lemma dropN_app_ge : forall n a b, len a <= n -> dropN n (a ++ b) = dropN (n - len a) b.
  Proof.
    intros n a b H; rewrite !dropN_skipn, skipn_app.
    rewrite skipn_all2 by (unfold len in H; lia). cbn [app]. f_equal. unfold len; lia.
  Qed.

  Lemma fits_spec : forall n l, fits n l = (n <=? len l).
  Proof. intros; unfold fits; rewrite len_takeN; lia. Qed.
  Lemma is_nil_len : forall l, is_nil l = (len l =? 0).
  Proof. intros [|x l]; [reflexivity|rewrite len_cons; cbn [is_nil]; lia]. Qed.
End ListN.

(* ================= A/B: the source and std's BufReader ================= *)

(* one read of the source, for a non-empty destination *)
Lemma src_read_spec : forall want s, 0 < want ->
  match src_read want s with
  | (RInterrupted, s') =>
    src_rest s' = src_rest s /\ (length (src_sched s') < length (src_sched s))%nat
  | (ROk bs, s') =>
    bs = takeN (len bs) (src_rest s) /\ src_rest s' = dropN (len bs) (src_rest s)
    /\ len bs <= want /\ (len bs = 0 -> src_rest s = [])
    /\ (length (src_sched s') <= length (src_sched s))%nat
  end.
Proof.
  intros want [sg rest] Hw. unfold src_read; cbn [src_sched src_rest].
  assert (K : forall n, 0 < n -> n <= want ->
    takeN n rest = takeN (len (takeN n rest)) rest /\ dropN n rest = dropN (len (takeN n rest)) rest
    /\ len (takeN n rest) <= want /\ (len (takeN n rest) = 0 -> rest = [])).
  { intros n Hn Hnw. rewrite len_takeN. repeat split.
    - apply takeN_min_len.
    - apply dropN_min_len.
    - lia.
    - intros H0. apply len_0_nil. lia. }
  destruct sg as [|k sg].
  - destruct (K want) as (K1 & K2 & K3 & K4); [lia|lia|]. cbn [src_sched src_rest length]. auto with arith.
  - destruct (k =? 0) eqn:Ek; cbn [src_sched src_rest length].
    + split; [reflexivity|lia].
    + destruct (K (N.min k want)) as (K1 & K2 & K3 & K4); [lia|lia|]. repeat split; auto with arith.
Qed.

(* one BufReader::read, for a non-empty destination: a non-empty prefix of the view unless the view is empty *)
Lemma br_read_spec : forall cap want br, 0 < want ->
  match br_read cap want br with
  | (RInterrupted, br') =>
    br_view br' = br_view br /\ (length (br_sched br') < length (br_sched br))%nat
  | (ROk bs, br') =>
    bs = takeN (len bs) (br_view br) /\ br_view br' = dropN (len bs) (br_view br)
    /\ len bs <= want /\ (len bs = 0 -> br_view br = [])
    /\ (length (br_sched br') <= length (br_sched br))%nat
  end.
Proof.
  intros cap want [buf src] Hw. unfold br_read, br_fill_buf, br_view, br_sched; cbn [br_buf br_src].
  destruct buf as [|b0 buf]; cbn [is_nil andb].
  - cbn [app]. destruct (cap <=? want) eqn:Ecap.
    + (* bypass *)
      pose proof (src_read_spec want src Hw) as H.
      destruct (src_read want src) as [[bs|] s']; cbn [br_buf br_src app]; exact H.
    + assert (Hc : 0 < cap) by lia.
      pose proof (src_read_spec cap src Hc) as H.
      destruct (src_read cap src) as [[bs|] s']; cbn [br_buf br_src app]; [|exact H].
      destruct H as (H1 & H2 & H3 & H4 & H5).
      set (rest := src_rest src) in *.
      assert (Hlen : len (takeN want bs) = N.min want (len bs)) by apply len_takeN.
      assert (Hbl : len bs <= len rest).
      { rewrite H1 at 1. rewrite len_takeN. lia. }
      rewrite Hlen. repeat split.
      * rewrite H1 at 1. rewrite takeN_takeN. reflexivity.
      * rewrite H2. rewrite H1 at 1. apply dropN_takeN_min.
      * lia.
      * intros H0. apply H4. lia.
      * exact H5.
  - cbn [br_buf br_src]. set (B := b0 :: buf). set (rest := src_rest src).
    assert (HB : 0 < len B) by (unfold B; rewrite len_cons; lia).
    rewrite len_takeN. repeat split.
    + rewrite takeN_app_le by lia. apply takeN_min_len.
    + rewrite dropN_app_le by lia. f_equal. apply dropN_min_len.
    + lia.
    + lia.
    + lia.
Qed.

(* default_read_exact: with enough fuel it hands out exactly the next [want] bytes of the view, or
   (when fewer are left) everything, reporting UnexpectedEof — whatever the schedule does *)
Lemma default_read_exact_spec : forall fuel cap want got br,
  (length (br_sched br) + N.to_nat (N.min want (len (br_view br))) < fuel)%nat ->
  exists br',
    default_read_exact fuel cap want got br
    = ((if want <=? len (br_view br) then XOk else XEof), got ++ takeN want (br_view br), br')
    /\ br_view br' = dropN want (br_view br).
Proof.
  induction fuel as [|fuel IH]; intros cap want got br Hf; [lia|].
  cbn [default_read_exact]. destruct (want =? 0) eqn:E0.
  - assert (want = 0) by lia. subst want. exists br.
    rewrite takeN_0, dropN_0, app_nil_r.
    replace (0 <=? len (br_view br)) with true by lia. split; reflexivity.
  - assert (Hw : 0 < want) by lia.
    pose proof (br_read_spec cap want br Hw) as H.
    destruct (br_read cap want br) as [[bs|] br1].
    + destruct H as (H1 & H2 & H3 & H4 & H5).
      destruct bs as [|b bs].
      * rewrite len_nil in *. rewrite (H4 eq_refl) in *. exists br1.
        rewrite len_nil. replace (want <=? 0) with false by lia.
        rewrite takeN_all, app_nil_r by (rewrite len_nil; lia).
        split; [reflexivity|]. rewrite H2, dropN_0. symmetry. apply dropN_all. rewrite len_nil; lia.
      * set (B := b :: bs) in *.
        assert (HB : 0 < len B) by (unfold B; rewrite len_cons; lia).
        assert (HBv : len B <= len (br_view br)).
        { rewrite H1 at 1. rewrite len_takeN. lia. }
        destruct (IH cap (want - len B) (got ++ B) br1) as (br' & E & V).
        { rewrite H2, len_dropN. lia. }
        exists br'. rewrite E, V, H2, len_dropN, dropN_dropN.
        replace (len B + (want - len B)) with want by lia.
        split; [|reflexivity].
        replace (want - len B <=? len (br_view br) - len B) with (want <=? len (br_view br)) by lia.
        f_equal. f_equal. rewrite <- app_assoc. f_equal.
        replace want with (len B + (want - len B)) at 2 by lia.
        rewrite takeN_add, <- H1. reflexivity.
    + destruct H as (H1 & H2).
      destruct (IH cap want got br1) as (br' & E & V); [rewrite H1; lia|].
      exists br'. rewrite E, V, H1. split; reflexivity.
Qed.

Lemma br_read_exact_spec : forall cap want br,
  exists br',
    br_read_exact cap want br
    = ((if want <=? len (br_view br) then XOk else XEof), takeN want (br_view br), br')
    /\ br_view br' = dropN want (br_view br).
Proof.
  intros cap want br. unfold br_read_exact. rewrite fits_spec.
  destruct (want <=? len (br_buf br)) eqn:Efast.
  - exists (mkBR (dropN want (br_buf br)) (br_src br)). unfold br_view; cbn [br_buf br_src].
    rewrite len_app. replace (want <=? len (br_buf br) + len (src_rest (br_src br))) with true by lia.
    rewrite takeN_app_le, dropN_app_le by lia. split; reflexivity.
  - destruct (default_read_exact_spec (read_exact_fuel want br) cap want [] br) as (br' & E & V).
    { unfold read_exact_fuel. rewrite !length_len, !len_takeN. unfold br_view. rewrite len_app. lia. }
    exists br'. rewrite E. split; [reflexivity|exact V].
Qed.

(* ================= C: next_message_slice / read_message over an abstract read_exact ================= *)

Lemma parse_length_4 : forall a b c d, parse_length [a; b; c; d] = POk (256 * b2n c + b2n d) [].
Proof.
  intros. unfold parse_length, take, uint, pbind.
  change (len [a; b; c; d]) with 4. change (4 <? 2) with false. cbv iota.
  change (N.to_nat 2) with 2%nat. cbn [firstn skipn].
  change (len [c; d]) with 2. change (2 <? N.of_nat 2) with false. cbv iota.
  cbn [firstn skipn get_uint rev app le_get]. f_equal. lia.
Qed.

Lemma b2n_lt : forall b, b2n b < 256.
Proof. intros b. unfold b2n. pose proof (Byte.to_N_bounded b). lia. Qed.

Lemma split_len : forall (l : list byte) n, n <= len l -> exists p q, l = p ++ q /\ len p = n.
Proof.
  intros l n H. exists (takeN n l), (dropN n l). split; [symmetry; apply takeN_dropN|].
  rewrite len_takeN; lia.
Qed.

(* the four header bytes behind the storage header determine the declared length *)
Lemma parse_length_declared : forall sh v, hdr_len sh <= len v ->
  parse_length (dropN (storage_len sh) (takeN (hdr_len sh) v)) = POk (declared_len sh v) []
  /\ declared_len sh v < 65536.
Proof.
  intros sh v Hv. unfold hdr_len in *. set (sl := storage_len sh) in *.
  unfold declared_len. fold sl.
  destruct (split_len v sl) as (p & q & -> & Hp); [lia|].
  rewrite len_app in Hv.
  rewrite takeN_app_ge by lia. rewrite dropN_app_ge by lia. rewrite Hp.
  replace (sl - sl) with 0 by lia. replace (sl + 4 - sl) with 4 by lia. rewrite dropN_0.
  rewrite <- dropN_skipn, dropN_app_ge by lia. rewrite Hp. replace (sl + 2 - sl) with 2 by lia.
  assert (Hd : 4 <= len q) by lia.
  destruct q as [|a [|b [|c [|d t]]]];
    try (rewrite ?len_cons, ?len_nil in Hd; lia).
  rewrite takeN_firstn, dropN_skipn. change (N.to_nat 4) with 4%nat. change (N.to_nat 2) with 2%nat.
  cbn [firstn skipn]. split; [apply parse_length_4|].
  pose proof (b2n_lt c). pose proof (b2n_lt d). lia.
Qed.

(* the scratch buffer *)
Lemma len_blit : forall off bs buf, off + len bs <= len buf -> len (blit off bs buf) = len buf.
Proof. intros off bs buf H. unfold blit. rewrite !len_app, len_takeN, len_dropN. lia. Qed.

Lemma blit_0 : forall bs buf, blit 0 bs buf = bs ++ dropN (len bs) buf.
Proof. intros. unfold blit. rewrite takeN_0. cbn [app]. do 2 f_equal. Qed.

Lemma sub_blit_0 : forall a n h buf, len h = n -> a <= n -> sub a n (blit 0 h buf) = dropN a h.
Proof.
  intros a n h buf <- Ha. unfold sub. rewrite blit_0, dropN_app_le by lia.
  rewrite takeN_app_le by (rewrite len_dropN; lia). apply takeN_all. rewrite len_dropN; lia.
Qed.

(* stale bytes of the scratch buffer never show: the slice is exactly header ++ body *)
Lemma takeN_blit_blit : forall n t h b buf, len h = n -> t = n + len b -> t <= len buf ->
  takeN t (blit n b (blit 0 h buf)) = h ++ b.
Proof.
  intros n t h b buf <- -> H. rewrite blit_0. unfold blit at 1.
  rewrite (takeN_app_le (len h) h) by lia. rewrite (takeN_all (len h) h) by lia.
  rewrite app_assoc. rewrite takeN_app_le by (rewrite len_app; lia).
  apply takeN_all. rewrite len_app; lia.
Qed.

Lemma spec_outcome_eq : forall r, spec_outcome r = pres_outcome r.
Proof. intros [pm rest|n| | |]; reflexivity. Qed.

Lemma spec_cut_piece : forall sh v n, spec_cut sh v = CPiece n ->
  n = storage_len sh + declared_len sh v /\ hdr_len sh <= n /\ n <= len v.
Proof.
  intros sh v n. unfold spec_cut, hdr_len.
  destruct (len v <? storage_len sh + 4) eqn:E1; [discriminate|].
  destruct (declared_len sh v <? 4) eqn:E2; [discriminate|].
  destruct (len v <? storage_len sh + declared_len sh v) eqn:E3; [discriminate|].
  intros [= <-]. lia.
Qed.

Section GenericProofs.
  Variable St : Type.
  Variable read_exact : N -> St -> xres * list byte * St.
  Variable view : St -> list byte.        (* internal buffer ++ unread source *)
  Hypothesis rx_spec : forall want st, exists st',
    read_exact want st = ((if want <=? len (view st) then XOk else XEof), takeN want (view st), st')
    /\ view st' = dropN want (view st).

  (* one call of the repaired next_message_slice = one cut of the view *)
  Lemma next_message_slice_spec : forall sh (r : reader St),
    len (rd_scratch r) = message_max_len ->
    let v := view (rd_src r) in
    exists r', len (rd_scratch r') = message_max_len /\
      match spec_cut sh v with
      | CEnd => next_message_slice_with read_exact true sh r = (NEmpty, r')
      | CShort => next_message_slice_with read_exact true sh r = (NErr EHickup, r')
                  /\ view (rd_src r') = dropN (hdr_len sh) v
      | CTrunc => next_message_slice_with read_exact true sh r = (NErr EUnrecoverable, r')
                  /\ view (rd_src r') = []
      | CPiece n => next_message_slice_with read_exact true sh r = (NSlice (takeN n v), r')
                  /\ view (rd_src r') = dropN n v
      end.
  Proof.
    intros sh [st buf] Hbuf v. cbn [rd_scratch rd_src] in *. subst v.
    unfold next_message_slice_with, spec_cut. cbn [rd_scratch rd_src].
    change (if sh then 16 else 0) with (storage_len sh).
    change (storage_len sh + 4) with (hdr_len sh).
    assert (Hsl : storage_len sh <= 16) by (destruct sh; cbn [storage_len]; lia).
    assert (Hhdr : hdr_len sh = storage_len sh + 4) by reflexivity.
    assert (Hmax : message_max_len = 65551) by reflexivity.
    unfold range_ok. rewrite fits_spec.
    replace ((0 <=? hdr_len sh) && (hdr_len sh <=? len buf)) with true by lia. cbn [negb].
    destruct (rx_spec (hdr_len sh) st) as (st1 & E1 & V1). rewrite E1.
    set (v := view st) in *. set (h := takeN (hdr_len sh) v).
    destruct (len v <? hdr_len sh) eqn:Ehdr.
    - (* end of stream *)
      replace (hdr_len sh <=? len v) with false by lia.
      eexists. split; [|reflexivity]. cbn [rd_scratch].
      rewrite len_blit; [exact Hbuf|]. unfold h. rewrite len_takeN. lia.
    - replace (hdr_len sh <=? len v) with true by lia.
      assert (Hh : len h = hdr_len sh) by (unfold h; rewrite len_takeN; lia).
      assert (Hb1 : len (blit 0 h buf) = len buf) by (apply len_blit; lia).
      rewrite (sub_blit_0 (storage_len sh) (hdr_len sh) h buf Hh) by lia.
      destruct (parse_length_declared sh v) as (EL & HL); [lia|]. fold h in EL. rewrite EL.
      set (L := declared_len sh v) in *.
      destruct (L <? 4) eqn:EL4; cbn [andb].
      + (* declared length below the header length *)
        eexists. split; [|split; [reflexivity|exact V1]]. cbn [rd_scratch]. lia.
      + rewrite fits_spec, Hb1.
        replace ((hdr_len sh <=? storage_len sh + L) && (storage_len sh + L <=? len buf)) with true by lia.
        cbn [negb].
        set (t := storage_len sh + L) in *.
        destruct (rx_spec (t - hdr_len sh) st1) as (st2 & E2 & V2).
        rewrite V1 in E2, V2. rewrite len_dropN in E2. rewrite E2.
        set (b := takeN (t - hdr_len sh) (dropN (hdr_len sh) v)) in *.
        assert (Hb : len b = N.min (t - hdr_len sh) (len v - hdr_len sh))
          by (unfold b; rewrite len_takeN, len_dropN; reflexivity).
        assert (Hb2 : len (blit (hdr_len sh) b (blit 0 h buf)) = len buf)
          by (rewrite len_blit; lia).
        destruct (len v <? t) eqn:Et.
        * (* truncated message *)
          replace (t - hdr_len sh <=? len v - hdr_len sh) with false by lia.
          eexists. split; [|split; [reflexivity|]]; cbn [rd_scratch rd_src]; [lia|].
          rewrite V2, dropN_dropN. apply dropN_all. lia.
        * replace (t - hdr_len sh <=? len v - hdr_len sh) with true by lia.
          exists (mkReader st2 (blit (hdr_len sh) b (blit 0 h buf))).
          split; [|split; [|]]; cbn [rd_scratch rd_src]; [lia| |].
          -- do 2 f_equal.
             rewrite (takeN_blit_blit (hdr_len sh) t h b buf) by lia.
             transitivity (takeN (hdr_len sh + (t - hdr_len sh)) v);
               [rewrite takeN_add; reflexivity|f_equal; lia].
          -- rewrite V2, dropN_dropN. f_equal. lia.
  Qed.

  (* the caller's loop over the repaired reader = the cuts of the view *)
  Lemma run_spec : forall fuel f sh (r : reader St),
    len (rd_scratch r) = message_max_len ->
    (length (view (rd_src r)) < fuel)%nat ->
    run_with read_exact true fuel f sh r = (spec_run_fuel fuel (view (rd_src r)) f sh, true).
  Proof.
    induction fuel as [|fuel IH]; intros f sh r Hbuf Hfuel; [lia|].
    cbn [run_with spec_run_fuel]. unfold read_message_with.
    destruct (next_message_slice_spec sh r Hbuf) as (r' & Hbuf' & H).
    cbv zeta in H. set (v := view (rd_src r)) in *.
    rewrite length_len in Hfuel.
    destruct (spec_cut sh v) as [| | |n] eqn:Ecut.
    - rewrite H. reflexivity.
    - destruct H as (E & V). rewrite E.
      assert (Hc : hdr_len sh <= len v).
      { unfold spec_cut in Ecut. destruct (len v <? hdr_len sh) eqn:E1; [discriminate|lia]. }
      rewrite IH; [|exact Hbuf'|].
      + rewrite V, dropN_skipn. reflexivity.
      + rewrite V, length_len, len_dropN. unfold hdr_len in *. lia.
    - destruct H as (E & V). rewrite E.
      assert (Hc : hdr_len sh <= len v).
      { unfold spec_cut in Ecut. destruct (len v <? hdr_len sh) eqn:E1; [discriminate|lia]. }
      rewrite IH; [|exact Hbuf'|].
      + rewrite V. destruct fuel as [|fuel']; [unfold hdr_len in *; lia|].
        cbn [spec_run_fuel]. unfold spec_cut. rewrite len_nil.
        replace (0 <? hdr_len sh) with true by (unfold hdr_len; lia). reflexivity.
      + rewrite V. cbn [length]. unfold hdr_len in *. lia.
    - destruct H as (E & V). rewrite E.
      destruct (spec_cut_piece sh v n Ecut) as (Hn & Hn1 & Hn2).
      rewrite is_nil_len, len_takeN.
      replace (N.min n (len v) =? 0) with false by (unfold hdr_len in *; lia).
      replace (firstn (N.to_nat n) v) with (takeN n v) by apply takeN_firstn.
      replace (skipn (N.to_nat n) v) with (dropN n v) by apply dropN_skipn.
      change spec_outcome with pres_outcome.
      assert (Hrec : run_with read_exact true fuel f sh r'
                     = (spec_run_fuel fuel (dropN n v) f sh, true)).
      { rewrite IH; [rewrite V; reflexivity|exact Hbuf'|].
        rewrite V, length_len, len_dropN. unfold hdr_len in *. lia. }
      destruct (pres_outcome (dlt_message (takeN n v) f sh)) as [pm|e|]; rewrite ?Hrec; reflexivity.
  Qed.
End GenericProofs.

(* ================= the blocking reader ================= *)
Lemma len_new_scratch : len new_scratch = message_max_len.
Proof. unfold new_scratch, len. rewrite repeat_length. apply N2Nat.id. Qed.

(* the scratch buffer has room for every declared length: total_len <= buffer.len() *)
Lemma total_len_fits : forall sh v, hdr_len sh <= len v ->
  storage_len sh + declared_len sh v <= len new_scratch.
Proof.
  intros sh v H. rewrite len_new_scratch. destruct (parse_length_declared sh v H) as (_ & HL).
  assert (message_max_len = 65551) by reflexivity.
  destruct sh; cbn [storage_len]; lia.
Qed.

Lemma reader_run_cap_spec : forall cap sigma s f sh,
  reader_run_cap cap sigma s f sh = (spec_run s f sh, true).
Proof.
  intros. unfold reader_run_cap, spec_run.
  rewrite (run_spec bufreader (br_read_exact cap) br_view (br_read_exact_spec cap)).
  - reflexivity.
  - apply len_new_scratch.
  - cbn [new_reader rd_src br_view br_buf br_src src_rest app]. lia.
Qed.

Lemma reader_run_default_spec : forall sigma s f sh,
  reader_run_default sigma s f sh = (spec_run s f sh, true).
Proof. intros. apply (reader_run_cap_spec default_cap). Qed.

(* ----- no panic ----- *)
Lemma spec_run_fuel_no_panic : forall f sh, (forall bs, dlt_message bs f sh <> PPanic) ->
  forall fuel s, ~ In OPanic (spec_run_fuel fuel s f sh).
Proof.
  intros f sh Hd. induction fuel as [|fuel IH]; intros s; cbn [spec_run_fuel]; [intros []|].
  destruct (spec_cut sh s) as [| | |n].
  - intros [].
  - intros [H|H]; [discriminate|]. exact (IH _ H).
  - intros [H|[]]. discriminate.
  - pose proof (Hd (firstn (N.to_nat n) s)) as Hp.
    destruct (dlt_message (firstn (N.to_nat n) s) f sh) as [pm rest|nd| | |]; cbn [spec_outcome];
      try (intros [H|H]; [discriminate|exact (IH _ H)]).
    congruence.
Qed.

Lemma reader_run_default_no_panic : forall sigma s f sh,
  (forall bs, dlt_message bs f sh <> PPanic) ->
  ~ In OPanic (fst (reader_run_default sigma s f sh)).
Proof.
  intros sigma s f sh Hd. rewrite reader_run_default_spec. cbn [fst].
  apply spec_run_fuel_no_panic. exact Hd.
Qed.

(* the pre-repair reader panics on a declared length below 4 *)
Lemma reader_run_pinned_panics :
  reader_run_pinned [] [x00; x00; x00; x02] None false = ([OPanic], true).
Proof. vm_compute. reflexivity. Qed.

(* ================= D: the cuts; truncation ================= *)

Lemma spec_cut_consumes : forall sh s,
  match spec_cut sh s with
  | CShort => hdr_len sh <= len s
  | CPiece n => hdr_len sh <= n /\ n <= len s
  | _ => True
  end.
Proof.
  intros sh s. destruct (spec_cut sh s) as [| | |n] eqn:E; auto.
  - unfold spec_cut in E. destruct (len s <? hdr_len sh) eqn:E1; [discriminate|lia].
  - destruct (spec_cut_piece sh s n E) as (_ & H1 & H2). auto.
Qed.

(* fuel above the length of the stream is irrelevant *)
Lemma spec_run_fuel_irrel : forall f sh fuel1 fuel2 s,
  (length s < fuel1)%nat -> (length s < fuel2)%nat ->
  spec_run_fuel fuel1 s f sh = spec_run_fuel fuel2 s f sh.
Proof.
  intros f sh. induction fuel1 as [|fuel1 IH]; intros fuel2 s H1 H2; [lia|].
  destruct fuel2 as [|fuel2]; [lia|]. cbn [spec_run_fuel].
  pose proof (spec_cut_consumes sh s) as Hc. rewrite length_len in H1, H2.
  assert (H4 : hdr_len sh = storage_len sh + 4) by reflexivity.
  destruct (spec_cut sh s) as [| | |n]; try reflexivity.
  - f_equal. apply IH; rewrite <- dropN_skipn, length_len, len_dropN; lia.
  - rewrite (IH fuel2); [reflexivity| |]; rewrite <- dropN_skipn, length_len, len_dropN; lia.
Qed.

Lemma spec_cuts_fuel_irrel : forall sh fuel1 fuel2 off s,
  (length s < fuel1)%nat -> (length s < fuel2)%nat ->
  spec_cuts_fuel fuel1 off s sh = spec_cuts_fuel fuel2 off s sh.
Proof.
  intros sh. induction fuel1 as [|fuel1 IH]; intros fuel2 off s H1 H2; [lia|].
  destruct fuel2 as [|fuel2]; [lia|]. cbn [spec_cuts_fuel].
  pose proof (spec_cut_consumes sh s) as Hc. rewrite length_len in H1, H2.
  assert (H4 : hdr_len sh = storage_len sh + 4) by reflexivity.
  destruct (spec_cut sh s) as [| | |n]; try reflexivity.
  - f_equal. apply IH; rewrite <- dropN_skipn, length_len, len_dropN; lia.
  - f_equal. apply IH; rewrite <- dropN_skipn, length_len, len_dropN; lia.
Qed.

(* pieces are laid out left to right *)
Lemma spec_cuts_fuel_offsets : forall sh fuel off s,
  Forall (fun c => off <= fst c) (spec_cuts_fuel fuel off s sh).
Proof.
  intros sh. induction fuel as [|fuel IH]; intros off s; cbn [spec_cuts_fuel]; [constructor|].
  destruct (spec_cut sh s) as [| | |n]; try constructor; cbn [fst]; try lia.
  - eapply Forall_impl; [|apply IH]. cbn beta. intros c Hc. lia.
  - eapply Forall_impl; [|apply IH]. cbn beta. intros c Hc. lia.
Qed.

Lemma filter_cut_within_none : forall k off cuts,
  Forall (fun c => off <= fst c) cuts -> k < off -> filter (cut_within k) cuts = [].
Proof.
  intros k off cuts H Hk. induction H as [|c cuts Hc _ IH]; [reflexivity|].
  cbn [filter]. unfold cut_within at 1. replace (fst c + snd c <=? k) with false by lia. exact IH.
Qed.

(* the LEN field of a prefix that contains the whole header *)
Lemma declared_len_prefix : forall sh s k, hdr_len sh <= k ->
  declared_len sh (takeN k s) = declared_len sh s.
Proof.
  intros sh s k Hk. unfold declared_len, hdr_len in *. set (a := storage_len sh + 2) in *.
  rewrite takeN_firstn.
  replace (N.to_nat k) with (N.to_nat a + S (S (N.to_nat (k - a - 2))))%nat by lia.
  rewrite <- firstn_skipn_comm.
  destruct (skipn (N.to_nat a) s) as [|x [|y t]]; reflexivity.
Qed.

(* how the first cut of a prefix relates to the first cut of the stream *)
Lemma spec_cut_prefix : forall sh s k,
  match spec_cut sh s with
  | CEnd => spec_cut sh (takeN k s) = CEnd
  | CTrunc => spec_cut sh (takeN k s) = CEnd \/ spec_cut sh (takeN k s) = CTrunc
  | CShort =>
    if hdr_len sh <=? k then spec_cut sh (takeN k s) = CShort else spec_cut sh (takeN k s) = CEnd
  | CPiece n =>
    if n <=? k then spec_cut sh (takeN k s) = CPiece n
    else spec_cut sh (takeN k s) = CEnd \/ spec_cut sh (takeN k s) = CTrunc
  end.
Proof.
  intros sh s k. unfold spec_cut. rewrite len_takeN.
  assert (H4 : hdr_len sh = storage_len sh + 4) by reflexivity.
  destruct (hdr_len sh <=? k) eqn:Ek.
  - rewrite declared_len_prefix by lia. set (L := declared_len sh s).
    repeat match goal with
           | |- context [if ?c then _ else _] => destruct c eqn:?
           end; auto; lia.
  - replace (N.min k (len s) <? hdr_len sh) with true by lia.
    repeat match goal with
           | |- context [if ?c then _ else _] => destruct c eqn:?
           end; auto; lia.
Qed.

Definition is_tail (tail : list outcome) : Prop := tail = [] \/ tail = [OErr EUnrecoverable].

Lemma spec_run_fuel_stop : forall f sh fuel s,
  spec_cut sh s = CEnd \/ spec_cut sh s = CTrunc -> is_tail (spec_run_fuel fuel s f sh).
Proof.
  intros f sh [|fuel] s H; cbn [spec_run_fuel]; [left; reflexivity|].
  destruct H as [-> | ->]; [left|right]; reflexivity.
Qed.
Lemma spec_cuts_fuel_stop : forall sh fuel off s,
  spec_cut sh s = CEnd \/ spec_cut sh s = CTrunc -> spec_cuts_fuel fuel off s sh = [].
Proof.
  intros sh [|fuel] off s H; cbn [spec_cuts_fuel]; [reflexivity|].
  destruct H as [-> | ->]; reflexivity.
Qed.

Lemma truncation_fuel : forall f sh fuel fuel' off s k,
  (length s < fuel)%nat -> (length (takeN k s) < fuel')%nat ->
  let done := filter (cut_within (off + k)) (spec_cuts_fuel fuel off s sh) in
  spec_cuts_fuel fuel' off (takeN k s) sh = done
  /\ exists tail, is_tail tail
     /\ spec_run_fuel fuel' (takeN k s) f sh = firstn (length done) (spec_run_fuel fuel s f sh) ++ tail.
Proof.
  intros f sh. induction fuel as [|fuel IH]; intros fuel' off s k Hf Hf'; [lia|].
  cbv zeta. cbn [spec_cuts_fuel spec_run_fuel].
  pose proof (spec_cut_prefix sh s k) as Hp.
  pose proof (spec_cut_consumes sh s) as Hc.
  assert (H4 : hdr_len sh = storage_len sh + 4) by reflexivity.
  rewrite length_len in Hf, Hf'. rewrite len_takeN in Hf'.
  (* the recursive step shared by CShort and CPiece *)
  assert (Hdrop : forall n, n <= k -> dropN n (takeN k s) = takeN (k - n) (dropN n s)).
  { intros n Hn. rewrite !dropN_skipn, !takeN_firstn.
    replace (N.to_nat k) with (N.to_nat n + N.to_nat (k - n))%nat by lia.
    symmetry. apply firstn_skipn_comm. }
  destruct (spec_cut sh s) as [| | |n].
  - (* end of stream *)
    cbn [filter length firstn app]. split; [apply spec_cuts_fuel_stop; auto|].
    eexists; split; [|reflexivity]. apply spec_run_fuel_stop; auto.
  - (* short length field *)
    cbn [filter].
    destruct (hdr_len sh <=? k) eqn:Ek.
    + replace (cut_within (off + k) (off, hdr_len sh)) with true
        by (unfold cut_within; cbn [fst snd]; lia).
      destruct fuel' as [|fuel']; [lia|]. cbn [spec_cuts_fuel spec_run_fuel]. rewrite Hp.
      rewrite <- !dropN_skipn. rewrite Hdrop by lia.
      destruct (IH fuel' (off + hdr_len sh) (dropN (hdr_len sh) s) (k - hdr_len sh)) as (IH1 & tail & IHt & IH2).
      { rewrite length_len, len_dropN; lia. }
      { rewrite length_len, len_takeN, len_dropN; lia. }
      replace (off + hdr_len sh + (k - hdr_len sh)) with (off + k) in * by lia.
      split; [f_equal; exact IH1|].
      exists tail. split; [exact IHt|]. cbn [length firstn app]. f_equal. exact IH2.
    + replace (cut_within (off + k) (off, hdr_len sh)) with false
        by (unfold cut_within; cbn [fst snd]; lia).
      rewrite (filter_cut_within_none (off + k) (off + hdr_len sh))
        by (try apply spec_cuts_fuel_offsets; lia).
      cbn [length firstn app]. split; [apply spec_cuts_fuel_stop; auto|].
      eexists; split; [|reflexivity]. apply spec_run_fuel_stop; auto.
  - (* truncated already *)
    cbn [filter length firstn app]. split; [apply spec_cuts_fuel_stop; auto|].
    eexists; split; [|reflexivity]. apply spec_run_fuel_stop; auto.
  - (* complete piece *)
    cbn [filter].
    destruct (n <=? k) eqn:Ek.
    + replace (cut_within (off + k) (off, n)) with true
        by (unfold cut_within; cbn [fst snd]; lia).
      destruct fuel' as [|fuel']; [lia|]. cbn [spec_cuts_fuel spec_run_fuel]. rewrite Hp.
      rewrite <- !dropN_skipn, <- !takeN_firstn. rewrite Hdrop by lia.
      rewrite takeN_takeN. replace (N.min n k) with n by lia.
      destruct (IH fuel' (off + n) (dropN n s) (k - n)) as (IH1 & tail & IHt & IH2).
      { rewrite length_len, len_dropN; lia. }
      { rewrite length_len, len_takeN, len_dropN; lia. }
      replace (off + n + (k - n)) with (off + k) in * by lia.
      split; [f_equal; exact IH1|].
      destruct (spec_outcome (dlt_message (takeN n s) f sh)) as [pm|e|].
      * exists tail. split; [exact IHt|]. cbn [length firstn app]. f_equal. exact IH2.
      * exists tail. split; [exact IHt|]. cbn [length firstn app]. f_equal. exact IH2.
      * exists []. split; [left; reflexivity|]. cbn [length firstn app]. rewrite firstn_nil. reflexivity.
    + replace (cut_within (off + k) (off, n)) with false
        by (unfold cut_within; cbn [fst snd]; lia).
      rewrite (filter_cut_within_none (off + k) (off + n))
        by (try apply spec_cuts_fuel_offsets; lia).
      cbn [length firstn app]. split; [apply spec_cuts_fuel_stop; auto|].
      eexists; split; [|reflexivity]. apply spec_run_fuel_stop; auto.
Qed.

(* Truncating the stream after k bytes: the pieces are those of the full stream that end at or before k;
   their outcomes are delivered unchanged; what follows is nothing or one Unrecoverable error. *)
Lemma spec_truncation : forall s k f sh,
  let done := filter (cut_within k) (spec_cuts s sh) in
  spec_cuts (firstn (N.to_nat k) s) sh = done
  /\ exists tail, (tail = [] \/ tail = [OErr EUnrecoverable])
     /\ spec_run (firstn (N.to_nat k) s) f sh = firstn (length done) (spec_run s f sh) ++ tail.
Proof.
  intros s k f sh. rewrite <- takeN_firstn. unfold spec_cuts, spec_run.
  exact (truncation_fuel f sh (length s + 1) (length (takeN k s) + 1) 0 s k ltac:(lia) ltac:(lia)).
Qed.

(* ----- the run is a function of the pieces ----- *)
Lemma spec_cut_declared : forall sh s,
  match spec_cut sh s with
  | CShort => declared_len sh s < 4
  | CPiece n => 4 <= declared_len sh s
  | _ => True
  end.
Proof.
  intros sh s. unfold spec_cut.
  repeat match goal with
         | |- context [if ?c then _ else _] => destruct c eqn:?
         end; auto; lia.
Qed.

Lemma spec_run_by_cuts_fuel : forall f sh fuel off s s0,
  dropN off s0 = s -> (length s < fuel)%nat ->
  exists tail, is_tail tail
    /\ spec_run_fuel fuel s f sh
       = until_panic (map (fun c => piece_outcome f sh (piece_at s0 c)) (spec_cuts_fuel fuel off s sh) ++ tail).
Proof.
  intros f sh. induction fuel as [|fuel IH]; intros off s s0 Hs Hf; [lia|].
  cbn [spec_run_fuel spec_cuts_fuel].
  pose proof (spec_cut_consumes sh s) as Hc. pose proof (spec_cut_declared sh s) as Hd.
  assert (H4 : hdr_len sh = storage_len sh + 4) by reflexivity.
  rewrite length_len in Hf.
  assert (Hpiece : forall n, piece_at s0 (off, n) = takeN n s).
  { intros n. unfold piece_at. cbn [fst snd]. now rewrite <- dropN_skipn, <- takeN_firstn, Hs. }
  destruct (spec_cut sh s) as [| | |n].
  - exists []. split; [left; reflexivity|reflexivity].
  - destruct (IH (off + hdr_len sh) (dropN (hdr_len sh) s) s0) as (tail & Ht & E).
    { now rewrite <- dropN_dropN, Hs. }
    { rewrite length_len, len_dropN. lia. }
    exists tail. split; [exact Ht|]. cbn [map app]. rewrite Hpiece. unfold piece_outcome.
    rewrite declared_len_prefix by lia. replace (declared_len sh s <? 4) with true by lia.
    cbn [until_panic]. rewrite <- dropN_skipn. f_equal. exact E.
  - exists [OErr EUnrecoverable]. split; [right; reflexivity|reflexivity].
  - destruct (IH (off + n) (dropN n s) s0) as (tail & Ht & E).
    { now rewrite <- dropN_dropN, Hs. }
    { rewrite length_len, len_dropN. lia. }
    exists tail. split; [exact Ht|]. cbn [map app]. rewrite Hpiece. unfold piece_outcome.
    rewrite declared_len_prefix by lia. replace (declared_len sh s <? 4) with false by lia.
    rewrite <- dropN_skipn, <- takeN_firstn.
    destruct (spec_outcome (dlt_message (takeN n s) f sh)) as [pm|e|]; cbn [until_panic];
      try reflexivity; f_equal; exact E.
Qed.

Lemma spec_run_by_cuts : forall s f sh,
  exists tail, (tail = [] \/ tail = [OErr EUnrecoverable])
    /\ spec_run s f sh
       = until_panic (map (fun c => piece_outcome f sh (piece_at s c)) (spec_cuts s sh) ++ tail).
Proof.
  intros s f sh. unfold spec_run, spec_cuts.
  apply (spec_run_by_cuts_fuel f sh (length s + 1) 0 s s); [apply dropN_0|lia].
Qed.

(* pieces lie inside the stream, one behind the other, starting at 0 *)
Lemma spec_cuts_fuel_layout : forall sh fuel off s,
  let cuts := spec_cuts_fuel fuel off s sh in
  Forall (fun c => hdr_len sh <= snd c /\ fst c + snd c <= off + len s) cuts
  /\ (forall i c d, nth_error cuts i = Some c -> nth_error cuts (S i) = Some d -> fst d = fst c + snd c)
  /\ (forall c, nth_error cuts 0 = Some c -> fst c = off).
Proof.
  intros sh. induction fuel as [|fuel IH]; intros off s; cbv zeta; cbn [spec_cuts_fuel].
  - split; [constructor|]. split; [intros [|i] c d H; discriminate|intros c H; discriminate].
  - pose proof (spec_cut_consumes sh s) as Hc.
    assert (Hstep : forall n, hdr_len sh <= n -> n <= len s ->
      let cuts := (off, n) :: spec_cuts_fuel fuel (off + n) (dropN n s) sh in
      Forall (fun c => hdr_len sh <= snd c /\ fst c + snd c <= off + len s) cuts
      /\ (forall i c d, nth_error cuts i = Some c -> nth_error cuts (S i) = Some d -> fst d = fst c + snd c)
      /\ (forall c, nth_error cuts 0 = Some c -> fst c = off)).
    { intros n Hn1 Hn2. cbv zeta. destruct (IH (off + n) (dropN n s)) as (I1 & I2 & I3).
      split; [|split].
      - constructor; [cbn [fst snd]; lia|].
        eapply Forall_impl; [|exact I1]. cbn beta. intros c. rewrite len_dropN. lia.
      - intros [|i] c d Hc' Hd'.
        + cbn [nth_error] in Hc', Hd'. injection Hc' as <-. cbn [fst snd]. apply I3. exact Hd'.
        + cbn [nth_error] in Hc', Hd'. exact (I2 i c d Hc' Hd').
      - intros c Hc'. cbn [nth_error] in Hc'. injection Hc' as <-. reflexivity. }
    destruct (spec_cut sh s) as [| | |n].
    + split; [constructor|]. split; [intros [|i] c d H; discriminate|intros c H; discriminate].
    + rewrite <- dropN_skipn. apply Hstep; lia.
    + split; [constructor|]. split; [intros [|i] c d H; discriminate|intros c H; discriminate].
    + rewrite <- dropN_skipn. apply Hstep; lia.
Qed.

Lemma spec_cuts_layout : forall s sh,
  let cuts := spec_cuts s sh in
  Forall (fun c => hdr_len sh <= snd c /\ fst c + snd c <= len s) cuts
  /\ (forall i c d, nth_error cuts i = Some c -> nth_error cuts (S i) = Some d -> fst d = fst c + snd c)
  /\ (forall c, nth_error cuts 0 = Some c -> fst c = 0).
Proof.
  intros s sh. exact (spec_cuts_fuel_layout sh (length s + 1) 0 s).
Qed.

(* truncation, said about the reader itself *)
Lemma reader_truncation : forall sigma sigma' s k f sh,
  exists tail, (tail = [] \/ tail = [OErr EUnrecoverable])
    /\ reader_run_default sigma (firstn (N.to_nat k) s) f sh
       = (firstn (length (filter (cut_within k) (spec_cuts s sh))) (fst (reader_run_default sigma' s f sh)) ++ tail,
          true).
Proof.
  intros. rewrite !reader_run_default_spec. cbn [fst].
  destruct (spec_truncation s k f sh) as (_ & tail & Ht & E).
  exists tail. split; [exact Ht|]. now rewrite E.
Qed.
