(* Proofs/ParseLemmas.v — how much input each parser of Parse.v consumes when it succeeds,
   that none of them panics, and what the standard header tells about the message. *)
From Coq Require Import Lia ZifyBool ZifyN ZifyNat.
From DltV.Model Require Import Bytes RustInt Utf8 Nom Dlt Parse.
From DltV.Proofs Require Import BytesBasics Fields Utf8Lemmas ZString Codes.
Open Scope N_scope.

(* [i] is [n] bytes followed by [rest] *)
Definition splits (i rest : list byte) (n : N) : Prop := exists c, i = c ++ rest /\ len c = n.

Lemma splits_refl i : splits i i 0.
Proof. exists []. split; reflexivity. Qed.
Lemma splits_trans i r1 r2 n1 n2 : splits i r1 n1 -> splits r1 r2 n2 -> splits i r2 (n1 + n2).
Proof.
  intros (c1 & -> & H1) (c2 & -> & H2). exists (c1 ++ c2). split; [now rewrite app_assoc|].
  rewrite len_app. lia.
Qed.
Lemma splits_len i rest n : splits i rest n -> len i = n + len rest.
Proof. intros (c & -> & H). rewrite len_app. lia. Qed.
Lemma splits_firstn i rest n : splits i rest n -> i = firstn (N.to_nat n) i ++ rest /\ rest = skipn (N.to_nat n) i.
Proof.
  intros (c & -> & H). rewrite <- H.
  rewrite firstn_len_app, skipn_len_app. split; reflexivity.
Qed.
Lemma splits_of_firstn i n : n <= len i -> splits i (skipn (N.to_nat n) i) n.
Proof.
  intros H. exists (firstn (N.to_nat n) i). split; [now rewrite firstn_skipn|].
  rewrite len_firstn. lia.
Qed.

(* ---------- primitives ---------- *)
Lemma take_ok_inv n i v rest : take n i = POk v rest -> splits i rest n /\ v = firstn (N.to_nat n) i.
Proof.
  unfold take. destruct (N.ltb_spec (len i) n) as [|Hge]; [discriminate|].
  intros H. injection H as <- <-. split; [now apply splits_of_firstn | reflexivity].
Qed.
Lemma take_enough n i : n <= len i -> take n i = POk (firstn (N.to_nat n) i) (skipn (N.to_nat n) i).
Proof. intros H. unfold take. destruct (N.ltb_spec (len i) n); [lia | reflexivity]. Qed.
Lemma take_short n i : len i < n -> take n i = PIncomplete (Some (n - len i)).
Proof.
  intros H. unfold take. destruct (N.ltb_spec (len i) n); [|lia].
  unfold needed_new. destruct (N.eqb_spec (n - len i) 0); [lia | reflexivity].
Qed.
Lemma take_app n c rest : len c = n -> take n (c ++ rest) = POk c rest.
Proof.
  intros H. rewrite take_enough by (rewrite len_app; lia). rewrite <- H.
  now rewrite firstn_len_app, skipn_len_app.
Qed.

Lemma compare_tag_ok t i : compare_tag t i = Some true -> exists r, i = t ++ r.
Proof.
  revert i; induction t as [|a t IH]; intros i H.
  - now exists i.
  - destruct i as [|b i]; [discriminate|]. cbn [compare_tag] in H.
    destruct (byte_eqb a b) eqn:E; [|discriminate].
    apply byte_eqb_eq in E. subst b. destruct (IH i H) as (r & ->). now exists r.
Qed.
Lemma compare_tag_app t r : compare_tag t (t ++ r) = Some true.
Proof.
  induction t as [|a t IH]; [now destruct r|]. cbn [app compare_tag]. now rewrite byte_eqb_refl.
Qed.
Lemma tag_ok_inv t i v rest : tag t i = POk v rest -> i = t ++ rest /\ v = t.
Proof.
  unfold tag. destruct (compare_tag t i) as [[|]|] eqn:E; try discriminate.
  apply compare_tag_ok in E as (r & ->). intros H. injection H as <- <-.
  rewrite firstn_app_exact, skipn_app_exact by reflexivity. split; reflexivity.
Qed.
Lemma tag_app t r : tag t (t ++ r) = POk t r.
Proof.
  unfold tag. rewrite compare_tag_app.
  now rewrite firstn_app_exact, skipn_app_exact by reflexivity.
Qed.
Lemma tag_splits t i v rest : tag t i = POk v rest -> splits i rest (len t).
Proof. intros H. apply tag_ok_inv in H as (-> & _). now exists t. Qed.

Lemma uint_splits e k i v rest : uint e k i = POk v rest -> splits i rest (N.of_nat k).
Proof.
  intros H. apply uint_ok_inv in H as (Hi & Hl & _ & _).
  exists (firstn k i). split; [exact Hi | unfold len; now rewrite Hl].
Qed.
Lemma sint_splits e k i v rest : sint e k i = POk v rest -> splits i rest (N.of_nat k).
Proof.
  unfold sint, pmap, pbind. destruct (uint e k i) as [v' r'| | | |] eqn:E; try discriminate.
  intros H. injection H as _ <-. eapply uint_splits, E.
Qed.
Lemma u8_splits i v rest : u8 i = POk v rest -> splits i rest 1.
Proof. apply uint_splits. Qed.
Lemma u8_value i v rest : u8 i = POk v rest -> v < 256.
Proof. intros H. now apply uint_value_bound in H. Qed.
Lemma zstring_splits size i v rest : zstring size i = POk v rest -> splits i rest size.
Proof.
  intros H. apply zstring_consumes in H as (_ & c & Hc & ->). now exists c.
Qed.

Lemma pmap_ok_inv {A B} (f : A -> B) (x : pres A) v rest :
  pmap f x = POk v rest -> exists a, x = POk a rest /\ v = f a.
Proof.
  unfold pmap, pbind. destruct x as [a r| | | |]; try discriminate.
  intros H. injection H as <- <-. now exists a.
Qed.
Lemma pbind_ok_inv {A B} (x : pres A) (f : A -> list byte -> pres B) v rest :
  pbind x f = POk v rest -> exists a r, x = POk a r /\ f a r = POk v rest.
Proof. unfold pbind. destruct x as [a r| | | |]; try discriminate. intros H. now exists a, r. Qed.

(* no primitive panics *)
Lemma take_no_panic n i : take n i <> PPanic.
Proof. unfold take. now destruct (len i <? n). Qed.
Lemma tag_no_panic t i : tag t i <> PPanic.
Proof. unfold tag. now destruct (compare_tag t i) as [[|]|]. Qed.
Lemma uint_no_panic e k i : uint e k i <> PPanic.
Proof. unfold uint. now destruct (len i <? N.of_nat k). Qed.
Lemma sint_no_panic e k i : sint e k i <> PPanic.
Proof. unfold sint, pmap, pbind. pose proof (uint_no_panic e k i). now destruct (uint e k i). Qed.
Lemma pmap_no_panic {A B} (f : A -> B) (x : pres A) : x <> PPanic -> pmap f x <> PPanic.
Proof. unfold pmap, pbind. now destruct x. Qed.
Lemma pbind_no_panic {A B} (x : pres A) (f : A -> list byte -> pres B) :
  x <> PPanic -> (forall a r, f a r <> PPanic) -> pbind x f <> PPanic.
Proof. unfold pbind. destruct x; auto; congruence. Qed.

(* ---------- the standard header ---------- *)
Definition is_some {A} (o : option A) : bool := match o with Some _ => true | None => false end.

Record std_facts (i : list byte) (h : std_header) (rest : list byte)
    (htyp mcnt overall : N) (tail : list byte) : Prop := {
  sf_input : i = n2b htyp :: n2b mcnt :: put_uint BE 2 overall ++ tail;
  sf_htyp_lt : htyp < 256;
  sf_overall_lt : overall < 65536;
  sf_splits : splits i rest (calculate_standard_header_length htyp);
  sf_headers_le : calculate_all_headers_length htyp <= overall;
  sf_payload : h_payload_length h = overall - calculate_all_headers_length htyp;
  sf_type_byte : header_type_byte h = htyp;
  sf_has_ext : h_has_ext h = flag htyp 1;
  sf_overall_raw : overall_length_raw h = overall;
  sf_mcnt_eq : h_mcnt h = mcnt;
}.

Lemma uint_head e k i v rest : uint e k i = POk v rest -> i = put_uint e k v ++ rest.
Proof.
  intros H. apply uint_ok_inv in H as (Hi & Hl & -> & _).
  rewrite <- Hl at 1. now rewrite put_get_uint.
Qed.
Lemma u8_head i v rest : u8 i = POk v rest -> i = n2b v :: rest.
Proof. intros H. apply uint_head in H. exact H. Qed.

Lemma opt_field_splits {A} (c : bool) (p : list byte -> pres A) i (v : option A) rest n :
  (forall i a r, p i = POk a r -> splits i r n) ->
  (if c then pmap Some (p i) else POk None i) = POk v rest ->
  splits i rest (if c then n else 0) /\ is_some v = c.
Proof.
  intros Hp H. destruct c.
  - apply pmap_ok_inv in H as (a & Ha & ->). split; [eapply Hp, Ha | reflexivity].
  - injection H as <- <-. split; [apply splits_refl | reflexivity].
Qed.

Lemma std_len_sum htyp :
  calculate_standard_header_length htyp =
  4 + (if flag htyp 4 then 4 else 0) + (if flag htyp 8 then 4 else 0) + (if flag htyp 16 then 4 else 0).
Proof. reflexivity. Qed.

Lemma dlt_standard_header_ok i h rest : dlt_standard_header i = POk h rest ->
  exists htyp mcnt overall tail, std_facts i h rest htyp mcnt overall tail.
Proof.
  unfold dlt_standard_header. intros H.
  apply pbind_ok_inv in H as (htyp & i0 & E0 & H).
  apply pbind_ok_inv in H as (mcnt & i1 & E1 & H).
  apply pbind_ok_inv in H as (overall & i2 & E2 & H).
  apply pbind_ok_inv in H as (ecu & i3 & E3 & H).
  apply pbind_ok_inv in H as (session & i4 & E4 & H).
  apply pbind_ok_inv in H as (tms & i5 & E5 & H).
  destruct (N.ltb_spec overall (calculate_all_headers_length htyp)) as [|Hle]; [discriminate|].
  injection H as <- <-.
  pose proof (u8_value _ _ _ E0) as Hh. pose proof (u8_value _ _ _ E1) as Hm.
  pose proof (uint_value_bound _ _ _ _ _ E2) as Ho. change (256 ^ N.of_nat 2) with 65536 in Ho.
  apply (opt_field_splits _ parse_ecu_id _ _ _ 4) in E3 as [S3 O3];
    [|intros ? ? ? Hz; eapply zstring_splits, Hz].
  apply (opt_field_splits _ (uint BE 4) _ _ _ 4) in E4 as [S4 O4];
    [|intros ? ? ? Hz; apply (uint_splits _ _ _ _ _ Hz)].
  apply (opt_field_splits _ (uint BE 4) _ _ _ 4) in E5 as [S5 O5];
    [|intros ? ? ? Hz; apply (uint_splits _ _ _ _ _ Hz)].
  pose proof (u8_splits _ _ _ E0) as S0. pose proof (u8_splits _ _ _ E1) as S1.
  pose proof (uint_splits _ _ _ _ _ E2) as S2.
  destruct (htyp_all htyp Hh) as [Hrt _]. unfold htyp_roundtrip in Hrt. apply N.eqb_eq in Hrt.
  exists htyp, mcnt, overall, i2. split; cbn [h_payload_length h_has_ext h_mcnt].
  - apply u8_head in E0. apply u8_head in E1. apply uint_head in E2. now subst.
  - exact Hh.
  - exact Ho.
  - rewrite std_len_sum.
    pose proof (splits_trans _ _ _ _ _ S0 (splits_trans _ _ _ _ _ S1 (splits_trans _ _ _ _ _ S2
      (splits_trans _ _ _ _ _ S3 (splits_trans _ _ _ _ _ S4 S5))))) as S.
    replace (4 + (if flag htyp 4 then 4 else 0) + (if flag htyp 8 then 4 else 0) + (if flag htyp 16 then 4 else 0))
      with (1 + (1 + (N.of_nat 2 + ((if flag htyp 4 then 4 else 0) + ((if flag htyp 8 then 4 else 0) + (if flag htyp 16 then 4 else 0))))))
      by lia.
    exact S.
  - exact Hle.
  - reflexivity.
  - unfold header_type_byte. cbn [h_has_ext h_endian h_ecu h_session h_timestamp h_version].
    fold (is_some ecu) (is_some session) (is_some tms). rewrite O3, O4, O5. exact Hrt.
  - reflexivity.
  - unfold overall_length_raw. cbn [h_ecu h_session h_timestamp h_has_ext h_payload_length].
    fold (is_some ecu) (is_some session) (is_some tms).
    unfold calculate_all_headers_length, calculate_standard_header_length in Hle |- *.
    assert (Oe : (match ecu with Some _ => 4 | None => 0 end) = if flag htyp 4 then 4 else 0)
      by (rewrite <- O3; now destruct ecu).
    assert (Os : (match session with Some _ => 4 | None => 0 end) = if flag htyp 8 then 4 else 0)
      by (rewrite <- O4; now destruct session).
    assert (Ot : (match tms with Some _ => 4 | None => 0 end) = if flag htyp 16 then 4 else 0)
      by (rewrite <- O5; now destruct tms).
    rewrite Oe, Os, Ot. lia.
  - reflexivity.
Qed.

Lemma dlt_standard_header_no_panic i : dlt_standard_header i <> PPanic.
Proof.
  unfold dlt_standard_header.
  repeat (apply pbind_no_panic; [try apply uint_no_panic|intros ? ?]).
  - destruct (flag a 4); [apply pmap_no_panic, zstring_no_panic | discriminate].
  - destruct (flag a 8); [apply pmap_no_panic, uint_no_panic | discriminate].
  - destruct (flag a 16); [apply pmap_no_panic, uint_no_panic | discriminate].
  - now destruct (a1 <? calculate_all_headers_length a).
Qed.

(* what the parsed header says about lengths: the u16 arithmetic of overall_length never wraps *)
Lemma std_facts_overall i h rest htyp mcnt overall tail (F : std_facts i h rest htyp mcnt overall tail) :
  overall_length h = overall /\ overall_length_overflows h = false.
Proof.
  unfold overall_length, overall_length_overflows. rewrite (sf_overall_raw _ _ _ _ _ _ _ F).
  pose proof (sf_overall_lt _ _ _ _ _ _ _ F). split; [now apply N.mod_small|].
  destruct (N.leb_spec 65536 overall); [lia | reflexivity].
Qed.

Lemma dlt_extended_header_splits i x rest : dlt_extended_header i = POk x rest -> splits i rest 10.
Proof.
  unfold dlt_extended_header. intros H.
  apply pbind_ok_inv in H as (msin & i0 & E0 & H).
  apply pbind_ok_inv in H as (noar & i1 & E1 & H).
  apply pbind_ok_inv in H as (apid & i2 & E2 & H).
  apply pbind_ok_inv in H as (ctid & i3 & E3 & H).
  injection H as _ <-.
  pose proof (splits_trans _ _ _ _ _ (u8_splits _ _ _ E0) (splits_trans _ _ _ _ _ (u8_splits _ _ _ E1)
    (splits_trans _ _ _ _ _ (zstring_splits _ _ _ _ E2) (zstring_splits _ _ _ _ E3)))) as S.
  exact S.
Qed.
Lemma dlt_extended_header_no_panic i : dlt_extended_header i <> PPanic.
Proof.
  unfold dlt_extended_header.
  repeat (apply pbind_no_panic; [try apply uint_no_panic; try apply zstring_no_panic|intros ? ?]).
  discriminate.
Qed.
