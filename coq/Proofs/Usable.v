(* Proofs/Usable.v — C03, second half: what the slice parsers return can be used.
   Every text (name, unit, string value, raw value) of a parsed argument is confined to the
   bytes that argument consumed; the arguments of a message are confined to its payload slice of
   at most 65531 bytes; hence no `len as u16 + 1` of the serialiser overflows, the u16 header
   length sum does not overflow, Argument::len stays far below 2^32, and Argument::valid holds. *)
From Coq Require Import Lia ZifyBool ZifyN ZifyNat.
From DltV.Model Require Import Bytes RustInt Utf8 Nom Dlt Parse.
From DltV.Proofs Require Import BytesBasics Fields Utf8Lemmas ZString Codes ParseLemmas Search Consumption.
Open Scope N_scope.

(* ---------- the texts of an argument ---------- *)
Definition opt_texts (o : option (list byte)) : list (list byte) :=
  match o with Some s => [s] | None => [] end.
Definition value_texts (v : value) : list (list byte) :=
  match v with VString s => [s] | VRaw bs => [bs] | _ => [] end.
(* name, unit, string/raw value *)
Definition arg_texts (a : argument) : list (list byte) :=
  opt_texts (a_name a) ++ opt_texts (a_unit a) ++ value_texts (a_value a).

(* every text of [a], with the 6 bytes (type info, one u16 size) that at least precede it,
   fits into [n] bytes *)
Definition texts_within (a : argument) (n : N) : Prop :=
  forall s, In s (arg_texts a) -> len s + 6 <= n.

Definition args_of (m : message) : list argument :=
  match m_payload m with PVerbose args => args | _ => [] end.
Definition slices_of (m : message) : list (list byte) :=
  match m_payload m with PNetworkTrace sl => sl | _ => [] end.

Lemma texts_within_mono a n n' : texts_within a n -> n <= n' -> texts_within a n'.
Proof. intros H Hle s Hs. specialize (H s Hs). lia. Qed.

(* ---------- splits: a few more facts ---------- *)
Lemma splits_le i rest n : splits i rest n -> n <= len i /\ len rest <= len i.
Proof. intros S. apply splits_len in S. lia. Qed.
Lemma splits_unique i rest n n' : splits i rest n -> splits i rest n' -> n = n'.
Proof. intros S S'. apply splits_len in S. apply splits_len in S'. lia. Qed.

(* ---------- pieces of an argument ---------- *)
Lemma dlt_type_info_splits e i t rest : dlt_type_info e i = POk t rest -> splits i rest 4.
Proof.
  unfold dlt_type_info. intros H. apply pbind_ok_inv in H as (info & r & E & H).
  destruct (ti_decode info); [|discriminate]. injection H as _ <-.
  exact (uint_splits _ _ _ _ _ E).
Qed.

Lemma dlt_variable_name_bound e i s rest :
  dlt_variable_name e i = POk s rest -> exists k, splits i rest (2 + k) /\ len s <= k.
Proof.
  unfold dlt_variable_name. intros H. apply pbind_ok_inv in H as (size & r & E & H).
  exists size. split.
  - exact (splits_trans _ _ _ _ _ (uint_splits _ _ _ _ _ E) (zstring_splits _ _ _ _ H)).
  - now apply zstring_result_clean in H as (_ & _ & Hl).
Qed.

Lemma opt_name_bound e (c : bool) i name rest :
  (if c then pmap Some (dlt_variable_name e i) else POk None i) = POk name rest ->
  exists k, splits i rest k /\ forall s, In s (opt_texts name) -> len s + 2 <= k.
Proof.
  destruct c; intros H.
  - apply pmap_ok_inv in H as (s & Hs & ->). apply dlt_variable_name_bound in Hs as (k & S & Hl).
    exists (2 + k). split; [exact S|]. intros s' [<-|[]]. lia.
  - injection H as <- <-. exists 0. split; [apply splits_refl|]. intros s [].
Qed.

Lemma name_and_unit_bound e t i nu rest :
  dlt_variable_name_and_unit e t i = POk nu rest ->
  exists k, splits i rest k /\
    forall s, In s (opt_texts (fst nu) ++ opt_texts (snd nu)) -> len s + 4 <= k.
Proof.
  unfold dlt_variable_name_and_unit. destruct (ti_var_info t); intros H.
  - apply pbind_ok_inv in H as (ns & i1 & E1 & H). apply pbind_ok_inv in H as (us & i2 & E2 & H).
    apply pbind_ok_inv in H as (name & i3 & E3 & H). apply pbind_ok_inv in H as (unit & i4 & E4 & H).
    injection H as <- <-.
    exists (N.of_nat 2 + (N.of_nat 2 + (ns + us))). split.
    + exact (splits_trans _ _ _ _ _ (uint_splits _ _ _ _ _ E1) (splits_trans _ _ _ _ _ (uint_splits _ _ _ _ _ E2)
        (splits_trans _ _ _ _ _ (zstring_splits _ _ _ _ E3) (zstring_splits _ _ _ _ E4)))).
    + apply zstring_result_clean in E3 as (_ & _ & L3). apply zstring_result_clean in E4 as (_ & _ & L4).
      cbn [fst snd opt_texts app]. intros s [<-|[<-|[]]]; lia.
  - injection H as <- <-. exists 0. split; [apply splits_refl|]. intros s [].
Qed.

(* fixed-width values: some bytes are consumed and the value carries no text *)
Lemma dlt_uint_ok e w i v rest :
  dlt_uint e w i = POk v rest -> exists k, splits i rest k /\ value_texts v = [].
Proof.
  destruct w; unfold dlt_uint, u8; intros H; apply pmap_ok_inv in H as (x & Hx & ->);
    eexists; (split; [exact (uint_splits _ _ _ _ _ Hx) | reflexivity]).
Qed.
Lemma dlt_sint_ok e w i v rest :
  dlt_sint e w i = POk v rest -> exists k, splits i rest k /\ value_texts v = [].
Proof.
  destruct w; unfold dlt_sint; intros H; apply pmap_ok_inv in H as (x & Hx & ->);
    eexists; (split; [exact (sint_splits _ _ _ _ _ Hx) | reflexivity]).
Qed.
Lemma dlt_fint_ok e w i v rest :
  dlt_fint e w i = POk v rest ->
  exists k, splits i rest k /\ value_texts v = [] /\
    match w with W32 => exists b, v = VF32 b | W64 => exists b, v = VF64 b end.
Proof.
  destruct w; unfold dlt_fint; intros H; apply pmap_ok_inv in H as (x & Hx & ->);
    eexists; (split; [exact (uint_splits _ _ _ _ _ Hx) | split; [reflexivity | now exists x]]).
Qed.
Lemma dlt_fixed_point_splits e w i fp rest :
  dlt_fixed_point e w i = POk fp rest -> exists k, splits i rest k.
Proof.
  unfold dlt_fixed_point. intros H. apply pbind_ok_inv in H as (q & r & E & H).
  destruct w; apply pbind_ok_inv in H as (o & r' & E' & H); injection H as _ <-; eexists;
    exact (splits_trans _ _ _ _ _ (uint_splits _ _ _ _ _ E) (sint_splits _ _ _ _ _ E')).
Qed.

(* ---------- one argument ---------- *)
(* the five numeric shapes share this: type info, optional name+unit, [mid] bytes, value *)
Lemma numeric_arg_within t name unit fp v i i0 i1 i2 rest kn km kv :
  splits i i0 4 -> splits i0 i1 kn -> splits i1 i2 km -> splits i2 rest kv ->
  (forall s, In s (opt_texts name ++ opt_texts unit) -> len s + 4 <= kn) ->
  value_texts v = [] ->
  splits i rest (4 + (kn + (km + kv))) /\ texts_within (mkArg t name unit fp v) (4 + (kn + (km + kv))).
Proof.
  intros S0 S1 S2 S3 Hnu Hv. split.
  - exact (splits_trans _ _ _ _ _ S0 (splits_trans _ _ _ _ _ S1 (splits_trans _ _ _ _ _ S2 S3))).
  - intros s Hs. unfold arg_texts in Hs. cbn [a_name a_unit a_value] in Hs.
    rewrite Hv, app_nil_r in Hs. specialize (Hnu s Hs). lia.
Qed.

Theorem parsed_arg_bounds_ex e i a rest :
  dlt_argument e i = POk a rest ->
  exists n, splits i rest n /\ texts_within a n /\ arg_valid a = true.
Proof.
  unfold dlt_argument. intros H. apply pbind_ok_inv in H as (t & i0 & Et & H).
  pose proof (dlt_type_info_splits _ _ _ _ Et) as S0.
  destruct (ti_kind_of t) as [|l|w|l|w|w| |] eqn:K.
  - (* bool *)
    apply pbind_ok_inv in H as (name & i2 & En & H). apply pbind_ok_inv in H as (b & r & Eb & H).
    injection H as <- <-. apply opt_name_bound in En as (k & Sn & Hn).
    exists (4 + (k + 1)). split; [|split].
    + exact (splits_trans _ _ _ _ _ S0 (splits_trans _ _ _ _ _ Sn (u8_splits _ _ _ Eb))).
    + intros s Hs. unfold arg_texts in Hs. cbn [a_name a_unit a_value opt_texts value_texts] in Hs.
      rewrite app_nil_r in Hs. specialize (Hn s Hs). lia.
    + unfold arg_valid. cbn [a_ti a_value]. now rewrite K.
  - (* signed *)
    apply pbind_ok_inv in H as (nu & i1 & En & H). apply pbind_ok_inv in H as (v & r & Ev & H).
    injection H as <- <-. apply name_and_unit_bound in En as (kn & Sn & Hn).
    apply dlt_sint_ok in Ev as (kv & Sv & Hv).
    destruct (numeric_arg_within t (fst nu) (snd nu) None v _ _ _ _ _ _ _ _ S0 Sn (splits_refl _) Sv Hn Hv) as [S W].
    eexists. split; [exact S|]. split; [exact W|]. unfold arg_valid. cbn [a_ti a_value]. now rewrite K.
  - (* signed fixed point *)
    apply pbind_ok_inv in H as (nu & i1 & En & H). apply pbind_ok_inv in H as (fp & i2 & Ef & H).
    apply pbind_ok_inv in H as (v & r & Ev & H).
    injection H as <- <-. apply name_and_unit_bound in En as (kn & Sn & Hn).
    apply dlt_fixed_point_splits in Ef as (kf & Sf). apply dlt_sint_ok in Ev as (kv & Sv & Hv).
    destruct (numeric_arg_within t (fst nu) (snd nu) (Some fp) v _ _ _ _ _ _ _ _ S0 Sn Sf Sv Hn Hv) as [S W].
    eexists. split; [exact S|]. split; [exact W|]. unfold arg_valid. cbn [a_ti a_value]. now rewrite K.
  - (* unsigned *)
    apply pbind_ok_inv in H as (nu & i1 & En & H). apply pbind_ok_inv in H as (v & r & Ev & H).
    injection H as <- <-. apply name_and_unit_bound in En as (kn & Sn & Hn).
    apply dlt_uint_ok in Ev as (kv & Sv & Hv).
    destruct (numeric_arg_within t (fst nu) (snd nu) None v _ _ _ _ _ _ _ _ S0 Sn (splits_refl _) Sv Hn Hv) as [S W].
    eexists. split; [exact S|]. split; [exact W|]. unfold arg_valid. cbn [a_ti a_value]. now rewrite K.
  - (* unsigned fixed point *)
    apply pbind_ok_inv in H as (nu & i1 & En & H). apply pbind_ok_inv in H as (fp & i2 & Ef & H).
    apply pbind_ok_inv in H as (v & r & Ev & H).
    injection H as <- <-. apply name_and_unit_bound in En as (kn & Sn & Hn).
    apply dlt_fixed_point_splits in Ef as (kf & Sf). apply dlt_uint_ok in Ev as (kv & Sv & Hv).
    destruct (numeric_arg_within t (fst nu) (snd nu) (Some fp) v _ _ _ _ _ _ _ _ S0 Sn Sf Sv Hn Hv) as [S W].
    eexists. split; [exact S|]. split; [exact W|]. unfold arg_valid. cbn [a_ti a_value]. now rewrite K.
  - (* float *)
    apply pbind_ok_inv in H as (nu & i1 & En & H). apply pbind_ok_inv in H as (v & r & Ev & H).
    injection H as <- <-. apply name_and_unit_bound in En as (kn & Sn & Hn).
    apply dlt_fint_ok in Ev as (kv & Sv & Hv & Hw).
    destruct (numeric_arg_within t (fst nu) (snd nu) None v _ _ _ _ _ _ _ _ S0 Sn (splits_refl _) Sv Hn Hv) as [S W].
    eexists. split; [exact S|]. split; [exact W|]. unfold arg_valid. cbn [a_ti a_value]. rewrite K.
    destruct w; destruct Hw as [b ->]; reflexivity.
  - (* string *)
    apply pbind_ok_inv in H as (size & i2 & Es & H). apply pbind_ok_inv in H as (name & i3 & En & H).
    apply pbind_ok_inv in H as (s & r & Ez & H). injection H as <- <-.
    apply opt_name_bound in En as (k & Sn & Hn).
    exists (4 + (N.of_nat 2 + (k + size))). split; [|split].
    + exact (splits_trans _ _ _ _ _ S0 (splits_trans _ _ _ _ _ (uint_splits _ _ _ _ _ Es)
        (splits_trans _ _ _ _ _ Sn (zstring_splits _ _ _ _ Ez)))).
    + apply zstring_result_clean in Ez as (_ & _ & Lz).
      intros x Hx. unfold arg_texts in Hx. cbn [a_name a_unit a_value opt_texts value_texts app] in Hx.
      apply in_app_or in Hx as [Hx|[<-|[]]]; [specialize (Hn x Hx)|]; lia.
    + unfold arg_valid. cbn [a_ti a_value]. now rewrite K.
  - (* raw *)
    apply pbind_ok_inv in H as (cnt & i2 & Es & H). apply pbind_ok_inv in H as (name & i3 & En & H).
    apply pbind_ok_inv in H as (bs & r & Ez & H). injection H as <- <-.
    apply opt_name_bound in En as (k & Sn & Hn). apply take_ok_inv in Ez as [Sz ->].
    exists (4 + (N.of_nat 2 + (k + cnt))). split; [|split].
    + exact (splits_trans _ _ _ _ _ S0 (splits_trans _ _ _ _ _ (uint_splits _ _ _ _ _ Es)
        (splits_trans _ _ _ _ _ Sn Sz))).
    + intros x Hx. unfold arg_texts in Hx. cbn [a_name a_unit a_value opt_texts value_texts app] in Hx.
      apply in_app_or in Hx as [Hx|[<-|[]]]; [specialize (Hn x Hx); lia|].
      pose proof (len_firstn_le (N.to_nat cnt) i3). lia.
    + unfold arg_valid. cbn [a_ti a_value]. now rewrite K.
Qed.

(* the reusable form: whatever [n] bytes the argument consumed, its texts fit into them *)
Theorem parsed_arg_bounds e i a rest n :
  dlt_argument e i = POk a rest -> splits i rest n ->
  texts_within a n /\ arg_valid a = true.
Proof.
  intros H S. apply parsed_arg_bounds_ex in H as (n' & S' & W & V).
  now rewrite (splits_unique _ _ _ _ S S').
Qed.

(* ---------- a sequence of arguments ---------- *)
Lemma count_args_within e k i args rest :
  count (dlt_argument e) k i = POk args rest ->
  (exists n, splits i rest n) /\
  forall a, In a args -> texts_within a (len i) /\ arg_valid a = true.
Proof.
  revert i args rest. induction k as [|k IH]; intros i args rest H; cbn [count] in H.
  - injection H as <- <-. split; [exists 0; apply splits_refl | intros a []].
  - apply pbind_ok_inv in H as (a & r & Ea & H). apply pbind_ok_inv in H as (l & r' & El & H).
    injection H as <- <-. apply parsed_arg_bounds_ex in Ea as (n & S & W & V).
    apply IH in El as [(n' & S') Hl]. split; [eexists; exact (splits_trans _ _ _ _ _ S S')|].
    destruct (splits_le _ _ _ S) as [Hn Hr].
    intros a' [<-|Hin].
    + split; [eapply texts_within_mono; eassumption | exact V].
    + destruct (Hl a' Hin) as [W' V']. split; [eapply texts_within_mono; eassumption | exact V'].
Qed.

Lemma raw_slices_in args s :
  In s (raw_slices args) -> exists a, In a args /\ In s (arg_texts a).
Proof.
  unfold raw_slices. rewrite in_flat_map. intros (a & Ha & Hs). exists a. split; [exact Ha|].
  unfold arg_texts. apply in_or_app. right. apply in_or_app. right.
  destruct (a_value a); try (now destruct Hs). exact Hs.
Qed.

(* ---------- the payload ---------- *)
Definition payload_args (p : payload) : list argument :=
  match p with PVerbose args => args | _ => [] end.
Definition payload_slices (p : payload) : list (list byte) :=
  match p with PNetworkTrace sl => sl | _ => [] end.

Lemma dlt_payload_nonverbose e i pl noar mt p rest :
  dlt_payload e i false pl noar mt = POk p rest -> payload_args p = [] /\ payload_slices p = [].
Proof.
  unfold dlt_payload. intros H.
  assert (NVb : (if pl <? 4 then PFailure
                 else let* (id, i1) := uint e 4 i in let* (bs, rest) := take (pl - 4) i1 in POk (PNonVerbose id bs) rest)
                = POk p rest -> payload_args p = [] /\ payload_slices p = []).
  { destruct (pl <? 4); [discriminate|]. intros Hq.
    apply pbind_ok_inv in Hq as (id & i1 & E1 & Hq). apply pbind_ok_inv in Hq as (bs & r & E2 & Hq).
    injection Hq as <- _. now split. }
  destruct mt as [[]|]; try exact (NVb H).
  destruct (pl <? 1); [discriminate|].
  apply pbind_ok_inv in H as (id & i1 & E1 & H). apply pbind_ok_inv in H as (bs & r & E2 & H).
  injection H as <- _. now split.
Qed.

Lemma dlt_payload_within e i verbose pl noar mt p rest :
  dlt_payload e i verbose pl noar mt = POk p rest ->
  (forall a, In a (payload_args p) -> texts_within a pl /\ arg_valid a = true) /\
  (forall s, In s (payload_slices p) -> len s + 6 <= pl).
Proof.
  destruct verbose.
  - unfold dlt_payload. intros H. apply pbind_ok_inv in H as (pb & r & E & H). apply take_ok_inv in E as [S ->].
    destruct (count (dlt_argument e) (N.to_nat noar) (firstn (N.to_nat pl) i)) as [args r'| | | |] eqn:C;
      try discriminate.
    apply count_args_within in C as [_ C].
    rewrite len_firstn_N in C by (apply splits_le in S; lia).
    assert (NW : forall sl, In sl (raw_slices args) -> len sl + 6 <= pl).
    { intros sl Hs. apply raw_slices_in in Hs as (a & Ha & Hs). now apply (proj1 (C a Ha)). }
    destruct mt as [[]|]; injection H as <- _; cbn [payload_args payload_slices];
      (split; [first [exact C | intros a []] | first [exact NW | intros s []]]).
  - intros H. apply dlt_payload_nonverbose in H as [Ha Hs]. rewrite Ha, Hs. split; intros ? [].
Qed.

(* ---------- from length bounds to "the serialiser does not overflow" ---------- *)
Lemma len_plus1_ok s : len s < 65535 -> len_plus1_overflows s = false.
Proof.
  intros H. unfold len_plus1_overflows. rewrite N.mod_small by lia.
  destruct (N.eqb_spec (len s) 65535); [lia | reflexivity].
Qed.

Lemma arg_bytes_ok a : (forall s, In s (arg_texts a) -> len s < 65535) -> arg_bytes_overflows a = false.
Proof.
  destruct a as [t name unit fp v]. unfold arg_texts, arg_bytes_overflows, opt_overflows.
  cbn [a_ti a_name a_unit a_fp a_value]. intros H.
  assert (Hn : forall s, name = Some s -> len_plus1_overflows s = false).
  { intros s ->. apply len_plus1_ok, H. now left. }
  assert (Hu : forall s, unit = Some s -> len_plus1_overflows s = false).
  { intros s ->. apply len_plus1_ok, H. apply in_or_app. right. now left. }
  assert (Hv : forall s, v = VString s -> len_plus1_overflows s = false).
  { intros s ->. apply len_plus1_ok, H. apply in_or_app. right. apply in_or_app. right. now left. }
  clear H.
  assert (Bn : match name with Some s => len_plus1_overflows s | None => false end = false)
    by (destruct name as [s|]; [now apply Hn | reflexivity]).
  assert (Bu : match unit with Some s => len_plus1_overflows s | None => false end = false)
    by (destruct unit as [s|]; [now apply Hu | reflexivity]).
  destruct (ti_kind_of t); try (destruct (ti_var_info t); [now rewrite Bn, Bu | reflexivity]).
  - exact Bn.
  - destruct (ti_var_info t), name as [nm|], v; try reflexivity.
    + now rewrite (Hn nm eq_refl), (Hv s eq_refl).
    + now apply Hv.
  - destruct (ti_var_info t), name as [nm|], v; try reflexivity. now apply Hn.
Qed.

(* Argument::len is usize arithmetic; for a parsed argument it is tiny compared with 2^32,
   so it cannot overflow on a 32-bit target either *)
Lemma arg_len_small a L : (forall s, In s (arg_texts a) -> len s <= L) -> arg_len a <= 3 * L + 40.
Proof.
  destruct a as [t name unit fp v]. unfold arg_texts, arg_len, name_space, fixed_point_capacity.
  cbn [a_ti a_name a_unit a_fp a_value]. intros H.
  assert (Hn : forall s, name = Some s -> len s <= L).
  { intros s ->. apply H. now left. }
  assert (Hu : forall s, unit = Some s -> len s <= L).
  { intros s ->. apply H. apply in_or_app. right. now left. }
  assert (Hv : forall s, value_texts v = [s] -> len s <= L).
  { intros s Hs. apply H. apply in_or_app. right. apply in_or_app. right. rewrite Hs. now left. }
  clear H.
  assert (Bn : match name with Some n => 2 + len n + 1 | None => 0 end <= L + 3)
    by (destruct name as [s|]; [specialize (Hn s eq_refl) |]; lia).
  assert (Bu : match unit with Some n => 2 + len n + 1 | None => 0 end <= L + 3)
    by (destruct unit as [s|]; [specialize (Hu s eq_refl) |]; lia).
  assert (Bf : match fp with Some f => 4 + fp_value_width (fp_offset f) | None => 0 end <= 12).
  { destruct fp as [f|]; [|lia]. destruct (fp_offset f); cbn [fp_value_width]; lia. }
  destruct (ti_kind_of t) as [|l|w|l|w|w| |].
  - lia.
  - destruct l; cbn [type_length_bytes]; lia.
  - destruct w; cbn [float_width_bytes]; lia.
  - destruct l; cbn [type_length_bytes]; lia.
  - destruct w; cbn [float_width_bytes]; lia.
  - destruct w; cbn [float_width_bytes]; lia.
  - destruct v; try lia. specialize (Hv s eq_refl). lia.
  - destruct v; try lia. specialize (Hv bs eq_refl). lia.
Qed.

(* ---------- the message ---------- *)
Lemma dlt_message_item_after bs f sh m rest :
  dlt_message bs f sh = POk (Item m) rest ->
  exists shs after, dlt_message_after shs after f = POk (Item m) rest.
Proof.
  unfold dlt_message. intros H. apply pbind_ok_inv in H as (shs & after & _ & H). now exists shs, after.
Qed.

(* arguments and network-trace slices exist only in verbose messages, which have an extended
   header: 4 + 10 header bytes at least, so at most 65521 payload bytes *)
Lemma dlt_message_after_item shs after f m rest :
  dlt_message_after shs after f = POk (Item m) rest ->
  overall_length_overflows (m_header m) = false /\
  h_payload_length (m_header m) <= 65531 /\
  (forall a, In a (args_of m) -> texts_within a 65521 /\ arg_valid a = true) /\
  (forall s, In s (slices_of m) -> len s + 6 <= 65521).
Proof.
  unfold dlt_message_after. intros H.
  apply pbind_ok_inv in H as (h & after_std & Eh & H).
  destruct (dlt_standard_header_ok _ _ _ Eh) as (htyp & mcnt & overall & tail & F).
  destruct (std_facts_overall _ _ _ _ _ _ _ F) as [Ov Hov].
  pose proof (sf_headers_le _ _ _ _ _ _ _ F) as Hle.
  pose proof (sf_overall_lt _ _ _ _ _ _ _ F) as Hlt.
  pose proof (sf_payload _ _ _ _ _ _ _ F) as Hpl.
  pose proof (sf_has_ext _ _ _ _ _ _ _ F) as Hext.
  apply pbind_ok_inv in H as (ext & after_headers & Ee & H).
  unfold validated_payload_length in H. rewrite Ov, (sf_type_byte _ _ _ _ _ _ _ F) in H.
  destruct (N.ltb_spec overall (calculate_all_headers_length htyp)) as [|_]; [lia|].
  destruct (N.ltb_spec (len after) overall) as [|Hfit]; [discriminate|].
  destruct (filtered_out ext f (h_ecu h)).
  - apply pbind_ok_inv in H as (x & am & Et & H). discriminate.
  - apply pbind_ok_inv in H as (p & r & Ep & H). injection H as <- <-.
    unfold args_of, slices_of. cbn [m_header m_payload]. rewrite Hpl.
    fold (payload_args p) (payload_slices p).
    split; [exact Hov|]. split.
    { unfold calculate_all_headers_length, calculate_standard_header_length in *. lia. }
    destruct (h_has_ext h) eqn:X.
    + assert (B : overall - calculate_all_headers_length htyp <= 65521).
      { unfold calculate_all_headers_length, calculate_standard_header_length in *.
        rewrite <- Hext. lia. }
      apply dlt_payload_within in Ep as [Ha Hs]. split.
      * intros a Hin. destruct (Ha a Hin) as [W V]. split; [eapply texts_within_mono; eassumption | exact V].
      * intros s Hin. specialize (Hs s Hin). lia.
    + injection Ee as <- <-. apply dlt_payload_nonverbose in Ep as [-> ->]. split; intros ? [].
Qed.

(* everything the parser guarantees about the sizes inside a returned message *)
Theorem dlt_message_item_bounds bs f sh m rest :
  dlt_message bs f sh = POk (Item m) rest ->
  overall_length_overflows (m_header m) = false /\
  h_payload_length (m_header m) <= 65531 /\
  (forall a, In a (args_of m) ->
     arg_valid a = true /\ (forall s, In s (arg_texts a) -> len s <= 65515) /\ arg_len a < 2 ^ 18) /\
  (forall s, In s (slices_of m) -> len s <= 65515).
Proof.
  intros H. apply dlt_message_item_after in H as (shs & after & H).
  apply dlt_message_after_item in H as (Hov & Hpl & Ha & Hs).
  split; [exact Hov|]. split; [exact Hpl|]. split.
  - intros a Hin. destruct (Ha a Hin) as [W V]. split; [exact V|].
    assert (B : forall s, In s (arg_texts a) -> len s <= 65515) by (intros s Hi; specialize (W s Hi); lia).
    split; [exact B|]. pose proof (arg_len_small a 65515 B) as L. change (2 ^ 18) with 262144. lia.
  - intros s Hi. specialize (Hs s Hi). lia.
Qed.

Theorem parsers_total bs f sh size :
  dlt_message bs f sh <> PPanic /\ dlt_consume_msg bs <> PPanic /\
  skip_storage_header bs <> PPanic /\ zstring size bs <> PPanic.
Proof.
  split; [apply dlt_message_no_panic|]. split; [apply dlt_consume_msg_no_panic|].
  split; [apply skip_storage_header_no_panic | apply zstring_no_panic].
Qed.

Theorem results_usable bs f sh m rest :
  dlt_message bs f sh = POk (Item m) rest ->
  message_bytes_overflows m = false /\
  (forall a, In a (args_of m) -> arg_valid a = true /\ arg_bytes_overflows a = false).
Proof.
  intros H. apply dlt_message_item_bounds in H as (Hov & _ & Ha & _).
  assert (A : forall a, In a (args_of m) -> arg_valid a = true /\ arg_bytes_overflows a = false).
  { intros a Hin. destruct (Ha a Hin) as (V & B & _). split; [exact V|].
    apply arg_bytes_ok. intros s Hs. specialize (B s Hs). lia. }
  split; [|exact A].
  unfold message_bytes_overflows. rewrite Hov. cbn [orb].
  unfold payload_bytes_overflows. unfold args_of in A. destruct (m_payload m) as [args| | |]; try reflexivity.
  destruct (existsb arg_bytes_overflows args) eqn:E; [|reflexivity].
  apply existsb_exists in E as (a & Hin & Hb). destruct (A a Hin) as [_ Hb']. congruence.
Qed.

(* ---------- construct_arguments (non-verbose arguments built from FIBEX type infos) ----------
   The arguments have neither name nor unit; a string/raw value is a slice of [data] whose length
   came from a u16.  They always pass Argument::valid.  Their serialisation cannot overflow when
   [data] has at most 65536 bytes — which holds for the payload of any parsed message — but the
   function itself accepts longer data: see [construct_arguments_long_data_overflows]. *)
Lemma len_slice data a b : len (slice data a b) <= b - a /\ len (slice data a b) <= len data - a.
Proof.
  unfold slice. rewrite len_firstn, len_skipn. lia.
Qed.

Lemma construct_one_ok e t data off v fp off' :
  construct_one e t data off = Some (v, fp, off') ->
  arg_valid (mkArg t None None fp v) = true /\
  forall s, In s (value_texts v) -> len s + 2 <= len data /\ len s <= 65535.
Proof.
  unfold construct_one, arg_valid. cbn [a_ti a_value].
  destruct (ti_kind_of t) as [|l|w|l|w|w| |] eqn:K.
  - destruct (len data <? off + 1); [discriminate|]. intros H. injection H as <- _ _. split; [reflexivity | intros s []].
  - destruct (len data <? _); [discriminate|].
    destruct (dlt_sint e l _) as [v0 r| | | |] eqn:E; try discriminate. cbn [pres_value].
    intros H. injection H as <- _ _. split; [reflexivity|]. apply dlt_sint_ok in E as (_ & _ & ->). intros s [].
  - destruct (len data <? _); [discriminate|].
    destruct (dlt_fixed_point e w _) as [fp0 vo| | | |]; try discriminate.
    destruct (dlt_sint e _ vo) as [v0 r| | | |] eqn:E; try discriminate. cbn [pres_value].
    intros H. injection H as <- _ _. split; [reflexivity|]. apply dlt_sint_ok in E as (_ & _ & ->). intros s [].
  - destruct (len data <? _); [discriminate|].
    destruct (dlt_uint e l _) as [v0 r| | | |] eqn:E; try discriminate. cbn [pres_value].
    intros H. injection H as <- _ _. split; [reflexivity|]. apply dlt_uint_ok in E as (_ & _ & ->). intros s [].
  - destruct (len data <? _); [discriminate|].
    destruct (dlt_fixed_point e w _) as [fp0 vo| | | |]; try discriminate.
    destruct (dlt_uint e _ vo) as [v0 r| | | |] eqn:E; try discriminate. cbn [pres_value].
    intros H. injection H as <- _ _. split; [reflexivity|]. apply dlt_uint_ok in E as (_ & _ & ->). intros s [].
  - destruct (len data <? _); [discriminate|].
    destruct (dlt_fint e w _) as [v0 r| | | |] eqn:E; try discriminate. cbn [pres_value].
    intros H. injection H as <- _ _. apply dlt_fint_ok in E as (_ & _ & Hv & Hw). rewrite Hv.
    split; [|intros s []]. destruct w; destruct Hw as [b ->]; reflexivity.
  - destruct (N.ltb_spec (len data) (off + 2)) as [|H2]; [discriminate|].
    set (L := get_uint e (slice data off (off + 2))).
    assert (HL : L < 65536).
    { pose proof (get_uint_bound e (slice data off (off + 2))) as B. fold L in B.
      destruct (len_slice data off (off + 2)) as [B2 _].
      assert (P : 256 ^ len (slice data off (off + 2)) <= 256 ^ 2) by (apply N.pow_le_mono_r; lia).
      change (256 ^ 2) with 65536 in P. lia. }
    destruct (N.ltb_spec (len data) (off + 2 + L)) as [|H3]; [discriminate|].
    destruct (valid_utf8 _); [|discriminate]. intros H. injection H as <- _ _.
    split; [reflexivity|]. intros s [<-|[]].
    destruct (len_slice data (off + 2) (off + 2 + L)) as [B1 B2]. lia.
  - destruct (N.ltb_spec (len data) (off + 2)) as [|H2]; [discriminate|].
    set (L := get_uint e (slice data off (off + 2))).
    assert (HL : L < 65536).
    { pose proof (get_uint_bound e (slice data off (off + 2))) as B. fold L in B.
      destruct (len_slice data off (off + 2)) as [B2 _].
      assert (P : 256 ^ len (slice data off (off + 2)) <= 256 ^ 2) by (apply N.pow_le_mono_r; lia).
      change (256 ^ 2) with 65536 in P. lia. }
    destruct (N.ltb_spec (len data) (off + 2 + L)) as [|H3]; [discriminate|].
    intros H. injection H as <- _ _.
    split; [reflexivity|]. intros s [<-|[]].
    destruct (len_slice data (off + 2) (off + 2 + L)) as [B1 B2]. lia.
Qed.

Lemma construct_from_ok e tys data off args :
  construct_from e tys data off = Some args ->
  forall a, In a args ->
    arg_valid a = true /\ forall s, In s (arg_texts a) -> len s + 2 <= len data /\ len s <= 65535.
Proof.
  revert off args. induction tys as [|t tys IH]; intros off args H; cbn [construct_from] in H.
  - injection H as <-. intros a [].
  - destruct (construct_one e t data off) as [[[v fp] off']|] eqn:E1; [|discriminate].
    destruct (construct_from e tys data off') as [l|] eqn:E2; [|discriminate].
    injection H as <-. intros a [<-|Hin]; [|exact (IH _ _ E2 a Hin)].
    apply construct_one_ok in E1 as [V B]. split; [exact V|].
    unfold arg_texts. cbn [a_name a_unit a_value opt_texts app]. exact B.
Qed.

Theorem construct_arguments_usable e tys data args :
  construct_arguments e tys data = Some args ->
  forall a, In a args ->
    arg_valid a = true /\
    (forall s, In s (arg_texts a) -> len s + 2 <= len data /\ len s <= 65535) /\
    (len data <= 65536 -> arg_bytes_overflows a = false).
Proof.
  unfold construct_arguments. intros H a Hin.
  destruct (construct_from_ok _ _ _ _ _ H a Hin) as [V B]. split; [exact V|]. split; [exact B|].
  intros Hd. apply arg_bytes_ok. intros s Hs. destruct (B s Hs). lia.
Qed.
