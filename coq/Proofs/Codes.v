(* Proofs/Codes.v — C14: header-type byte, message-info byte, type-info word.
   The 8-bit domains are decided by kernel-evaluated sweeps lifted with forallb_forall;
   the 32-bit type-info domain by a bit-level reduction to the low 18 bits
   (ti_decode_low) plus a sweep over the 2^18 low words. *)
From Coq Require Import Lia ZifyBool ZifyN ZifyNat.
From DltV.Model Require Import Bytes Dlt.
From DltV.Proofs Require Import BytesBasics.
Open Scope N_scope.
Ltac Zify.zify_post_hook ::= Z.div_mod_to_equations.

Definition range (k : nat) : list N := map N.of_nat (seq 0 k).
Lemma in_range_N k n : n < N.of_nat k -> In n (range k).
Proof.
  intros H. unfold range. apply in_map_iff. exists (N.to_nat n). split; [lia|].
  apply in_seq. lia.
Qed.

(* ---------- HTYP ---------- *)
Definition htyp_roundtrip (b : N) : bool :=
  htyp_encode (flag b 1) (if flag b 2 then BE else LE) (flag b 4) (flag b 8) (flag b 16)
    (N.land (N.shiftr b 5) 7) =? b.
Definition htyp_layout (b : N) : bool :=
  Bool.eqb (flag b 1) (N.testbit b 0) && Bool.eqb (flag b 2) (N.testbit b 1)
  && Bool.eqb (flag b 4) (N.testbit b 2) && Bool.eqb (flag b 8) (N.testbit b 3)
  && Bool.eqb (flag b 16) (N.testbit b 4) && (N.land (N.shiftr b 5) 7 =? b / 32)
  && (calculate_standard_header_length b =?
      4 + (if N.testbit b 2 then 4 else 0) + (if N.testbit b 3 then 4 else 0) + (if N.testbit b 4 then 4 else 0))
  && (calculate_all_headers_length b =? calculate_standard_header_length b + (if N.testbit b 0 then 10 else 0)).

Lemma htyp_sweep : forallb (fun b => htyp_roundtrip b && htyp_layout b) (range 256) = true.
Proof. vm_compute. reflexivity. Qed.

Lemma htyp_all b : b < 256 -> htyp_roundtrip b = true /\ htyp_layout b = true.
Proof.
  intros H. pose proof htyp_sweep as S. rewrite forallb_forall in S.
  specialize (S b (in_range_N 256 b H)). now apply andb_true_iff in S.
Qed.

(* ---------- MSIN ---------- *)
(* the message type the DLT layout prescribes for MSTP (bits 1-3) and MTIN (bits 4-7) *)
Definition spec_mtype (mstp mtin : N) : message_type :=
  match mstp with
  | 0 => MLog (match mtin with 1 => Fatal | 2 => LError | 3 => Warn | 4 => Info | 5 => Debug | 6 => Verbose | v => LInvalid v end)
  | 1 => MAppTrace (match mtin with 1 => AVariable | 2 => AFunctionIn | 3 => AFunctionOut | 4 => AState | 5 => AVfb | v => AInvalid v end)
  | 2 => MNwTrace (match mtin with 0 => NInvalid | 1 => NIpc | 2 => NCan | 3 => NFlexray | 4 => NMost | 5 => NEthernet | 6 => NSomeip | v => NUserDefined v end)
  | 3 => MControl (match mtin with 1 => CRequest | 2 => CResponse | v => CUnknown v end)
  | v => MUnknown v mtin
  end.

Definition log_level_eqb (a b : log_level) : bool :=
  match a, b with
  | Fatal, Fatal | LError, LError | Warn, Warn | Info, Info | Debug, Debug | Verbose, Verbose => true
  | LInvalid x, LInvalid y => x =? y
  | _, _ => false
  end.
Definition mtype_eqb (a b : message_type) : bool :=
  match a, b with
  | MLog x, MLog y => log_level_eqb x y
  | MAppTrace x, MAppTrace y =>
    match x, y with
    | AVariable, AVariable | AFunctionIn, AFunctionIn | AFunctionOut, AFunctionOut
    | AState, AState | AVfb, AVfb => true
    | AInvalid p, AInvalid q => p =? q
    | _, _ => false
    end
  | MNwTrace x, MNwTrace y =>
    match x, y with
    | NIpc, NIpc | NCan, NCan | NFlexray, NFlexray | NMost, NMost | NEthernet, NEthernet
    | NSomeip, NSomeip | NInvalid, NInvalid => true
    | NUserDefined p, NUserDefined q => p =? q
    | _, _ => false
    end
  | MControl x, MControl y =>
    match x, y with
    | CRequest, CRequest | CResponse, CResponse => true
    | CUnknown p, CUnknown q => p =? q
    | _, _ => false
    end
  | MUnknown a1 b1, MUnknown a2 b2 => (a1 =? a2) && (b1 =? b2)
  | _, _ => false
  end.
Lemma mtype_eqb_eq a b : mtype_eqb a b = true -> a = b.
Proof.
  destruct a as [[]|[]|[]|[]|], b as [[]|[]|[]|[]|]; cbn; intros H; try discriminate; try reflexivity;
    try (apply N.eqb_eq in H; now subst).
  apply andb_true_iff in H as [H1 H2]. apply N.eqb_eq in H1, H2. now subst.
Qed.

Definition msin_check (b : N) : bool :=
  (msin_encode (message_type_decode b) (msin_verbose b) =? b)
  && Bool.eqb (msin_verbose b) (N.testbit b 0)
  && mtype_eqb (message_type_decode b) (spec_mtype ((b / 2) mod 8) (b / 16)).
Lemma msin_sweep : forallb msin_check (range 256) = true.
Proof. vm_compute. reflexivity. Qed.
Lemma msin_all b : b < 256 ->
  msin_encode (message_type_decode b) (msin_verbose b) = b /\
  msin_verbose b = N.testbit b 0 /\
  message_type_decode b = spec_mtype ((b / 2) mod 8) (b / 16).
Proof.
  intros H. pose proof msin_sweep as S. rewrite forallb_forall in S.
  specialize (S b (in_range_N 256 b H)). unfold msin_check in S.
  apply andb_true_iff in S as [S S3]. apply andb_true_iff in S as [S1 S2].
  repeat split; [now apply N.eqb_eq | now apply Bool.eqb_prop | now apply mtype_eqb_eq].
Qed.

(* ---------- type info: reduction to the low 18 bits ---------- *)
Lemma land_ones_mod a n : N.land a (N.ones n) = a mod 2 ^ n.
Proof. apply N.land_ones. Qed.
Lemma land15 a : N.land a 15 = a mod 16. Proof. apply (land_ones_mod a 4). Qed.
Lemma land7 a : N.land a 7 = a mod 8. Proof. apply (land_ones_mod a 3). Qed.
Lemma land127 a : N.land a 127 = a mod 128. Proof. apply (land_ones_mod a 7). Qed.

Lemma land_pow2_eqb w k : (N.land w (2 ^ k) =? 0) = negb (N.testbit w k).
Proof.
  destruct (N.testbit w k) eqn:E; cbn [negb].
  - apply N.eqb_neq. intros H.
    assert (B : N.testbit (N.land w (2 ^ k)) k = true)
      by (rewrite N.land_spec, E, N.pow2_bits_true; reflexivity).
    rewrite H in B. now rewrite N.bits_0 in B.
  - apply N.eqb_eq. apply N.bits_inj. intros i. rewrite N.land_spec, N.bits_0.
    destruct (N.eq_dec i k) as [->|Hne]; [now rewrite E|].
    rewrite N.pow2_bits_false by congruence. apply andb_false_r.
Qed.

Lemma testbit_low w k : k < 18 -> N.testbit (w mod 2 ^ 18) k = N.testbit w k.
Proof. intros H. now apply N.mod_pow2_bits_low. Qed.

Lemma ti_decode_low w : ti_decode w = ti_decode (w mod 2 ^ 18).
Proof.
  unfold ti_decode, type_len_decode, type_len_float_decode.
  change 4096 with (2 ^ 12). change 2048 with (2 ^ 11). change 8192 with (2 ^ 13).
  rewrite !land_pow2_eqb, !land15, !land7, !land127, !N.shiftr_div_pow2.
  rewrite !testbit_low by lia.
  assert (E1 : (w mod 2 ^ 18) mod 16 = w mod 16) by (change (2 ^ 18) with 262144; lia).
  assert (E2 : (w mod 2 ^ 18 / 2 ^ 4) mod 128 = (w / 2 ^ 4) mod 128)
    by (change (2 ^ 18) with 262144; change (2 ^ 4) with 16; lia).
  assert (E3 : (w mod 2 ^ 18 / 2 ^ 15) mod 8 = (w / 2 ^ 15) mod 8)
    by (change (2 ^ 18) with 262144; change (2 ^ 15) with 32768; lia).
  now rewrite E1, E2, E3.
Qed.

(* ---------- type info: what the format prescribes ---------- *)
(* a word names one supported kind with a supported width *)
Definition names_supported (w : N) : bool :=
  let tyle := w mod 16 in
  let fixp := N.testbit w 12 in
  match (w / 16) mod 128 with
  | 1 | 32 | 64 => true                                        (* BOOL, STRG, RAWD: any TYLE *)
  | 2 | 4 => if fixp then (3 <=? tyle) && (tyle <=? 4)          (* SINT, UINT *)
             else (1 <=? tyle) && (tyle <=? 5)
  | 8 => (3 <=? tyle) && (tyle <=? 4)                           (* FLOA *)
  | _ => false
  end.
Lemma names_supported_low w : names_supported w = names_supported (w mod 2 ^ 18).
Proof.
  unfold names_supported. rewrite testbit_low by lia.
  assert (E1 : (w mod 2 ^ 18) mod 16 = w mod 16) by (change (2 ^ 18) with 262144; lia).
  assert (E2 : (w mod 2 ^ 18 / 16) mod 128 = (w / 16) mod 128) by (change (2 ^ 18) with 262144; lia).
  now rewrite E1, E2.
Qed.

(* bits below 18 that the format leaves unused for a kind: STRU (14) always; TYLE (0-3) and
   FIXP (12) for bool/string/raw; FIXP for float *)
Definition unused_low (k : ti_kind) : N :=
  match k with
  | KBool | KString | KRaw => 16384 + 4096 + 15
  | KFloat _ => 16384 + 4096
  | _ => 16384
  end.
Definition unused_bit (k : ti_kind) (i : N) : bool := (18 <=? i) || N.testbit (unused_low k) i.

Definition tl_eqb (a b : type_length) : bool :=
  match a, b with BL8, BL8 | BL16, BL16 | BL32, BL32 | BL64, BL64 | BL128, BL128 => true | _, _ => false end.
Definition fw_eqb (a b : float_width) : bool :=
  match a, b with W32, W32 | W64, W64 => true | _, _ => false end.
Definition kind_eqb (a b : ti_kind) : bool :=
  match a, b with
  | KBool, KBool | KString, KString | KRaw, KRaw => true
  | KSigned x, KSigned y | KUnsigned x, KUnsigned y => tl_eqb x y
  | KSignedFixed x, KSignedFixed y | KUnsignedFixed x, KUnsignedFixed y | KFloat x, KFloat y => fw_eqb x y
  | _, _ => false
  end.
Definition coding_eqb (a b : string_coding) : bool :=
  match a, b with
  | SAscii, SAscii | SUtf8, SUtf8 => true
  | SReserved x, SReserved y => x =? y
  | _, _ => false
  end.
Definition ti_eqb (a b : type_info) : bool :=
  kind_eqb (ti_kind_of a) (ti_kind_of b) && coding_eqb (ti_coding a) (ti_coding b)
  && Bool.eqb (ti_var_info a) (ti_var_info b) && Bool.eqb (ti_trace_info a) (ti_trace_info b).
Lemma ti_eqb_eq a b : ti_eqb a b = true -> a = b.
Proof.
  destruct a as [ka ca va ta], b as [kb cb vb tb]. unfold ti_eqb. cbn [ti_kind_of ti_coding ti_var_info ti_trace_info].
  intros H. apply andb_true_iff in H as [H H4]. apply andb_true_iff in H as [H H3].
  apply andb_true_iff in H as [H1 H2].
  apply Bool.eqb_prop in H3, H4. subst.
  assert (ka = kb).
  { destruct ka as [|[]|[]|[]|[]|[]| |], kb as [|[]|[]|[]|[]|[]| |]; cbn in H1; congruence. }
  assert (ca = cb).
  { destruct ca, cb; cbn in H2; try congruence. apply N.eqb_eq in H2. now subst. }
  now subst.
Qed.

Definition ti_check (w : N) : bool :=
  match ti_decode w with
  | None => negb (names_supported w)
  | Some t =>
    names_supported w
    && (match ti_decode (ti_encode t) with Some t' => ti_eqb t' t | None => false end)
    && (N.ldiff (N.lxor (ti_encode t) w) (unused_low (ti_kind_of t)) =? 0)
    && (ti_encode t <? 2 ^ 18)
  end.

Definition low_words : list N :=
  flat_map (fun hi => map (fun lo => hi * 512 + lo) (range 512)) (range 512).
Lemma in_low_words w : w < 2 ^ 18 -> In w low_words.
Proof.
  intros H. change (2 ^ 18) with 262144 in H. unfold low_words. apply in_flat_map.
  exists (w / 512). split; [apply in_range_N; lia|].
  apply in_map_iff. exists (w mod 512). split; [lia | apply in_range_N; lia].
Qed.

Lemma ti_sweep : forallb ti_check low_words = true.
Proof. vm_compute. reflexivity. Qed.

Lemma ti_check_low w : w < 2 ^ 18 -> ti_check w = true.
Proof. intros H. pose proof ti_sweep as S. rewrite forallb_forall in S. apply S, in_low_words, H. Qed.

(* the statement for every word, of any size *)
Definition ti_ok (w : N) : Prop :=
  match ti_decode w with
  | None => names_supported w = false
  | Some t =>
    names_supported w = true
    /\ ti_decode (ti_encode t) = Some t
    /\ (forall i, N.testbit (N.lxor (ti_encode t) w) i = true -> unused_bit (ti_kind_of t) i = true)
  end.

Lemma ti_all w : ti_ok w.
Proof.
  unfold ti_ok. rewrite (ti_decode_low w), (names_supported_low w).
  assert (Hlo : w mod 2 ^ 18 < 2 ^ 18) by (apply N.mod_lt; discriminate).
  pose proof (ti_check_low _ Hlo) as C. unfold ti_check in C.
  destruct (ti_decode (w mod 2 ^ 18)) as [t|] eqn:D.
  - apply andb_true_iff in C as [C C4]. apply andb_true_iff in C as [C C3].
    apply andb_true_iff in C as [C1 C2].
    split; [exact C1|]. split.
    + destruct (ti_decode (ti_encode t)) as [t'|]; [|discriminate].
      apply ti_eqb_eq in C2. now subst.
    + intros i Hi. unfold unused_bit.
      destruct (N.leb_spec 18 i) as [|Hlt]; [reflexivity|]. cbn [orb].
      apply N.eqb_eq in C3. apply N.ltb_lt in C4.
      assert (B : N.testbit (N.ldiff (N.lxor (ti_encode t) (w mod 2 ^ 18)) (unused_low (ti_kind_of t))) i = false)
        by (rewrite C3; apply N.bits_0).
      rewrite N.ldiff_spec, N.lxor_spec, testbit_low in B by exact Hlt.
      rewrite N.lxor_spec in Hi. rewrite Hi in B. cbn [andb] in B.
      now destruct (N.testbit (unused_low (ti_kind_of t)) i).
  - now apply negb_true_iff in C.
Qed.

(* both byte orders: the big-endian bytes are the reversed little-endian bytes *)
Lemma ti_bytes_rev t : ti_bytes BE t = rev (ti_bytes LE t).
Proof. reflexivity. Qed.
Lemma ti_word_rev bs : get_uint BE (rev bs) = get_uint LE bs.
Proof. cbn [get_uint]. now rewrite rev_involutive. Qed.
