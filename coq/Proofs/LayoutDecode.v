(* Proofs/LayoutDecode.v — C02 (decoding): for every byte string and both storage modes the verdict
   of the streaming parser [dlt_message] is the verdict of the reference decoder [spec_decode]
   ("locate, cut exactly LEN bytes, decode the slice"). *)
From Coq Require Import Lia ZifyBool ZifyN ZifyNat.
From DltV.Model Require Import Bytes RustInt Utf8 Nom Dlt Parse.
From DltV.Spec Require Import Layout.
From DltV.Proofs Require Import BytesBasics Fields Utf8Lemmas ZString Codes ParseLemmas Search
  Consumption LayoutVerdict LayoutBits LayoutArgs.
Open Scope N_scope.

(* ---------- lists ---------- *)
Lemma firstn_firstn_le {A} (i j : nat) (l : list A) : (i <= j)%nat -> firstn i (firstn j l) = firstn i l.
Proof. intros H. rewrite firstn_firstn. f_equal. lia. Qed.
Lemma skipn_skipn_N {A} (a b : N) (l : list A) :
  skipn (N.to_nat a) (skipn (N.to_nat b) l) = skipn (N.to_nat (b + a)) l.
Proof. rewrite skipn_skipn_add. f_equal. lia. Qed.

(* reading [k] bytes off a slice that was cut to [m] bytes *)
Lemma rd_cut {A} k (f : list byte -> A) m r : k <= m -> m <= len r ->
  rd k f (firstn (N.to_nat m) r)
  = Some (f (firstn (N.to_nat k) r), firstn (N.to_nat (m - k)) (skipn (N.to_nat k) r)).
Proof.
  intros Hk Hm. unfold rd. rewrite len_firstn_N by exact Hm.
  destruct (N.ltb_spec m k); [lia|].
  rewrite firstn_firstn_le by lia. rewrite skipn_firstn_comm. do 3 f_equal. lia.
Qed.
Lemma rd_opt_cut {A} (c : bool) k (f : list byte -> A) kk m r :
  kk = (if c then k else 0) -> kk <= m -> m <= len r ->
  rd_opt c (rd k f) (firstn (N.to_nat m) r)
  = Some ((if c then Some (f (firstn (N.to_nat kk) r)) else None),
          firstn (N.to_nat (m - kk)) (skipn (N.to_nat kk) r)).
Proof.
  intros -> Hk Hm. unfold rd_opt. destruct c.
  - rewrite rd_cut by assumption. reflexivity.
  - rewrite N.sub_0_r. reflexivity.
Qed.

(* ---------- fields: optional, sequences ---------- *)
Lemma field_opt {A} (c : bool) (p : list byte -> pres A) k f : field p k f ->
  field (fun i => if c then pmap Some (p i) else POk None i) (if c then k else 0)
        (fun ch => if c then Some (f ch) else None).
Proof.
  intros F. destruct c.
  - apply (field_pmap Some), F.
  - intros i. split; intros H; [reflexivity | lia].
Qed.

Lemma bind_field_long {A B} (p : list byte -> pres A) k f (K : A -> list byte -> pres B) i :
  field p k f -> k <= len i -> pbind (p i) K = K (f (firstn (N.to_nat k) i)) (skipn (N.to_nat k) i).
Proof. intros F H. now rewrite (field_long _ _ _ _ F H). Qed.
Lemma bind_field_short {A B} (p : list byte -> pres A) k f (K : A -> list byte -> pres B) i :
  field p k f -> len i < k -> exists n, pbind (p i) K = PIncomplete n.
Proof. intros F H. destruct (field_short _ _ _ _ F H) as (n & ->). now exists n. Qed.

(* three fixed-size fields one after the other, then a continuation *)
Lemma three_fields {A1 A2 A3 B} (p1 : list byte -> pres A1) k1 f1 (p2 : list byte -> pres A2) k2 f2
    (p3 : list byte -> pres A3) k3 f3 (K : A1 -> A2 -> A3 -> list byte -> pres B) t :
  field p1 k1 f1 -> field p2 k2 f2 -> field p3 k3 f3 ->
  let x := pbind (p1 t) (fun a r1 => pbind (p2 r1) (fun b r2 => pbind (p3 r2) (fun c r3 => K a b c r3))) in
  (len t < k1 + k2 + k3 -> exists n, x = PIncomplete n) /\
  (k1 + k2 + k3 <= len t ->
   x = K (f1 (firstn (N.to_nat k1) t))
         (f2 (firstn (N.to_nat k2) (skipn (N.to_nat k1) t)))
         (f3 (firstn (N.to_nat k3) (skipn (N.to_nat k2) (skipn (N.to_nat k1) t))))
         (skipn (N.to_nat k3) (skipn (N.to_nat k2) (skipn (N.to_nat k1) t)))).
Proof.
  intros F1 F2 F3 x. subst x. split; intros H.
  - destruct (N.ltb_spec (len t) k1) as [H1|H1]; [now apply (bind_field_short _ _ _ _ _ F1)|].
    rewrite (bind_field_long _ _ _ _ _ F1 H1).
    pose proof (len_skipn_N k1 t) as L1.
    destruct (N.ltb_spec (len (skipn (N.to_nat k1) t)) k2) as [H2|H2];
      [now apply (bind_field_short _ _ _ _ _ F2)|].
    rewrite (bind_field_long _ _ _ _ _ F2 H2).
    pose proof (len_skipn_N k2 (skipn (N.to_nat k1) t)) as L2.
    apply (bind_field_short _ _ _ _ _ F3). lia.
  - pose proof (len_skipn_N k1 t) as L1.
    pose proof (len_skipn_N k2 (skipn (N.to_nat k1) t)) as L2.
    rewrite (bind_field_long _ _ _ _ _ F1) by lia.
    rewrite (bind_field_long _ _ _ _ _ F2) by lia.
    rewrite (bind_field_long _ _ _ _ _ F3) by lia.
    reflexivity.
Qed.

Lemma field_bind {A B} (p : list byte -> pres A) k1 f (q : A -> list byte -> pres B) k2 g :
  field p k1 f -> (forall v, field (q v) k2 (g v)) ->
  field (fun i => pbind (p i) q) (k1 + k2)
        (fun c => g (f (firstn (N.to_nat k1) c)) (firstn (N.to_nat k2) (skipn (N.to_nat k1) c))).
Proof.
  intros F G i. split; intros H.
  - pose proof (len_skipn_N k1 i) as L1.
    rewrite (bind_field_long _ _ _ _ _ F) by lia.
    rewrite (field_long _ _ _ _ (G _)) by lia.
    rewrite firstn_firstn_le by lia.
    rewrite skipn_firstn_comm, firstn_firstn_le by lia.
    rewrite skipn_skipn_N. reflexivity.
  - destruct (N.ltb_spec (len i) k1) as [H1|H1]; [now apply (bind_field_short _ _ _ _ _ F)|].
    rewrite (bind_field_long _ _ _ _ _ F H1).
    pose proof (len_skipn_N k1 i) as L1. apply (field_short _ _ _ _ (G _)). lia.
Qed.
Lemma field_ret {A} (v : A) : field (fun i => POk v i) 0 (fun _ => v).
Proof. intros i. split; intros H; [reflexivity | lia]. Qed.

(* ---------- readers on explicit bytes ---------- *)
Lemma uint_cons1 e b r : uint e 1 (b :: r) = POk (b2n b) r.
Proof.
  rewrite (field_long _ _ _ _ (field_uint e 1)) by (rewrite len_cons; lia).
  change (N.to_nat (N.of_nat 1)) with 1%nat. cbn [firstn skipn]. now rewrite get_uint_single.
Qed.
Lemma uint_cons2 e b c r : uint e 2 (b :: c :: r) = POk (get_uint e [b; c]) r.
Proof.
  now rewrite (field_long _ _ _ _ (field_uint e 2)) by (rewrite !len_cons; lia).
Qed.
Lemma rd_cons1 e b r : rd_uint e 1 (b :: r) = Some (b2n b, r).
Proof.
  unfold rd_uint, rd. rewrite len_cons. destruct (N.ltb_spec (1 + len r) 1); [lia|].
  change (N.to_nat 1) with 1%nat. cbn [firstn skipn]. now rewrite get_uint_single.
Qed.
Lemma rd_cons2 e b c r : rd_uint e 2 (b :: c :: r) = Some (get_uint e [b; c], r).
Proof.
  unfold rd_uint, rd. rewrite !len_cons. destruct (N.ltb_spec (1 + (1 + len r)) 2); [lia|]. reflexivity.
Qed.

(* ---------- the payload ---------- *)
Lemma payload_verdict e r PL (ext : option ext_header) :
  PL <= len r ->
  match dlt_payload e r (match ext with Some x => e_verbose x | None => false end) PL
          (match ext with Some x => e_noar x | None => 0 end) (option_map e_mtype ext) with
  | POk p rest =>
    rest = skipn (N.to_nat PL) r /\ decode_payload e ext (firstn (N.to_nat PL) r) = Some p
  | PError => decode_payload e ext (firstn (N.to_nat PL) r) = None
  | PFailure => decode_payload e ext (firstn (N.to_nat PL) r) = None
  | PIncomplete _ => False
  | PPanic => False
  end.
Proof.
  intros Hfit.
  assert (Lcut : len (firstn (N.to_nat PL) r) = PL) by now apply len_firstn_N.
  (* the non-verbose shape, shared by "no extended header" and "extended header, not control" *)
  assert (NV :
    match (if PL <? 4 then PFailure
           else let* (id, i1) := uint e 4 r in let* (bs, rest) := take (PL - 4) i1 in POk (PNonVerbose id bs) rest) with
    | POk p rest =>
      rest = skipn (N.to_nat PL) r /\
      (let? (id, r0) := rd_uint e 4 (firstn (N.to_nat PL) r) in Some (PNonVerbose id r0)) = Some p
    | PError | PFailure =>
      (let? (id, r0) := rd_uint e 4 (firstn (N.to_nat PL) r) in Some (PNonVerbose id r0)) = None
    | _ => False
    end).
  { unfold rd_uint, rd. rewrite Lcut. destruct (N.ltb_spec PL 4) as [H4|H4]; [reflexivity|].
    rewrite (bind_field_long _ _ _ _ _ (field_uint e 4)) by (change (N.of_nat 4) with 4; lia).
    pose proof (len_skipn_N (N.of_nat 4) r) as L4. change (N.of_nat 4) with 4 in *.
    rewrite (bind_field_long _ _ _ _ _ (field_take (PL - 4))) by lia.
    cbn [obind]. rewrite skipn_skipn_N. split; [f_equal; lia|].
    rewrite firstn_firstn_le by lia. rewrite skipn_firstn_comm.
    do 3 f_equal. lia. }
  unfold dlt_payload, decode_payload.
  destruct ext as [x|]; cbn [option_map]; [|exact NV].
  destruct (e_verbose x).
  - (* verbose *)
    rewrite (bind_field_long _ _ _ _ _ (field_take PL)) by exact Hfit.
    pose proof (agree_args e (N.to_nat (e_noar x)) (firstn (N.to_nat PL) r)) as AG.
    destruct (count (dlt_argument e) (N.to_nat (e_noar x)) (firstn (N.to_nat PL) r)) as [args rr| | | |];
      cbn [agree] in AG; try contradiction; rewrite AG; cbn [obind]; try reflexivity.
    destruct (e_mtype x); split; reflexivity.
  - (* non-verbose *)
    destruct (e_mtype x) as [l|a|n|c|m1 m2]; try exact NV.
    (* control *)
    unfold rd_uint, rd. rewrite Lcut. destruct (N.ltb_spec PL 1) as [H1|H1]; [reflexivity|].
    destruct r as [|b r']; [rewrite len_nil in Hfit; lia|].
    cbn [u8_complete pbind]. rewrite len_cons in Hfit.
    rewrite (bind_field_long _ _ _ _ _ (field_take (PL - 1))) by lia.
    cbn [obind].
    replace (N.to_nat PL) with (S (N.to_nat (PL - 1))) by lia.
    change (N.to_nat 1) with 1%nat. cbn [firstn skipn]. rewrite get_uint_single. split; reflexivity.
Qed.

(* ---------- fixed-layout headers ---------- *)
Lemma len_cons_inv {A} (c : list A) n : len c = N.succ n -> exists b c', c = b :: c' /\ len c' = n.
Proof.
  destruct c as [|b c']; [rewrite len_nil; lia|]. rewrite len_cons. intros H. exists b, c'. split; [reflexivity | lia].
Qed.
Ltac peel c H b :=
  let c' := fresh "c" in let H' := fresh "H" in
  apply len_cons_inv in H as (b & c' & -> & H'); cbn [N.pred] in H'.

Lemma len4_inv (c : list byte) : len c = 4 -> exists b0 b1 b2 b3, c = [b0; b1; b2; b3].
Proof.
  intros H. change 4 with (N.succ (N.succ (N.succ (N.succ 0)))) in H.
  apply len_cons_inv in H as (b0 & c0 & -> & H). apply len_cons_inv in H as (b1 & c1 & -> & H).
  apply len_cons_inv in H as (b2 & c2 & -> & H). apply len_cons_inv in H as (b3 & c3 & -> & H).
  apply len_0_iff in H. subst. now exists b0, b1, b2, b3.
Qed.

Lemma len10_inv (c : list byte) : len c = 10 ->
  exists b0 b1 b2 b3 b4 b5 b6 b7 b8 b9, c = [b0; b1; b2; b3; b4; b5; b6; b7; b8; b9].
Proof.
  intros H. change 10 with (N.succ (N.succ (N.succ (N.succ (N.succ (N.succ (N.succ (N.succ (N.succ (N.succ 0)))))))))) in H.
  apply len_cons_inv in H as (b0 & c0 & -> & H). apply len_cons_inv in H as (b1 & c1 & -> & H).
  apply len_cons_inv in H as (b2 & c2 & -> & H). apply len_cons_inv in H as (b3 & c3 & -> & H).
  apply len_cons_inv in H as (b4 & c4 & -> & H). apply len_cons_inv in H as (b5 & c5 & -> & H).
  apply len_cons_inv in H as (b6 & c6 & -> & H). apply len_cons_inv in H as (b7 & c7 & -> & H).
  apply len_cons_inv in H as (b8 & c8 & -> & H). apply len_cons_inv in H as (b9 & c9 & -> & H).
  apply len_0_iff in H. subst. now exists b0, b1, b2, b3, b4, b5, b6, b7, b8, b9.
Qed.

Ltac norm_to_nat :=
  repeat match goal with
         | |- context [N.to_nat ?x] =>
           let y := eval vm_compute in (N.to_nat x) in
           lazymatch y with
           | context [N.to_nat] => fail
           | _ => change (N.to_nat x) with y
           end
         end.

(* the extended header is a 10-byte field with the layout MSIN NOAR APID(4) CTID(4) *)
Lemma field_ext_header : field dlt_extended_header 10 ext_of.
Proof.
  eapply field_ext; cycle 1.
  - unfold dlt_extended_header. change 10 with (1 + (1 + (4 + (4 + 0)))).
    refine (field_bind _ _ _ _ _ _ (field_u8 BE) _). intros msin.
    refine (field_bind _ _ _ _ _ _ (field_u8 BE) _). intros noar.
    refine (field_bind _ _ _ _ _ _ (field_zstring 4) _). intros apid.
    refine (field_bind _ _ _ _ _ _ (field_zstring 4) _). intros ctid.
    refine (field_ret _).
  - intros c Hc. change (1 + (1 + (4 + (4 + 0)))) with 10 in Hc.
    destruct (len10_inv c Hc) as (b0 & b1 & b2 & b3 & b4 & b5 & b6 & b7 & b8 & b9 & ->).
    norm_to_nat. unfold ext_of, byte_at, sub. cbn [firstn skipn nth]. rewrite !get_uint_single.
    destruct (msin_dec (b2n b0) (b2n_lt b0)) as [-> ->]. reflexivity.
Qed.

(* ---------- the standard header ---------- *)
Lemma std_header_char b0 b1 b2 b3 t :
  let htyp := b2n b0 in
  let LEN := get_uint BE [b2; b3] in
  let k1 := opt4 (htyp_weid htyp) in
  let k2 := opt4 (htyp_wsid htyp) in
  let k3 := opt4 (htyp_wtms htyp) in
  let a := b0 :: b1 :: b2 :: b3 :: t in
  (len t < k1 + k2 + k3 -> exists n, dlt_standard_header a = PIncomplete n) /\
  (k1 + k2 + k3 <= len t ->
   dlt_standard_header a =
   if LEN <? hdr_len htyp then PError
   else POk (mkStd (htyp_vers htyp) (if htyp_msbf htyp then BE else LE) (htyp_ueh htyp) (b2n b1)
               (if htyp_weid htyp then Some (text_of (firstn (N.to_nat k1) t)) else None)
               (if htyp_wsid htyp then Some (get_uint BE (firstn (N.to_nat k2) (skipn (N.to_nat k1) t))) else None)
               (if htyp_wtms htyp
                then Some (get_uint BE (firstn (N.to_nat k3) (skipn (N.to_nat k2) (skipn (N.to_nat k1) t))))
                else None)
               (LEN - hdr_len htyp))
            (skipn (N.to_nat k3) (skipn (N.to_nat k2) (skipn (N.to_nat k1) t)))).
Proof.
  intros htyp LEN k1 k2 k3 a. subst a.
  pose proof (htyp_dec htyp (b2n_lt b0)) as HF.
  unfold dlt_standard_header, u8. rewrite uint_cons1. cbn [pbind]. rewrite uint_cons1. cbn [pbind].
  rewrite uint_cons2. cbn [pbind].
  fold htyp LEN.
  rewrite (hf_ueh _ HF), (hf_msbf _ HF), (hf_weid _ HF), (hf_wsid _ HF), (hf_wtms _ HF),
    (hf_vers _ HF), (hf_all _ HF).
  pose proof (three_fields _ _ _ _ _ _ _ _ _
    (fun ecu ses tms i5 =>
       if LEN <? hdr_len htyp then PError
       else POk (mkStd (htyp_vers htyp) (if htyp_msbf htyp then BE else LE) (htyp_ueh htyp) (b2n b1)
                   ecu ses tms (LEN - hdr_len htyp)) i5) t
    (field_opt (htyp_weid htyp) parse_ecu_id 4 text_of (field_zstring 4))
    (field_opt (htyp_wsid htyp) (uint BE 4) 4 (get_uint BE) (field_uint BE 4))
    (field_opt (htyp_wtms htyp) (uint BE 4) 4 (get_uint BE) (field_uint BE 4))) as T.
  cbv zeta beta in T. exact T.
Qed.

(* ---------- the reference decoder on a cut message, step by step ---------- *)
Definition opt10 (c : bool) : N := if c then 10 else 0.

Lemma firstn_cons4 {A} (m : N) (b0 b1 b2 b3 : A) t : 4 <= m ->
  firstn (N.to_nat m) (b0 :: b1 :: b2 :: b3 :: t) = b0 :: b1 :: b2 :: b3 :: firstn (N.to_nat (m - 4)) t.
Proof.
  intros H. replace (N.to_nat m) with (S (S (S (S (N.to_nat (m - 4)))))) by lia. reflexivity.
Qed.

Lemma decode_cut_char st b0 b1 b2 b3 t m :
  let htyp := b2n b0 in
  let k1 := opt4 (htyp_weid htyp) in
  let k2 := opt4 (htyp_wsid htyp) in
  let k3 := opt4 (htyp_wtms htyp) in
  let kx := opt10 (htyp_ueh htyp) in
  let after_std := skipn (N.to_nat k3) (skipn (N.to_nat k2) (skipn (N.to_nat k1) t)) in
  let e := if htyp_msbf htyp then BE else LE in
  let ext := if htyp_ueh htyp then Some (ext_of (firstn (N.to_nat kx) after_std)) else None in
  hdr_len htyp <= m -> m <= 4 + len t ->
  decode_cut st (firstn (N.to_nat m) (b0 :: b1 :: b2 :: b3 :: t)) =
  match decode_payload e ext (firstn (N.to_nat (m - hdr_len htyp)) (skipn (N.to_nat kx) after_std)) with
  | Some p =>
    Some (mkMsg st
            (mkStd (htyp_vers htyp) e (htyp_ueh htyp) (b2n b1)
               (if htyp_weid htyp then Some (text_of (firstn (N.to_nat k1) t)) else None)
               (if htyp_wsid htyp then Some (get_uint BE (firstn (N.to_nat k2) (skipn (N.to_nat k1) t))) else None)
               (if htyp_wtms htyp
                then Some (get_uint BE (firstn (N.to_nat k3) (skipn (N.to_nat k2) (skipn (N.to_nat k1) t))))
                else None)
               (m - hdr_len htyp))
            ext p)
  | None => None
  end.
Proof.
  intros htyp k1 k2 k3 kx after_std e ext Hm Hfit.
  assert (Hh : hdr_len htyp = 4 + k1 + k2 + k3 + kx) by reflexivity.
  pose proof (len_skipn_N k1 t) as L1.
  pose proof (len_skipn_N k2 (skipn (N.to_nat k1) t)) as L2.
  pose proof (len_skipn_N k3 (skipn (N.to_nat k2) (skipn (N.to_nat k1) t))) as L3.
  fold after_std in L3.
  pose proof (len_skipn_N kx after_std) as L4.
  rewrite firstn_cons4 by lia.
  unfold decode_cut. rewrite rd_cons1. cbn [obind]. rewrite rd_cons1. cbn [obind].
  rewrite rd_cons2. cbn [obind]. fold htyp. unfold rd_text, rd_uint.
  rewrite (rd_opt_cut (htyp_weid htyp) 4 text_of k1) by (reflexivity || lia). cbn [obind].
  rewrite (rd_opt_cut (htyp_wsid htyp) 4 (get_uint BE) k2) by (reflexivity || lia). cbn [obind].
  rewrite (rd_opt_cut (htyp_wtms htyp) 4 (get_uint BE) k3) by (reflexivity || lia). cbn [obind].
  fold after_std.
  rewrite (rd_opt_cut (htyp_ueh htyp) 10 ext_of kx) by (reflexivity || lia). cbn [obind].
  fold ext e.
  replace (m - 4 - k1 - k2 - k3 - kx) with (m - hdr_len htyp) by lia.
  rewrite len_firstn_N by lia. reflexivity.
Qed.

(* ---------- everything behind the (optional) storage header ---------- *)
Lemma after_verdict shs a total : len a <= total ->
  verdict_of_len (dlt_message_after shs a None) total
  = decode_message (option_map fst shs) (total - len a) a.
Proof.
  intros Htot. unfold decode_message.
  destruct (N.ltb_spec (len a) 4) as [H4|H4].
  - (* M1 *)
    assert (E : exists n, dlt_standard_header a = PIncomplete n).
    { destruct a as [|b0 [|b1 [|b2 [|b3 t]]]]; try (eexists; reflexivity).
      exfalso. rewrite !len_cons in H4. lia. }
    destruct E as (n & E). unfold dlt_message_after. rewrite E. reflexivity.
  - destruct a as [|b0 [|b1 [|b2 [|b3 t]]]]; try (exfalso; rewrite ?len_cons, ?len_nil in H4; lia).
    clear H4. unfold byte_at, sub. cbn [nth skipn firstn].
    pose proof (std_header_char b0 b1 b2 b3 t) as SC. cbv zeta in SC.
    pose proof (decode_cut_char (option_map fst shs) b0 b1 b2 b3 t) as DC. cbv zeta in DC.
    pose proof (htyp_dec (b2n b0) (b2n_lt b0)) as HF.
    set (htyp := b2n b0) in *. set (LEN := get_uint BE [b2; b3]) in *.
    set (k1 := opt4 (htyp_weid htyp)) in *. set (k2 := opt4 (htyp_wsid htyp)) in *.
    set (k3 := opt4 (htyp_wtms htyp)) in *. set (kx := opt10 (htyp_ueh htyp)) in *.
    assert (Hstd : std_len htyp = 4 + k1 + k2 + k3) by reflexivity.
    assert (Hh : hdr_len htyp = 4 + k1 + k2 + k3 + kx) by reflexivity.
    destruct SC as [Sshort Slong].
    set (a := b0 :: b1 :: b2 :: b3 :: t) in *.
    assert (La : len a = 4 + len t) by (subst a; rewrite !len_cons; lia).
    destruct (N.ltb_spec (len a) (std_len htyp)) as [Hs|Hs].
    + (* M2 *)
      destruct Sshort as (n & E); [lia|]. unfold dlt_message_after. rewrite E. reflexivity.
    + specialize (Slong ltac:(lia)).
      destruct (N.ltb_spec LEN (hdr_len htyp)) as [Hl|Hl].
      * (* M3 *)
        unfold dlt_message_after. rewrite Slong. reflexivity.
      * assert (El : (LEN <? hdr_len htyp) = false) by (apply N.ltb_ge; lia).
        match type of Slong with _ = POk ?hh ?rr => set (h := hh) in *; set (after_std := rr) in * end.
        (* what the parsed header says about itself *)
        destruct (dlt_standard_header_ok _ _ _ Slong) as (htyp' & mcnt & overall & tail & F).
        destruct (std_facts_overall _ _ _ _ _ _ _ F) as [Ov _].
        pose proof (sf_input _ _ _ _ _ _ _ F) as Hin.
        pose proof (sf_type_byte _ _ _ _ _ _ _ F) as Htb.
        assert (E1 : htyp' = htyp).
        { apply (f_equal (fun l => b2n (hd x00 l))) in Hin. cbn [hd] in Hin. subst a. cbn [hd] in Hin.
          rewrite b2n_n2b, N.mod_small in Hin by apply (sf_htyp_lt _ _ _ _ _ _ _ F). now symmetry. }
        assert (E2 : overall = LEN).
        { pose proof (declared_len_eq htyp' mcnt overall tail (sf_overall_lt _ _ _ _ _ _ _ F)) as D.
          rewrite <- Hin in D. rewrite <- D. reflexivity. }
        rewrite E1 in Htb. rewrite E2 in Ov. clear Hin F E1 E2.
        pose proof (len_skipn_N k1 t) as L1.
        pose proof (len_skipn_N k2 (skipn (N.to_nat k1) t)) as L2.
        pose proof (len_skipn_N k3 (skipn (N.to_nat k2) (skipn (N.to_nat k1) t))) as L3.
        fold after_std in L3.
        pose proof (field_opt (htyp_ueh htyp) dlt_extended_header 10 ext_of field_ext_header) as FX.
        fold (opt10 (htyp_ueh htyp)) in FX. fold kx in FX.
        unfold dlt_message_after. rewrite Slong. cbn [pbind].
        unfold validated_payload_length. rewrite Ov, Htb, (hf_all _ HF), El.
        replace (h_has_ext h) with (htyp_ueh htyp) by reflexivity.
        destruct (N.ltb_spec (len a) LEN) as [Hc|Hc].
        -- (* M4 *)
           destruct (N.ltb_spec (len after_std) kx) as [Hx|Hx].
           ++ destruct (bind_field_short _ _ _
                 (fun ext after_headers =>
                    match VplIncomplete (needed_new (LEN - len a)) with
                    | VplOk payload_length =>
                      if filtered_out ext None (h_ecu h)
                      then let* (_, after_message) := take payload_length after_headers in
                           POk (FilteredOut payload_length) after_message
                      else
                        let* (p, i) :=
                          dlt_payload (h_endian h) after_headers
                            match ext with Some x => e_verbose x | None => false end payload_length
                            match ext with Some x => e_noar x | None => 0 end (option_map e_mtype ext) in
                        POk (Item (mkMsg (option_map fst shs) h ext p)) i
                    | VplIncomplete n => PIncomplete n
                    | VplError => POk Invalid after_std
                    end) after_std FX Hx) as (n & E).
              rewrite E. reflexivity.
           ++ rewrite (bind_field_long _ _ _ _ _ FX Hx). reflexivity.
        -- (* M5 *)
           rewrite (bind_field_long _ _ _ _ _ FX) by lia. cbv beta.
           unfold filtered_out.
           rewrite DC by lia.
           set (ext := if htyp_ueh htyp then Some (ext_of (firstn (N.to_nat kx) after_std)) else None).
           replace (h_endian h) with (if htyp_msbf htyp then BE else LE) by reflexivity.
           pose proof (len_skipn_N kx after_std) as L4.
           pose proof (payload_verdict (if htyp_msbf htyp then BE else LE)
                         (skipn (N.to_nat kx) after_std) (LEN - hdr_len htyp) ext ltac:(lia)) as PV.
           match type of PV with
           | match ?X with _ => _ end => destruct X as [p rest| | | |]
           end; try contradiction.
           ++ destruct PV as [-> PV]. rewrite PV. cbn [pbind verdict_of_len].
              f_equal. rewrite len_skipn_N. lia.
           ++ rewrite PV. reflexivity.
           ++ rewrite PV. reflexivity.
Qed.

(* ---------- locating the storage header ---------- *)
Lemma marker_test l : bytes_eqb (firstn 4 l) storage_marker = starts_with pat_DLT1 l.
Proof.
  apply eq_true_iff_eq. rewrite bytes_eqb_eq, starts_with_iff. split.
  - intros H. exists (skipn 4 l). rewrite <- (firstn_skipn 4 l) at 1. now rewrite H.
  - intros (r & ->). reflexivity.
Qed.

Lemma find_marker_eq bs : find_marker bs = option_map N.of_nat (find_pattern bs).
Proof.
  induction bs as [|b r IH]; [reflexivity|].
  cbn [find_marker find_pattern]. rewrite marker_test.
  destruct (starts_with pat_DLT1 (b :: r)); [reflexivity|].
  rewrite IH. destruct (find_pattern r) as [k|]; cbn [option_map]; [|reflexivity]. f_equal. lia.
Qed.

Lemma storage_of_cons (b0 b1 b2 b3 : byte) r' :
  storage_of (firstn 16 (b0 :: b1 :: b2 :: b3 :: r'))
  = mkSH (mkTS (get_uint LE (firstn 4 r')) (get_uint LE (firstn 4 (skipn 4 r'))))
         (text_of (firstn 4 (skipn 4 (skipn 4 r')))).
Proof.
  unfold storage_of, sub.
  change (firstn 16 (b0 :: b1 :: b2 :: b3 :: r')) with (b0 :: b1 :: b2 :: b3 :: firstn 12 r').
  change (skipn 4 (b0 :: b1 :: b2 :: b3 :: firstn 12 r')) with (firstn 12 r').
  change (skipn 8 (b0 :: b1 :: b2 :: b3 :: firstn 12 r')) with (skipn 4 (firstn 12 r')).
  change (skipn 12 (b0 :: b1 :: b2 :: b3 :: firstn 12 r')) with (skipn 8 (firstn 12 r')).
  rewrite !skipn_firstn_comm, !firstn_firstn_le by lia.
  rewrite skipn_skipn_add. reflexivity.
Qed.

Theorem spec_decode_correct bs sh : verdict_of (dlt_message bs None sh) bs = spec_decode sh bs.
Proof.
  unfold verdict_of, dlt_message, spec_decode. destruct sh.
  2: { cbn [pbind]. rewrite after_verdict by lia. now rewrite N.sub_diag. }
  unfold dlt_storage_header, forward_to_next_storage_header. rewrite find_marker_eq.
  destruct (len bs <? 16) eqn:E16; [reflexivity|]. (* S1 *)
  destruct (find_pattern bs) as [k|] eqn:Fp; cbn [option_map]; [|reflexivity]. (* S2 *)
  rewrite Nat2N.id.
  apply find_pattern_some in Fp as [(r' & Hr) _].
  assert (Lbs : len bs = N.of_nat k + (4 + len r')).
  { rewrite <- (firstn_skipn k bs) at 1. rewrite len_app, Hr, len_app.
    assert (Hk : (k < length bs)%nat).
    { destruct (Nat.lt_ge_cases k (length bs)) as [|Hge]; [assumption|].
      rewrite skipn_all2 in Hr by exact Hge. discriminate. }
    rewrite len_firstn. change (len pat_DLT1) with 4. unfold len. lia. }
  rewrite Hr. change (pat_DLT1 ++ r') with ([x44; x4c; x54] ++ x01 :: r').
  rewrite tag_app. cbn [pbind]. change (x01 :: r') with ([x01] ++ r'). rewrite tag_app. cbn [pbind].
  change ([x44; x4c; x54] ++ [x01] ++ r') with (x44 :: x4c :: x54 :: x01 :: r').
  rewrite !len_cons.
  destruct (three_fields _ _ _ _ _ _ _ _ _
              (fun secs micros ecu after => POk (Some (mkSH (mkTS secs micros) ecu, N.of_nat k)) after) r'
              (field_uint LE 4) (field_uint LE 4) (field_zstring 4)) as [TS TL].
  cbv zeta in TS, TL. change (N.of_nat 4) with 4 in TS, TL.
  destruct (N.ltb_spec (1 + (1 + (1 + (1 + len r')))) 16) as [H16|H16].
  - (* S3 *) destruct TS as (n & ->); [lia|]. reflexivity.
  - (* S4 *) rewrite TL by lia. cbn [pbind option_map fst].
    pose proof (len_skipn_N 4 r') as L1.
    pose proof (len_skipn_N 4 (skipn (N.to_nat 4) r')) as L2.
    pose proof (len_skipn_N 4 (skipn (N.to_nat 4) (skipn (N.to_nat 4) r'))) as L3.
    rewrite after_verdict by lia.
    replace (len bs - len (skipn (N.to_nat 4) (skipn (N.to_nat 4) (skipn (N.to_nat 4) r'))))
      with (N.of_nat k + 16) by lia.
    norm_to_nat. rewrite storage_of_cons.
    change (skipn 16 (x44 :: x4c :: x54 :: x01 :: r')) with (skipn 12 r').
    rewrite !skipn_skipn_add. reflexivity.
Qed.
